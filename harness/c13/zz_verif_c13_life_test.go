//go:build verif

package identify

// C13 part "lifetime": every valid history (up to a depth: quick 6, thorough 8) over two connections to R of
//   open(i, remote behaviour)   connection enters the table, Connected is delivered (the service identifies it)
//   resp(i) / push(i)           an identify response / push whose bytes were received on connection i is consumed
//   close(i)                    connection leaves the table (Connectedness changes), its streams are reset
//   disc(i)                     Disconnected(i) is delivered
//   tick                        3 minutes pass
// applied sequentially (each event runs to quiescence) to a fresh fixture. The gap between close(i) and disc(i)
// and the positions after disc(i) are where a message "races" with the disconnect in a sequential history.
// At the end of every history the pending Disconnected notifications are delivered, identify timeouts are
// allowed to pass, and then the clock is stepped past RecentlyConnectedAddrTTL.

import (
	"fmt"
	"strings"
	"sync"
	"testing"
	"testing/synctest"
	"time"

	"github.com/libp2p/go-libp2p/core/peer"
	"github.com/libp2p/go-libp2p/core/peerstore"
	"github.com/libp2p/go-libp2p/x/verif/vrep"

	ma "github.com/multiformats/go-multiaddr"
	"google.golang.org/protobuf/proto"
)

const (
	c13EvOpen = iota
	c13EvResp
	c13EvPush
	c13EvClose
	c13EvDisc
	c13EvTick
)

const (
	c13BehAnswer           = iota // the remote answers the identify request at once with an honest message
	c13BehStall                   // the remote accepts the stream and never answers
	c13BehRefuse                  // the remote refuses the stream
	c13BehClosedFirst             // the connection is already closed when Connected is delivered
	c13BehDiscFirst               // ... and its Disconnected was even delivered before its Connected (out-of-order notifications)
	c13BehStallNegotiation        // the remote accepts the stream and does not even answer the protocol negotiation
	c13BehStallOpen               // the remote never acknowledges the new stream: opening it blocks until the context ends or the connection closes
)

var c13BehNames = []string{"answers", "stalls", "refuses-stream", "closed-before-Connected", "Disconnected-before-Connected", "stalls-in-negotiation", "stalls-in-stream-open"}

type c13Ev struct{ Kind, Slot, Beh int }

func (e c13Ev) String() string {
	switch e.Kind {
	case c13EvOpen:
		return fmt.Sprintf("open(c%d,%s)", e.Slot+1, c13BehNames[e.Beh])
	case c13EvResp:
		return fmt.Sprintf("resp(c%d)", e.Slot+1)
	case c13EvPush:
		return fmt.Sprintf("push(c%d)", e.Slot+1)
	case c13EvClose:
		return fmt.Sprintf("close(c%d)", e.Slot+1)
	case c13EvDisc:
		return fmt.Sprintf("disc(c%d)", e.Slot+1)
	}
	return "tick(3m)"
}

// abstract state used only to enumerate the valid histories
type c13LState struct {
	st     [2]int // 0 unopened, 1 open, 2 closed (Disconnected pending), 3 Disconnected delivered
	msgs   int
	ticked bool
}

type c13LCfg struct {
	depth, maxMsgs int
	behs           []int
	tick           bool
}

func (s c13LState) enabled(cf c13LCfg) []c13Ev {
	var out []c13Ev
	if s.st[0] == 0 {
		for _, b := range cf.behs {
			out = append(out, c13Ev{c13EvOpen, 0, b})
		}
	} else if s.st[1] == 0 {
		for _, b := range cf.behs {
			out = append(out, c13Ev{c13EvOpen, 1, b})
		}
	}
	for i := 0; i < 2; i++ {
		if s.st[i] != 0 && s.msgs < cf.maxMsgs {
			out = append(out, c13Ev{c13EvResp, i, 0}, c13Ev{c13EvPush, i, 0})
		}
		if s.st[i] == 1 {
			out = append(out, c13Ev{c13EvClose, i, 0})
		}
		if s.st[i] == 2 {
			out = append(out, c13Ev{c13EvDisc, i, 0})
		}
	}
	if cf.tick && !s.ticked {
		out = append(out, c13Ev{c13EvTick, 0, 0})
	}
	return out
}

func (s c13LState) next(e c13Ev) c13LState {
	switch e.Kind {
	case c13EvOpen:
		s.st[e.Slot] = 1
		if e.Beh == c13BehClosedFirst {
			s.st[e.Slot] = 2
		}
		if e.Beh == c13BehDiscFirst {
			s.st[e.Slot] = 3
		}
	case c13EvResp, c13EvPush:
		s.msgs++
	case c13EvClose:
		s.st[e.Slot] = 2
	case c13EvDisc:
		s.st[e.Slot] = 3
	case c13EvTick:
		s.ticked = true
	}
	return s
}

// c13Histories enumerates every valid history of length <= depth (prefix-closed, deterministic order), each
// packed as one byte per event.
func c13Histories(cf c13LCfg) []string {
	var out []string
	var rec func(s c13LState, h []byte)
	rec = func(s c13LState, h []byte) {
		out = append(out, string(h))
		if len(h) == cf.depth {
			return
		}
		for _, e := range s.enabled(cf) {
			rec(s.next(e), append(h, byte(e.Kind<<4|e.Slot<<3|e.Beh)))
		}
	}
	rec(c13LState{}, nil)
	return out
}

func c13Unpack(h string) []c13Ev {
	out := make([]c13Ev, len(h))
	for i := 0; i < len(h); i++ {
		out[i] = c13Ev{Kind: int(h[i] >> 4), Slot: int(h[i]>>3) & 1, Beh: int(h[i] & 7)}
	}
	return out
}

// what the harness knows about the last message that was consumed
type c13LastMsg struct {
	stored     []string
	connected  bool // a connection to R was in the table when it was consumed
	continuous bool // ... and the table has not been empty since
	how        string
}

func TestVerifC13Life(t *testing.T) {
	w := c13GetWorld(t)
	r := vrep.New("C13", "lifetime")
	defer r.Flush()
	cf := c13LCfg{depth: 6, maxMsgs: 2, behs: []int{c13BehAnswer, c13BehStall, c13BehRefuse, c13BehStallNegotiation, c13BehStallOpen}}
	if vrep.Thorough() {
		cf = c13LCfg{depth: 8, maxMsgs: 2, behs: []int{c13BehAnswer, c13BehStall, c13BehRefuse, c13BehClosedFirst, c13BehDiscFirst, c13BehStallNegotiation, c13BehStallOpen}, tick: true}
	}
	hs := c13Histories(cf)
	const rt = 0 // ed25519 remote (keys are the message product's business; this keeps a history cheap)
	R := w.R[rt]
	var bn []string
	for _, b := range cf.behs {
		bn = append(bn, c13BehNames[b])
	}
	r.Bounds["depth"] = cf.depth
	r.Bounds["connections_to_R"] = "2 slots: c1 (public remote address; direct or limited), c2 (loopback remote address, direct); c2 opens after c1"
	r.Bounds["events"] = "open(ci, " + strings.Join(bn, "|") + "), resp(ci), push(ci), close(ci), disc(ci)" + map[bool]string{true: ", tick(3m) once", false: ""}[cf.tick]
	r.Bounds["messages_per_history"] = fmt.Sprintf("<= %d resp/push (plus the automatic identify of every connection whose remote answers)", cf.maxMsgs)
	r.Bounds["c1_kind"] = "direct | limited"
	r.Bounds["histories"] = len(hs)
	r.Bounds["final_step"] = fmt.Sprintf("deliver pending Disconnected; wait identify timeout+1s; then advance RecentlyConnectedAddrTTL+%s", c13Eps)
	n := 2 * len(hs)
	r.Bounds["cases_total"] = n
	var dist c13Distinct
	var exec int64
	var cmu sync.Mutex
	var smp c13Sampler
	c13Each(t, r, n, func(i int) error {
		h := c13Unpack(hs[i/2])
		limited := i%2 == 1
		var infra error
		err := c13Bubble(t, func() {
			f, err := c13NewFix(w, c13PsDefault)
			if err != nil {
				infra = err
				return
			}
			defer f.close()
			if _, err := c13Prepopulate(f, R, false); err != nil {
				infra = err
				return
			}
			// what host.Connect leaves behind for the dialled peer
			f.ps.AddAddrs(R.ID, []ma.Multiaddr{ma.StringCast("/ip4/8.8.4.4/tcp/5000")}, peerstore.TempAddrTTL)
			// O is connected too, and the service tracks that connection (its remote refuses the identify stream)
			oc := f.net.newConn(w.O.ID, c13LAddrPub, ma.StringCast("/ip4/7.7.7.1/tcp/1"), false, nil)
			f.net.add(oc)
			f.net.notifyConnected(oc)
			synctest.Wait()
			f.drain()
			f.evs = nil
			hist := make([]string, len(h))
			for k, e := range h {
				hist[k] = e.String()
			}
			replay := map[string]any{"part": "lifetime", "case_index": i, "history": hist, "c1_limited": limited}
			ex := c13NewExpect(R)
			also := c13PeersAlways(w, R)
			oBefore := c13SnapStable(f, w)
			var conns [2]*c13Conn
			var waits [2]<-chan struct{}
			var discFirst [2]bool
			open := 0 // connections to R in the table
			var last *c13LastMsg
			tag := 0
			consumed := func(stored []string, how string) {
				last = &c13LastMsg{stored: stored, connected: open > 0, continuous: open > 0, how: how}
			}
			for _, e := range h {
				switch e.Kind {
				case c13EvOpen:
					var c *c13Conn
					if e.Slot == 0 {
						c = f.net.newConn(R.ID, c13LAddrPub, c13RemoteAddr(w, c13RcPub4), limited, nil)
					} else {
						c = f.net.newConn(R.ID, c13LAddrLoop, c13RemoteAddr(w, c13RcLoop), false, nil)
					}
					conns[e.Slot] = c
					switch e.Beh {
					case c13BehAnswer:
						tag++
						m, stored := c13HonestMsg(w, rt, tag, ex)
						b, _ := proto.Marshal(m)
						wire := append(c13MsPrefix(ID), c13Frame(b)...)
						c.script = func(c *c13Conn) (*c13Strm, error) { return c.newStrm(wire), nil }
						f.net.add(c)
						open++
						f.net.notifyConnected(c)
						waits[e.Slot] = f.ids.IdentifyWait(c)
						synctest.Wait()
						consumed(stored, "automatic identify")
					case c13BehStall, c13BehStallNegotiation:
						stallAt := e.Beh
						c.script = func(c *c13Conn) (*c13Strm, error) {
							var pre []byte
							if stallAt == c13BehStall {
								pre = c13MsPrefix(ID)
							}
							s := c.newStrm(pre)
							s.tail = c13TailStall
							return s, nil
						}
						f.net.add(c)
						open++
						f.net.notifyConnected(c)
						waits[e.Slot] = f.ids.IdentifyWait(c)
					case c13BehRefuse:
						f.net.add(c)
						open++
						f.net.notifyConnected(c)
						waits[e.Slot] = f.ids.IdentifyWait(c)
					case c13BehStallOpen:
						c.blockOpen = true
						f.net.add(c)
						open++
						f.net.notifyConnected(c)
						waits[e.Slot] = f.ids.IdentifyWait(c)
					case c13BehClosedFirst:
						f.net.add(c)
						f.net.remove(c)
						f.net.notifyConnected(c)
						waits[e.Slot] = f.ids.IdentifyWait(c)
					case c13BehDiscFirst:
						f.net.add(c)
						f.net.remove(c)
						f.net.notifyDisconnected(c)
						discFirst[e.Slot] = true
						f.net.notifyConnected(c)
						waits[e.Slot] = f.ids.IdentifyWait(c)
					}
				case c13EvResp, c13EvPush:
					tag++
					m, stored := c13HonestMsg(w, rt, tag, ex)
					b, _ := proto.Marshal(m)
					c := conns[e.Slot]
					if e.Kind == c13EvResp {
						s := c.newStrm(c13Frame(b))
						s.detached = true // its bytes were received before the connection went away
						s.SetDeadline(time.Now().Add(f.ids.timeout))
						if err := f.ids.handleIdentifyResponse(s, false); err != nil {
							infra = fmt.Errorf("honest response not consumed: %v", err)
							return
						}
					} else {
						s := c.newStrm(append(c13MsPrefix(IDPush), c13Frame(b)...))
						s.detached = true
						f.net.inbound(s)
						synctest.Wait()
					}
					consumed(stored, e.String())
				case c13EvClose:
					f.net.remove(conns[e.Slot])
					open--
					if open == 0 && last != nil {
						last.continuous = false
					}
				case c13EvDisc:
					f.net.notifyDisconnected(conns[e.Slot])
				case c13EvTick:
					time.Sleep(3 * time.Minute)
				}
				synctest.Wait()
			}
			// complete the history: every closed connection gets its Disconnected, stalled identifies time out
			for i, c := range conns {
				if c != nil && c.IsClosed() {
					delivered := discFirst[i]
					for _, e := range h {
						if e.Kind == c13EvDisc && e.Slot == i {
							delivered = true
						}
					}
					if !delivered {
						f.net.notifyDisconnected(c)
						synctest.Wait()
					}
				}
			}
			time.Sleep(f.ids.timeout + time.Second)
			synctest.Wait()
			f.drain()
			// "every connection's identify-wait is eventually released"
			for i, c := range conns {
				if c == nil {
					continue
				}
				for k, ch := range []<-chan struct{}{waits[i], f.ids.IdentifyWait(c)} {
					synctest.Wait()
					select {
					case <-ch:
					default:
						which := "obtained when the connection opened"
						if k == 1 {
							which = "obtained at the end of the history"
						}
						r.Violate("identify-wait-not-released", fmt.Sprintf("IdentifyWait(c%d) (%s) is still open %s after the last event", i+1, which, f.ids.timeout+time.Second), replay)
					}
				}
			}
			// nothing about another peer changed during the whole history
			if d := oBefore.diffStable(c13SnapStable(f, w), w); d != "" {
				r.Violate("attributed-to-other-peer/history", "entries of peers other than R changed during the history: "+d, replay)
			}
			// events name R only; certified record only R's own (c13Audit on R alone)
			snapR := c13TakeSnap(f.ps, also)
			for _, fd := range c13Audit(w, c13Snap{R.ID: snapR[R.ID]}, c13Snap{R.ID: snapR[R.ID]}, ex, f.evs) {
				r.Violate(fd.Key, fd.Desc, replay)
			}
			// the lifetime oracle
			time.Sleep(peerstore.RecentlyConnectedAddrTTL + c13Eps)
			synctest.Wait()
			got := map[string]bool{}
			for _, a := range f.ps.Addrs(R.ID) {
				got[string(a.Bytes())] = true
			}
			outcome := ""
			if open == 0 {
				outcome = "no-connection:addrs-expired"
				if len(got) > 0 {
					outcome = "no-connection:addrs-left"
					cls := "no-message"
					if last != nil {
						cls = "last-message-consumed-while-connected"
						if !last.connected {
							cls = "last-message-consumed-after-the-last-connection-closed"
						}
					}
					var left []string
					for a := range got {
						left = append(left, c13ShowAddr(a))
					}
					r.Violate("connected-lifetime-kept-after-last-disconnect/"+cls, fmt.Sprintf("no connection to R exists, every Disconnected was processed, %s passed, and Addrs(R) still returns %v",
						peerstore.RecentlyConnectedAddrTTL+c13Eps, c13Trunc(left)), replay)
				}
			} else {
				outcome = "connected:no-claim"
				if last != nil && last.connected && last.continuous {
					outcome = "connected:addrs-kept"
					for _, st := range last.stored {
						if !got[st] {
							outcome = "connected:addrs-lost"
							r.Violate("connected-lifetime-lost-while-connected", fmt.Sprintf("a connection to R has existed ever since its last identify message (%s) was consumed, but address %s of that message is gone %s later",
								last.how, c13ShowAddr(st), peerstore.RecentlyConnectedAddrTTL+c13Eps), replay)
							break
						}
					}
				}
			}
			r.Outcome(outcome)
			dist.add(fmt.Sprint(hist, limited))
			cmu.Lock()
			exec++
			cmu.Unlock()
			if len(h) == cf.depth && last != nil && last.how != "automatic identify" && conns[1] != nil && i%11 == 5 && smp.take() {
				r.Sample(map[string]any{"case_index": i, "history": hist, "c1_limited": limited, "outcome": outcome})
			}
		})
		if err != nil {
			return err
		}
		return infra
	})
	r.Executions = exec
	r.Distinct = dist.n()
}

// c13StableSnap: the entries of L, O, O2, X, Relay without O's two short-lived addresses (they legitimately
// expire while a history advances the clock).
type c13StableSnap c13Snap

func c13SnapStable(f *c13Fix, w *c13World) c13StableSnap {
	s := c13TakeSnap(f.ps, []peer.ID{w.L.ID, w.O.ID, w.O2.ID, w.X.ID, w.Relay.ID})
	drop := map[string]bool{
		string(ma.StringCast("/ip4/7.7.7.2/tcp/1").Bytes()): true,
		string(ma.StringCast("/ip4/7.7.7.3/tcp/1").Bytes()): true,
	}
	if o := s[w.O.ID]; o != nil {
		var keep []string
		for _, a := range o.Addrs {
			if !drop[a] {
				keep = append(keep, a)
			}
		}
		o.Addrs = keep
	}
	return c13StableSnap(s)
}

func (a c13StableSnap) diffStable(b c13StableSnap, w *c13World) string {
	var out []string
	for _, k := range []*c13Key{w.L, w.O, w.O2, w.X, w.Relay} {
		if d := a[k.ID].diff(b[k.ID]); d != "" {
			out = append(out, w.name(k.ID)+": "+d)
		}
	}
	for p := range b {
		if _, ok := a[p]; !ok {
			found := false
			for _, r := range w.R {
				if r.ID == p {
					found = true
				}
			}
			if !found {
				out = append(out, "new peer "+w.name(p))
			}
		}
	}
	return strings.Join(out, "; ")
}
