//go:build verif

package identify

// C13 part "stream": one logical identify message (or a forged / oversized one) arrives as a sequence of
// length-delimited protobuf chunks on a scripted stream; the real reader (readAllIDMessages, limits
// maxMessages and signedIDSize), the real merge and consumeMessage run, entered four ways: the handler
// called directly (response / push), the full outbound path (Connected notification -> IdentifyWait ->
// stream negotiation -> response), and the full inbound push path (host stream handler, multistream
// negotiation, rate limiter, handlePush). Same whole-peerstore audit; plus: the IdentifyWait channel of the
// connection is closed however the exchange ends.

import (
	"fmt"
	"strings"
	"sync"
	"testing"
	"testing/synctest"
	"time"

	"github.com/libp2p/go-libp2p/core/event"
	"github.com/libp2p/go-libp2p/core/peer"
	"github.com/libp2p/go-libp2p/p2p/protocol/identify/pb"
	"github.com/libp2p/go-libp2p/x/verif/vrep"

	ma "github.com/multiformats/go-multiaddr"
	"google.golang.org/protobuf/proto"
)

type c13Plan struct {
	Name    string
	Wire    []byte
	NChunks int
	allowed map[string]bool
	origin  map[string]string
	recs    []*c13Rec
	msgs    []*pb.Identify
}

func (p *c13Plan) note(ex *c13Expect) {
	for k := range p.allowed {
		ex.Allowed[k] = true
	}
	for k, v := range p.origin {
		if _, ok := ex.Origin[k]; !ok {
			ex.Origin[k] = v
		}
	}
	for _, r := range p.recs {
		ex.noteRec(r)
	}
	for _, m := range p.msgs {
		ex.noteScalars(m)
	}
	// an exchange that delivers no chunk at all is an empty message: "" agent data
	ex.Agents["string:"] = true
	ex.PVers["string:"] = true
}

// c13NoteListen derives what a list of unsigned listen addresses permits: an address with no /p2p suffix or
// with R's may be recorded under R (in its suffix-less form); anything else may not.
func c13NoteListen(w *c13World, r *c13Key, addrs [][]byte, allowed map[string]bool, origin map[string]string) {
	for _, b := range addrs {
		a, err := ma.NewMultiaddrBytes(b)
		if err != nil {
			continue
		}
		tr, id := peer.SplitAddr(a)
		if tr == nil {
			continue
		}
		st := string(tr.Bytes())
		who := "none"
		switch id {
		case "":
		case r.ID:
			who = "R"
		default:
			who = strings.TrimPrefix(w.name(id), "unknown:")
		}
		if _, ok := origin[st]; !ok {
			origin[st] = "listenAddrs/suffix=" + who
		}
		if id == "" || id == r.ID {
			allowed[st] = true
		}
	}
}

func c13MkPlan(w *c13World, rt int, name string, chunks []*pb.Identify, recs []*c13Rec, rawTail []byte) *c13Plan {
	p := &c13Plan{Name: name, NChunks: len(chunks), allowed: map[string]bool{}, origin: map[string]string{}, recs: recs, msgs: chunks}
	for _, c := range chunks {
		b, err := proto.Marshal(c)
		if err != nil {
			panic("c13: infrastructure: " + err.Error())
		}
		p.Wire = append(p.Wire, c13Frame(b)...)
		c13NoteListen(w, w.R[rt], c.ListenAddrs, p.allowed, p.origin)
	}
	p.Wire = append(p.Wire, rawTail...)
	return p
}

const c13NFields = 7

// c13Part copies the fields selected by mask (bit i = field i of: publicKey, listenAddrs, protocols,
// observedAddr, protocolVersion, agentVersion, signedPeerRecord).
func c13Part(m *pb.Identify, mask int) *pb.Identify {
	o := &pb.Identify{}
	if mask&1 != 0 {
		o.PublicKey = m.PublicKey
	}
	if mask&2 != 0 {
		o.ListenAddrs = m.ListenAddrs
	}
	if mask&4 != 0 {
		o.Protocols = m.Protocols
	}
	if mask&8 != 0 {
		o.ObservedAddr = m.ObservedAddr
	}
	if mask&16 != 0 {
		o.ProtocolVersion = m.ProtocolVersion
	}
	if mask&32 != 0 {
		o.AgentVersion = m.AgentVersion
	}
	if mask&64 != 0 {
		o.SignedPeerRecord = m.SignedPeerRecord
	}
	return o
}

var (
	c13PlanMu    sync.Mutex
	c13PlanCache = map[int][]*c13Plan{}
)

func c13Plans(w *c13World, rt int) []*c13Plan {
	c13PlanMu.Lock()
	defer c13PlanMu.Unlock()
	if p, ok := c13PlanCache[rt]; ok {
		return p
	}
	R := w.R[rt]
	scratch := c13NewExpect(R)
	base := c13BuildMsg(w, c13Fields{RT: rt, LA: c13LaMix, SR: c13SrRValid, PK: c13PkR, PR: 1, MV: 1, OA: 1}, scratch)
	rValid := c13GetRec(w, rt, c13SrRValid)
	oValid := c13GetRec(w, rt, c13SrOValid)
	rNamesO := c13GetRec(w, rt, c13SrRSignedNamesO)
	var out []*c13Plan
	add := func(name string, chunks []*pb.Identify, recs []*c13Rec, tail []byte) {
		out = append(out, c13MkPlan(w, rt, name, chunks, recs, tail))
	}
	all := 1<<c13NFields - 1
	add("single chunk", []*pb.Identify{base}, []*c13Rec{rValid}, nil)
	for mask := 0; mask <= all; mask++ {
		add(fmt.Sprintf("two chunks, fields %07b then the rest", mask), []*pb.Identify{c13Part(base, mask), c13Part(base, all&^mask)}, []*c13Rec{rValid}, nil)
	}
	var fw, fwRev []*pb.Identify
	for i := 0; i < c13NFields; i++ {
		fw = append(fw, c13Part(base, 1<<i))
		fwRev = append(fwRev, c13Part(base, 1<<(c13NFields-1-i)))
	}
	add("one field per chunk", fw, []*c13Rec{rValid}, nil)
	add("one field per chunk, reversed", fwRev, []*c13Rec{rValid}, nil)
	for k := 2; k <= maxMessages+1; k++ {
		chunks := make([]*pb.Identify, k)
		for j := range chunks {
			chunks[j] = &pb.Identify{}
		}
		for i, a := range base.ListenAddrs {
			chunks[i%k].ListenAddrs = append(chunks[i%k].ListenAddrs, a)
		}
		for i, p := range base.Protocols {
			chunks[i%k].Protocols = append(chunks[i%k].Protocols, p)
		}
		chunks[0].PublicKey, chunks[0].AgentVersion, chunks[0].ProtocolVersion, chunks[0].ObservedAddr = base.PublicKey, base.AgentVersion, base.ProtocolVersion, base.ObservedAddr
		chunks[k-1].SignedPeerRecord = base.SignedPeerRecord
		add(fmt.Sprintf("repeated fields dealt over %d chunks", k), chunks, []*c13Rec{rValid}, nil)
		dup := make([]*pb.Identify, k)
		for j := range dup {
			dup[j] = base
		}
		add(fmt.Sprintf("whole message duplicated in %d chunks", k), dup, []*c13Rec{rValid}, nil)
	}
	// conflicting scalar fields across chunks
	noRecNoKey := c13Part(base, all&^(1|64))
	add("publicKey: R's then O's", []*pb.Identify{c13Part(base, all), {PublicKey: w.O.PubBytes}}, []*c13Rec{rValid}, nil)
	add("publicKey: O's then R's", []*pb.Identify{{PublicKey: w.O.PubBytes}, c13Part(base, all)}, []*c13Rec{rValid}, nil)
	add("publicKey: O2's then X's, no record", []*pb.Identify{{PublicKey: w.O2.PubBytes}, noRecNoKey, {PublicKey: w.X.PubBytes}}, nil, nil)
	add("record: R-valid then O-valid", []*pb.Identify{c13Part(base, all), {SignedPeerRecord: oValid.Bytes}}, []*c13Rec{rValid, oValid}, nil)
	add("record: O-valid then R-valid", []*pb.Identify{{SignedPeerRecord: oValid.Bytes}, c13Part(base, all)}, []*c13Rec{rValid, oValid}, nil)
	add("record: R-valid then signed-by-R-names-O", []*pb.Identify{c13Part(base, all), {SignedPeerRecord: rNamesO.Bytes}}, []*c13Rec{rValid, rNamesO}, nil)
	add("record: R-valid then present-but-empty", []*pb.Identify{c13Part(base, all), {SignedPeerRecord: []byte{}}}, []*c13Rec{rValid}, nil)
	add("agent data: one value then another", []*pb.Identify{c13Part(base, all), {AgentVersion: proto.String("second-agent"), ProtocolVersion: proto.String("second-proto")}}, []*c13Rec{rValid}, nil)
	// oversized via chunking: 9 chunks x 200 protocols, 9 chunks x 700 addresses
	var manyP, manyA []*pb.Identify
	for j := 0; j < maxMessages-1; j++ {
		manyP = append(manyP, &pb.Identify{Protocols: c13ManyProtos(fmt.Sprintf("chunk%d", j), 200)})
		carried, _ := c13ManyAddrs(R, 30+j, 700, false)
		m := &pb.Identify{}
		for _, a := range carried {
			m.ListenAddrs = append(m.ListenAddrs, a.Bytes())
		}
		manyA = append(manyA, m)
	}
	manyP[0].PublicKey = R.PubBytes
	add("9 chunks x 200 protocols", manyP, nil, nil)
	add("9 chunks x 700 unsigned addresses", manyA, nil, nil)
	both := make([]*pb.Identify, len(manyP))
	for j := range both {
		both[j] = &pb.Identify{Protocols: manyP[j].Protocols[:100], ListenAddrs: manyA[j].ListenAddrs[:600]}
	}
	add("9 chunks x (100 protocols + 600 unsigned addresses)", both, nil, nil)
	big := c13BigRec(w, rt, 40, 540)
	add("valid record with 540 addresses in one chunk", []*pb.Identify{{PublicKey: R.PubBytes, SignedPeerRecord: big.Bytes}}, []*c13Rec{big}, nil)
	huge := c13BigRec(w, rt, 41, 720)
	add("valid record with 720 addresses (chunk over the size limit)", []*pb.Identify{{PublicKey: R.PubBytes, SignedPeerRecord: huge.Bytes}}, []*c13Rec{huge}, nil)
	// size limits of one chunk
	pad := func(total int) *pb.Identify {
		m := c13Part(base, all&^32)
		sz := proto.Size(m)
		// agentVersion field: tag(1) + varint(len) + len
		n := total - sz - 3
		if n < 0 {
			panic("c13: infrastructure: base message larger than the chunk size to pad to")
		}
		m.AgentVersion = proto.String(strings.Repeat("a", n))
		for proto.Size(m) < total {
			m.AgentVersion = proto.String(*m.AgentVersion + "a")
		}
		for proto.Size(m) > total {
			m.AgentVersion = proto.String((*m.AgentVersion)[1:])
		}
		return m
	}
	add(fmt.Sprintf("one chunk of exactly %d bytes", signedIDSize), []*pb.Identify{pad(signedIDSize)}, []*c13Rec{rValid}, nil)
	add(fmt.Sprintf("one chunk of %d bytes", signedIDSize+1), []*pb.Identify{pad(signedIDSize + 1)}, []*c13Rec{rValid}, nil)
	// degenerate framings
	add("no chunk at all", nil, nil, nil)
	add("one empty chunk", []*pb.Identify{{}}, nil, nil)
	add("empty chunk then message", []*pb.Identify{{}, base}, []*c13Rec{rValid}, nil)
	add("message then unparsable chunk", []*pb.Identify{base}, []*c13Rec{rValid}, c13Frame([]byte{0xff, 0xff, 0xff, 0x01}))
	add("message then truncated chunk", []*pb.Identify{base}, []*c13Rec{rValid}, append(c13Varint(100), 1, 2, 3))
	add("message then overlong length prefix", []*pb.Identify{base}, []*c13Rec{rValid}, []byte{0xff, 0xff, 0xff, 0xff, 0xff, 0xff, 0xff, 0xff, 0xff, 0xff, 0x01})
	add("message then length prefix over the limit", []*pb.Identify{base}, []*c13Rec{rValid}, c13Varint(1<<20))
	{
		b, _ := proto.Marshal(base)
		fr := c13Frame(b)
		out = append(out, &c13Plan{Name: "message cut in the middle", Wire: fr[:len(fr)/2], NChunks: 1, allowed: map[string]bool{}, origin: map[string]string{},
			recs: []*c13Rec{rValid}, msgs: []*pb.Identify{base}})
		c13NoteListen(w, R, base.ListenAddrs, out[len(out)-1].allowed, out[len(out)-1].origin)
	}
	c13PlanCache[rt] = out
	return out
}

const (
	c13EntDirectResp = iota
	c13EntDirectPush
	c13EntFullResp
	c13EntFullPush
	c13NEnt
)

var c13EntNames = []string{"handleIdentifyResponse(stream, false) called directly", "handleIdentifyResponse(stream, true) called directly",
	"full response path: Connected -> IdentifyWait -> negotiate -> read", "full push path: host stream handler -> negotiate -> rate limiter -> handlePush"}

var c13Grans = []int{0, 1, 7}

func TestVerifC13Stream(t *testing.T) {
	w := c13GetWorld(t)
	r := vrep.New("C13", "stream")
	defer r.Flush()
	rts := []int{1}
	grans := []int{0, 1}
	cfgs := []int{c13PsDefault, c13PsLarge}
	pres := []int{0}
	if vrep.Thorough() {
		rts = []int{0, 1, 2, 3}
		grans = c13Grans
		pres = []int{0, 1}
	}
	nplans := len(c13Plans(w, rts[0]))
	dims := []c13Dim{{"plan", c13Range(nplans)}, {"entry", c13Range(c13NEnt)}, {"tail", c13Range(3)}, {"read_granularity", grans},
		{"peerstore", cfgs}, {"R_known_before", pres}, {"remote_key_type", rts}}
	names := map[string][]string{"R_known_before": {"no", "yes"}, "entry": c13EntNames, "tail": c13TailNames, "peerstore": c13PsNames, "remote_key_type": c13DimNames["remote_key_type"],
		"read_granularity": {"whole buffer", "1 byte per Read", "", "", "", "", "", "7 bytes per Read"}}
	c13DimBounds(r, dims, names)
	var pn []string
	for _, p := range c13Plans(w, rts[0]) {
		pn = append(pn, p.Name)
	}
	r.Bounds["plan"] = fmt.Sprintf("%d chunk plans: %s", nplans, strings.Join(c13Summ(pn), "; "))
	r.Bounds["limits"] = fmt.Sprintf("maxMessages=%d signedIDSize=%d legacyIDSize=%d", maxMessages, signedIDSize, legacyIDSize)
	n := c13Size(dims)
	r.Bounds["cases_total"] = n
	var dist c13Distinct
	rp := &c13Reporter{r: r}
	var exec int64
	var cmu sync.Mutex
	var smp c13Sampler
	c13Each(t, r, n, func(i int) error {
		cs := c13Decode(dims, i)
		var infra error
		err := c13Bubble(t, func() {
			rt := cs["remote_key_type"]
			plan := c13Plans(w, rt)[cs["plan"]]
			f, c, nPre, err := c13Setup(w, cs["peerstore"], rt, c13RcLoop, 1, cs["R_known_before"] == 1)
			if err != nil {
				infra = err
				return
			}
			defer f.close()
			R := w.R[rt]
			ex := c13NewExpect(R)
			ex.NPreR = nPre
			plan.note(ex)
			replay := map[string]any{"part": "stream", "case_index": i, "plan": plan.Name, "tuple": c13NamedWith(dims, cs, names), "wire_bytes": len(plan.Wire)}
			also := c13PeersAlways(w, R)
			before := c13TakeSnap(f.ps, also)
			mk := func(prefix []byte) *c13Strm {
				s := c.newStrm(append(append([]byte{}, prefix...), plan.Wire...))
				s.gran, s.tail = cs["read_granularity"], cs["tail"]
				return s
			}
			var wait <-chan struct{}
			result := ""
			settle := func() {
				synctest.Wait()
				if cs["tail"] == c13TailStall {
					time.Sleep(f.ids.timeout + time.Second)
					synctest.Wait()
				}
			}
			switch cs["entry"] {
			case c13EntDirectResp, c13EntDirectPush:
				s := mk(nil)
				s.SetDeadline(time.Now().Add(f.ids.timeout)) // as identifyConn / handlePush do before they call it
				if err := f.ids.handleIdentifyResponse(s, cs["entry"] == c13EntDirectPush); err != nil {
					result = "error"
				} else {
					result = "consumed"
				}
				synctest.Wait()
			case c13EntFullResp:
				c.script = func(c *c13Conn) (*c13Strm, error) { return mk(c13MsPrefix(ID)), nil }
				f.net.notifyConnected(c)
				wait = f.ids.IdentifyWait(c)
				settle()
			case c13EntFullPush:
				f.net.notifyConnected(c) // remote refuses the identify stream: the automatic identify fails at once
				wait = f.ids.IdentifyWait(c)
				synctest.Wait()
				f.net.inbound(mk(c13MsPrefix(IDPush)))
				settle()
			}
			f.drain()
			after := c13TakeSnap(f.ps, also)
			rp.findings(c13Audit(w, before, after, ex, f.evs), replay)
			// "every connection's identify-wait is eventually released"
			if wait != nil {
				select {
				case <-wait:
				default:
					r.Violate("identify-wait-not-released/"+c13TailNames[cs["tail"]], fmt.Sprintf("the IdentifyWait channel of the connection is still open after the exchange ended (%s) and %s passed",
						c13TailNames[cs["tail"]], f.ids.timeout+time.Second), replay)
				}
			}
			if result == "" {
				nc, nf := 0, 0
				for _, e := range f.evs {
					switch e.(type) {
					case event.EvtPeerIdentificationCompleted:
						nc++
					case event.EvtPeerIdentificationFailed:
						nf++
					}
				}
				result = fmt.Sprintf("completed=%d failed=%d", nc, nf)
			}
			nA, nP := len(after[R.ID].Addrs), len(after[R.ID].Protos)
			r.Outcome(fmt.Sprintf("%s addrs:%s protos:%s", result, c13Bucket(nA, connectedPeerMaxAddrs+nPre), c13Bucket(nP, maxPeerProtocols)))
			if plan.Name != "single chunk" || cs["tail"] != c13TailEOF {
				dist.add(c13TupleKey(dims, cs))
			}
			cmu.Lock()
			exec++
			cmu.Unlock()
			if plan.NChunks >= 3 && cs["entry"] >= c13EntFullResp && i%5 == 2 && smp.take() {
				r.Sample(map[string]any{"case_index": i, "plan": plan.Name, "tuple": c13NamedWith(dims, cs, names), "result": result, "addrs_after": nA, "protocols_after": nP})
			}
		})
		if err != nil {
			return err
		}
		return infra
	})
	r.Executions = exec
	r.Distinct = dist.n()
}

// c13Summ shortens the plan list for the evidence file (families instead of every mask).
func c13Summ(names []string) []string {
	var out []string
	masks := 0
	for _, n := range names {
		if strings.HasPrefix(n, "two chunks, fields ") {
			masks++
			continue
		}
		out = append(out, n)
	}
	if masks > 0 {
		out = append(out, fmt.Sprintf("two chunks for each of the %d assignments of the 7 fields to the first / second chunk", masks))
	}
	return out
}
