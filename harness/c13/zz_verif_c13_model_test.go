//go:build verif

package identify

// C13: the message alphabet (addresses, signed records, keys, protocol lists), the expectation that goes with
// a message (what MAY be recorded under R - the statement only gives permissions and upper bounds), the
// pre-population of L's peerstore, and the audit that compares a whole-peerstore snapshot before and after.

import (
	"fmt"
	"sort"
	"strings"
	"sync"
	"time"

	"github.com/libp2p/go-libp2p/core/crypto"
	"github.com/libp2p/go-libp2p/core/event"
	"github.com/libp2p/go-libp2p/core/peer"
	"github.com/libp2p/go-libp2p/core/peerstore"
	"github.com/libp2p/go-libp2p/core/record"
	recordpb "github.com/libp2p/go-libp2p/core/record/pb"
	"github.com/libp2p/go-libp2p/p2p/protocol/identify/pb"

	ma "github.com/multiformats/go-multiaddr"
	"google.golang.org/protobuf/proto"
)

// ---------- addresses ----------

const (
	c13ClsPub4 = iota
	c13ClsPub6
	c13ClsPriv4
	c13ClsLoop4
	c13ClsLoop6
	c13ClsRelay
	c13ClsDNS
	c13ClsDNSLocal
	c13ClsLinkLocal
	c13ClsUnspec
	c13NCls
)

var c13ClsNames = []string{"pub4", "pub6", "priv4", "loop4", "loop6", "relay", "dns", "dns-localhost", "linklocal", "unspecified"}

const (
	c13SfxNone = iota
	c13SfxR
	c13SfxO
	c13SfxX
	c13SfxL
	c13NSfx
)

var c13SfxNames = []string{"none", "R", "O", "X", "L"}

// c13Addr: the address of class cls carried by source src with /p2p suffix sfx. The port encodes
// (src, cls, sfx), so every address of an execution is unique and its origin can be read back.
// Returned: the address as carried, and the form the peerstore would keep (final /p2p component split off) in
// binary form - the canonical key of an address everywhere in this harness (String() costs a base58 encoding
// per /p2p component).
func c13Addr(w *c13World, r *c13Key, src, cls, sfx int) (carried ma.Multiaddr, stored string) {
	port := 10000 + src*1000 + cls*10 + sfx
	var base string
	switch cls {
	case c13ClsPub4:
		base = fmt.Sprintf("/ip4/1.2.3.4/tcp/%d", port)
	case c13ClsPub6:
		base = fmt.Sprintf("/ip6/2607:f8b0::1/tcp/%d", port)
	case c13ClsPriv4:
		base = fmt.Sprintf("/ip4/192.168.1.10/tcp/%d", port)
	case c13ClsLoop4:
		base = fmt.Sprintf("/ip4/127.0.0.1/tcp/%d", port)
	case c13ClsLoop6:
		base = fmt.Sprintf("/ip6/::1/udp/%d/quic-v1", port)
	case c13ClsRelay:
		base = fmt.Sprintf("/ip4/5.6.7.8/tcp/%d/p2p/%s/p2p-circuit", port, w.Relay.ID)
	case c13ClsDNS:
		base = fmt.Sprintf("/dns4/example.com/tcp/%d", port)
	case c13ClsDNSLocal:
		base = fmt.Sprintf("/dns4/localhost/tcp/%d", port)
	case c13ClsLinkLocal:
		base = fmt.Sprintf("/ip4/169.254.1.1/tcp/%d", port)
	default:
		base = fmt.Sprintf("/ip4/0.0.0.0/tcp/%d", port)
	}
	full := base
	switch sfx {
	case c13SfxR:
		full += "/p2p/" + r.ID.String()
	case c13SfxO:
		full += "/p2p/" + w.O.ID.String()
	case c13SfxX:
		full += "/p2p/" + w.X.ID.String()
	case c13SfxL:
		full += "/p2p/" + w.L.ID.String()
	}
	return ma.StringCast(full), string(ma.StringCast(base).Bytes())
}

// c13Mix: one address of every class x suffix for a source. origin maps the stored form to a label.
func c13Mix(w *c13World, r *c13Key, src int, srcName string, origin map[string]string, allowed map[string]bool, permit bool) []ma.Multiaddr {
	var out []ma.Multiaddr
	for cls := 0; cls < c13NCls; cls++ {
		for sfx := 0; sfx < c13NSfx; sfx++ {
			a, st := c13Addr(w, r, src, cls, sfx)
			out = append(out, a)
			if origin != nil {
				origin[st] = srcName + "/suffix=" + c13SfxNames[sfx]
			}
			if permit && allowed != nil && (sfx == c13SfxNone || sfx == c13SfxR) {
				allowed[st] = true
			}
		}
	}
	return out
}

// remote address classes of the connection the message arrives on
const (
	c13RcLoop = iota
	c13RcPriv
	c13RcPub4
	c13RcPub6
	c13RcRelay
	c13RcDNS
	c13RcUnspec
	c13NRc
)

var c13RcNames = []string{"loopback", "private", "public4", "public6", "relay-circuit", "dns", "unspecified"}

func c13RemoteAddr(w *c13World, rc int) ma.Multiaddr {
	switch rc {
	case c13RcLoop:
		return ma.StringCast("/ip4/127.0.0.1/tcp/5000")
	case c13RcPriv:
		return ma.StringCast("/ip4/10.0.0.5/tcp/5000")
	case c13RcPub4:
		return ma.StringCast("/ip4/8.8.4.4/tcp/5000")
	case c13RcPub6:
		return ma.StringCast("/ip6/2607:f8b0::5/udp/5000/quic-v1")
	case c13RcRelay:
		return ma.StringCast("/ip4/5.6.7.8/tcp/4001/p2p/" + w.Relay.ID.String() + "/p2p-circuit")
	case c13RcDNS:
		return ma.StringCast("/dns4/example.org/tcp/443")
	default:
		return ma.StringCast("/ip4/0.0.0.0/tcp/5000")
	}
}

// ---------- signed records ----------

const (
	c13SrAbsent = iota
	c13SrRValid
	c13SrRValidNoAddrs
	c13SrOValid
	c13SrRSignedNamesO
	c13SrRSignedNamesX
	c13SrOSignedNamesR
	c13SrWrongDomain
	c13SrUnknownType
	c13SrOtherType
	c13SrBadSig
	c13SrPayloadSwapped
	c13SrKeySwapped
	c13SrTruncated
	c13SrGarbage
	c13NSr
)

var c13SrNames = []string{"absent", "R-valid", "R-valid-no-addrs", "O-valid(signed by O for O)", "signed-by-R-names-O",
	"signed-by-R-names-X", "signed-by-O-names-R", "wrong-domain", "unknown-payload-type", "other-registered-type",
	"corrupted-signature", "payload-swapped", "envelope-key-swapped", "truncated", "garbage"}

// a peer record payload sealed under another signature domain
type c13DomainRec struct{ *peer.PeerRecord }

func (c13DomainRec) Domain() string { return "libp2p-relay-rsvp" }

// a peer record payload sealed with an unregistered payload type
type c13CodecRec struct{ *peer.PeerRecord }

func (c13CodecRec) Codec() []byte { return []byte{0x7f, 0x7f} }

// a registered record type that is not a peer record but lives in the peer-record signature domain
type c13OtherRec struct{ raw []byte }

func (*c13OtherRec) Domain() string                   { return peer.PeerRecordEnvelopeDomain }
func (*c13OtherRec) Codec() []byte                    { return []byte{0x7e, 0x13} }
func (r *c13OtherRec) MarshalRecord() ([]byte, error) { return r.raw, nil }
func (r *c13OtherRec) UnmarshalRecord(b []byte) error {
	r.raw = append([]byte{}, b...)
	return nil
}

func init() { record.RegisterType(&c13OtherRec{}) }

type c13Rec struct {
	Bytes  []byte
	Valid  bool              // validates, signed by R, names R
	Origin map[string]string // stored form of every address it carries -> label
	Allow  map[string]bool   // stored forms R may legitimately get from it (only when Valid)
}

func c13Seal(rec record.Record, k *c13Key) []byte {
	env, err := record.Seal(rec, k.Priv)
	if err != nil {
		panic("c13: infrastructure: seal: " + err.Error())
	}
	b, err := env.Marshal()
	if err != nil {
		panic("c13: infrastructure: marshal envelope: " + err.Error())
	}
	return b
}

func c13EditEnvelope(b []byte, edit func(e *recordpb.Envelope)) []byte {
	var e recordpb.Envelope
	if err := proto.Unmarshal(b, &e); err != nil {
		panic("c13: infrastructure: unmarshal envelope: " + err.Error())
	}
	edit(&e)
	out, err := proto.Marshal(&e)
	if err != nil {
		panic("c13: infrastructure: marshal envelope: " + err.Error())
	}
	return out
}

func c13MakeRec(w *c13World, r *c13Key, sr int) *c13Rec {
	if sr == c13SrAbsent {
		return nil
	}
	out := &c13Rec{Origin: map[string]string{}, Allow: map[string]bool{}}
	name := "record(" + c13SrNames[sr] + ")"
	src := 1 + sr
	pr := func(id peer.ID, permit bool) *peer.PeerRecord {
		return &peer.PeerRecord{PeerID: id, Seq: 7, Addrs: c13Mix(w, r, src, name, out.Origin, out.Allow, permit)}
	}
	switch sr {
	case c13SrRValid:
		out.Valid = true
		out.Bytes = c13Seal(pr(r.ID, true), r)
	case c13SrRValidNoAddrs:
		out.Valid = true
		out.Bytes = c13Seal(&peer.PeerRecord{PeerID: r.ID, Seq: 7}, r)
	case c13SrOValid:
		out.Bytes = c13Seal(pr(w.O.ID, false), w.O)
	case c13SrRSignedNamesO:
		out.Bytes = c13Seal(pr(w.O.ID, false), r)
	case c13SrRSignedNamesX:
		out.Bytes = c13Seal(pr(w.X.ID, false), r)
	case c13SrOSignedNamesR:
		out.Bytes = c13Seal(pr(r.ID, false), w.O)
	case c13SrWrongDomain:
		out.Bytes = c13Seal(c13DomainRec{pr(r.ID, false)}, r)
	case c13SrUnknownType:
		out.Bytes = c13Seal(c13CodecRec{pr(r.ID, false)}, r)
	case c13SrOtherType:
		raw, err := pr(r.ID, false).MarshalRecord()
		if err != nil {
			panic("c13: infrastructure: " + err.Error())
		}
		out.Bytes = c13Seal(&c13OtherRec{raw: raw}, r)
	case c13SrBadSig:
		out.Bytes = c13EditEnvelope(c13Seal(pr(r.ID, false), r), func(e *recordpb.Envelope) { e.Signature[len(e.Signature)/2] ^= 0x20 })
	case c13SrPayloadSwapped:
		// envelope and signature of one honest record of R, payload of another record naming R
		sig := c13Seal(&peer.PeerRecord{PeerID: r.ID, Seq: 7, Addrs: []ma.Multiaddr{ma.StringCast("/ip4/1.2.3.4/tcp/8")}}, r)
		payload, err := pr(r.ID, false).MarshalRecord()
		if err != nil {
			panic("c13: infrastructure: " + err.Error())
		}
		out.Bytes = c13EditEnvelope(sig, func(e *recordpb.Envelope) { e.Payload = payload })
	case c13SrKeySwapped:
		ok, err := crypto.PublicKeyToProto(w.O.Pub)
		if err != nil {
			panic("c13: infrastructure: " + err.Error())
		}
		out.Bytes = c13EditEnvelope(c13Seal(pr(r.ID, false), r), func(e *recordpb.Envelope) { e.PublicKey = ok })
	case c13SrTruncated:
		b := c13Seal(pr(r.ID, false), r)
		out.Bytes = b[:len(b)*2/3]
	case c13SrGarbage:
		out.Bytes = []byte{0xff, 0x00, 0x13, 0x37, 0xde, 0xad, 0xbe, 0xef}
	}
	return out
}

var (
	c13RecMu    sync.Mutex
	c13RecCache = map[[2]int]*c13Rec{}
)

// c13GetRec caches the records (RSA signing is slow; ECDSA signatures are randomized but nothing observed
// depends on the signature bytes).
func c13GetRec(w *c13World, rt, sr int) *c13Rec {
	c13RecMu.Lock()
	defer c13RecMu.Unlock()
	k := [2]int{rt, sr}
	if r, ok := c13RecCache[k]; ok {
		return r
	}
	r := c13MakeRec(w, w.R[rt], sr)
	c13RecCache[k] = r
	return r
}

// ---------- other field alphabets ----------

const (
	c13PkAbsent = iota
	c13PkR
	c13PkO
	c13PkO2
	c13PkX
	c13PkL
	c13PkGarbage
	c13PkEmpty
	c13NPk
)

var c13PkNames = []string{"absent", "R's", "O's(ed25519)", "O2's(rsa, unknown to L)", "X's(ecdsa)", "L's", "garbage", "empty"}

func c13PkBytes(w *c13World, r *c13Key, pk int) []byte {
	switch pk {
	case c13PkR:
		return r.PubBytes
	case c13PkO:
		return w.O.PubBytes
	case c13PkO2:
		return w.O2.PubBytes
	case c13PkX:
		return w.X.PubBytes
	case c13PkL:
		return w.L.PubBytes
	case c13PkGarbage:
		return []byte{0x08, 0x01, 0x12, 0x05, 1, 2, 3, 4, 5}
	case c13PkEmpty:
		return []byte{}
	}
	return nil
}

var c13FewProtos = []string{IDPush, "/c13/a/1.0.0", "/c13/b/2.0.0", "/c13/a/1.0.0", ""}

func c13ManyProtos(tag string, n int) []string {
	out := make([]string, n)
	for i := range out {
		out[i] = fmt.Sprintf("/c13/%s/%d", tag, i)
	}
	return out
}

type c13ManyCached struct {
	carried []ma.Multiaddr
	stored  []string
}

var c13ManyCache sync.Map

// c13ManyAddrs: n distinct public addresses (pass every remote-class filter), optionally /p2p/R-suffixed.
func c13ManyAddrs(r *c13Key, tag, n int, sfxR bool) (carried []ma.Multiaddr, stored []string) {
	key := fmt.Sprintf("%s/%d/%d/%t", r.Name, tag, n, sfxR)
	if v, ok := c13ManyCache.Load(key); ok {
		c := v.(*c13ManyCached)
		return c.carried, c.stored
	}
	for i := 0; i < n; i++ {
		base := fmt.Sprintf("/ip4/11.%d.%d.%d/tcp/4001", tag, i/250, 1+i%250)
		full := base
		if sfxR {
			full += "/p2p/" + r.ID.String()
		}
		carried = append(carried, ma.StringCast(full))
		stored = append(stored, string(ma.StringCast(base).Bytes()))
	}
	c13ManyCache.Store(key, &c13ManyCached{carried, stored})
	return
}

func c13ShowAddr(b string) string {
	a, err := ma.NewMultiaddrBytes([]byte(b))
	if err != nil {
		return fmt.Sprintf("unparsable:%x", b)
	}
	return a.String()
}

func c13ShowAddrs(l []string) []string {
	out := make([]string, 0, len(l))
	for _, x := range l {
		out = append(out, c13ShowAddr(x))
	}
	return out
}

// ---------- expectation ----------

// c13Expect: what the message(s) consumed in an execution carried, phrased as permissions.
type c13Expect struct {
	R        *c13Key
	Allowed  map[string]bool   // stored forms that may newly appear under R
	Origin   map[string]string // stored form of every carried address -> where it came from
	RecValid bool              // some carried record validates, is signed by R and names R
	RecBytes map[string]bool   // marshalled forms of the carried valid records
	Protos   map[string]bool
	Agents   map[string]bool // snapshot-formatted values that may appear
	PVers    map[string]bool
	NPreR    int // addresses pre-populated for R
}

func c13NewExpect(r *c13Key) *c13Expect {
	return &c13Expect{R: r, Allowed: map[string]bool{}, Origin: map[string]string{}, RecBytes: map[string]bool{},
		Protos: map[string]bool{}, Agents: map[string]bool{}, PVers: map[string]bool{}}
}

// note records what one (merged or partial) identify message carries.
func (ex *c13Expect) noteRec(rec *c13Rec) {
	if rec == nil {
		return
	}
	for k, v := range rec.Origin {
		if _, ok := ex.Origin[k]; !ok {
			ex.Origin[k] = v
		}
	}
	if rec.Valid {
		ex.RecValid = true
		ex.RecBytes[string(rec.Bytes)] = true
		for k := range rec.Allow {
			ex.Allowed[k] = true
		}
	}
}

func (ex *c13Expect) noteScalars(m *pb.Identify) {
	for _, p := range m.Protocols {
		ex.Protos[p] = true
	}
	// identify stores GetAgentVersion()/GetProtocolVersion(): "" when absent
	ex.Agents["string:"+m.GetAgentVersion()] = true
	ex.PVers["string:"+m.GetProtocolVersion()] = true
	ex.Agents["string:"] = true
	ex.PVers["string:"] = true
}

// ---------- message construction from a field tuple ----------

const (
	c13LaAbsent = iota
	c13LaMix
	c13NLa
)

var c13GarbageAddrs = [][]byte{{0xff, 0x01}, {}, {0x04, 0x01, 0x02}, {0x06}}

type c13MixCached struct {
	bytes   [][]byte
	origin  map[string]string
	allowed map[string]bool
}

var c13ListenCache sync.Map // key name -> *c13MixCached

// c13ListenMix: the unsigned listen addresses of the "mix" value: every class x suffix, a duplicate,
// unparsable entries, and bare /p2p components.
func c13ListenMix(w *c13World, r *c13Key, ex *c13Expect) [][]byte {
	var c *c13MixCached
	if v, ok := c13ListenCache.Load(r.Name); ok {
		c = v.(*c13MixCached)
	} else {
		c = &c13MixCached{origin: map[string]string{}, allowed: map[string]bool{}}
		mix := c13Mix(w, r, 0, "listenAddrs", c.origin, c.allowed, true)
		for _, a := range mix {
			c.bytes = append(c.bytes, a.Bytes())
		}
		c.bytes = append(c.bytes, mix[0].Bytes())
		c.bytes = append(c.bytes, c13GarbageAddrs...)
		c.bytes = append(c.bytes, ma.StringCast("/p2p/"+w.O.ID.String()).Bytes(), ma.StringCast("/p2p/"+r.ID.String()).Bytes())
		c13ListenCache.Store(r.Name, c)
	}
	for k, v := range c.origin {
		ex.Origin[k] = v
	}
	for k := range c.allowed {
		ex.Allowed[k] = true
	}
	return append([][]byte{}, c.bytes...)
}

type c13Fields struct {
	RT, LA, SR, PK, PR, MV, OA int
}

func c13BuildMsg(w *c13World, fl c13Fields, ex *c13Expect) *pb.Identify {
	r := w.R[fl.RT]
	m := &pb.Identify{}
	if fl.LA == c13LaMix {
		m.ListenAddrs = c13ListenMix(w, r, ex)
	}
	if rec := c13GetRec(w, fl.RT, fl.SR); rec != nil {
		m.SignedPeerRecord = rec.Bytes
		ex.noteRec(rec)
	}
	m.PublicKey = c13PkBytes(w, r, fl.PK)
	if fl.PR == 1 {
		m.Protocols = append([]string{}, c13FewProtos...)
	}
	if fl.MV == 1 {
		m.AgentVersion = proto.String("c13-agent/" + r.Name)
		m.ProtocolVersion = proto.String("c13-proto/1")
	}
	switch fl.OA {
	case 1:
		m.ObservedAddr = ma.StringCast("/ip4/9.9.9.9/tcp/4001/p2p/" + w.O.ID.String()).Bytes()
	case 2:
		m.ObservedAddr = []byte{0xff, 0xff, 0xff}
	}
	ex.noteScalars(m)
	return m
}

type c13HonestCached struct {
	msg    []byte
	stored []string
	rec    *c13Rec
}

var c13HonestCache sync.Map

// c13HonestMsg is what an honest R sends: own key, own valid record, matching listen addresses (all public),
// a few protocols (including identify push) and agent data. tag distinguishes successive messages. The
// sealed record is cached (RSA signing is slow).
func c13HonestMsg(w *c13World, rt int, tag int, ex *c13Expect) (*pb.Identify, []string) {
	r := w.R[rt]
	key := fmt.Sprintf("%d/%d", rt, tag)
	var c *c13HonestCached
	if v, ok := c13HonestCache.Load(key); ok {
		c = v.(*c13HonestCached)
	} else {
		addrs := []ma.Multiaddr{
			ma.StringCast(fmt.Sprintf("/ip4/1.2.%d.1/tcp/4001", tag)),
			ma.StringCast(fmt.Sprintf("/ip4/1.2.%d.1/udp/4001/quic-v1", tag)),
			ma.StringCast(fmt.Sprintf("/ip6/2607:f8b0::%x/tcp/4001", tag+1)),
		}
		m := &pb.Identify{PublicKey: r.PubBytes, Protocols: []string{IDPush, ID, fmt.Sprintf("/c13/app/%d", tag)},
			AgentVersion: proto.String(fmt.Sprintf("c13-honest/%d", tag)), ProtocolVersion: proto.String("c13-proto/1"),
			ObservedAddr: c13LAddrPub.Bytes()}
		c = &c13HonestCached{}
		rec := &c13Rec{Valid: true, Origin: map[string]string{}, Allow: map[string]bool{}}
		for _, a := range addrs {
			m.ListenAddrs = append(m.ListenAddrs, a.Bytes())
			st := string(a.Bytes())
			c.stored = append(c.stored, st)
			rec.Origin[st] = fmt.Sprintf("record(honest#%d)/suffix=none", tag)
			rec.Allow[st] = true
		}
		rec.Bytes = c13Seal(&peer.PeerRecord{PeerID: r.ID, Seq: uint64(10 + tag), Addrs: addrs}, r)
		m.SignedPeerRecord = rec.Bytes
		c.rec = rec
		var err error
		if c.msg, err = proto.Marshal(m); err != nil {
			panic("c13: infrastructure: " + err.Error())
		}
		c13HonestCache.Store(key, c)
	}
	m := &pb.Identify{}
	if err := proto.Unmarshal(c.msg, m); err != nil {
		panic("c13: infrastructure: " + err.Error())
	}
	if ex != nil {
		for _, st := range c.stored {
			ex.Allowed[st] = true
		}
		ex.noteRec(c.rec)
		ex.noteScalars(m)
	}
	return m, c.stored
}

// ---------- pre-population of L's peerstore ----------

var c13PeersAlways = func(w *c13World, r *c13Key) []peer.ID {
	return []peer.ID{w.L.ID, r.ID, w.O.ID, w.O2.ID, w.X.ID, w.Relay.ID}
}

// c13Prepopulate gives O and O2 rich entries (every TTL class, protocols, agent data, key, certified
// record) - they must not change - and, with preR, some older knowledge about R. Returns how many addresses
// R got.
func c13Prepopulate(f *c13Fix, r *c13Key, preR bool) (int, error) {
	ps, w := f.ps, f.w
	ps.AddAddrs(w.O.ID, []ma.Multiaddr{ma.StringCast("/ip4/7.7.7.1/tcp/1")}, peerstore.ConnectedAddrTTL)
	ps.AddAddrs(w.O.ID, []ma.Multiaddr{ma.StringCast("/ip4/7.7.7.2/tcp/1")}, peerstore.RecentlyConnectedAddrTTL)
	ps.AddAddrs(w.O.ID, []ma.Multiaddr{ma.StringCast("/ip4/7.7.7.3/tcp/1")}, peerstore.TempAddrTTL)
	ps.AddAddrs(w.O.ID, []ma.Multiaddr{ma.StringCast("/ip4/7.7.7.4/tcp/1")}, time.Hour)
	ps.AddAddrs(w.O.ID, []ma.Multiaddr{ma.StringCast("/ip4/7.7.7.5/tcp/1")}, peerstore.PermanentAddrTTL)
	if err := ps.SetProtocols(w.O.ID, "/o/1.0.0", IDPush); err != nil {
		return 0, err
	}
	if err := ps.Put(w.O.ID, "AgentVersion", "agent-of-O"); err != nil {
		return 0, err
	}
	if err := ps.Put(w.O.ID, "ProtocolVersion", "proto-of-O"); err != nil {
		return 0, err
	}
	if err := ps.AddPubKey(w.O.ID, w.O.Pub); err != nil {
		return 0, err
	}
	cab, ok := peerstore.GetCertifiedAddrBook(ps)
	if !ok {
		return 0, fmt.Errorf("peerstore has no certified address book")
	}
	env, err := c13ORecord(w)
	if err != nil {
		return 0, err
	}
	if _, err := cab.ConsumePeerRecord(env, time.Hour); err != nil {
		return 0, err
	}
	ps.AddAddrs(w.O2.ID, []ma.Multiaddr{ma.StringCast("/ip4/7.7.8.1/tcp/1")}, time.Hour)
	if err := ps.SetProtocols(w.O2.ID, "/o2/1.0.0"); err != nil {
		return 0, err
	}
	n := 0
	if preR {
		ps.AddAddrs(r.ID, []ma.Multiaddr{ma.StringCast("/ip4/6.6.6.1/tcp/1")}, peerstore.ConnectedAddrTTL)
		ps.AddAddrs(r.ID, []ma.Multiaddr{ma.StringCast("/ip4/6.6.6.2/tcp/1")}, peerstore.RecentlyConnectedAddrTTL)
		ps.AddAddrs(r.ID, []ma.Multiaddr{ma.StringCast("/ip4/6.6.6.3/tcp/1")}, peerstore.TempAddrTTL)
		ps.AddAddrs(r.ID, []ma.Multiaddr{ma.StringCast("/ip4/6.6.6.4/tcp/1")}, time.Hour)
		n = 4
		if err := ps.SetProtocols(r.ID, "/old/1.0.0", IDPush); err != nil {
			return 0, err
		}
		if err := ps.Put(r.ID, "AgentVersion", "old-agent"); err != nil {
			return 0, err
		}
		if err := ps.Put(r.ID, "ProtocolVersion", "old-proto"); err != nil {
			return 0, err
		}
		if err := ps.AddPubKey(r.ID, r.Pub); err != nil {
			return 0, err
		}
	}
	return n, nil
}

var (
	c13ORecOnce  sync.Once
	c13ORecBytes []byte
	c13ORecErr   error
)

// c13ORecord: O's own certified record (sealed once; every fixture consumes a fresh envelope object).
func c13ORecord(w *c13World) (*record.Envelope, error) {
	c13ORecOnce.Do(func() {
		env, err := record.Seal(&peer.PeerRecord{PeerID: w.O.ID, Seq: 3, Addrs: []ma.Multiaddr{ma.StringCast("/ip4/7.7.7.6/tcp/1")}}, w.O.Priv)
		if err != nil {
			c13ORecErr = err
			return
		}
		c13ORecBytes, c13ORecErr = env.Marshal()
	})
	if c13ORecErr != nil {
		return nil, c13ORecErr
	}
	return record.UnmarshalEnvelope(c13ORecBytes)
}

// ---------- the audit: exactly the statement ----------

type c13Finding struct{ Key, Desc string }

func c13ChangedFields(d string) string {
	var f []string
	for _, k := range []string{"addrs", "protocols", "AgentVersion", "ProtocolVersion", "public key", "private key", "certified record"} {
		if strings.Contains(d, k+" ") {
			f = append(f, strings.ReplaceAll(k, " ", "-"))
		}
	}
	return strings.Join(f, "+")
}

// c13Audit compares the whole peerstore before and after. It returns every way the outcome goes beyond what
// the statement permits; nothing is required to have been recorded.
func c13Audit(w *c13World, before, after c13Snap, ex *c13Expect, evs []any) []c13Finding {
	var out []c13Finding
	add := func(key, f string, a ...any) { out = append(out, c13Finding{key, fmt.Sprintf(f, a...)}) }
	R := ex.R.ID
	peers := map[peer.ID]bool{}
	for p := range before {
		peers[p] = true
	}
	for p := range after {
		peers[p] = true
	}
	var plist []peer.ID
	for p := range peers {
		plist = append(plist, p)
	}
	sort.Slice(plist, func(i, j int) bool { return plist[i] < plist[j] })
	// "recorded only under the authenticated remote peer ... never attributed to another peer"
	for _, p := range plist {
		if p == R {
			continue
		}
		if d := before[p].diff(after[p]); d != "" {
			who := w.name(p)
			if strings.HasPrefix(who, "unknown:") {
				who = "unknown-peer"
			} else if strings.HasPrefix(who, "R(") {
				who = "other-R-identity"
			}
			add("attributed-to-other-peer/"+who+"/"+c13ChangedFields(d), "the peerstore entry of %s (not the remote peer of the connection, which is %s) changed: %s", w.name(p), w.name(R), d)
		}
	}
	b, a := before[R], after[R]
	if b == nil {
		b = &c13PeerSnap{Agent: c13None, PVer: c13None}
	}
	if a == nil {
		a = &c13PeerSnap{Agent: c13None, PVer: c13None}
	}
	// addresses under R: only what the message carried for R (unsigned, or from a record that validates, was
	// signed by R and names R); an address carried with another peer's /p2p suffix belongs to that peer
	bset := c13StrSet(b.Addrs)
	classes := map[string]string{}
	for _, x := range a.Addrs {
		if bset[x] || ex.Allowed[x] {
			continue
		}
		cls := "not-carried-at-all"
		if o, ok := ex.Origin[x]; ok {
			cls = o
			if strings.HasPrefix(o, "record(") && !strings.Contains(o, "/suffix=O") && !strings.Contains(o, "/suffix=X") && !strings.Contains(o, "/suffix=L") {
				cls = o[:strings.Index(o, "/suffix=")] + "/record-not-valid-for-R"
			}
		}
		if _, ok := classes[cls]; !ok {
			classes[cls] = x
		}
	}
	var cl []string
	for c := range classes {
		cl = append(cl, c)
	}
	sort.Strings(cl)
	for _, c := range cl {
		add("R-got-address-from/"+c, "address %s was recorded for %s but the message did not carry it for that peer (origin: %s)", c13ShowAddr(classes[c]), w.name(R), c)
	}
	// "the numbers of protocols and addresses retained per peer are capped"
	if len(a.Addrs) > connectedPeerMaxAddrs+ex.NPreR {
		add("address-cap-exceeded", "%d addresses retained for %s (cap %d, %d pre-existing)", len(a.Addrs), w.name(R), connectedPeerMaxAddrs, ex.NPreR)
	}
	if len(a.Protos) > maxPeerProtocols {
		add("protocol-cap-exceeded", "%d protocols retained for %s (cap %d)", len(a.Protos), w.name(R), maxPeerProtocols)
	}
	bp := c13StrSet(b.Protos)
	for _, x := range a.Protos {
		if !bp[x] && !ex.Protos[x] {
			add("protocol-not-carried", "protocol %q recorded for %s was not in the message", x, w.name(R))
			break
		}
	}
	if a.Agent != b.Agent && !ex.Agents[a.Agent] {
		add("agent-not-carried", "AgentVersion of %s became %.60q, which the message did not carry", w.name(R), a.Agent)
	}
	if a.PVer != b.PVer && !ex.PVers[a.PVer] {
		add("agent-not-carried", "ProtocolVersion of %s became %.60q, which the message did not carry", w.name(R), a.PVer)
	}
	// "a public key is stored only if it hashes to that peer's ID" (checked for every peer: nothing else may
	// have changed anyway)
	for _, p := range plist {
		s := after[p]
		if s == nil || s.Pub == "" {
			continue
		}
		k, err := crypto.UnmarshalPublicKey([]byte(s.Pub))
		var id peer.ID
		if err == nil {
			id, err = peer.IDFromPublicKey(k)
		}
		if err != nil || id != p {
			add("stored-key-does-not-hash-to-peer", "the key book holds a key for %s that hashes to %s (err=%v)", w.name(p), w.name(id), err)
		}
	}
	// "a signed peer record is used only if it validates and was signed by that peer"
	if a.Rec != b.Rec && a.Rec != "" && !ex.RecBytes[a.Rec] {
		add("certified-record-not-valid-for-R", "a certified record was stored for %s that is not a carried record which validates, is signed by and names that peer", w.name(R))
	}
	for _, e := range evs {
		switch ev := e.(type) {
		case event.EvtPeerIdentificationCompleted:
			if ev.Peer != R {
				add("event-for-other-peer", "EvtPeerIdentificationCompleted for %s on a connection to %s", w.name(ev.Peer), w.name(R))
			}
			if ev.SignedPeerRecord != nil {
				mb, err := ev.SignedPeerRecord.Marshal()
				if err != nil || !ex.RecBytes[string(mb)] {
					add("event-carries-unvalidated-record", "EvtPeerIdentificationCompleted reports a signed peer record that is not one that validates, is signed by and names %s", w.name(R))
				}
			}
		case event.EvtPeerIdentificationFailed:
			if ev.Peer != R {
				add("event-for-other-peer", "EvtPeerIdentificationFailed for %s on a connection to %s", w.name(ev.Peer), w.name(R))
			}
		case event.EvtPeerProtocolsUpdated:
			if ev.Peer != R {
				add("event-for-other-peer", "EvtPeerProtocolsUpdated for %s on a connection to %s", w.name(ev.Peer), w.name(R))
			}
		}
	}
	return out
}

// c13OutcomeClass summarises what happened to R (for the outcome histogram: proves the run is not vacuous).
func c13OutcomeClass(before, after c13Snap, ex *c13Expect) string {
	b, a := before[ex.R.ID], after[ex.R.ID]
	if b == nil {
		b = &c13PeerSnap{}
	}
	if a == nil {
		a = &c13PeerSnap{}
	}
	bset := c13StrSet(b.Addrs)
	nNew, fromRec, fromListen := 0, false, false
	for _, x := range a.Addrs {
		if !bset[x] {
			nNew++
			if strings.HasPrefix(ex.Origin[x], "record(") {
				fromRec = true
			} else {
				fromListen = true
			}
		}
	}
	src := "none"
	switch {
	case fromRec && fromListen:
		src = "both"
	case fromRec:
		src = "record"
	case fromListen:
		src = "unsigned"
	}
	nb := 0
	switch {
	case nNew == 0:
	case nNew <= 20:
		nb = 1
	case nNew <= 35:
		nb = 2
	default:
		nb = 3
	}
	key := "nokey"
	if a.Pub != "" && b.Pub == "" {
		key = "key-learned"
	} else if a.Pub != "" {
		key = "key-known"
	}
	return fmt.Sprintf("addrs:%s/%d protos:%t agent:%t %s", src, nb, !c13EqStrs(a.Protos, b.Protos), a.Agent != b.Agent, key)
}
