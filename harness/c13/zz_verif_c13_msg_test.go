//go:build verif

package identify

// C13 part "message-product": every tuple of the field product is consumed by the real
// idService.consumeMessage on a fresh fixture, on a connection whose remote peer is R; the whole peerstore is
// snapshotted before and after and audited (c13Audit).
// C13 part "caps": oversized protocol lists and address sets (unsigned, /p2p/R-suffixed, inside a valid
// record), one or two successive messages, consumed while connected or after the disconnect was processed;
// then the disconnect and the clock are stepped.

import (
	"fmt"
	"strings"
	"sync"
	"testing"
	"testing/synctest"
	"time"

	"github.com/libp2p/go-libp2p/core/peer"
	"github.com/libp2p/go-libp2p/core/peerstore"
	"github.com/libp2p/go-libp2p/p2p/protocol/identify/pb"
	"github.com/libp2p/go-libp2p/x/verif/vrep"

	ma "github.com/multiformats/go-multiaddr"
	"google.golang.org/protobuf/proto"
)

type c13Dim struct {
	Name string
	Vals []int
}

func c13Range(n int) []int {
	out := make([]int, n)
	for i := range out {
		out[i] = i
	}
	return out
}

// c13Decode: mixed-radix decoding of a case index.
func c13Decode(dims []c13Dim, i int) map[string]int {
	out := make(map[string]int, len(dims))
	for _, d := range dims {
		out[d.Name] = d.Vals[i%len(d.Vals)]
		i /= len(d.Vals)
	}
	return out
}

func c13Size(dims []c13Dim) int {
	n := 1
	for _, d := range dims {
		n *= len(d.Vals)
	}
	return n
}

func c13DimBounds(r *vrep.Result, dims []c13Dim, names map[string][]string) {
	for _, d := range dims {
		var vs []string
		for _, v := range d.Vals {
			if nn, ok := names[d.Name]; ok && v < len(nn) {
				vs = append(vs, nn[v])
			} else {
				vs = append(vs, fmt.Sprint(v))
			}
		}
		r.Bounds[d.Name] = strings.Join(vs, " | ")
	}
}

func c13TupleKey(dims []c13Dim, c map[string]int) string {
	var sb strings.Builder
	for _, d := range dims {
		fmt.Fprintf(&sb, "%s=%d ", d.Name, c[d.Name])
	}
	return sb.String()
}

var c13LocalAddrFor = func(rc int) ma.Multiaddr {
	switch rc {
	case c13RcLoop:
		return c13LAddrLoop
	case c13RcPriv:
		return c13LAddrPriv
	}
	return c13LAddrPub
}

// c13Setup: fixture + pre-population + the connection table: O is connected, R has one or two connections;
// the returned connection is the one the message arrives on (remote address class rc; a relayed connection is
// a limited one, as circuit v2 connections are).
func c13Setup(w *c13World, cfg, rt, rc, topo int, preR bool) (*c13Fix, *c13Conn, int, error) {
	f, err := c13NewFix(w, cfg)
	if err != nil {
		return nil, nil, 0, err
	}
	R := w.R[rt]
	nPre, err := c13Prepopulate(f, R, preR)
	if err != nil {
		f.close()
		return nil, nil, 0, err
	}
	f.net.add(f.net.newConn(w.O.ID, c13LAddrPub, ma.StringCast("/ip4/7.7.7.1/tcp/1"), false, nil))
	if topo == 1 {
		f.net.add(f.net.newConn(R.ID, c13LAddrLoop, ma.StringCast("/ip4/127.0.0.1/tcp/5999"), false, nil))
	}
	c := f.net.newConn(R.ID, c13LocalAddrFor(rc), c13RemoteAddr(w, rc), rc == c13RcRelay, nil)
	f.net.add(c)
	return f, c, nPre, nil
}

var c13DimNames = map[string][]string{
	"remote_key_type":              {"ed25519(inline ID)", "rsa2048(hashed ID)", "ecdsa(hashed ID)", "secp256k1(inline ID)"},
	"conn_remote_addr":             c13RcNames,
	"listenAddrs":                  {"absent", "mix: 10 classes x suffix{none,/p2p/R,/p2p/O,/p2p/X,/p2p/L} + duplicate + 4 unparsable + bare /p2p/O, /p2p/R"},
	"signedPeerRecord":             c13SrNames,
	"publicKey":                    c13PkNames,
	"protocols":                    {"absent", "few (incl. duplicate, empty string, identify push)"},
	"agent+observedAddr":           {"all absent", "agentVersion + protocolVersion + observed address with /p2p/O suffix"},
	"protocols+agent+observedAddr": {"all absent", "few protocols (incl. duplicate, empty string, identify push) + agent data + unparsable observed address"},
	"arrives_as":                   {"identify response", "identify push"},
	"connections_to_R":             {"one (message on it)", "two (message on the second)"},
	"R_known_before":               {"no", "yes (addresses of 4 TTL classes, protocols, agent, key)"},
	"peerstore":                    c13PsNames,
}

func c13MsgDims() []c13Dim {
	d := []c13Dim{
		{"signedPeerRecord", c13Range(c13NSr)},
		{"publicKey", c13Range(c13NPk)},
		{"listenAddrs", c13Range(c13NLa)},
		{"conn_remote_addr", c13Range(c13NRc)},
		{"arrives_as", c13Range(2)},
		{"R_known_before", c13Range(2)},
	}
	if vrep.Thorough() {
		d = append(d, c13Dim{"protocols", c13Range(2)}, c13Dim{"agent+observedAddr", c13Range(2)},
			c13Dim{"connections_to_R", c13Range(2)}, c13Dim{"remote_key_type", c13Range(4)},
			c13Dim{"peerstore", []int{c13PsDefault, c13PsTrusting}})
	} else {
		// quick: inline-ID and hashed-ID remote; protocols, agent data and observed address vary together; two
		// connections to R; the trusting key book (identify's own key check is the only one)
		d = append(d, c13Dim{"protocols+agent+observedAddr", c13Range(2)}, c13Dim{"connections_to_R", []int{1}},
			c13Dim{"remote_key_type", []int{0, 1}}, c13Dim{"peerstore", []int{c13PsTrusting}})
	}
	return d
}

// c13MsgFields maps a decoded tuple to the message fields.
func c13MsgFields(cs map[string]int) c13Fields {
	fl := c13Fields{RT: cs["remote_key_type"], LA: cs["listenAddrs"], SR: cs["signedPeerRecord"], PK: cs["publicKey"]}
	if v, ok := cs["protocols+agent+observedAddr"]; ok {
		fl.PR, fl.MV = v, v
		if v == 1 {
			fl.OA = 2
		}
	} else {
		fl.PR, fl.MV = cs["protocols"], cs["agent+observedAddr"]
		if fl.MV == 1 {
			fl.OA = 1
		}
	}
	return fl
}

type c13Reporter struct {
	r  *vrep.Result
	mu sync.Mutex
}

func (rp *c13Reporter) findings(fs []c13Finding, replay any) {
	for _, f := range fs {
		rp.r.Violate(f.Key, f.Desc, replay)
	}
}

// c13Baseline asserts that the honest exchange is recorded (otherwise every "nothing foreign was recorded"
// verdict would be vacuous). A failure here is "no verdict", not a violation: the statement is one-directional.
func c13Baseline(t *testing.T, w *c13World, r *vrep.Result) {
	for rt := range w.R {
		for _, cfg := range []int{c13PsDefault, c13PsTrusting} {
			var msg string
			err := c13Bubble(t, func() {
				f, c, nPre, err := c13Setup(w, cfg, rt, c13RcLoop, 0, false)
				if err != nil {
					msg = err.Error()
					return
				}
				defer f.close()
				R := w.R[rt]
				ex := c13NewExpect(R)
				ex.NPreR = nPre
				mes := c13BuildMsg(w, c13Fields{RT: rt, LA: c13LaMix, SR: c13SrRValid, PK: c13PkR, PR: 1, MV: 1}, ex)
				also := c13PeersAlways(w, R)
				before := c13TakeSnap(f.ps, also)
				f.ids.consumeMessage(mes, c, false)
				synctest.Wait()
				f.drain()
				after := c13TakeSnap(f.ps, also)
				if fs := c13Audit(w, before, after, ex, f.evs); len(fs) > 0 {
					// the audit's findings are verdicts also on the honest message
					for _, fd := range fs {
						r.Violate(fd.Key, fd.Desc, map[string]any{"part": "message-product", "case": "baseline: honest message", "remote_key_type": c13DimNames["remote_key_type"][rt], "peerstore": c13PsNames[cfg]})
					}
					return
				}
				a := after[R.ID]
				rec := c13GetRec(w, rt, c13SrRValid)
				got := c13StrSet(a.Addrs)
				for st := range rec.Allow {
					if !got[st] {
						msg = fmt.Sprintf("honest record address %s not recorded for R (have %v)", st, a.Addrs)
						return
					}
				}
				if len(a.Addrs) != len(rec.Allow) {
					msg = fmt.Sprintf("R has %d addresses, the valid record carried %d for it", len(a.Addrs), len(rec.Allow))
					return
				}
				if !c13StrSet(a.Protos)[IDPush] || !c13StrSet(a.Protos)["/c13/a/1.0.0"] {
					msg = fmt.Sprintf("honest protocols not recorded: %v", a.Protos)
					return
				}
				if a.Agent != "string:c13-agent/"+R.Name {
					msg = "honest agent version not recorded: " + a.Agent
					return
				}
				if a.Pub != string(R.PubBytes) {
					msg = "honest public key not recorded"
					return
				}
				if len(f.evs) != 1 {
					msg = fmt.Sprintf("expected one identification event, got %d", len(f.evs))
				}
			})
			if err != nil {
				t.Fatalf("c13: infrastructure: baseline: %v", err)
			}
			if msg != "" {
				t.Fatalf("c13: baseline (honest identify of %s on %s) does not hold - no verdict: %s", w.R[rt].Name, c13PsNames[cfg], msg)
			}
		}
	}
}

func TestVerifC13Msg(t *testing.T) {
	w := c13GetWorld(t)
	r := vrep.New("C13", "message-product")
	defer r.Flush()
	c13Baseline(t, w, r)
	dims := c13MsgDims()
	c13DimBounds(r, dims, c13DimNames)
	n := c13Size(dims)
	r.Bounds["cases_total"] = n
	r.Bounds["entry"] = "idService.consumeMessage(mes, conn, isPush) on a fresh fixture per case"
	var dist c13Distinct
	rp := &c13Reporter{r: r}
	var exec int64
	var cmu sync.Mutex
	var smp c13Sampler
	done := c13Each(t, r, n, func(i int) error {
		cs := c13Decode(dims, i)
		var infra error
		err := c13Bubble(t, func() {
			rt := cs["remote_key_type"]
			f, c, nPre, err := c13Setup(w, cs["peerstore"], rt, cs["conn_remote_addr"], cs["connections_to_R"], cs["R_known_before"] == 1)
			if err != nil {
				infra = err
				return
			}
			defer f.close()
			R := w.R[rt]
			ex := c13NewExpect(R)
			ex.NPreR = nPre
			fl := c13MsgFields(cs)
			mes := c13BuildMsg(w, fl, ex)
			also := c13PeersAlways(w, R)
			before := c13TakeSnap(f.ps, also)
			f.ids.consumeMessage(mes, c, cs["arrives_as"] == 1)
			synctest.Wait()
			f.drain()
			after := c13TakeSnap(f.ps, also)
			fs := c13Audit(w, before, after, ex, f.evs)
			if len(fs) > 0 {
				rp.findings(fs, map[string]any{"part": "message-product", "case_index": i, "tuple": c13Named(dims, cs)})
			}
			oc := c13OutcomeClass(before, after, ex)
			r.Outcome(oc)
			trivial := fl.LA == c13LaAbsent && (fl.SR == c13SrAbsent || fl.SR == c13SrRValid || fl.SR == c13SrRValidNoAddrs) &&
				(fl.PK == c13PkAbsent || fl.PK == c13PkR) && fl.OA == 0
			if !trivial {
				dist.add(c13TupleKey(dims, cs))
			}
			cmu.Lock()
			exec++
			cmu.Unlock()
			if fl.LA == c13LaMix && fl.SR > c13SrRValidNoAddrs && fl.PK > c13PkR && fl.PR == 1 && i%7 == 3 && smp.take() {
				r.Sample(map[string]any{"case_index": i, "tuple": c13Named(dims, cs), "outcome_for_R": oc, "findings": len(fs)})
			}
		})
		if err != nil {
			return err
		}
		return infra
	})
	_ = done
	r.Executions = exec
	r.Distinct = dist.n()
}

func c13Named(dims []c13Dim, cs map[string]int) map[string]string {
	out := map[string]string{}
	for _, d := range dims {
		v := cs[d.Name]
		if nn, ok := c13DimNames[d.Name]; ok && v < len(nn) {
			out[d.Name] = nn[v]
		} else {
			out[d.Name] = fmt.Sprint(v)
		}
	}
	return out
}

// ---------- caps ----------

var c13CapsNames = map[string][]string{
	"listenAddrs":           {"absent", "600 public addresses", "600 public addresses each with /p2p/R"},
	"signedPeerRecord":      {"absent", "R-valid with 600 public addresses", "R-valid mix (50 addresses)"},
	"protocols":             {"few", "1324 distinct (cap+300)", "3000 distinct"},
	"agent+protocolVersion": {"present", "4000 bytes each"},
	"conn_remote_addr":      c13RcNames,
	"arrives_as":            {"identify response", "identify push"},
	"peerstore":             c13PsNames,
	"R_known_before":        {"no", "yes"},
	"second_message":        {"none", "a second oversized message with disjoint addresses and protocols"},
	"consumed":              {"while connected", "after the connection closed and Disconnected was processed"},
}

func c13CapsDims() []c13Dim {
	d := []c13Dim{
		{"listenAddrs", c13Range(3)},
		{"signedPeerRecord", c13Range(3)},
		{"arrives_as", c13Range(2)},
		{"peerstore", []int{c13PsDefault, c13PsLarge}},
		{"R_known_before", c13Range(2)},
		{"second_message", c13Range(2)},
		{"consumed", c13Range(2)},
	}
	if vrep.Thorough() {
		d = append(d, c13Dim{"protocols", c13Range(3)}, c13Dim{"agent+protocolVersion", c13Range(2)}, c13Dim{"conn_remote_addr", []int{c13RcLoop, c13RcPub4}})
	} else {
		d = append(d, c13Dim{"protocols", c13Range(2)}, c13Dim{"agent+protocolVersion", []int{1}}, c13Dim{"conn_remote_addr", []int{c13RcPub4}})
	}
	return d
}

var (
	c13BigRecMu    sync.Mutex
	c13BigRecCache = map[string]*c13Rec{}
)

// c13BigRec: a valid record of R with n public addresses.
func c13BigRec(w *c13World, rt, tag, n int) *c13Rec {
	c13BigRecMu.Lock()
	defer c13BigRecMu.Unlock()
	k := fmt.Sprintf("%d/%d/%d", rt, tag, n)
	if r, ok := c13BigRecCache[k]; ok {
		return r
	}
	R := w.R[rt]
	carried, stored := c13ManyAddrs(R, tag, n, false)
	rec := &c13Rec{Valid: true, Origin: map[string]string{}, Allow: map[string]bool{}}
	for _, s := range stored {
		rec.Origin[s] = "record(R-valid-big)/suffix=none"
		rec.Allow[s] = true
	}
	rec.Bytes = c13Seal(&peer.PeerRecord{PeerID: R.ID, Seq: uint64(100 + tag), Addrs: carried}, R)
	c13BigRecCache[k] = rec
	return rec
}

func c13CapsMsg(w *c13World, rt int, cs map[string]int, round int, ex *c13Expect) *pb.Identify {
	R := w.R[rt]
	m := &pb.Identify{PublicKey: R.PubBytes}
	switch cs["listenAddrs"] {
	case 1, 2:
		carried, stored := c13ManyAddrs(R, 10+round, 600, cs["listenAddrs"] == 2)
		for i, a := range carried {
			m.ListenAddrs = append(m.ListenAddrs, a.Bytes())
			ex.Allowed[stored[i]] = true
			ex.Origin[stored[i]] = "listenAddrs(big)"
		}
	}
	switch cs["signedPeerRecord"] {
	case 1:
		rec := c13BigRec(w, rt, 20+round, 600)
		m.SignedPeerRecord = rec.Bytes
		ex.noteRec(rec)
	case 2:
		rec := c13GetRec(w, rt, c13SrRValid)
		m.SignedPeerRecord = rec.Bytes
		ex.noteRec(rec)
	}
	switch cs["protocols"] {
	case 0:
		m.Protocols = append([]string{}, c13FewProtos...)
	case 1:
		m.Protocols = c13ManyProtos(fmt.Sprintf("many%d", round), maxPeerProtocols+300)
	case 2:
		m.Protocols = c13ManyProtos(fmt.Sprintf("many%d", round), 3000)
	}
	if cs["agent+protocolVersion"] == 1 {
		m.AgentVersion = proto.String(strings.Repeat("A", 4000))
		m.ProtocolVersion = proto.String(strings.Repeat("P", 4000))
	} else {
		m.AgentVersion = proto.String("c13-agent")
		m.ProtocolVersion = proto.String("c13-proto/1")
	}
	ex.noteScalars(m)
	return m
}

// c13CarriedIn counts how many of the addresses are ones identify carried (ex.Allowed).
func c13CarriedIn(addrs []ma.Multiaddr, ex *c13Expect) (n int, sample string) {
	for _, a := range addrs {
		if ex.Allowed[string(a.Bytes())] {
			n++
			sample = a.String()
		}
	}
	return
}

const c13Eps = time.Minute + time.Second // one GC period of the address book and a bit

func TestVerifC13Caps(t *testing.T) {
	w := c13GetWorld(t)
	r := vrep.New("C13", "caps")
	defer r.Flush()
	dims := c13CapsDims()
	c13DimBounds(r, dims, c13CapsNames)
	n := c13Size(dims)
	r.Bounds["cases_total"] = n
	r.Bounds["caps_checked"] = fmt.Sprintf("protocols<=%d, addresses<=%d (+pre-existing), identify-carried addresses<=%d once the last disconnect was processed, none after RecentlyConnectedAddrTTL+%s",
		maxPeerProtocols, connectedPeerMaxAddrs, recentlyConnectedPeerMaxAddrs, c13Eps)
	const rt = 1 // RSA remote: key has to be learned from the message
	var dist c13Distinct
	rp := &c13Reporter{r: r}
	var exec int64
	var cmu sync.Mutex
	var smp c13Sampler
	c13Each(t, r, n, func(i int) error {
		cs := c13Decode(dims, i)
		var infra error
		err := c13Bubble(t, func() {
			f, c, nPre, err := c13Setup(w, cs["peerstore"], rt, cs["conn_remote_addr"], 0, cs["R_known_before"] == 1)
			if err != nil {
				infra = err
				return
			}
			defer f.close()
			R := w.R[rt]
			ex := c13NewExpect(R)
			ex.NPreR = nPre
			replay := map[string]any{"part": "caps", "case_index": i, "tuple": c13NamedWith(dims, cs, c13CapsNames)}
			f.net.notifyConnected(c) // remote refuses the identify stream: the automatic identify fails at once
			synctest.Wait()
			after1 := cs["consumed"] == 1
			if after1 {
				f.net.remove(c)
				f.net.notifyDisconnected(c)
				synctest.Wait()
			}
			also := c13PeersAlways(w, R)
			before := c13TakeSnap(f.ps, also)
			push := cs["arrives_as"] == 1
			f.ids.consumeMessage(c13CapsMsg(w, rt, cs, 0, ex), c, push)
			if cs["second_message"] == 1 {
				f.ids.consumeMessage(c13CapsMsg(w, rt, cs, 1, ex), c, true)
			}
			synctest.Wait()
			f.drain()
			after := c13TakeSnap(f.ps, also)
			rp.findings(c13Audit(w, before, after, ex, f.evs), replay)
			nA, nP := len(after[R.ID].Addrs), len(after[R.ID].Protos)
			if !after1 {
				f.net.remove(c)
				f.net.notifyDisconnected(c)
				synctest.Wait()
			}
			// the last connection is gone and its Disconnected was processed
			nRecent, _ := c13CarriedIn(f.ps.Addrs(R.ID), ex)
			if !after1 && nRecent > recentlyConnectedPeerMaxAddrs {
				r.Violate("recently-connected-cap-exceeded", fmt.Sprintf("%d identify-carried addresses retained for R after the last disconnect was processed (cap %d)", nRecent, recentlyConnectedPeerMaxAddrs), replay)
			}
			// a message consumed AFTER the last disconnect adds its addresses to a peer without connection: then the cap
			// is the default peerstore's per-peer cap on unconnected addresses (64 in this tree; the large peerstore of
			// the other configuration has none and is only bound by identify's own limit, checked by the audit above)
			if after1 && cs["peerstore"] == c13PsDefault && nRecent > c13DefaultUnconnectedCap {
				r.Violate("unconnected-peer-address-cap-exceeded", fmt.Sprintf("%d identify-carried addresses retained for R, to whom no connection exists (message consumed after the last disconnect; cap of the default peerstore %d)", nRecent, c13DefaultUnconnectedCap), replay)
			}
			time.Sleep(peerstore.RecentlyConnectedAddrTTL + c13Eps)
			synctest.Wait()
			if left, smp := c13CarriedIn(f.ps.Addrs(R.ID), ex); left > 0 {
				r.Violate("identified-addrs-outlive-finite-lifetime/"+c13CapsNames["consumed"][cs["consumed"]],
					fmt.Sprintf("%d identify-carried addresses of R (e.g. %s) are still returned %s after the last connection closed", left, smp, peerstore.RecentlyConnectedAddrTTL+c13Eps), replay)
			}
			oc := fmt.Sprintf("addrs:%s protos:%s recent:%s", c13Bucket(nA, connectedPeerMaxAddrs+nPre), c13Bucket(nP, maxPeerProtocols), c13Bucket2(nRecent, recentlyConnectedPeerMaxAddrs))
			r.Outcome(oc)
			dist.add(c13TupleKey(dims, cs))
			cmu.Lock()
			exec++
			cmu.Unlock()
			if cs["second_message"] == 1 && cs["listenAddrs"] != 0 && cs["protocols"] != 0 && smp.take() {
				r.Sample(map[string]any{"case_index": i, "tuple": c13NamedWith(dims, cs, c13CapsNames), "addrs_after": nA, "protocols_after": nP, "identify_carried_addrs_after_disconnect": nRecent})
			}
		})
		if err != nil {
			return err
		}
		return infra
	})
	r.Executions = exec
	r.Distinct = dist.n()
}

// c13Bucket2 does not separate "<cap" from "=cap": which 20 addresses Disconnected keeps depends on map order
// (a pre-existing non-identify address may be among them), the histogram must not.
// c13DefaultUnconnectedCap: pstoremem's defaultMaxAddrsPerPeer (unexported there).
const c13DefaultUnconnectedCap = 64

func c13Bucket2(n, cap int) string {
	switch {
	case n == 0:
		return "0"
	case n <= cap:
		return "<=cap"
	}
	return ">cap"
}

func c13Bucket(n, cap int) string {
	switch {
	case n == 0:
		return "0"
	case n < cap:
		return "<cap"
	case n == cap:
		return "=cap"
	}
	return ">cap"
}

func c13NamedWith(dims []c13Dim, cs map[string]int, names map[string][]string) map[string]string {
	out := map[string]string{}
	for _, d := range dims {
		v := cs[d.Name]
		if nn, ok := names[d.Name]; ok && v < len(nn) {
			out[d.Name] = nn[v]
		} else {
			out[d.Name] = fmt.Sprint(v)
		}
	}
	return out
}
