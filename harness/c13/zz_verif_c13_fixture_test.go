//go:build verif

package identify

// C13 fixture: a REAL idService on a REAL blank host (real event bus, real multistream muxer, real
// pstoremem peerstore) whose network.Network is a harness-controlled fake: the harness decides which
// connections exist (Connectedness is computed from them exactly as the swarm does: an open non-limited
// connection => Connected, only limited ones => Limited, none => NotConnected), when the Connected /
// Disconnected notifications are delivered (the swarm removes a connection from its table BEFORE it
// dispatches Disconnected; the fake keeps that order and makes the gap between the two an explicit
// position in a history), and every byte the remote side sends on every stream.
//
// Everything runs inside a testing/synctest bubble: time.Now (address expiry, stream deadlines, the
// address book's GC ticker) is virtual and is stepped with time.Sleep by the harness.

import (
	"context"
	"crypto/sha256"
	"encoding/binary"
	"encoding/json"
	"errors"
	"fmt"
	"io"
	"log/slog"
	"os"
	"runtime"
	"sort"
	"sync"
	"sync/atomic"
	"testing"
	"testing/synctest"
	"time"

	"github.com/libp2p/go-libp2p/core/crypto"
	"github.com/libp2p/go-libp2p/core/event"
	"github.com/libp2p/go-libp2p/core/network"
	"github.com/libp2p/go-libp2p/core/peer"
	"github.com/libp2p/go-libp2p/core/peerstore"
	"github.com/libp2p/go-libp2p/core/protocol"
	logging "github.com/libp2p/go-libp2p/gologshim"
	blankhost "github.com/libp2p/go-libp2p/p2p/host/blank"
	"github.com/libp2p/go-libp2p/p2p/host/eventbus"
	"github.com/libp2p/go-libp2p/p2p/host/peerstore/pstoremem"
	"github.com/libp2p/go-libp2p/x/verif/vrep"

	ma "github.com/multiformats/go-multiaddr"
)

func init() {
	// identify and the peerstore log every rejected key / record / address at warn or error level; the
	// enumeration would produce gigabytes of it.
	logging.SetDefaultHandler(slog.DiscardHandler)
	log = slog.New(slog.DiscardHandler)
}

// ---------- deterministic identities ----------

// c13Stream is SHA-256 in counter mode over (VERIF_SEED, label). One-byte reads return a constant and do not
// advance the stream (crypto/internal/randutil.MaybeReadByte would otherwise make RSA/ECDSA generation
// depend on a coin flip).
type c13Stream struct {
	seed [32]byte
	ctr  uint64
	buf  []byte
}

func c13NewStream(label string) *c13Stream {
	return &c13Stream{seed: sha256.Sum256([]byte(fmt.Sprintf("verif-c13/seed=%d/%s", vrep.Seed(), label)))}
}

func (s *c13Stream) Read(p []byte) (int, error) {
	if len(p) == 1 {
		p[0] = 0
		return 1, nil
	}
	for i := range p {
		if len(s.buf) == 0 {
			var c [8]byte
			binary.BigEndian.PutUint64(c[:], s.ctr)
			s.ctr++
			h := sha256.Sum256(append(append([]byte{}, s.seed[:]...), c[:]...))
			s.buf = h[:]
		}
		p[i] = s.buf[0]
		s.buf = s.buf[1:]
	}
	return len(p), nil
}

type c13Key struct {
	Name     string
	Typ      int
	Priv     crypto.PrivKey
	Pub      crypto.PubKey
	ID       peer.ID
	PubBytes []byte
}

func c13TypeName(typ int) string {
	switch typ {
	case crypto.Ed25519:
		return "ed25519"
	case crypto.Secp256k1:
		return "secp256k1"
	case crypto.ECDSA:
		return "ecdsa"
	case crypto.RSA:
		return "rsa2048"
	}
	return fmt.Sprint("type", typ)
}

func c13GenKey(typ, idx int) (*c13Key, error) {
	name := fmt.Sprintf("%s#%d", c13TypeName(typ), idx)
	src := c13NewStream("key/" + name)
	var priv crypto.PrivKey
	var pub crypto.PubKey
	var err error
	switch typ {
	case crypto.Secp256k1:
		b := make([]byte, 32)
		src.Read(b)
		priv, err = crypto.UnmarshalSecp256k1PrivateKey(b)
		if err == nil {
			pub = priv.GetPublic()
		}
	default:
		priv, pub, err = crypto.GenerateKeyPairWithReader(typ, 2048, src)
	}
	if err != nil {
		return nil, fmt.Errorf("generate %s: %w", name, err)
	}
	k := &c13Key{Name: name, Typ: typ, Priv: priv, Pub: pub}
	if k.PubBytes, err = crypto.MarshalPublicKey(pub); err != nil {
		return nil, err
	}
	if k.ID, err = peer.IDFromPublicKey(pub); err != nil {
		return nil, err
	}
	return k, nil
}

// c13World: the identities of every execution. L = the local (victim) host, R = the authenticated remote
// of the connection (one per key type), O = another peer L knows a lot about (inline ed25519 ID), O2 =
// another peer whose ID is a SHA-256 hash (RSA) and whose key L does NOT know, X = a peer L has never heard
// of, Relay = the relay named in circuit addresses.
type c13World struct {
	L, O, O2, X, Relay *c13Key
	R                  []*c13Key // one per key type, order of c13RTypes
}

var c13RTypes = []int{crypto.Ed25519, crypto.RSA, crypto.ECDSA, crypto.Secp256k1}

var (
	c13WorldOnce sync.Once
	c13WorldVal  *c13World
	c13WorldErr  error
)

func c13GetWorld(t testing.TB) *c13World {
	c13WorldOnce.Do(func() {
		w := &c13World{}
		mk := func(dst **c13Key, typ, idx int) {
			if c13WorldErr != nil {
				return
			}
			*dst, c13WorldErr = c13GenKey(typ, idx)
		}
		mk(&w.L, crypto.Ed25519, 0)
		mk(&w.O, crypto.Ed25519, 1)
		mk(&w.Relay, crypto.Ed25519, 2)
		mk(&w.O2, crypto.RSA, 0)
		mk(&w.X, crypto.ECDSA, 0)
		w.R = make([]*c13Key, len(c13RTypes))
		for i, typ := range c13RTypes {
			mk(&w.R[i], typ, 7)
		}
		c13WorldVal = w
	})
	if c13WorldErr != nil {
		t.Fatalf("c13: infrastructure: cannot build identities: %v", c13WorldErr)
	}
	return c13WorldVal
}

func (w *c13World) name(p peer.ID) string {
	switch p {
	case w.L.ID:
		return "L"
	case w.O.ID:
		return "O"
	case w.O2.ID:
		return "O2"
	case w.X.ID:
		return "X"
	case w.Relay.ID:
		return "Relay"
	}
	for i, r := range w.R {
		if r.ID == p {
			return "R(" + c13TypeName(c13RTypes[i]) + ")"
		}
	}
	return "unknown:" + p.String()
}

// ---------- fake network ----------

type c13Net struct {
	mu      sync.Mutex
	local   peer.ID
	ps      peerstore.Peerstore
	conns   []*c13Conn // open connections, oldest first (the swarm keeps that order)
	notifs  []network.Notifiee
	handler network.StreamHandler
	listen  []ma.Multiaddr
	nextID  int
}

var _ network.Network = (*c13Net)(nil)

func (n *c13Net) Peerstore() peerstore.Peerstore { return n.ps }
func (n *c13Net) LocalPeer() peer.ID             { return n.local }
func (n *c13Net) DialPeer(context.Context, peer.ID) (network.Conn, error) {
	return nil, errors.New("c13: the fake network does not dial")
}
func (n *c13Net) ClosePeer(peer.ID) error { return nil }
func (n *c13Net) Connectedness(p peer.ID) network.Connectedness {
	n.mu.Lock()
	defer n.mu.Unlock()
	limited := false
	for _, c := range n.conns {
		if c.remote != p || c.IsClosed() {
			continue
		}
		if c.limited {
			limited = true
		} else {
			return network.Connected
		}
	}
	if limited {
		return network.Limited
	}
	return network.NotConnected
}
func (n *c13Net) Peers() []peer.ID {
	n.mu.Lock()
	defer n.mu.Unlock()
	var out []peer.ID
	seen := map[peer.ID]bool{}
	for _, c := range n.conns {
		if !seen[c.remote] {
			seen[c.remote] = true
			out = append(out, c.remote)
		}
	}
	return out
}
func (n *c13Net) Conns() []network.Conn {
	n.mu.Lock()
	defer n.mu.Unlock()
	out := make([]network.Conn, 0, len(n.conns))
	for _, c := range n.conns {
		out = append(out, c)
	}
	return out
}
func (n *c13Net) ConnsToPeer(p peer.ID) []network.Conn {
	n.mu.Lock()
	defer n.mu.Unlock()
	var out []network.Conn
	for _, c := range n.conns {
		if c.remote == p {
			out = append(out, c)
		}
	}
	return out
}
func (n *c13Net) Notify(f network.Notifiee) {
	n.mu.Lock()
	n.notifs = append(n.notifs, f)
	n.mu.Unlock()
}
func (n *c13Net) StopNotify(f network.Notifiee) {
	n.mu.Lock()
	for i, x := range n.notifs {
		if x == f {
			n.notifs = append(n.notifs[:i:i], n.notifs[i+1:]...)
			break
		}
	}
	n.mu.Unlock()
}
func (n *c13Net) CanDial(peer.ID, ma.Multiaddr) bool { return false }
func (n *c13Net) Close() error                       { return nil }
func (n *c13Net) SetStreamHandler(h network.StreamHandler) {
	n.mu.Lock()
	n.handler = h
	n.mu.Unlock()
}
func (n *c13Net) NewStream(context.Context, peer.ID) (network.Stream, error) {
	return nil, errors.New("c13: the fake network does not open streams by peer")
}
func (n *c13Net) Listen(...ma.Multiaddr) error                      { return nil }
func (n *c13Net) ListenAddresses() []ma.Multiaddr                   { return n.listen }
func (n *c13Net) InterfaceListenAddresses() ([]ma.Multiaddr, error) { return n.listen, nil }
func (n *c13Net) ResourceManager() network.ResourceManager          { return &network.NullResourceManager{} }
func (n *c13Net) notifiees() []network.Notifiee {
	n.mu.Lock()
	defer n.mu.Unlock()
	return append([]network.Notifiee{}, n.notifs...)
}

// add registers an open connection in the table (what swarm.addConn does before it notifies).
func (n *c13Net) add(c *c13Conn) {
	n.mu.Lock()
	n.conns = append(n.conns, c)
	n.mu.Unlock()
}

// notifyConnected delivers Connected to every notifiee, synchronously, as the swarm's emitter does.
func (n *c13Net) notifyConnected(c *c13Conn) {
	for _, f := range n.notifiees() {
		f.Connected(n, c)
	}
}

// remove takes the connection out of the table and marks it closed; its streams are reset (swarm
// Conn.doClose: removeConn, close, reset streams - all before Disconnected is dispatched).
func (n *c13Net) remove(c *c13Conn) {
	n.mu.Lock()
	for i, x := range n.conns {
		if x == c {
			n.conns = append(n.conns[:i:i], n.conns[i+1:]...)
			break
		}
	}
	n.mu.Unlock()
	if !c.closed.Swap(true) && c.closedCh != nil {
		close(c.closedCh)
	}
	c.resetStreams()
}

func (n *c13Net) notifyDisconnected(c *c13Conn) {
	for _, f := range n.notifiees() {
		f.Disconnected(n, c)
	}
}

// inbound hands a remotely opened stream to the host's stream handler (multistream negotiation and the
// protocol handler run for real), in a new goroutine as the swarm does.
func (n *c13Net) inbound(s *c13Strm) {
	n.mu.Lock()
	h := n.handler
	n.mu.Unlock()
	if h != nil {
		go h(s)
	}
}

// ---------- fake connection ----------

// c13Script is what the remote side does when the local side opens a stream on the connection.
type c13Script func(c *c13Conn) (*c13Strm, error)

type c13Conn struct {
	net     *c13Net
	id      string
	local   peer.ID
	remote  peer.ID
	laddr   ma.Multiaddr
	raddr   ma.Multiaddr
	limited bool
	dir     network.Direction
	closed  atomic.Bool
	script  c13Script
	// blockOpen: the remote never acknowledges a new stream (a muxer whose stream-open waits for the remote, e.g.
	// yamux with its backlog of unacknowledged streams full): NewStream returns when its context ends or the
	// connection closes, not before
	blockOpen bool
	closedCh  chan struct{}

	mu      sync.Mutex
	streams []*c13Strm
	opened  int
}

var _ network.Conn = (*c13Conn)(nil)

func (n *c13Net) newConn(remote peer.ID, laddr, raddr ma.Multiaddr, limited bool, script c13Script) *c13Conn {
	n.mu.Lock()
	n.nextID++
	id := n.nextID
	n.mu.Unlock()
	return &c13Conn{net: n, id: fmt.Sprintf("c%d", id), local: n.local, remote: remote, laddr: laddr, raddr: raddr,
		limited: limited, dir: network.DirOutbound, script: script, closedCh: make(chan struct{})}
}

func (c *c13Conn) Close() error                               { c.net.remove(c); return nil }
func (c *c13Conn) CloseWithError(network.ConnErrorCode) error { return c.Close() }
func (c *c13Conn) LocalPeer() peer.ID                         { return c.local }
func (c *c13Conn) RemotePeer() peer.ID                        { return c.remote }
func (c *c13Conn) RemotePublicKey() crypto.PubKey             { return nil }
func (c *c13Conn) ConnState() network.ConnectionState         { return network.ConnectionState{} }
func (c *c13Conn) LocalMultiaddr() ma.Multiaddr               { return c.laddr }
func (c *c13Conn) RemoteMultiaddr() ma.Multiaddr              { return c.raddr }
func (c *c13Conn) Stat() network.ConnStats {
	return network.ConnStats{Stats: network.Stats{Direction: c.dir, Limited: c.limited}}
}
func (c *c13Conn) Scope() network.ConnScope { return &network.NullScope{} }
func (c *c13Conn) ID() string               { return c.id }
func (c *c13Conn) NewStream(ctx context.Context) (network.Stream, error) {
	if c.closed.Load() {
		return nil, network.ErrReset
	}
	c.mu.Lock()
	c.opened++
	c.mu.Unlock()
	if c.blockOpen {
		select {
		case <-ctx.Done():
			return nil, ctx.Err()
		case <-c.closedCh:
			return nil, network.ErrReset
		}
	}
	if c.script == nil {
		return nil, errors.New("c13: remote refuses streams")
	}
	s, err := c.script(c)
	if err != nil || s == nil {
		if err == nil {
			err = errors.New("c13: remote refuses streams")
		}
		return nil, err
	}
	return s, nil
}
func (c *c13Conn) GetStreams() []network.Stream { return nil }
func (c *c13Conn) IsClosed() bool               { return c.closed.Load() }
func (c *c13Conn) As(any) bool                  { return false }
func (c *c13Conn) String() string               { return "c13conn-" + c.id }

func (c *c13Conn) track(s *c13Strm) {
	c.mu.Lock()
	c.streams = append(c.streams, s)
	c.mu.Unlock()
}

func (c *c13Conn) resetStreams() {
	c.mu.Lock()
	ss := append([]*c13Strm{}, c.streams...)
	c.mu.Unlock()
	for _, s := range ss {
		if !s.detached {
			s.Reset()
		}
	}
}

// ---------- fake stream ----------

// c13Strm: the read side replays a byte script (optionally at most `gran` bytes per Read), then reports EOF
// or - depending on tail - blocks until the read deadline / fails with a stream reset; `gated` holds everything back until release().
// The write side is a sink. Deadlines run on bubble time.
type c13Strm struct {
	conn     *c13Conn
	mu       sync.Mutex
	wake     chan struct{}
	data     []byte
	gran     int
	tail     int  // after the data: c13TailEOF, c13TailStall (block until the deadline), c13TailReset
	gated    bool // nothing is readable before release()
	detached bool // not reset when the connection closes (models bytes that were already received)
	reset    bool
	rclosed  bool
	wclosed  bool
	closed   bool
	rdl      time.Time
	proto    protocol.ID
	written  int
}

var _ network.Stream = (*c13Strm)(nil)

const (
	c13TailEOF = iota
	c13TailStall
	c13TailReset
)

var c13TailNames = []string{"EOF", "stall until the deadline", "reset"}

func (c *c13Conn) newStrm(data []byte) *c13Strm {
	s := &c13Strm{conn: c, wake: make(chan struct{}), data: data}
	c.track(s)
	return s
}

func (s *c13Strm) broadcast() {
	close(s.wake)
	s.wake = make(chan struct{})
}

func (s *c13Strm) release() {
	s.mu.Lock()
	s.gated = false
	s.broadcast()
	s.mu.Unlock()
}

func (s *c13Strm) Read(p []byte) (int, error) {
	if len(p) == 0 {
		return 0, nil
	}
	for {
		s.mu.Lock()
		if s.reset {
			s.mu.Unlock()
			return 0, network.ErrReset
		}
		if s.rclosed || s.closed {
			s.mu.Unlock()
			return 0, io.EOF
		}
		if !s.gated {
			if len(s.data) > 0 {
				n := len(p)
				if s.gran > 0 && n > s.gran {
					n = s.gran
				}
				n = copy(p[:n], s.data)
				s.data = s.data[n:]
				s.mu.Unlock()
				return n, nil
			}
			if s.tail == c13TailEOF {
				s.mu.Unlock()
				return 0, io.EOF
			}
			if s.tail == c13TailReset {
				s.mu.Unlock()
				return 0, network.ErrReset
			}
		}
		dl, w := s.rdl, s.wake
		s.mu.Unlock()
		if dl.IsZero() {
			<-w
			continue
		}
		d := time.Until(dl)
		if d <= 0 {
			return 0, os.ErrDeadlineExceeded
		}
		tm := time.NewTimer(d)
		select {
		case <-w:
			tm.Stop()
		case <-tm.C:
			return 0, os.ErrDeadlineExceeded
		}
	}
}

func (s *c13Strm) Write(p []byte) (int, error) {
	s.mu.Lock()
	defer s.mu.Unlock()
	if s.reset {
		return 0, network.ErrReset
	}
	if s.wclosed || s.closed {
		return 0, errors.New("c13: write on closed stream")
	}
	s.written += len(p)
	return len(p), nil
}

func (s *c13Strm) Close() error {
	s.mu.Lock()
	s.closed = true
	s.broadcast()
	s.mu.Unlock()
	return nil
}
func (s *c13Strm) CloseWrite() error {
	s.mu.Lock()
	s.wclosed = true
	s.mu.Unlock()
	return nil
}
func (s *c13Strm) CloseRead() error {
	s.mu.Lock()
	s.rclosed = true
	s.broadcast()
	s.mu.Unlock()
	return nil
}
func (s *c13Strm) Reset() error {
	s.mu.Lock()
	s.reset = true
	s.broadcast()
	s.mu.Unlock()
	return nil
}
func (s *c13Strm) ResetWithError(network.StreamErrorCode) error { return s.Reset() }
func (s *c13Strm) SetDeadline(t time.Time) error                { return s.SetReadDeadline(t) }
func (s *c13Strm) SetReadDeadline(t time.Time) error {
	s.mu.Lock()
	s.rdl = t
	s.broadcast()
	s.mu.Unlock()
	return nil
}
func (s *c13Strm) SetWriteDeadline(time.Time) error { return nil }
func (s *c13Strm) ID() string                       { return s.conn.id + "-s" }
func (s *c13Strm) Protocol() protocol.ID {
	s.mu.Lock()
	defer s.mu.Unlock()
	return s.proto
}
func (s *c13Strm) SetProtocol(id protocol.ID) error {
	s.mu.Lock()
	s.proto = id
	s.mu.Unlock()
	return nil
}
func (s *c13Strm) Stat() network.Stats        { return network.Stats{Direction: network.DirOutbound} }
func (s *c13Strm) Conn() network.Conn         { return s.conn }
func (s *c13Strm) Scope() network.StreamScope { return &network.NullScope{} }
func (s *c13Strm) finished() bool {
	s.mu.Lock()
	defer s.mu.Unlock()
	return s.closed || s.reset
}

// ---------- wire helpers ----------

func c13Varint(n int) []byte { return binary.AppendUvarint(nil, uint64(n)) }

// c13MsToken is one multistream-select token: varint length, text, newline.
func c13MsToken(s string) []byte {
	return append(c13Varint(len(s)+1), append([]byte(s), '\n')...)
}

// c13MsPrefix is what the remote side of a multistream negotiation for proto sends: as responder (our
// outbound identify request) the echo of header and protocol, as initiator (an inbound push) the same bytes.
func c13MsPrefix(proto protocol.ID) []byte {
	return append(c13MsToken("/multistream/1.0.0"), c13MsToken(string(proto))...)
}

// c13Frame is one length-delimited protobuf chunk.
func c13Frame(b []byte) []byte { return append(c13Varint(len(b)), b...) }

// ---------- peerstore variants ----------

const (
	c13PsDefault  = iota // pstoremem with its defaults (128 protocols, 64 unconnected addresses per peer)
	c13PsLarge           // pstoremem with its own caps lifted: identify's caps are the only ones
	c13PsTrusting        // c13PsLarge + a key book that stores whatever key it is given (no re-validation)
	c13PsModes
)

var c13PsNames = []string{"pstoremem-default", "pstoremem-large-caps", "pstoremem-large-caps+trusting-keybook"}

// c13TrustingPS wraps the real pstoremem; only AddPubKey/PubKey/PeersWithKeys are changed: keys are stored
// without comparing them with the peer ID. peerstore.KeyBook does not promise that AddPubKey validates
// (pstoremem and pstoreds happen to); with this variant identify's own check in consumeReceivedPubKey is
// the only thing between a forged key and the key book.
type c13TrustingPS struct {
	peerstore.Peerstore
	peerstore.CertifiedAddrBook
	mu     sync.Mutex
	forced map[peer.ID]crypto.PubKey
}

func (t *c13TrustingPS) AddPubKey(p peer.ID, k crypto.PubKey) error {
	t.mu.Lock()
	t.forced[p] = k
	t.mu.Unlock()
	return nil
}
func (t *c13TrustingPS) PubKey(p peer.ID) crypto.PubKey {
	t.mu.Lock()
	k := t.forced[p]
	t.mu.Unlock()
	if k != nil {
		return k
	}
	return t.Peerstore.PubKey(p)
}
func (t *c13TrustingPS) PeersWithKeys() peer.IDSlice {
	out := t.Peerstore.PeersWithKeys()
	seen := map[peer.ID]bool{}
	for _, p := range out {
		seen[p] = true
	}
	t.mu.Lock()
	for p := range t.forced {
		if !seen[p] {
			out = append(out, p)
		}
	}
	t.mu.Unlock()
	return out
}
func (t *c13TrustingPS) Peers() peer.IDSlice {
	out := t.Peerstore.Peers()
	seen := map[peer.ID]bool{}
	for _, p := range out {
		seen[p] = true
	}
	for _, p := range t.PeersWithKeys() {
		if !seen[p] {
			out = append(out, p)
		}
	}
	return out
}

func c13NewPeerstore(mode int) (peerstore.Peerstore, error) {
	var opts []pstoremem.Option
	if mode != c13PsDefault {
		opts = append(opts, pstoremem.WithMaxProtocols(1<<20), pstoremem.WithMaxAddressesPerPeer(0))
	}
	ps, err := pstoremem.NewPeerstore(opts...)
	if err != nil {
		return nil, err
	}
	if mode == c13PsTrusting {
		cab, ok := peerstore.GetCertifiedAddrBook(ps)
		if !ok {
			ps.Close()
			return nil, errors.New("pstoremem is not a CertifiedAddrBook")
		}
		return &c13TrustingPS{Peerstore: ps, CertifiedAddrBook: cab, forced: map[peer.ID]crypto.PubKey{}}, nil
	}
	return ps, nil
}

// ---------- the fixture ----------

type c13Fix struct {
	w    *c13World
	ps   peerstore.Peerstore
	net  *c13Net
	host *blankhost.BlankHost
	ids  *idService
	sub  event.Subscription
	evs  []any
}

var (
	c13LAddrPub  = ma.StringCast("/ip4/9.9.9.9/tcp/4001")
	c13LAddrPriv = ma.StringCast("/ip4/192.168.7.7/tcp/4001")
	c13LAddrLoop = ma.StringCast("/ip4/127.0.0.1/tcp/4001")
)

// c13NewFix builds L. Must be called inside a bubble. Errors are infrastructure failures.
func c13NewFix(w *c13World, psMode int, opts ...Option) (*c13Fix, error) {
	ps, err := c13NewPeerstore(psMode)
	if err != nil {
		return nil, err
	}
	if err := ps.AddPrivKey(w.L.ID, w.L.Priv); err != nil {
		return nil, err
	}
	if err := ps.AddPubKey(w.L.ID, w.L.Pub); err != nil {
		return nil, err
	}
	n := &c13Net{local: w.L.ID, ps: ps, listen: []ma.Multiaddr{c13LAddrPub, c13LAddrPriv, c13LAddrLoop}}
	h := blankhost.NewBlankHost(n, blankhost.WithEventBus(eventbus.NewBus()))
	if h == nil {
		return nil, errors.New("blank host construction failed")
	}
	ids, err := NewIDService(h, opts...)
	if err != nil {
		return nil, err
	}
	ids.Start()
	sub, err := h.EventBus().Subscribe([]any{&event.EvtPeerIdentificationCompleted{}, &event.EvtPeerIdentificationFailed{},
		&event.EvtPeerProtocolsUpdated{}}, eventbus.BufSize(256))
	if err != nil {
		return nil, err
	}
	return &c13Fix{w: w, ps: ps, net: n, host: h, ids: ids, sub: sub}, nil
}

// drain collects the identify events emitted so far.
func (f *c13Fix) drain() {
	for {
		select {
		case e, ok := <-f.sub.Out():
			if !ok {
				return
			}
			f.evs = append(f.evs, e)
		default:
			return
		}
	}
}

func (f *c13Fix) close() {
	for _, c := range f.net.Conns() {
		c.(*c13Conn).resetStreams()
	}
	f.ids.Close()
	f.sub.Close()
	f.host.Close()
	f.ps.Close()
	synctest.Wait()
}

// ---------- peerstore snapshot (all peers, all books), read path only ----------

type c13PeerSnap struct {
	Addrs  []string
	Protos []string
	Agent  string
	PVer   string
	Pub    string
	Priv   bool
	Rec    string
}

const c13None = "\x00<none>"

func c13SnapPeer(ps peerstore.Peerstore, p peer.ID) *c13PeerSnap {
	s := &c13PeerSnap{}
	for _, a := range ps.Addrs(p) {
		s.Addrs = append(s.Addrs, string(a.Bytes()))
	}
	sort.Strings(s.Addrs)
	protos, _ := ps.GetProtocols(p)
	for _, x := range protos {
		s.Protos = append(s.Protos, string(x))
	}
	sort.Strings(s.Protos)
	meta := func(k string) string {
		v, err := ps.Get(p, k)
		if err != nil {
			return c13None
		}
		return fmt.Sprintf("%T:%v", v, v)
	}
	s.Agent, s.PVer = meta("AgentVersion"), meta("ProtocolVersion")
	if k := ps.PubKey(p); k != nil {
		if b, err := crypto.MarshalPublicKey(k); err == nil {
			s.Pub = string(b)
		} else {
			s.Pub = "unmarshalable:" + err.Error()
		}
	}
	s.Priv = ps.PrivKey(p) != nil
	if cab, ok := peerstore.GetCertifiedAddrBook(ps); ok {
		if env := cab.GetPeerRecord(p); env != nil {
			if b, err := env.Marshal(); err == nil {
				s.Rec = string(b)
			} else {
				s.Rec = "unmarshalable:" + err.Error()
			}
		}
	}
	return s
}

type c13Snap map[peer.ID]*c13PeerSnap

// c13TakeSnap snapshots every peer the peerstore lists plus the given ones (a peer with only protocols or
// metadata is not listed by Peers()).
func c13TakeSnap(ps peerstore.Peerstore, also []peer.ID) c13Snap {
	out := c13Snap{}
	for _, p := range also {
		out[p] = c13SnapPeer(ps, p)
	}
	for _, p := range ps.Peers() {
		if _, ok := out[p]; !ok {
			out[p] = c13SnapPeer(ps, p)
		}
	}
	return out
}

func c13StrSet(l []string) map[string]bool {
	m := make(map[string]bool, len(l))
	for _, s := range l {
		m[s] = true
	}
	return m
}

func c13EqStrs(a, b []string) bool {
	if len(a) != len(b) {
		return false
	}
	for i := range a {
		if a[i] != b[i] {
			return false
		}
	}
	return true
}

// diff describes how the entry of one peer changed ("" = unchanged).
func (a *c13PeerSnap) diff(b *c13PeerSnap) string {
	if a == nil {
		a = &c13PeerSnap{Agent: c13None, PVer: c13None}
	}
	if b == nil {
		b = &c13PeerSnap{Agent: c13None, PVer: c13None}
	}
	var d []string
	if !c13EqStrs(a.Addrs, b.Addrs) {
		d = append(d, fmt.Sprintf("addrs %v -> %v", c13Trunc(c13ShowAddrs(a.Addrs)), c13Trunc(c13ShowAddrs(b.Addrs))))
	}
	if !c13EqStrs(a.Protos, b.Protos) {
		d = append(d, fmt.Sprintf("protocols %v -> %v", c13Trunc(a.Protos), c13Trunc(b.Protos)))
	}
	if a.Agent != b.Agent {
		d = append(d, fmt.Sprintf("AgentVersion %.40q -> %.40q", a.Agent, b.Agent))
	}
	if a.PVer != b.PVer {
		d = append(d, fmt.Sprintf("ProtocolVersion %.40q -> %.40q", a.PVer, b.PVer))
	}
	if a.Pub != b.Pub {
		d = append(d, fmt.Sprintf("public key %x.. -> %x..", c13Head(a.Pub), c13Head(b.Pub)))
	}
	if a.Priv != b.Priv {
		d = append(d, "private key presence changed")
	}
	if a.Rec != b.Rec {
		d = append(d, fmt.Sprintf("certified record %d bytes -> %d bytes", len(a.Rec), len(b.Rec)))
	}
	if len(d) == 0 {
		return ""
	}
	return fmt.Sprint(d)
}

func c13Trunc(l []string) []string {
	if len(l) > 8 {
		return append(append([]string{}, l[:8]...), fmt.Sprintf("... %d more", len(l)-8))
	}
	return l
}

func c13Head(s string) string {
	if len(s) > 12 {
		return s[:12]
	}
	return s
}

// ---------- running cases ----------

// c13Bubble runs f in a fresh synctest bubble. A panic (of the harness, of the code under test, or the
// bubble's leaked-goroutine report) is returned as an error: it is an infrastructure problem, not a verdict.
func c13Bubble(t *testing.T, f func()) (err error) {
	defer func() {
		if r := recover(); r != nil {
			err = fmt.Errorf("panic in bubble: %v", r)
		}
	}()
	synctest.Test(t, func(*testing.T) {
		defer func() {
			if r := recover(); r != nil {
				err = fmt.Errorf("panic in bubble body: %v", r)
			}
		}()
		f()
	})
	return err
}

// c13Each runs run(i) for every i in [0,n) that belongs to this shard, on a few goroutines, until the
// deadline. It returns how many were run. infra collects infrastructure errors (no verdict).
func c13Each(t *testing.T, r *vrep.Result, n int, run func(i int) error) int64 {
	si, sn := vrep.Shard()
	if rp := vrep.ReplayPath(); rp != "" {
		// check.py C13 --replay <file> [--tier as recorded in the file]: re-run exactly that case
		idx, ok := c13ReplayIndex(rp, r.Part)
		if ok && si == 0 && idx >= 0 && idx < n {
			if err := run(idx); err != nil {
				t.Errorf("c13: infrastructure problem replaying case %d: %v", idx, err)
			}
			r.Note("replayed case %d of part %s (%d violations)", idx, r.Part, r.NViolations)
			return 1
		}
		return 0
	}
	workers := c13Workers()
	var next atomic.Int64
	var done atomic.Int64
	var capped atomic.Bool
	var wg sync.WaitGroup
	var emu sync.Mutex
	nerr := 0
	dl := vrep.Deadline()
	for w := 0; w < workers; w++ {
		wg.Add(1)
		go func() {
			defer wg.Done()
			for {
				k := int(next.Add(1) - 1)
				i := k*sn + si
				if i >= n {
					return
				}
				if k%64 == 0 && time.Now().After(dl) {
					capped.Store(true)
					return
				}
				if capped.Load() {
					return
				}
				if err := run(i); err != nil {
					emu.Lock()
					nerr++
					if nerr <= 5 {
						t.Errorf("c13: infrastructure problem in case %d (no verdict): %v", i, err)
					}
					emu.Unlock()
				}
				done.Add(1)
			}
		}()
	}
	wg.Wait()
	if capped.Load() {
		r.Cap("deadline reached after %d of this shard's cases", done.Load())
	}
	if nerr > 0 {
		r.Cap("%d cases ended with an infrastructure error (no verdict for them)", nerr)
	}
	return done.Load()
}

func c13ReplayIndex(path, part string) (int, bool) {
	b, err := os.ReadFile(path)
	if err != nil {
		return 0, false
	}
	var f struct {
		Part   string `json:"part"`
		Replay struct {
			Part  string `json:"part"`
			Index *int   `json:"case_index"`
		} `json:"replay"`
	}
	if json.Unmarshal(b, &f) != nil || f.Replay.Index == nil || f.Replay.Part != part {
		return 0, false
	}
	return *f.Replay.Index, true
}

func c13Workers() int {
	if s := os.Getenv("VERIF_C13_WORKERS"); s != "" {
		var n int
		fmt.Sscan(s, &n)
		if n > 0 {
			return n
		}
	}
	n := runtime.GOMAXPROCS(0)
	if n > 4 {
		n = 4
	}
	return n
}

// c13Distinct counts distinct case keys (FNV-1a 64 of the key string).
type c13Distinct struct {
	mu sync.Mutex
	m  map[uint64]struct{}
}

func (d *c13Distinct) add(k string) {
	h := uint64(14695981039346656037)
	for i := 0; i < len(k); i++ {
		h ^= uint64(k[i])
		h *= 1099511628211
	}
	d.mu.Lock()
	if d.m == nil {
		d.m = map[uint64]struct{}{}
	}
	d.m[h] = struct{}{}
	d.mu.Unlock()
}

func (d *c13Distinct) n() int64 {
	d.mu.Lock()
	defer d.mu.Unlock()
	return int64(len(d.m))
}

// c13Sampler hands out a few sample slots per part (the evidence keeps 12 samples over all parts).
type c13Sampler struct {
	mu sync.Mutex
	n  int
}

func (s *c13Sampler) take() bool {
	s.mu.Lock()
	defer s.mu.Unlock()
	if s.n >= 3 {
		return false
	}
	s.n++
	return true
}
