//go:build verif

package swarm

// fakenet for the scheduler-driven swarm harnesses (C05, C06, C12): scripted transports, capable
// connections and muxed streams. Everything that blocks or touches state shared between threads goes through
// the vsched helpers, so the fixture is fully under the controlled scheduler (harness files are not
// instrumented).

import (
	"context"
	"crypto/ed25519"
	"errors"
	"fmt"
	"io"
	"os"
	"reflect"
	"sort"
	"strings"
	"sync"
	"time"

	ic "github.com/libp2p/go-libp2p/core/crypto"
	"github.com/libp2p/go-libp2p/core/event"
	"github.com/libp2p/go-libp2p/core/network"
	"github.com/libp2p/go-libp2p/core/peer"
	"github.com/libp2p/go-libp2p/core/peerstore"
	"github.com/libp2p/go-libp2p/core/transport"
	"github.com/libp2p/go-libp2p/p2p/host/eventbus"
	"github.com/libp2p/go-libp2p/p2p/host/peerstore/pstoremem"
	vs "github.com/libp2p/go-libp2p/x/verif/vsched"
	ma "github.com/multiformats/go-multiaddr"
)

var fxDebug = os.Getenv("VERIF_FXDEBUG") != ""

// ---- identities ----

type fxIdent struct {
	ID   peer.ID
	Priv ic.PrivKey
	Pub  ic.PubKey
}

var fxIdentCache = map[string]fxIdent{}

// fxID returns a deterministic Ed25519 identity for a name.
func fxID(name string) fxIdent {
	if id, ok := fxIdentCache[name]; ok {
		return id
	}
	seed := make([]byte, ed25519.SeedSize)
	copy(seed, []byte("verif-fx-identity-"+name))
	k := ed25519.NewKeyFromSeed(seed)
	priv, err := ic.UnmarshalEd25519PrivateKey(k)
	if err != nil {
		panic(err)
	}
	pid, err := peer.IDFromPublicKey(priv.GetPublic())
	if err != nil {
		panic(err)
	}
	id := fxIdent{ID: pid, Priv: priv, Pub: priv.GetPublic()}
	fxIdentCache[name] = id
	return id
}

// ---- vs-aware select over arbitrary channels (deterministic: cases polled in order) ----

func fxSelect(cases ...reflect.SelectCase) (int, reflect.Value, bool) {
	vs.Point(-9)
	for i, c := range cases {
		j, v, ok := reflect.Select([]reflect.SelectCase{c, {Dir: reflect.SelectDefault}})
		if j == 0 {
			return i, v, ok
		}
	}
	i, v, ok := reflect.Select(cases)
	vs.After()
	return i, v, ok
}

func fxRecvCase(ch any) reflect.SelectCase {
	return reflect.SelectCase{Dir: reflect.SelectRecv, Chan: reflect.ValueOf(ch)}
}

// ---- streams ----

type fxStream struct {
	conn     *fxConn
	id       int
	inbound  bool
	mu       sync.Mutex
	reset    bool
	closed   bool
	done     chan struct{}
	doneOnce sync.Once
}

func (s *fxStream) finish() { s.doneOnce.Do(func() { close(s.done) }) }

func (s *fxStream) Read(p []byte) (int, error) {
	i, _, _ := fxSelect(fxRecvCase(s.done), fxRecvCase(s.conn.closed))
	_ = i
	s.mu.Lock()
	defer s.mu.Unlock()
	if s.reset {
		return 0, network.ErrReset
	}
	return 0, io.EOF
}
func (s *fxStream) Write(p []byte) (int, error) {
	vs.Point(-9)
	s.mu.Lock()
	defer s.mu.Unlock()
	if s.reset || s.closed || s.conn.isClosed() {
		return 0, network.ErrReset
	}
	return len(p), nil
}
func (s *fxStream) Close() error {
	vs.Point(-9)
	s.mu.Lock()
	s.closed = true
	s.mu.Unlock()
	s.finish()
	return nil
}
func (s *fxStream) CloseWrite() error { return nil }
func (s *fxStream) CloseRead() error  { return nil }
func (s *fxStream) Reset() error      { return s.ResetWithError(0) }
func (s *fxStream) ResetWithError(network.StreamErrorCode) error {
	vs.Point(-9)
	s.mu.Lock()
	s.reset = true
	s.mu.Unlock()
	s.finish()
	return nil
}
func (s *fxStream) SetDeadline(time.Time) error      { return nil }
func (s *fxStream) SetReadDeadline(time.Time) error  { return nil }
func (s *fxStream) SetWriteDeadline(time.Time) error { return nil }

// ---- connections ----

type fxConn struct {
	name      string
	tpt       *fxTransport
	local     fxIdent
	remote    fxIdent
	laddr     ma.Multiaddr
	raddr     ma.Multiaddr
	limited   bool
	closed    chan struct{}
	closeOnce sync.Once
	closeAt   int64
	incoming  chan *fxStream
	mu        sync.Mutex
	nstreams  int
	opened    []*fxStream
	scope     network.ConnManagementScope // optional: a real connection scope, released by Close as real transports do
}

func fxNewConn(name string, t *fxTransport, local, remote fxIdent, raddr ma.Multiaddr, limited bool) *fxConn {
	return &fxConn{name: name, tpt: t, local: local, remote: remote, raddr: raddr,
		laddr: ma.StringCast("/ip4/10.0.0.1/tcp/1"), limited: limited,
		closed: make(chan struct{}), incoming: make(chan *fxStream, 4)}
}

func (c *fxConn) isClosed() bool {
	select {
	case <-c.closed:
		return true
	default:
		return false
	}
}

func (c *fxConn) Close() error {
	vs.Point(-9)
	c.closeOnce.Do(func() {
		c.closeAt = vs.Stamp()
		close(c.closed)
		if c.scope != nil {
			c.scope.Done()
		}
	})
	return nil
}
func (c *fxConn) CloseWithError(network.ConnErrorCode) error { return c.Close() }
func (c *fxConn) IsClosed() bool {
	vs.Point(-9)
	return c.isClosed()
}
func (c *fxConn) OpenStream(ctx context.Context) (network.MuxedStream, error) {
	vs.Point(-9)
	if c.isClosed() {
		return nil, errors.New("fx: connection closed")
	}
	if err := ctx.Err(); err != nil {
		return nil, err
	}
	c.mu.Lock()
	c.nstreams++
	s := &fxStream{conn: c, id: c.nstreams, done: make(chan struct{})}
	c.opened = append(c.opened, s)
	c.mu.Unlock()
	return s, nil
}
func (c *fxConn) AcceptStream() (network.MuxedStream, error) {
	i, v, ok := fxSelect(fxRecvCase(c.incoming), fxRecvCase(c.closed))
	if i == 0 && ok {
		return v.Interface().(*fxStream), nil
	}
	return nil, errors.New("fx: connection closed")
}

// InjectStream makes the remote side open a stream (harness thread).
func (c *fxConn) InjectStream() *fxStream {
	c.mu.Lock()
	c.nstreams++
	s := &fxStream{conn: c, id: c.nstreams, inbound: true, done: make(chan struct{})}
	c.mu.Unlock()
	vs.Send(-9, c.incoming, s)
	return s
}
func (c *fxConn) As(any) bool                        { return false }
func (c *fxConn) LocalPeer() peer.ID                 { return c.local.ID }
func (c *fxConn) RemotePeer() peer.ID                { return c.remote.ID }
func (c *fxConn) RemotePublicKey() ic.PubKey         { return c.remote.Pub }
func (c *fxConn) ConnState() network.ConnectionState { return network.ConnectionState{} }
func (c *fxConn) LocalMultiaddr() ma.Multiaddr       { return c.laddr }
func (c *fxConn) RemoteMultiaddr() ma.Multiaddr      { return c.raddr }
func (c *fxConn) Scope() network.ConnScope {
	if c.scope != nil {
		return c.scope
	}
	return &network.NullScope{}
}
func (c *fxConn) Transport() transport.Transport { return c.tpt }
func (c *fxConn) Stat() network.ConnStats {
	return network.ConnStats{Stats: network.Stats{Limited: c.limited}}
}
func (c *fxConn) String() string { return "fxConn(" + c.name + ")" }

var _ transport.CapableConn = (*fxConn)(nil)
var _ network.ConnStat = (*fxConn)(nil)

// ---- transports ----

const (
	fxOK        = "ok"
	fxFail      = "fail"
	fxWrongPeer = "wrong-peer"
	fxProgress  = "progress" // handshake progress update, followed by a further outcome
)

type fxDial struct {
	Addr        string
	Peer        peer.ID
	Start, End  int64
	Result      string
	ForceDirect bool
	Conn        *fxConn
	DeadAtStart bool // the context handed to Dial was already cancelled (the dial belongs to a worker whose callers have all gone)
}

type fxTransport struct {
	name    string
	codes   []int
	proxy   bool
	limited bool // connections of this transport are limited (relay)
	local   fxIdent
	mu      sync.Mutex
	outcome map[string]chan string
	dials   []*fxDial
	nconn   int
	updates bool // implement DialUpdater behaviour
	hook    func(rec *fxDial, begin bool)
	rm      network.ResourceManager // optional: connections get a real scope (opened here, as the upgrader does)
	// scopeEarly (with rm): the connection scope is opened when the dial STARTS, as the TCP transport does
	// (dialWithScope), and released when the dial fails or is cancelled
	scopeEarly bool
}

func fxNewTransport(name string, local fxIdent, proxy bool, codes ...int) *fxTransport {
	return &fxTransport{name: name, codes: codes, proxy: proxy, limited: proxy, local: local, outcome: map[string]chan string{}}
}

func (t *fxTransport) outcomeCh(addr string) chan string {
	t.mu.Lock()
	defer t.mu.Unlock()
	ch, ok := t.outcome[addr]
	if !ok {
		ch = make(chan string, 4)
		t.outcome[addr] = ch
	}
	return ch
}

// Complete delivers the outcome of the dial to addr (harness environment thread; a scheduling point).
func (t *fxTransport) Complete(addr ma.Multiaddr, outcome string) {
	vs.Send(-9, t.outcomeCh(addr.String()), outcome)
}

func (t *fxTransport) dial(ctx context.Context, raddr ma.Multiaddr, p peer.ID, updCh chan<- transport.DialUpdate) (transport.CapableConn, error) {
	fd, _ := network.GetForceDirectDial(ctx)
	rec := &fxDial{Addr: raddr.String(), Peer: p, Start: vs.Stamp(), ForceDirect: fd}
	t.mu.Lock()
	t.dials = append(t.dials, rec)
	t.mu.Unlock()
	rec.DeadAtStart = ctx.Err() != nil
	if t.hook != nil {
		t.hook(rec, true)
		defer t.hook(rec, false)
	}
	var early network.ConnManagementScope
	if t.rm != nil && t.scopeEarly {
		sc, err := t.rm.OpenConnection(network.DirOutbound, true, raddr)
		if err != nil {
			rec.End, rec.Result = vs.Stamp(), fxFail
			return nil, err
		}
		if err := sc.SetPeer(p); err != nil {
			sc.Done()
			rec.End, rec.Result = vs.Stamp(), fxFail
			return nil, err
		}
		early = sc
		defer func() {
			if early != nil {
				early.Done() // the dial did not produce a connection
			}
		}()
	}
	ch := t.outcomeCh(raddr.String())
	for {
		if fxDebug {
			fmt.Printf("FXDEBUG dial %s %s: len(ch)=%d ctxerr=%v\n", t.name, raddr, len(ch), ctx.Err())
		}
		i, v, _ := fxSelect(fxRecvCase(ch), fxRecvCase(ctx.Done()))
		if fxDebug {
			fmt.Printf("FXDEBUG dial %s %s: select -> %d %v\n", t.name, raddr, i, v)
		}
		if i == 1 {
			rec.End = vs.Stamp()
			rec.Result = "cancelled"
			return nil, ctx.Err()
		}
		oc := v.String()
		switch oc {
		case fxProgress:
			if updCh != nil {
				j, _, _ := fxSelect(reflect.SelectCase{Dir: reflect.SelectSend, Chan: reflect.ValueOf(updCh),
					Send: reflect.ValueOf(transport.DialUpdate{Kind: transport.UpdateKindHandshakeProgressed, Addr: raddr})}, fxRecvCase(ctx.Done()))
				_ = j
			}
			continue
		case fxFail:
			rec.End = vs.Stamp()
			rec.Result = fxFail
			return nil, fmt.Errorf("fx: dial to %s failed", raddr)
		case fxOK, fxWrongPeer:
			remote := fxIdentByID(p)
			if oc == fxWrongPeer {
				remote = fxID("mallory")
			}
			t.mu.Lock()
			t.nconn++
			name := fmt.Sprintf("%s#%d", t.name, t.nconn)
			t.mu.Unlock()
			c := fxNewConn(name, t, t.local, remote, raddr, t.limited)
			if early != nil {
				c.scope, early = early, nil
			} else if t.rm != nil {
				sc, err := t.rm.OpenConnection(network.DirOutbound, true, raddr)
				if err != nil {
					rec.End, rec.Result = vs.Stamp(), fxFail
					return nil, err
				}
				if err := sc.SetPeer(remote.ID); err != nil {
					sc.Done()
					rec.End, rec.Result = vs.Stamp(), fxFail
					return nil, err
				}
				c.scope = sc
			}
			rec.End = vs.Stamp()
			rec.Result = oc
			rec.Conn = c
			return c, nil
		default:
			panic("fx: unknown outcome " + oc)
		}
	}
}

func fxIdentByID(p peer.ID) fxIdent {
	for _, id := range fxIdentCache {
		if id.ID == p {
			return id
		}
	}
	panic("fx: unknown peer")
}

func (t *fxTransport) Dial(ctx context.Context, raddr ma.Multiaddr, p peer.ID) (transport.CapableConn, error) {
	return t.dial(ctx, raddr, p, nil)
}
func (t *fxTransport) CanDial(addr ma.Multiaddr) bool {
	relay := strings.Contains(addr.String(), "p2p-circuit")
	quic := strings.Contains(addr.String(), "quic-v1")
	tcp := strings.Contains(addr.String(), "/tcp/")
	switch t.name {
	case "relay":
		return relay
	case "quic":
		return quic && !relay
	default:
		return tcp && !relay && !quic
	}
}
func (t *fxTransport) Listen(laddr ma.Multiaddr) (transport.Listener, error) {
	return nil, errors.New("fx: no listening")
}
func (t *fxTransport) Protocols() []int { return t.codes }
func (t *fxTransport) Proxy() bool      { return t.proxy }
func (t *fxTransport) String() string   { return "fxTransport(" + t.name + ")" }

// fxUpdTransport additionally implements transport.DialUpdater.
type fxUpdTransport struct{ *fxTransport }

func (t fxUpdTransport) DialWithUpdates(ctx context.Context, raddr ma.Multiaddr, p peer.ID, updCh chan<- transport.DialUpdate) (transport.CapableConn, error) {
	return t.dial(ctx, raddr, p, updCh)
}

func (t *fxTransport) Dials() []*fxDial {
	t.mu.Lock()
	defer t.mu.Unlock()
	return append([]*fxDial{}, t.dials...)
}

// ---- recording notifiee ----

type fxNote struct {
	Kind       string // connected | disconnected
	Conn       network.Conn
	Start, End int64
}

type fxNotifiee struct {
	mu     sync.Mutex
	notes  []*fxNote
	onConn func(network.Network, network.Conn) // runs inside Connected
	onDisc func(network.Network, network.Conn)
}

func (n *fxNotifiee) add(kind string, c network.Conn) *fxNote {
	nt := &fxNote{Kind: kind, Conn: c, Start: vs.Stamp()}
	n.mu.Lock()
	n.notes = append(n.notes, nt)
	n.mu.Unlock()
	return nt
}
func (n *fxNotifiee) Connected(nw network.Network, c network.Conn) {
	nt := n.add("connected", c)
	if n.onConn != nil {
		n.onConn(nw, c)
	}
	vs.Yield() // the handler keeps working for a while: it can be preempted while still inside Connected
	nt.End = vs.Stamp()
}
func (n *fxNotifiee) Disconnected(nw network.Network, c network.Conn) {
	nt := n.add("disconnected", c)
	if n.onDisc != nil {
		n.onDisc(nw, c)
	}
	vs.Yield()
	nt.End = vs.Stamp()
}
func (n *fxNotifiee) Listen(network.Network, ma.Multiaddr)      {}
func (n *fxNotifiee) ListenClose(network.Network, ma.Multiaddr) {}
func (n *fxNotifiee) Notes() []*fxNote {
	n.mu.Lock()
	defer n.mu.Unlock()
	return append([]*fxNote{}, n.notes...)
}

// ---- a swarm on fake transports ----

type fxEnv struct {
	Local fxIdent
	Swarm *Swarm
	PS    peerstore.Peerstore
	TCP   *fxTransport // fd-consuming
	QUIC  *fxTransport // not fd-consuming
	Relay *fxTransport // proxy, limited connections
	Note  *fxNotifiee
	Bus   event.Bus
}

func fxNewEnv(fdLimit, perPeer int, opts ...Option) *fxEnv {
	local := fxID("local")
	ps, err := pstoremem.NewPeerstore()
	if err != nil {
		panic(err)
	}
	ps.AddPrivKey(local.ID, local.Priv)
	ps.AddPubKey(local.ID, local.Pub)
	bus := eventbus.NewBus()
	s, err := NewSwarm(local.ID, ps, bus, opts...)
	if err != nil {
		panic(err)
	}
	if fdLimit > 0 {
		s.limiter = newDialLimiterWithParams(s.dialAddr, fdLimit, perPeer)
	}
	e := &fxEnv{Local: local, Swarm: s, PS: ps, Note: &fxNotifiee{}, Bus: bus}
	e.TCP = fxNewTransport("tcp", local, false, ma.P_TCP)
	e.QUIC = fxNewTransport("quic", local, false, ma.P_QUIC_V1)
	e.Relay = fxNewTransport("relay", local, true, ma.P_CIRCUIT)
	for _, t := range []transport.Transport{fxUpdTransport{e.TCP}, e.QUIC, e.Relay} {
		if err := s.AddTransport(t); err != nil {
			panic(err)
		}
	}
	s.Notify(e.Note)
	return e
}

func (e *fxEnv) Close() {
	e.Swarm.Close()
	e.PS.Close()
}

func (e *fxEnv) TransportFor(a ma.Multiaddr) *fxTransport {
	switch {
	case strings.Contains(a.String(), "p2p-circuit"):
		return e.Relay
	case strings.Contains(a.String(), "quic-v1"):
		return e.QUIC
	default:
		return e.TCP
	}
}

func (e *fxEnv) AllDials() []*fxDial {
	var out []*fxDial
	for _, t := range []*fxTransport{e.TCP, e.QUIC, e.Relay} {
		out = append(out, t.Dials()...)
	}
	sort.Slice(out, func(i, j int) bool { return out[i].Start < out[j].Start })
	return out
}

// Inbound makes the swarm accept a connection from remote (harness thread).
func (e *fxEnv) Inbound(t *fxTransport, remote fxIdent, raddr string) (*fxConn, *Conn, error) {
	t.mu.Lock()
	t.nconn++
	name := fmt.Sprintf("%s-in#%d", t.name, t.nconn)
	t.mu.Unlock()
	fc := fxNewConn(name, t, e.Local, remote, ma.StringCast(raddr), t.limited)
	c, err := e.Swarm.addConn(fc, network.DirInbound)
	return fc, c, err
}
