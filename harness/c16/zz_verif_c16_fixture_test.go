//go:build verif

package autonatv2

// C16, part B fixtures: in-memory streams, a recording dialer host and a scripted client.
//
//   * c16Stream  - duplex in-memory network.Stream (two c16Half pipes). The client->server direction is a
//     RENDEZVOUS pipe (a Write returns only when the reader has consumed every byte, like net.Pipe), so "bytes
//     the client has sent" and "bytes the server has received" are the same number at every instant and the
//     count sampled when a dial starts is exact. The server->client direction is buffered so the server never
//     blocks on a response. Deadlines are timers of the synctest bubble.
//   * the dialer host is the REAL blankhost over a REAL swarm and a real in-memory peerstore, configured like
//     config.makeAutoNATV2Host (separate key, NoDelayDialRanker); only the transports are replaced by recording
//     transports (tcp, quic-v1, ws) whose CanDial uses the same address patterns as the real ones and whose
//     Dial records (address, peer, virtual time, bytes of the request stream consumed so far) and then fails or
//     returns a scripted connection. DNS names are resolved by a table (no network).
//   * the scripted connection answers multistream + the DialBack message like a real client would.

import (
	"context"
	"encoding/binary"
	"errors"
	"io"
	"net"
	"os"
	"sync"
	"sync/atomic"
	"time"

	"github.com/libp2p/go-libp2p/core/crypto"
	"github.com/libp2p/go-libp2p/core/network"
	"github.com/libp2p/go-libp2p/core/peer"
	"github.com/libp2p/go-libp2p/core/peerstore"
	"github.com/libp2p/go-libp2p/core/protocol"
	"github.com/libp2p/go-libp2p/core/transport"
	bhost "github.com/libp2p/go-libp2p/p2p/host/blank"
	"github.com/libp2p/go-libp2p/p2p/host/eventbus"
	"github.com/libp2p/go-libp2p/p2p/host/peerstore/pstoremem"
	"github.com/libp2p/go-libp2p/p2p/net/swarm"
	"github.com/libp2p/go-libp2p/p2p/protocol/autonatv2/pb"
	"github.com/libp2p/go-msgio/pbio"
	ma "github.com/multiformats/go-multiaddr"
	mafmt "github.com/multiformats/go-multiaddr-fmt"
	mstream "github.com/multiformats/go-multistream"
)

// ---------- one direction of a stream ----------

type c16Half struct {
	eofWithData bool // Read returns the last bytes together with io.EOF
	mu         sync.Mutex
	cond       *sync.Cond
	buf        []byte
	wclosed    bool // writer closed: EOF after the buffer is drained
	rclosed    bool // reader closed
	reset      bool
	rendezvous bool
	rdl, wdl   time.Time
	rt, wt     *time.Timer
	nread      atomic.Int64 // bytes consumed by the reader so far
}

func newC16Half(rendezvous bool) *c16Half {
	h := &c16Half{rendezvous: rendezvous}
	h.cond = sync.NewCond(&h.mu)
	return h
}

func (h *c16Half) wake() {
	h.mu.Lock()
	h.cond.Broadcast()
	h.mu.Unlock()
}

func (h *c16Half) Read(b []byte) (int, error) {
	h.mu.Lock()
	defer h.mu.Unlock()
	for {
		switch {
		case h.reset:
			return 0, network.ErrReset
		case h.rclosed:
			return 0, io.ErrClosedPipe
		case len(h.buf) > 0:
			n := copy(b, h.buf)
			h.buf = h.buf[n:]
			h.nread.Add(int64(n))
			h.cond.Broadcast()
			if h.eofWithData && h.wclosed && len(h.buf) == 0 {
				return n, io.EOF // the last bytes and the end of the stream in one Read (QUIC streams do this)
			}
			return n, nil
		case h.wclosed:
			return 0, io.EOF
		case !h.rdl.IsZero() && !time.Now().Before(h.rdl):
			return 0, os.ErrDeadlineExceeded
		}
		h.cond.Wait()
	}
}

func (h *c16Half) Write(b []byte) (int, error) {
	h.mu.Lock()
	defer h.mu.Unlock()
	check := func() error {
		switch {
		case h.reset:
			return network.ErrReset
		case h.wclosed || h.rclosed:
			return io.ErrClosedPipe
		case !h.wdl.IsZero() && !time.Now().Before(h.wdl):
			return os.ErrDeadlineExceeded
		}
		return nil
	}
	if err := check(); err != nil {
		return 0, err
	}
	h.buf = append(h.buf, b...)
	h.cond.Broadcast()
	if !h.rendezvous {
		return len(b), nil
	}
	for len(h.buf) > 0 {
		if err := check(); err != nil {
			return 0, err
		}
		h.cond.Wait()
	}
	return len(b), nil
}

// writeAndClose appends b and closes the write side in one step (never blocks, also on a rendezvous half); the
// reader then gets the last bytes together with io.EOF.
func (h *c16Half) writeAndClose(b []byte) {
	h.mu.Lock()
	h.eofWithData = true
	h.buf = append(h.buf, b...)
	h.wclosed = true
	h.cond.Broadcast()
	h.mu.Unlock()
}

func (h *c16Half) closeWrite() {
	h.mu.Lock()
	h.wclosed = true
	h.cond.Broadcast()
	h.mu.Unlock()
}

func (h *c16Half) closeRead() {
	h.mu.Lock()
	h.rclosed = true
	h.buf = nil
	h.cond.Broadcast()
	h.mu.Unlock()
}

func (h *c16Half) doReset() {
	h.mu.Lock()
	h.reset = true
	h.buf = nil
	if h.rt != nil {
		h.rt.Stop()
	}
	if h.wt != nil {
		h.wt.Stop()
	}
	h.cond.Broadcast()
	h.mu.Unlock()
}

func (h *c16Half) setDeadline(read bool, t time.Time) {
	h.mu.Lock()
	defer h.mu.Unlock()
	tp, dl := &h.wt, &h.wdl
	if read {
		tp, dl = &h.rt, &h.rdl
	}
	if *tp != nil {
		(*tp).Stop()
		*tp = nil
	}
	*dl = t
	if !t.IsZero() {
		*tp = time.AfterFunc(time.Until(t), h.wake)
	}
	h.cond.Broadcast()
}

// ---------- stream ----------

type c16Stream struct {
	rd, wr *c16Half
	conn   network.Conn
	proto  protocol.ID
}

// c16NewStreamPair returns (client end, server end); rendezvous applies to client->server.
func c16NewStreamPair(rendezvous bool, serverSideConn network.Conn) (*c16Stream, *c16Stream) {
	c2s, s2c := newC16Half(rendezvous), newC16Half(false)
	return &c16Stream{rd: s2c, wr: c2s}, &c16Stream{rd: c2s, wr: s2c, conn: serverSideConn}
}

func (s *c16Stream) Read(b []byte) (int, error)  { return s.rd.Read(b) }
func (s *c16Stream) Write(b []byte) (int, error) { return s.wr.Write(b) }
func (s *c16Stream) CloseWrite() error           { s.wr.closeWrite(); return nil }
func (s *c16Stream) CloseRead() error            { s.rd.closeRead(); return nil }
func (s *c16Stream) Close() error {
	s.wr.closeWrite()
	s.rd.closeRead()
	s.stopTimers()
	return nil
}
func (s *c16Stream) stopTimers() {
	s.rd.setDeadline(true, time.Time{})
	s.wr.setDeadline(false, time.Time{})
}
func (s *c16Stream) Reset() error                                 { s.rd.doReset(); s.wr.doReset(); return nil }
func (s *c16Stream) ResetWithError(network.StreamErrorCode) error { return s.Reset() }
func (s *c16Stream) SetDeadline(t time.Time) error {
	s.rd.setDeadline(true, t)
	s.wr.setDeadline(false, t)
	return nil
}
func (s *c16Stream) SetReadDeadline(t time.Time) error  { s.rd.setDeadline(true, t); return nil }
func (s *c16Stream) SetWriteDeadline(t time.Time) error { s.wr.setDeadline(false, t); return nil }
func (s *c16Stream) ID() string                         { return "c16" }
func (s *c16Stream) Protocol() protocol.ID              { return s.proto }
func (s *c16Stream) SetProtocol(p protocol.ID) error    { s.proto = p; return nil }
func (s *c16Stream) Stat() network.Stats                { return network.Stats{Direction: network.DirInbound} }
func (s *c16Stream) Conn() network.Conn                 { return s.conn }
func (s *c16Stream) Scope() network.StreamScope         { return &network.NullScope{} }

var _ network.Stream = (*c16Stream)(nil)

// c16ReqConn is the connection the request stream arrived on: the harness chooses who the requester is and
// which address the server observed. Any other method is unused by the server (nil embedded interface).
type c16ReqConn struct {
	network.Conn
	localPeer  peer.ID
	remotePeer peer.ID
	remoteAddr ma.Multiaddr
	limited    bool
}

func (c *c16ReqConn) Stat() network.ConnStats {
	return network.ConnStats{Stats: network.Stats{Direction: network.DirInbound, Limited: c.limited}}
}

func (c *c16ReqConn) LocalPeer() peer.ID { return c.localPeer }

func (c *c16ReqConn) RemotePeer() peer.ID           { return c.remotePeer }
func (c *c16ReqConn) RemoteMultiaddr() ma.Multiaddr { return c.remoteAddr }

// ---------- recording dialer ----------

type c16Dial struct {
	Addr     ma.Multiaddr
	Peer     peer.ID
	At       time.Duration // virtual time since the environment was created
	Consumed []int64       // bytes of every request stream (in creation order) the server had consumed
	Tpt      string
}

type c16DialBack struct {
	Peer  peer.ID
	Nonce uint64
}

type c16Env struct {
	start   time.Time
	srv     *server
	dialer  *bhost.BlankHost
	ps      peerstore.Peerstore
	dialOK  bool
	// dialHang: every transport dial takes this long (virtual time) before it answers; dialing counts the dials
	// that are in that phase, per dialled address
	dialHang time.Duration
	dialing  map[string]int
	mu      sync.Mutex
	dials   []c16Dial
	backs   []c16DialBack
	streams []*c16Stream // server ends of the request streams, in creation order
	conns   []*c16DialConn
	wg      sync.WaitGroup
}

type c16Tpt struct {
	env     *c16Env
	name    string
	matcher mafmt.Pattern
	protos  []int
}

var c16ErrDial = errors.New("c16: scripted dial failure")

func (t *c16Tpt) Dial(ctx context.Context, raddr ma.Multiaddr, p peer.ID) (transport.CapableConn, error) {
	e := t.env
	e.mu.Lock()
	d := c16Dial{Addr: raddr, Peer: p, At: time.Since(e.start), Tpt: t.name}
	for _, s := range e.streams {
		d.Consumed = append(d.Consumed, s.rd.nread.Load())
	}
	e.dials = append(e.dials, d)
	var c *c16DialConn
	if e.dialOK {
		c = &c16DialConn{env: e, tpt: t, remote: p, raddr: raddr, closeCh: make(chan struct{})}
		e.conns = append(e.conns, c)
	}
	hang := e.dialHang
	if hang > 0 {
		if e.dialing == nil {
			e.dialing = map[string]int{}
		}
		e.dialing[raddr.String()]++
	}
	e.mu.Unlock()
	if hang > 0 {
		tm := time.NewTimer(hang)
		select {
		case <-tm.C:
		case <-ctx.Done():
			tm.Stop()
		}
		e.mu.Lock()
		e.dialing[raddr.String()]--
		e.mu.Unlock()
	}
	if c == nil {
		return nil, c16ErrDial
	}
	return c, nil
}
func (t *c16Tpt) CanDial(a ma.Multiaddr) bool { return t.matcher.Matches(a) }
func (t *c16Tpt) Listen(ma.Multiaddr) (transport.Listener, error) {
	return nil, errors.New("c16: dial-only transport")
}
func (t *c16Tpt) Protocols() []int { return t.protos }
func (t *c16Tpt) Proxy() bool      { return false }

// c16DialConn: a successfully "dialled" connection to the client. Streams opened on it are answered by a
// responder that speaks multistream and the dial-back protocol.
type c16DialConn struct {
	env     *c16Env
	tpt     *c16Tpt
	remote  peer.ID
	raddr   ma.Multiaddr
	mu      sync.Mutex
	closed  bool
	closeCh chan struct{}
	streams []*c16Stream
}

func (c *c16DialConn) Close() error {
	c.mu.Lock()
	if c.closed {
		c.mu.Unlock()
		return nil
	}
	c.closed = true
	close(c.closeCh)
	ss := c.streams
	c.mu.Unlock()
	for _, s := range ss {
		s.Reset()
	}
	return nil
}
func (c *c16DialConn) CloseWithError(network.ConnErrorCode) error { return c.Close() }
func (c *c16DialConn) IsClosed() bool {
	c.mu.Lock()
	defer c.mu.Unlock()
	return c.closed
}
func (c *c16DialConn) OpenStream(context.Context) (network.MuxedStream, error) {
	c.mu.Lock()
	if c.closed {
		c.mu.Unlock()
		return nil, errors.New("c16: conn closed")
	}
	local, remote := c16NewStreamPair(false, nil)
	c.streams = append(c.streams, local, remote)
	c.mu.Unlock()
	c.env.wg.Add(1)
	go func() {
		defer c.env.wg.Done()
		defer remote.Close()
		mux := mstream.NewMultistreamMuxer[protocol.ID]()
		mux.AddHandler(DialBackProtocol, nil)
		if _, _, err := mux.Negotiate(remote); err != nil {
			return
		}
		var m pb.DialBack
		if err := pbio.NewDelimitedReader(remote, dialBackMaxMsgSize).ReadMsg(&m); err != nil {
			return
		}
		c.env.mu.Lock()
		c.env.backs = append(c.env.backs, c16DialBack{Peer: c.remote, Nonce: m.Nonce})
		c.env.mu.Unlock()
		pbio.NewDelimitedWriter(remote).WriteMsg(&pb.DialBackResponse{})
	}()
	return local, nil
}
func (c *c16DialConn) AcceptStream() (network.MuxedStream, error) {
	<-c.closeCh
	return nil, errors.New("c16: conn closed")
}
func (c *c16DialConn) As(any) bool                        { return false }
func (c *c16DialConn) LocalPeer() peer.ID                 { return c.env.dialer.ID() }
func (c *c16DialConn) RemotePeer() peer.ID                { return c.remote }
func (c *c16DialConn) RemotePublicKey() crypto.PubKey     { return nil }
func (c *c16DialConn) ConnState() network.ConnectionState { return network.ConnectionState{} }
func (c *c16DialConn) LocalMultiaddr() ma.Multiaddr       { return c16LocalAddr }
func (c *c16DialConn) RemoteMultiaddr() ma.Multiaddr      { return c.raddr }
func (c *c16DialConn) Scope() network.ConnScope           { return &network.NullScope{} }
func (c *c16DialConn) Transport() transport.Transport     { return c.tpt }

var _ transport.CapableConn = (*c16DialConn)(nil)

var c16LocalAddr = ma.StringCast("/ip4/203.0.113.77/tcp/4001")

// ---------- DNS by table ----------

type c16Resolver struct{ table map[string][]string } // name -> IPs

func (r *c16Resolver) ResolveDNSAddr(_ context.Context, _ peer.ID, m ma.Multiaddr, _, _ int) ([]ma.Multiaddr, error) {
	return nil, errors.New("c16: no dnsaddr records")
}

func (r *c16Resolver) ResolveDNSComponent(_ context.Context, m ma.Multiaddr, limit int) ([]ma.Multiaddr, error) {
	return c16Resolve(r.table, m, limit), nil
}

// c16Resolve replaces the leading /dns* component by each IP of the table (what madns does for A/AAAA records).
func c16Resolve(table map[string][]string, m ma.Multiaddr, limit int) []ma.Multiaddr {
	if len(m) == 0 {
		return nil
	}
	first, rest := ma.SplitFirst(m)
	if first == nil {
		return nil
	}
	switch first.Protocol().Code {
	case ma.P_DNS, ma.P_DNS4, ma.P_DNS6:
	default:
		return nil
	}
	var out []ma.Multiaddr
	for _, ip := range table[first.Value()] {
		var head ma.Multiaddr
		if net.ParseIP(ip).To4() != nil {
			head = ma.StringCast("/ip4/" + ip)
		} else {
			head = ma.StringCast("/ip6/" + ip)
		}
		out = append(out, head.Encapsulate(rest))
		if len(out) >= limit {
			break
		}
	}
	return out
}

// ---------- identities (deterministic) ----------

type c16Seed struct{ s uint64 }

func (r *c16Seed) Read(b []byte) (int, error) {
	for i := range b {
		r.s = r.s*6364136223846793005 + 1442695040888963407
		b[i] = byte(r.s >> 56)
	}
	return len(b), nil
}

type c16ID struct {
	priv crypto.PrivKey
	id   peer.ID
}

func c16MakeID(seed uint64) c16ID {
	priv, _, err := crypto.GenerateEd25519Key(&c16Seed{s: seed})
	if err != nil {
		panic(err)
	}
	id, err := peer.IDFromPrivateKey(priv)
	if err != nil {
		panic(err)
	}
	return c16ID{priv, id}
}

// ---------- environment ----------

var (
	c16PatTCP  = mafmt.And(mafmt.IP, mafmt.Base(ma.P_TCP))                                           // = tcp transport's dialMatcher
	c16PatQUIC = mafmt.And(mafmt.IP, mafmt.Base(ma.P_UDP), mafmt.Base(ma.P_QUIC_V1))                 // = quic transport's dialMatcher
	c16PatWS   = mafmt.And(mafmt.Or(mafmt.IP, mafmt.DNS), mafmt.Base(ma.P_TCP), mafmt.Base(ma.P_WS)) // plain ws, IP or DNS host
)

func c16NewEnv(ids *c16IDs, dns map[string][]string, dialOK bool, opts ...AutoNATOption) *c16Env {
	e := &c16Env{start: time.Now(), dialOK: dialOK}
	ps, err := pstoremem.NewPeerstore()
	if err != nil {
		panic(err)
	}
	ps.AddPrivKey(ids.dialer.id, ids.dialer.priv)
	ps.AddPubKey(ids.dialer.id, ids.dialer.priv.GetPublic())
	sw, err := swarm.NewSwarm(ids.dialer.id, ps, eventbus.NewBus(),
		swarm.WithDialRanker(swarm.NoDelayDialRanker),
		swarm.WithMultiaddrResolver(&c16Resolver{table: dns}),
		// black-hole filtering is C20's subject; disabled so that "dialable" means "a transport can dial it"
		swarm.WithUDPBlackHoleSuccessCounter(nil), swarm.WithIPv6BlackHoleSuccessCounter(nil))
	if err != nil {
		panic(err)
	}
	for _, t := range []*c16Tpt{
		{env: e, name: "tcp", matcher: c16PatTCP, protos: []int{ma.P_TCP}},
		{env: e, name: "quic-v1", matcher: c16PatQUIC, protos: []int{ma.P_QUIC_V1}},
		{env: e, name: "ws", matcher: c16PatWS, protos: []int{ma.P_WS}},
	} {
		if err := sw.AddTransport(t); err != nil {
			panic(err)
		}
	}
	e.ps = ps
	e.dialer = bhost.NewBlankHost(sw, bhost.WithEventBus(eventbus.NewBus()))
	if e.dialer == nil {
		panic("c16: blank host construction failed")
	}
	s := defaultSettings()
	for _, o := range opts {
		if err := o(s); err != nil {
			panic(err)
		}
	}
	e.srv = newServer(e.dialer, s)
	return e
}

// close tears everything down so that the bubble can end: streams, scripted conns, swarm, peerstore.
func (e *c16Env) close() {
	e.mu.Lock()
	ss := e.streams
	cs := e.conns
	e.mu.Unlock()
	for _, s := range ss {
		s.Reset()
	}
	for _, c := range cs {
		c.Close()
	}
	e.dialer.Close()
	e.ps.Close()
	e.srv.limiter.Close()
	e.wg.Wait()
}

// ---------- wire helpers for the scripted client ----------

func c16Frame(payload []byte) []byte {
	out := binary.AppendUvarint(make([]byte, 0, len(payload)+3), uint64(len(payload)))
	return append(out, payload...)
}

// c16DialDataMsg hand-encodes Message{dialDataResponse{data: n zero bytes}} (field 4 / field 1, both
// length-delimited) exactly as protobuf does; an empty data field is omitted like proto3 does.
func c16DialDataMsg(n int) []byte {
	var inner []byte
	if n > 0 {
		inner = append(inner, 0x0a)
		inner = binary.AppendUvarint(inner, uint64(n))
		inner = append(inner, make([]byte, n)...)
	}
	out := []byte{0x22}
	out = binary.AppendUvarint(out, uint64(len(inner)))
	return append(out, inner...)
}
