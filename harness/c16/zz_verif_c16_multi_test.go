//go:build verif

package autonatv2

// C16, part B, families 2-4: several requests against ONE server instance.
//
//   pairs       two requests one after the other (same or different requester): the dials made while serving
//               the second request must satisfy the statement with respect to the SECOND request only (the
//               server "forgets the peer" after a dial-back, otherwise an address paid for - or refused - earlier
//               would be dialled again for free).
//   concurrent  up to 5 requests of one peer arriving while earlier ones are still being served (they stall in
//               the dial-data phase): "never serves more than the configured number of concurrent requests of
//               one peer", observed from outside: a request is being served from the moment the server sends it
//               a DialDataRequest until serveDialRequest returns.
//   arrivals    every sequence of requests (with and without dial data, two peers) and clock advances of a
//               fixed length against a server with small limits: the sliding-window bounds of the statement,
//               observed at the protocol level (a request counts as accepted unless the server's answer is
//               E_REQUEST_REJECTED; as an accepted dial-data request if a DialDataRequest was sent).

import (
	"fmt"
	"strings"
	"testing"
	"testing/synctest"
	"time"

	"github.com/libp2p/go-libp2p/p2p/protocol/autonatv2/pb"
	"github.com/libp2p/go-libp2p/x/verif/vrep"
)

func c16Rejected(o *c16Outcome) bool {
	if o.ddr() != nil {
		return false
	}
	r := o.lastResp()
	return r != nil && r.Status == pb.DialResponse_E_REQUEST_REJECTED
}

// ---------- pairs ----------

type c16Shape struct {
	classes []int
	beh     c16Beh
}

func (s c16Shape) String() string {
	return c16ListName(c16Req{Classes: s.classes}) + "/" + c16BehNames[s.beh]
}

func c16PairJob(ids *c16IDs, obs []c16Obs, s1, s2 c16Shape, gap time.Duration, dialOK bool, second string) c16Job {
	name := fmt.Sprintf("pair first=%s gap=%s second=%s by=%s dialOK=%v", s1, gap, s2, second, dialOK)
	return c16Job{name: name, run: func(t *testing.T) *c16JobResult {
		jr := &c16JobResult{}
		e := c16NewEnv(ids, c16DNSTable(obs[0]), dialOK)
		o1 := c16Serve(e, ids, obs, c16Req{Requester: "a", Obs: 0, Classes: s1.classes, Beh: int(s1.beh)})
		time.Sleep(gap)
		o2 := c16Serve(e, ids, obs, c16Req{Requester: second, Obs: 0, Classes: s2.classes, Beh: int(s2.beh), PortBase: 100})
		time.Sleep(time.Second)
		synctest.Wait()
		e.mu.Lock()
		dials := append([]c16Dial{}, e.dials...)
		e.mu.Unlock()
		e.close()
		jr.execs = 2
		d1, d2 := dials[:o1.dial1], dials[o1.dial1:]
		fs := append(c16Audit(ids, obs, o1, d1, false), c16Audit(ids, obs, o2, d2, false)...)
		jr.findings = fs
		c1, c2 := c16OutcomeClass(o1, d1), c16OutcomeClass(o2, d2)
		jr.classes = []string{"pair: " + c2}
		jr.distinct = []string{name + "|" + c1 + "|" + c2}
		rep := map[string]any{"first": o1.req, "gap": gap.String(), "second": o2.req, "dial_ok": dialOK,
			"first_messages": c16ShowMsgs(o1.msgs), "second_messages": c16ShowMsgs(o2.msgs), "dials_first": c16ShowDials(d1), "dials_second": c16ShowDials(d2)}
		jr.replay, jr.sample = rep, rep
		return jr
	}}
}

// ---------- concurrent requests of one peer ----------

const (
	c16EvStall      = iota // request [foreign-ip], client sends half of the dial data and stalls: stays in service for 15 s
	c16EvRefused           // request [private]: refused at once
	c16EvEarlyClose        // request [foreign-ip], client closes when asked for dial data: finishes at once
	c16EvWait16            // 16 s pass: every stalled request has timed out
	c16EvDialHang          // request [same-ip]: needs no dial data; its dial-back takes 15 s (in service while it dials)
)

var c16EvNames = []string{"stalling-request", "refused-request", "early-close-request", "wait-16s", "slow-dial-request"}

func c16ConcJob(ids *c16IDs, obs []c16Obs, conc int, seq []int) c16Job {
	return c16ConcJobDD(ids, obs, conc, 12, seq)
}

// c16ConcJobDD: dd = the dial-data requests the server accepts per minute (1: every request that needs dial data after
// the first is turned down at that limit while others of the same peer are still in service).
func c16ConcJobDD(ids *c16IDs, obs []c16Obs, conc, dd int, seq []int) c16Job {
	var sn []string
	for _, ev := range seq {
		sn = append(sn, c16EvNames[ev])
	}
	name := fmt.Sprintf("concurrent limit=%d events=%s", conc, strings.Join(sn, ","))
	if dd != 12 {
		name = fmt.Sprintf("concurrent limit=%d dial-data-per-minute=%d events=%s", conc, dd, strings.Join(sn, ","))
	}
	return c16Job{name: name, run: func(t *testing.T) *c16JobResult {
		jr := &c16JobResult{}
		e := c16NewEnv(ids, c16DNSTable(obs[0]), false, WithServerRateLimit(60, 12, dd, conc))
		e.dialHang = 15 * time.Second
		var running []*c16Running
		var started []time.Time // virtual arrival time of running[i]
		maxServed, rejected := 0, 0
		for i, ev := range seq {
			for len(started) < len(running) {
				started = append(started, time.Time{})
			}
			arrival := time.Now()
			switch ev {
			case c16EvStall:
				running = append(running, c16Start(e, ids, obs, c16Req{Requester: "a", Classes: []int{int(c16Foreign)}, Beh: int(c16BStallHalf), PortBase: 10 * i}))
			case c16EvRefused:
				running = append(running, c16Start(e, ids, obs, c16Req{Requester: "a", Classes: []int{int(c16Private)}, PortBase: 10 * i}))
			case c16EvEarlyClose:
				running = append(running, c16Start(e, ids, obs, c16Req{Requester: "a", Classes: []int{int(c16Foreign)}, Beh: int(c16BEarlyClose), PortBase: 10 * i}))
			case c16EvDialHang:
				running = append(running, c16Start(e, ids, obs, c16Req{Requester: "a", Classes: []int{int(c16Same)}, PortBase: 10 * i}))
			case c16EvWait16:
				time.Sleep(16 * time.Second)
			}
			synctest.Wait() // every goroutine is blocked: the server went as far as it can
			for len(started) < len(running) {
				started = append(started, arrival)
			}
			// the dial-data limit holds for overlapping requests as well: of the requests that arrived in the last
			// minute (half-open window) at most dd were asked for dial data - an arriving request is asked, or turned
			// down, at once, so the time of the question is the arrival time
			asked := 0
			e.mu.Lock()
			for j, r := range running {
				if r.o.ddr() != nil && started[j].After(arrival.Add(-time.Minute)) {
					asked++
				}
			}
			e.mu.Unlock()
			if asked > dd {
				jr.findings = append(jr.findings, c16Finding{"server-dial-data-limit-exceeded-by-overlapping-requests",
					fmt.Sprintf("%d requests that arrived within one minute were asked for dial data (some of them still in service), the limit is %d per minute; events so far: %s", asked, dd, strings.Join(sn[:i+1], ","))})
				break
			}
			served := 0
			e.mu.Lock()
			for _, r := range running {
				// in service: asked for dial data and not finished, or its dial-back is under way
				dialing := false
				for _, a := range r.o.req.Addrs {
					dialing = dialing || e.dialing[a] > 0
				}
				if !r.o.done && (r.o.ddr() != nil || dialing) {
					served++
				}
			}
			e.mu.Unlock()
			if served > maxServed {
				maxServed = served
			}
			if served > conc {
				jr.findings = append(jr.findings, c16Finding{"server-concurrent-requests-exceeded",
					fmt.Sprintf("%d requests of one peer are being served at the same time (each was asked for dial data or is being dialled back, and has not finished), limit %d; events so far: %s", served, conc, strings.Join(sn[:i+1], ","))})
				break
			}
		}
		time.Sleep(20 * time.Second)
		for _, r := range running {
			r.wait()
		}
		e.mu.Lock()
		dials := append([]c16Dial{}, e.dials...)
		e.mu.Unlock()
		e.close()
		// nobody completes the dial data for a foreign address here, so any dial at all is a violation; a dial
		// is audited against the request that named its address (every request has its own ports)
		owner := make([][]c16Dial, len(running))
		var orphans []c16Dial
		for _, d := range dials {
			found := false
			for i, r := range running {
				for _, a := range r.o.req.Addrs {
					if a == d.Addr.String() {
						owner[i] = append(owner[i], d)
						found = true
					}
				}
			}
			if !found {
				orphans = append(orphans, d)
			}
		}
		for i, r := range running {
			jr.execs++
			if c16Rejected(r.o) {
				rejected++
			}
			ds := owner[i]
			if i == 0 {
				ds = append(ds, orphans...)
			}
			jr.findings = append(jr.findings, c16Audit(ids, obs, r.o, ds, true)...)
		}
		if len(running) == 0 && len(dials) > 0 {
			jr.findings = append(jr.findings, c16Finding{"server-dial-address-not-in-request", fmt.Sprintf("%d dials without any request", len(dials))})
		}
		cl := fmt.Sprintf("concurrent: limit=%d max-in-service=%d some-rejected=%v", conc, maxServed, rejected > 0)
		jr.classes = []string{cl}
		jr.distinct = []string{name + "|" + cl}
		rep := map[string]any{"limit": conc, "events": sn, "max_in_service": maxServed, "rejected": rejected}
		jr.replay, jr.sample = rep, rep
		return jr
	}}
}

// ---------- arrival patterns ----------

const (
	c16ArSameA = iota
	c16ArSameB
	c16ArForeignA
	c16ArForeignB
	c16ArAdv30
	c16ArAdv60
	c16ArAdv59
	c16ArAdv1
)

var c16ArNames = []string{"A:same-ip", "B:same-ip", "A:foreign-ip+dial-data", "B:foreign-ip+dial-data", "advance-30s", "advance-60s", "advance-59s", "advance-1s"}

const (
	c16ArRPM, c16ArPerPeer, c16ArDialData, c16ArConc = 3, 2, 1, 2
)

func c16ArrivalJob(ids *c16IDs, obs []c16Obs, seq []int) c16Job {
	var sn []string
	for _, ev := range seq {
		sn = append(sn, c16ArNames[ev])
	}
	name := "arrivals " + strings.Join(sn, ",")
	return c16Job{name: name, run: func(t *testing.T) *c16JobResult {
		jr := &c16JobResult{}
		e := c16NewEnv(ids, c16DNSTable(obs[0]), false, WithServerRateLimit(c16ArRPM, c16ArPerPeer, c16ArDialData, c16ArConc),
			withAmplificationAttackPreventionDialWait(0))
		type acc struct {
			peer string
			at   time.Duration
			dd   bool
		}
		var accs []acc
		var pattern []string
		bad := false
		for i, ev := range seq {
			if bad {
				break
			}
			switch ev {
			case c16ArAdv30:
				time.Sleep(30 * time.Second)
				continue
			case c16ArAdv60:
				time.Sleep(60 * time.Second)
				continue
			case c16ArAdv59:
				time.Sleep(59 * time.Second)
				continue
			case c16ArAdv1:
				time.Sleep(time.Second)
				continue
			}
			who, cls := "a", c16Same
			if ev == c16ArSameB || ev == c16ArForeignB {
				who = "b"
			}
			if ev == c16ArForeignA || ev == c16ArForeignB {
				cls = c16Foreign
			}
			e.mu.Lock()
			d0 := len(e.dials)
			e.mu.Unlock()
			o := c16Serve(e, ids, obs, c16Req{Requester: who, Classes: []int{int(cls)}, Beh: int(c16BExact), PortBase: 10 * i})
			e.mu.Lock()
			dials := append([]c16Dial{}, e.dials[d0:]...)
			e.mu.Unlock()
			jr.execs++
			jr.findings = append(jr.findings, c16Audit(ids, obs, o, dials, true)...)
			if c16Rejected(o) {
				pattern = append(pattern, "rejected")
				continue
			}
			pattern = append(pattern, "accepted")
			accs = append(accs, acc{who, o.started, o.ddr() != nil})
			// windows ending at this accept: half-open (t-60s, t]
			g, p, d := 0, 0, 0
			for _, a := range accs {
				if o.started-a.at >= time.Minute {
					continue
				}
				g++
				if a.peer == who {
					p++
				}
				if a.dd {
					d++
				}
			}
			hist := strings.Join(sn[:i+1], ",")
			if g > c16ArRPM {
				bad = true
				jr.findings = append(jr.findings, c16Finding{"server-global-rpm-exceeded", fmt.Sprintf("%d requests accepted inside one minute, limit %d; history: %s", g, c16ArRPM, hist)})
			}
			if p > c16ArPerPeer {
				bad = true
				jr.findings = append(jr.findings, c16Finding{"server-per-peer-rpm-exceeded", fmt.Sprintf("%d requests of peer %s accepted inside one minute, limit %d; history: %s", p, who, c16ArPerPeer, hist)})
			}
			if o.ddr() != nil && d > c16ArDialData {
				bad = true
				jr.findings = append(jr.findings, c16Finding{"server-dial-data-rpm-exceeded", fmt.Sprintf("%d dial-data requests accepted inside one minute, limit %d; history: %s", d, c16ArDialData, hist)})
			}
		}
		e.close()
		cl := "arrivals: " + strings.Join(pattern, ",")
		jr.classes = []string{fmt.Sprintf("arrivals: %d accepted, %d rejected", strings.Count(cl, "accepted"), strings.Count(cl, "rejected"))}
		jr.distinct = []string{name + "|" + cl}
		rep := map[string]any{"limits": "RPM=3 PerPeer=2 DialData=1 Concurrent=2", "events": sn, "answers": pattern}
		jr.replay, jr.sample = rep, rep
		return jr
	}}
}

func c16Seqs(symbols []int, n int) [][]int {
	out := [][]int{{}}
	for i := 0; i < n; i++ {
		var next [][]int
		for _, p := range out {
			for _, s := range symbols {
				next = append(next, append(append([]int{}, p...), s))
			}
		}
		out = next
	}
	return out
}

func c16ServerMulti(t *testing.T, ids *c16IDs, obs []c16Obs) {
	// ---- pairs
	r := vrep.New("C16", "server-pairs")
	firsts := []c16Shape{
		{[]int{int(c16Foreign)}, c16BExact}, {[]int{int(c16Foreign)}, c16BShortClose}, {[]int{int(c16Same)}, c16BExact},
		{[]int{int(c16DNS)}, c16BExact}, {[]int{int(c16DNSTwo)}, c16BExact}, {[]int{int(c16Private), int(c16Foreign6)}, c16BSmall100},
	}
	seconds := []c16Shape{
		{[]int{int(c16Same)}, c16BExact}, {[]int{int(c16Foreign)}, c16BEarlyClose}, {[]int{int(c16Foreign)}, c16BExact},
		{[]int{int(c16Private)}, c16BExact}, {[]int{int(c16DNS)}, c16BShortClose}, {[]int{int(c16NoTransport), int(c16Same)}, c16BExact},
	}
	gaps := []time.Duration{0, 10 * time.Second, 61 * time.Second, 3 * time.Minute}
	var jobs []c16Job
	for _, s1 := range firsts {
		for _, s2 := range seconds {
			for _, g := range gaps {
				for _, ok := range []bool{false, true} {
					for _, who := range []string{"a", "b"} {
						jobs = append(jobs, c16PairJob(ids, obs, s1, s2, g, ok, who))
					}
				}
			}
		}
	}
	r.Bounds["pairs"] = fmt.Sprintf("%d first requests x %d second requests x gaps {0,10s,61s,3m} x dial fails/succeeds x second requester same/other peer", len(firsts), len(seconds))
	c16RunJobs(t, r, jobs)
	r.Flush()

	// ---- concurrent
	r = vrep.New("C16", "server-concurrent")
	n := 5
	if vrep.Thorough() {
		n = 6
	}
	jobs = nil
	for _, conc := range []int{1, 2, 3} {
		for _, seq := range c16Seqs([]int{c16EvStall, c16EvRefused, c16EvEarlyClose, c16EvWait16}, n) {
			jobs = append(jobs, c16ConcJob(ids, obs, conc, seq))
		}
	}
	// ... and with a dial-data limit of one per minute: requests turned down at THAT limit while others of the peer are
	// in service (stalled in the dial-data phase, or dialling back slowly)
	for _, seq := range c16Seqs([]int{c16EvStall, c16EvDialHang, c16EvEarlyClose, c16EvWait16}, n) {
		jobs = append(jobs, c16ConcJobDD(ids, obs, 2, 1, seq))
	}
	r.Bounds["concurrent"] = fmt.Sprintf("MaxConcurrentRequestsPerPeer 1,2,3 (dial-data limit 12/min) over {%s}, and MaxConcurrentRequestsPerPeer 2 with a dial-data limit of 1/min over {%s}; every sequence of %d events; one peer",
		strings.Join(c16EvNames[:4], ", "), strings.Join([]string{c16EvNames[0], c16EvNames[4], c16EvNames[2], c16EvNames[3]}, ", "), n)
	c16RunJobs(t, r, jobs)
	r.Flush()

	// ---- arrivals
	r = vrep.New("C16", "server-arrivals")
	syms := []int{c16ArSameA, c16ArSameB, c16ArForeignA, c16ArForeignB, c16ArAdv30, c16ArAdv60}
	n = 5
	if vrep.Thorough() {
		syms = append(syms, c16ArAdv59, c16ArAdv1)
		n = 6
	}
	jobs = nil
	for _, seq := range c16Seqs(syms, n) {
		jobs = append(jobs, c16ArrivalJob(ids, obs, seq))
	}
	var sn []string
	for _, s := range syms {
		sn = append(sn, c16ArNames[s])
	}
	r.Bounds["arrivals"] = fmt.Sprintf("server limits RPM=3 PerPeer=2 DialData=1 Concurrent=2; every sequence of exactly %d events (covers all shorter ones as prefixes) over {%s}", n, strings.Join(sn, ", "))
	r.Bounds["window_edge"] = "half-open window (t-60s, t]"
	c16RunJobs(t, r, jobs)
	r.Flush()
}
