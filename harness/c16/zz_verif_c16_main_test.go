//go:build verif

package autonatv2

import "testing"

// TestVerifC16 runs both sub-parts of the C16 check: the rate limiter (engine E1, seqmc) and the server's
// request handling (engine E3, exhaustive input enumeration).
func TestVerifC16(t *testing.T) {
	c16Limiter(t)
	c16Server(t)
}
