//go:build verif

package autonatv2

// C16, part A: the AutoNAT v2 server's rate limiter. Engine E1 (seqmc) over the REAL rateLimiter with its
// injectable clock.
//
// Statement (second sentence): "In every sliding one-minute window the server accepts no more requests than
// its global, per-peer and dial-data limits, and it never serves more than the configured number of
// concurrent requests of one peer."
//
// Events: Accept(p), p in a small peer population; AcceptDialDataRequest() (the real method takes no peer:
// the dial-data budget is global); CompleteRequest(p), enabled only while the tracker knows an accepted and
// not yet completed request of p (the server calls it exactly once per accepted request, by defer);
// Advance(d), d from a small set of durations.
//
// Oracle = upper bounds only (over-rejection is not a violation of the statement). A tracker remembers the
// time of every accept (relative to now) and after every accept checks the number of accepts inside the
// window ending now. That is sufficient for EVERY window: for a window (t-60s, t] let t' <= t be the latest
// accept in it; the window (t'-60s, t'] contains at least the same accepts, and it is checked when the
// accept at t' happens.
//
// Window edge. "One-minute window" is read as a HALF-OPEN interval of length one minute, (t-60s, t]:
// two accepts exactly 60.000000000 s apart are not in a common window. The closed reading [t-60s, t] would
// also be defensible and is violated by the unchanged code for accepts exactly one minute apart (cleanup
// drops an entry when now-t >= time.Minute). The statement does not settle the edge, the two readings differ
// on a set of measure zero in real time, so the weaker (half-open) oracle is used; this is reported.

import (
	"fmt"
	"sort"
	"strings"
	"sync/atomic"
	"testing"
	"time"

	"github.com/libp2p/go-libp2p/core/peer"
	"github.com/libp2p/go-libp2p/x/verif/seqmc"
	"github.com/libp2p/go-libp2p/x/verif/vrep"
)

const c16Window = time.Minute

type c16Clock struct{ t time.Time }

func (c *c16Clock) Now() time.Time { return c.t }

type c16Acc struct {
	peer int
	at   time.Time
}

type c16LimCfg struct {
	rpm, perPeer, dialData, conc int
	peers                        int
	advances                     []time.Duration
	clip                         time.Duration // impl timestamps older than this are printed as "old" in the key
	depth                        int           // 0 = closure
	name                         string
}

type c16LimInst struct {
	cfg      *c16LimCfg
	clk      *c16Clock
	rl       *rateLimiter
	acc      []c16Acc    // tracker: accepted requests still inside the window ending now
	dd       []time.Time // tracker: accepted dial-data requests still inside the window ending now
	inflight []int       // tracker: accepted and not completed, per peer
}

type c16LimOp struct {
	kind int // 0 Accept 1 AcceptDialDataRequest 2 CompleteRequest 3 Advance
	peer int
	d    time.Duration
}

// outcome classes observed at least once (Accept true/false, AcceptDialDataRequest true/false)
var c16LimSeen [4]atomic.Bool

var c16PeerIDs = []peer.ID{"A", "B", "C"}

func (o c16LimOp) String() string {
	switch o.kind {
	case 0:
		return "Accept(" + string(c16PeerIDs[o.peer]) + ")"
	case 1:
		return "AcceptDialDataRequest()"
	case 2:
		return "CompleteRequest(" + string(c16PeerIDs[o.peer]) + ")"
	}
	return "Advance(" + o.d.String() + ")"
}

// prune drops tracker entries that have left the half-open window (now-60s, now].
func (in *c16LimInst) prune() {
	now := in.clk.t
	k := 0
	for _, a := range in.acc {
		if now.Sub(a.at) < c16Window {
			in.acc[k] = a
			k++
		}
	}
	in.acc = in.acc[:k]
	k = 0
	for _, t := range in.dd {
		if now.Sub(t) < c16Window {
			in.dd[k] = t
			k++
		}
	}
	in.dd = in.dd[:k]
}

// age prints a timestamp of the implementation relative to now, clipped.
//
// Canonicalisation: the only code that reads a stored timestamp is cleanup(), which compares now-t with
// time.Minute, and cleanup runs at the start of every Accept/AcceptDialDataRequest before any decision.
// now-t only grows, so once an entry is at least one minute old its exact age can never matter again: it is
// dropped by the next cleanup whatever happens in between (Advance and CompleteRequest do not look at it).
// Entries with age >= clip (clip >= 60 s; 120 s is used so that an edited threshold up to two minutes would
// still be distinguished) are therefore printed as "old". Ages below the clip are exact. The tracker part of
// the key is exact for everything inside the window, which is all the oracle reads.
func (in *c16LimInst) age(t time.Time) string {
	d := in.clk.t.Sub(t)
	if d >= in.cfg.clip {
		return "old"
	}
	return fmt.Sprint(int64(d / time.Millisecond))
}

func (in *c16LimInst) key() string {
	var sb strings.Builder
	r := in.rl
	fmt.Fprintf(&sb, "closed=%v reqs=", r.closed)
	for _, e := range r.reqs {
		fmt.Fprintf(&sb, "%s@%s,", e.PeerID, in.age(e.Time))
	}
	sb.WriteString(" peer=")
	ps := make([]string, 0, len(r.peerReqs))
	for p := range r.peerReqs {
		ps = append(ps, string(p))
	}
	sort.Strings(ps)
	for _, p := range ps {
		sb.WriteString(p + ":")
		for _, t := range r.peerReqs[peer.ID(p)] {
			sb.WriteString(in.age(t) + ",")
		}
		sb.WriteString(";")
	}
	sb.WriteString(" dd=")
	for _, t := range r.dialDataReqs {
		sb.WriteString(in.age(t) + ",")
	}
	sb.WriteString(" inprog=")
	ps = ps[:0]
	for p := range r.inProgressReqs {
		ps = append(ps, string(p))
	}
	sort.Strings(ps)
	for _, p := range ps {
		fmt.Fprintf(&sb, "%s:%d,", p, r.inProgressReqs[peer.ID(p)])
	}
	// fields of the limiter this harness does not know (added by a later change) join the key as they are
	sb.WriteString(seqmc.ExtraFields(r, "PerPeerRPM", "RPM", "DialDataRPM", "MaxConcurrentRequestsPerPeer", "mu", "closed", "reqs", "peerReqs", "dialDataReqs", "inProgressReqs", "now"))
	// tracker
	sb.WriteString(" | acc=")
	for _, a := range in.acc {
		fmt.Fprintf(&sb, "%d@%d,", a.peer, int64(in.clk.t.Sub(a.at)/time.Millisecond))
	}
	sb.WriteString(" dd=")
	for _, t := range in.dd {
		fmt.Fprintf(&sb, "%d,", int64(in.clk.t.Sub(t)/time.Millisecond))
	}
	fmt.Fprintf(&sb, " inflight=%v", in.inflight)
	return sb.String()
}

func c16LimSpec(t *testing.T, cfg *c16LimCfg) *seqmc.Spec[*c16LimInst, c16LimOp] {
	depth := cfg.depth
	if depth == 0 {
		depth = 1 << 20
	}
	return &seqmc.Spec[*c16LimInst, c16LimOp]{
		Name: cfg.name,
		New: func() *c16LimInst {
			clk := &c16Clock{t: time.Unix(1_700_000_000, 0)}
			return &c16LimInst{cfg: cfg, clk: clk, inflight: make([]int, cfg.peers),
				rl: &rateLimiter{RPM: cfg.rpm, PerPeerRPM: cfg.perPeer, DialDataRPM: cfg.dialData,
					MaxConcurrentRequestsPerPeer: cfg.conc, now: clk.Now}}
		},
		Ops: func(in *c16LimInst) []c16LimOp {
			var ops []c16LimOp
			for p := 0; p < cfg.peers; p++ {
				ops = append(ops, c16LimOp{kind: 0, peer: p})
			}
			ops = append(ops, c16LimOp{kind: 1})
			for p := 0; p < cfg.peers; p++ {
				if in.inflight[p] > 0 { // callers never complete more than they started
					ops = append(ops, c16LimOp{kind: 2, peer: p})
				}
			}
			for _, d := range cfg.advances {
				ops = append(ops, c16LimOp{kind: 3, d: d})
			}
			return ops
		},
		Show: func(o c16LimOp) string { return o.String() },
		Key:  func(in *c16LimInst) string { return in.key() },
		Apply: func(in *c16LimInst, op c16LimOp) error {
			switch op.kind {
			case 0:
				ok := in.rl.Accept(c16PeerIDs[op.peer])
				in.prune()
				if !ok {
					c16LimSeen[1].Store(true)
					return nil
				}
				c16LimSeen[0].Store(true)
				in.acc = append(in.acc, c16Acc{peer: op.peer, at: in.clk.t})
				in.inflight[op.peer]++
				n := 0
				for _, a := range in.acc {
					if a.peer == op.peer {
						n++
					}
				}
				if len(in.acc) > cfg.rpm {
					return seqmc.Violation("limiter-global-rpm-exceeded", "%d requests accepted inside one minute (ages %s), global limit %d", len(in.acc), in.showAcc(), cfg.rpm)
				}
				if n > cfg.perPeer {
					return seqmc.Violation("limiter-per-peer-rpm-exceeded", "%d requests of peer %s accepted inside one minute (ages %s), per-peer limit %d", n, string(c16PeerIDs[op.peer]), in.showAcc(), cfg.perPeer)
				}
				if in.inflight[op.peer] > cfg.conc {
					return seqmc.Violation("limiter-concurrent-per-peer-exceeded", "%d requests of peer %s in flight, limit %d", in.inflight[op.peer], string(c16PeerIDs[op.peer]), cfg.conc)
				}
			case 1:
				ok := in.rl.AcceptDialDataRequest()
				in.prune()
				if !ok {
					c16LimSeen[3].Store(true)
					return nil
				}
				c16LimSeen[2].Store(true)
				in.dd = append(in.dd, in.clk.t)
				if len(in.dd) > cfg.dialData {
					return seqmc.Violation("limiter-dial-data-rpm-exceeded", "%d dial-data requests accepted inside one minute, limit %d", len(in.dd), cfg.dialData)
				}
			case 2:
				in.rl.CompleteRequest(c16PeerIDs[op.peer])
				in.inflight[op.peer]--
			case 3:
				in.clk.t = in.clk.t.Add(op.d)
				in.prune()
			}
			return nil
		},
		Depth:    depth,
		T:        t,
		Deadline: vrep.Deadline(),
	}
}

func (in *c16LimInst) showAcc() string {
	var s []string
	for _, a := range in.acc {
		s = append(s, fmt.Sprintf("%s@-%s", string(c16PeerIDs[a.peer]), in.clk.t.Sub(a.at)))
	}
	return strings.Join(s, " ")
}

func c16Secs(s ...int) []time.Duration {
	var out []time.Duration
	for _, x := range s {
		out = append(out, time.Duration(x)*time.Second)
	}
	return out
}

func c16Limiter(t *testing.T) {
	fine := c16Secs(1, 30, 59, 60)
	coarse := c16Secs(10, 30, 50, 60)
	clip := 2 * time.Minute
	var cfgs []*c16LimCfg
	dFine, dFineWide := 11, 8
	if vrep.Thorough() {
		dFine, dFineWide = 15, 10
	}
	for _, conc := range []int{1, 2} {
		// to closure on a 10 s grid: every history of any length over the alphabet
		cfgs = append(cfgs, &c16LimCfg{rpm: 3, perPeer: 2, dialData: 1, conc: conc, peers: 2, advances: coarse, clip: clip})
		// 1 s grid around the window edge (59 s, 60 s, 60+1 s): the reachable set has ~10^8 states
		// (every integer age below 60 s is reachable), so this one is depth-bounded
		cfgs = append(cfgs, &c16LimCfg{rpm: 3, perPeer: 2, dialData: 1, conc: conc, peers: 2, advances: fine, clip: clip, depth: dFine})
	}
	// smaller limits, 1 s grid, coarse step added; depth-bounded
	cfgs = append(cfgs, &c16LimCfg{rpm: 2, perPeer: 1, dialData: 1, conc: 1, peers: 2, advances: fine, clip: clip, depth: dFine})
	cfgs = append(cfgs, &c16LimCfg{rpm: 2, perPeer: 2, dialData: 2, conc: 2, peers: 2, advances: coarse, clip: clip})
	if vrep.Thorough() {
		cfgs = append(cfgs,
			&c16LimCfg{rpm: 3, perPeer: 1, dialData: 1, conc: 1, peers: 3, advances: coarse, clip: clip},
			&c16LimCfg{rpm: 4, perPeer: 2, dialData: 2, conc: 2, peers: 3, advances: fine, clip: clip, depth: dFineWide},
			&c16LimCfg{rpm: 3, perPeer: 3, dialData: 1, conc: 3, peers: 2, advances: c16Secs(20, 40, 60), clip: clip},
		)
	}
	rClosed, rDepth := vrep.New("C16", "limiter-closure"), vrep.New("C16", "limiter-depth-bounded")
	for _, r := range []*vrep.Result{rClosed, rDepth} {
		r.Bounds["limits"] = "RPM/PerPeerRPM/DialDataRPM/MaxConcurrentRequestsPerPeer as named per search"
		r.Bounds["window_edge"] = "half-open window (t-60s, t]: accepts exactly 60 s apart are not in one window"
		r.Bounds["impl_timestamp_clip_s"] = int(clip / time.Second)
	}
	accepted := false
	for _, cfg := range cfgs {
		var adv []string
		for _, d := range cfg.advances {
			adv = append(adv, d.String())
		}
		dep := "closure"
		if cfg.depth > 0 {
			dep = fmt.Sprintf("depth %d", cfg.depth)
		}
		cfg.name = fmt.Sprintf("limiter RPM=%d PerPeer=%d DialData=%d Concurrent=%d peers=%d advance={%s} %s",
			cfg.rpm, cfg.perPeer, cfg.dialData, cfg.conc, cfg.peers, strings.Join(adv, ","), dep)
		st := seqmc.Run(c16LimSpec(t, cfg))
		if cfg.depth == 0 {
			seqmc.Fill(rClosed, cfg.name, st)
		} else {
			seqmc.Fill(rDepth, cfg.name, st)
		}
	}
	for i, n := range []string{"Accept=true", "Accept=false", "AcceptDialDataRequest=true", "AcceptDialDataRequest=false"} {
		if c16LimSeen[i].Load() {
			rClosed.Outcome("observed " + n)
		}
	}
	accepted = c16LimSeen[0].Load() && c16LimSeen[2].Load()
	rClosed.Flush()
	rDepth.Flush()
	if !accepted {
		t.Errorf("C16 limiter: vacuous run, the limiter never accepted anything (no verdict)")
	}
}
