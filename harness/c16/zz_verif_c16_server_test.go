//go:build verif

package autonatv2

// C16, part B: the AutoNAT v2 server's request handling. Engine E3 (exhaustive input enumeration): the REAL
// server.serveDialRequest is driven over an in-memory stream by a scripted client, inside a testing/synctest
// bubble (virtual time), with the real blankhost+swarm+peerstore as dialer host and recording transports.
//
// Statement (first sentence), and the oracle checked after EVERY execution (c16Audit):
//   "dials back only an address taken from the client's request"      -> every transport-level Dial has an
//        address that is one of the request's addresses (or, for a /dns4 address of the request, one of the
//        addresses the DNS table resolves it to; a trailing /p2p/<requester> is ignored like the swarm does);
//   "and only to the requesting peer"                                   -> Dial's peer == the stream's RemotePeer;
//   "when that address's IP differs from the IP the request came from it dials only after the client has first
//    sent at least the number of bytes of dial data the server asked for (30 to 100 kB)"
//        -> for every Dial whose address has another IP than the observed address (or where one of the two has
//           no IP at all): the server had sent a DialDataRequest with 30000 <= NumBytes <= 100000 and, at the
//           instant Dial was called, had already consumed >= NumBytes bytes of DialDataResponse.data;
//   "a request naming no public, dialable address is refused without any dial"
//        -> if every address of the request is, by construction, private / unparsable / without a transport,
//           the answer is DialResponse{E_DIAL_REFUSED} and no Dial happened.
// Nothing is required in the other direction (the server may refuse or reject more than necessary).

import (
	"bytes"
	"encoding/binary"
	"fmt"
	"net"
	"runtime"
	"sort"
	"strings"
	"sync"
	"testing"
	"testing/synctest"
	"time"

	"github.com/libp2p/go-libp2p/core/peer"
	"github.com/libp2p/go-libp2p/p2p/protocol/autonatv2/pb"
	"github.com/libp2p/go-libp2p/x/verif/vrep"
	"github.com/libp2p/go-msgio/pbio"
	ma "github.com/multiformats/go-multiaddr"
	manet "github.com/multiformats/go-multiaddr/net"
	"google.golang.org/protobuf/proto"
)

// ---------- identities ----------

type c16IDs struct {
	dialer, a, b, relay, other c16ID
}

func c16MakeIDs() *c16IDs {
	s := uint64(vrep.Seed()) * 1000
	return &c16IDs{dialer: c16MakeID(s + 1), a: c16MakeID(s + 2), b: c16MakeID(s + 3), relay: c16MakeID(s + 4), other: c16MakeID(s + 5)}
}

// ---------- observed addresses ----------

type c16Obs struct {
	name   string
	addr   ma.Multiaddr
	sameIP string // an IP literal equal to the observed IP (or just some public IP when the observed address has none)
	// limited: what the connection's Stat() says (a relayed connection through a relay that applies limits). A relay
	// run WithInfiniteLimits hands out connections that are relayed but NOT limited.
	limited bool
}

func c16Observed(ids *c16IDs) []c16Obs {
	return []c16Obs{
		{"ip4-tcp", ma.StringCast("/ip4/1.2.3.4/tcp/30001"), "1.2.3.4", false},
		{"ip6-quic", ma.StringCast("/ip6/2604:1380:4601:3a00::5/udp/30001/quic-v1"), "2604:1380:4601:3a00::5", false},
		{"relayed", ma.StringCast("/ip4/7.7.7.7/tcp/4001/p2p/" + ids.relay.id.String() + "/p2p-circuit"), "7.7.7.7", true},
		{"no-ip(dns)", ma.StringCast("/dns4/client.example.net/tcp/443/ws"), "1.2.3.4", false},
		{"relayed-unlimited", ma.StringCast("/ip4/7.7.7.7/tcp/4001/p2p/" + ids.relay.id.String() + "/p2p-circuit"), "7.7.7.7", false},
	}
}

// ---------- address classes ----------

type c16Class int

const (
	c16Same        c16Class = iota // public, same IP as observed, tcp
	c16Foreign                     // public, other IP, tcp
	c16Private                     // 192.168/16
	c16Unparsable                  // bytes that are no multiaddr
	c16NoTransport                 // public IP (the observed one), plain /udp: no transport dials it
	c16DNS                         // /dns4/<name>/tcp/<port>/ws: the ws transport dials DNS names; resolves to a foreign IP
	c16Foreign6                    // public other IP, ip6 quic-v1
	c16Circuit                     // relay address: no circuit transport on the dialer, and force-direct
	c16DNSNoTpt                    // /dns4/<name>/tcp/<port>: public, but the tcp transport dials IPs only
	c16P2PSelf                     // foreign IP, /p2p/<requester> appended
	c16P2POther                    // foreign IP, /p2p/<someone else> appended
	c16Empty                       // zero-length address bytes
	c16DNSTwo                      // /dns4 name with two A records (a foreign IP and the observed IP)
	c16Doc4                        // 203.0.113/24 (documentation range): neither private nor public, tcp (a transport would dial it)
	c16Multicast4                  // 224.0.0.251 quic-v1: neither private nor public
	c16Doc6                        // 2001:db8::/32 quic-v1: neither private nor public
	c16NumClasses
)

var c16ClassNames = []string{"same-ip", "foreign-ip", "private", "unparsable", "no-transport", "dns-ws", "foreign-ip6-quic",
	"circuit", "dns-no-transport", "p2p-self", "p2p-other", "empty-bytes", "dns-two-records", "documentation-ip4", "multicast-ip4", "documentation-ip6"}

const (
	c16No      = 0 // by construction not (public and dialable)
	c16Yes     = 1 // by construction public and dialable
	c16Unknown = 2 // the statement does not say (no requirement derived from it)
)

var c16ClassLabel = []int{c16Yes, c16Yes, c16No, c16No, c16No, c16Yes, c16Yes, c16No, c16No, c16Yes, c16Unknown, c16No, c16Yes, c16No, c16No, c16No}

func c16IPAddr(ip string) string {
	if net.ParseIP(ip).To4() != nil {
		return "/ip4/" + ip
	}
	return "/ip6/" + ip
}

// c16AddrBytes builds the address of class c at position pos of a request (the port makes every entry unique).
func c16AddrBytes(ids *c16IDs, ob c16Obs, requester peer.ID, c c16Class, pos int) []byte {
	port := 4001 + pos
	var s string
	switch c {
	case c16Same:
		s = fmt.Sprintf("%s/tcp/%d", c16IPAddr(ob.sameIP), port)
	case c16Foreign:
		s = fmt.Sprintf("/ip4/5.6.7.8/tcp/%d", port)
	case c16Private:
		s = fmt.Sprintf("/ip4/192.168.1.10/tcp/%d", port)
	case c16Unparsable:
		return []byte{0x04, 0x01, byte(pos)} // /ip4 with a truncated value
	case c16NoTransport:
		s = fmt.Sprintf("%s/udp/%d", c16IPAddr(ob.sameIP), port)
	case c16DNS:
		s = fmt.Sprintf("/dns4/victim.example.com/tcp/%d/ws", port)
	case c16Foreign6:
		s = fmt.Sprintf("/ip6/2a00:1450:4001:81b::200e/udp/%d/quic-v1", port)
	case c16Circuit:
		s = fmt.Sprintf("/ip4/5.6.7.9/tcp/%d/p2p/%s/p2p-circuit", port, ids.relay.id)
	case c16DNSNoTpt:
		s = fmt.Sprintf("/dns4/victim.example.com/tcp/%d", port)
	case c16P2PSelf:
		s = fmt.Sprintf("/ip4/5.6.7.10/tcp/%d/p2p/%s", port, requester)
	case c16P2POther:
		s = fmt.Sprintf("/ip4/5.6.7.11/tcp/%d/p2p/%s", port, ids.other.id)
	case c16Empty:
		return []byte{}
	case c16DNSTwo:
		s = fmt.Sprintf("/dns4/two.example.com/tcp/%d/ws", port)
	case c16Doc4:
		s = fmt.Sprintf("/ip4/203.0.113.7/tcp/%d", port)
	case c16Multicast4:
		s = fmt.Sprintf("/ip4/224.0.0.251/udp/%d/quic-v1", port)
	case c16Doc6:
		s = fmt.Sprintf("/ip6/2001:db8::7/udp/%d/quic-v1", port)
	}
	return ma.StringCast(s).Bytes()
}

func c16DNSTable(ob c16Obs) map[string][]string {
	return map[string][]string{
		"victim.example.com": {"9.9.9.9"},
		"two.example.com":    {"9.9.9.10", ob.sameIP},
	}
}

// ---------- scripted client behaviours after a DialDataRequest ----------

type c16Beh int

const (
	c16BExact      c16Beh = iota // 4000-byte chunks, exactly NumBytes in total (what the real client does, modulo rounding up)
	c16BShortClose               // NumBytes-1 in total, then close
	c16BShortStall               // NumBytes-1 in total, then silence until the server gives up
	c16BSmall100                 // 100-byte chunks (the minimum the server tolerates), exactly NumBytes
	c16BTiny99                   // 99-byte chunks
	c16BTinyMiddle               // 4000-byte chunks, the third one has 50 bytes
	c16BOversized                // one message larger than the maximum message size
	c16BEarlyClose               // close without sending anything
	c16BStallHalf                // half of it, then silence
	c16BMaxChunks                // 8186-byte chunks: the largest message that fits the server's buffer
	c16BVarintEdge               // chunk sizes 125,126,127,128 in turn (protobuf length prefixes change size there)
	c16BEmptyMsgs                // DialDataResponse messages with empty data
	c16BGarbage                  // 4096-byte frames that are not protobuf at all, a little more than NumBytes in total
	c16BFragmented               // like exact, but written to the stream 13 bytes at a time
	// whole 4000-byte messages for as long as they fit below NumBytes, then the first 12 bytes of one more such
	// message and the end of the stream, which the server reads in ONE Read call (n > 0 together with io.EOF)
	c16BTruncatedLastEOF
	c16NumBeh
)

var c16BehNames = []string{"exact", "one-byte-short-then-close", "one-byte-short-then-stall", "100-byte-messages", "99-byte-messages",
	"50-byte-message-in-the-middle", "oversized-message", "early-close", "half-then-stall", "8186-byte-messages", "varint-edge-sizes",
	"empty-messages", "garbage-frames", "fragmented-writes", "truncated-last-message-with-eof"}

type c16FrameRec struct {
	raw     int  // bytes on the stream (length prefix + message)
	payload int  // bytes of DialDataResponse.data carried (0 for garbage)
	garbage bool // not a protobuf message
}

// c16Plan returns the sequence of frames the client will try to write for behaviour b and what it does after.
// after: 0 = keep the stream open and wait, 1 = close.
func c16Plan(b c16Beh, n int) (sizes []int, garbage bool, after int) {
	chunks := func(total, size int) []int {
		var out []int
		for total > 0 {
			k := size
			if k > total {
				k = total
			}
			out = append(out, k)
			total -= k
		}
		return out
	}
	switch b {
	case c16BExact, c16BFragmented:
		return chunks(n, 4000), false, 0
	case c16BShortClose:
		return chunks(n-1, 4000), false, 1
	case c16BShortStall:
		return chunks(n-1, 4000), false, 0
	case c16BSmall100:
		return chunks(n, 100), false, 0
	case c16BTiny99:
		return chunks(n, 99), false, 0
	case c16BTinyMiddle:
		s := chunks(n, 4000)
		if len(s) > 2 {
			s[2] = 50
			s = append(s, 3950)
		}
		return s, false, 0
	case c16BOversized:
		return append([]int{maxMsgSize + 8}, chunks(n, 4000)...), false, 0
	case c16BEarlyClose:
		return nil, false, 1
	case c16BStallHalf:
		// whole 4000-byte messages only: a last message below 100 bytes would be refused as "too small" and the
		// request would end at once instead of stalling (NumBytes is the server's random choice)
		return chunks(n/2/4000*4000, 4000), false, 0
	case c16BMaxChunks:
		return chunks(n, 8186), false, 0
	case c16BVarintEdge:
		var out []int
		for i, left := 0, n; left > 0; i++ {
			k := 125 + i%4
			if k > left {
				k = left
			}
			out = append(out, k)
			left -= k
		}
		return out, false, 0
	case c16BEmptyMsgs:
		return make([]int, 64), false, 0
	case c16BTruncatedLastEOF:
		return chunks((n-1)/4000*4000, 4000), false, 2
	case c16BGarbage:
		// the server credits 4090 bytes for a 4096-byte frame; send enough frames for its count to reach n
		return chunks((n/4090+2)*4096, 4096), true, 0
	}
	panic("c16: unknown behaviour")
}

// ---------- one request ----------

const (
	c16ReqNormal   = iota // a DialRequest
	c16ReqWrongMsg        // a DialResponse instead of a DialRequest
	c16ReqGarbage         // a frame that is no protobuf message
	c16ReqTooLarge        // a DialRequest larger than the maximum message size
	c16ReqSilent          // nothing at all (the server has to time out)
)

var c16ReqKindNames = []string{"dial-request", "wrong-message-type", "garbage-frame", "too-large", "silent"}

type c16Req struct {
	Requester string   `json:"requester"` // "a" or "b"
	Obs       int      `json:"observed"`
	Classes   []int    `json:"address_classes"`
	Long      string   `json:"long_list,omitempty"`
	Kind      int      `json:"request_kind"`
	Beh       int      `json:"dial_data_behaviour"`
	PortBase  int      `json:"port_base,omitempty"`
	ObsAddr   string   `json:"observed_addr,omitempty"`
	Addrs     []string `json:"addrs,omitempty"`
}

type c16Outcome struct {
	req      c16Req
	reqAddrs [][]byte
	msgs     []*pb.Message
	frames   []c16FrameRec
	reqLen   int
	evt      EventDialRequestCompleted
	started  time.Duration
	ended    time.Duration
	done     bool
	dial0    int // index of the first entry of env.dials belonging to this request
	dial1    int
	stream   int // index into env.streams
	nonce    uint64
}

func (o *c16Outcome) ddr() *pb.DialDataRequest {
	for _, m := range o.msgs {
		if d := m.GetDialDataRequest(); d != nil {
			return d
		}
	}
	return nil
}

func (o *c16Outcome) lastResp() *pb.DialResponse {
	for i := len(o.msgs) - 1; i >= 0; i-- {
		if d := o.msgs[i].GetDialResponse(); d != nil {
			return d
		}
	}
	return nil
}

func c16BuildAddrs(ids *c16IDs, ob c16Obs, requester peer.ID, rq *c16Req) [][]byte {
	var out [][]byte
	for i, c := range rq.Classes {
		out = append(out, c16AddrBytes(ids, ob, requester, c16Class(c), rq.PortBase+i))
	}
	return out
}

// c16Client runs the scripted client on its end of the stream; it returns when the server has closed the
// stream. Everything it learns is stored in o (read by the harness only after the client has finished).
func c16Client(cli *c16Stream, o *c16Outcome, reqFrame []byte) {
	msgs := make(chan *pb.Message, 16)
	var rwg sync.WaitGroup
	rwg.Add(1)
	go func() {
		defer rwg.Done()
		defer close(msgs)
		r := pbio.NewDelimitedReader(cli, maxMsgSize)
		for {
			m := new(pb.Message)
			if err := r.ReadMsg(m); err != nil {
				return
			}
			msgs <- m
		}
	}()
	defer rwg.Wait()
	if reqFrame != nil {
		o.reqLen = len(reqFrame)
		if _, err := cli.Write(reqFrame); err != nil {
			for m := range msgs {
				o.msgs = append(o.msgs, m)
			}
			return
		}
	}
	answered := false
	for m := range msgs {
		o.msgs = append(o.msgs, m)
		d := m.GetDialDataRequest()
		if d == nil || answered {
			continue
		}
		answered = true
		n := int(d.NumBytes)
		if n > 1<<20 {
			n = 1 << 20 // a server asking for more than that is reported by the audit; do not allocate it
		}
		sizes, garbage, after := c16Plan(c16Beh(o.req.Beh), n)
		ok := true
		for _, sz := range sizes {
			var f []byte
			if garbage {
				f = c16Frame(bytes.Repeat([]byte{0xff}, sz))
				o.frames = append(o.frames, c16FrameRec{raw: len(f), garbage: true})
			} else {
				f = c16Frame(c16DialDataMsg(sz))
				o.frames = append(o.frames, c16FrameRec{raw: len(f), payload: sz})
			}
			if c16Beh(o.req.Beh) == c16BFragmented {
				for len(f) > 0 && ok {
					k := 13
					if k > len(f) {
						k = len(f)
					}
					if _, err := cli.Write(f[:k]); err != nil {
						ok = false
					}
					f = f[k:]
				}
			} else if _, err := cli.Write(f); err != nil {
				ok = false
			}
			if !ok {
				break
			}
		}
		if ok && after == 1 {
			cli.Close()
		}
		if ok && after == 2 {
			f := c16Frame(c16DialDataMsg(4000))
			o.frames = append(o.frames, c16FrameRec{raw: 12, payload: 0})
			cli.wr.writeAndClose(f[:12])
		}
	}
}

func c16ReqFrame(rq *c16Req, addrs [][]byte, nonce uint64) []byte {
	switch rq.Kind {
	case c16ReqNormal:
		b, err := proto.Marshal(&pb.Message{Msg: &pb.Message_DialRequest{DialRequest: &pb.DialRequest{Addrs: addrs, Nonce: nonce}}})
		if err != nil {
			panic(err)
		}
		return c16Frame(b)
	case c16ReqWrongMsg:
		b, _ := proto.Marshal(&pb.Message{Msg: &pb.Message_DialResponse{DialResponse: &pb.DialResponse{Status: pb.DialResponse_OK}}})
		return c16Frame(b)
	case c16ReqGarbage:
		return c16Frame(bytes.Repeat([]byte{0xff}, 40))
	case c16ReqTooLarge:
		b, _ := proto.Marshal(&pb.Message{Msg: &pb.Message_DialRequest{DialRequest: &pb.DialRequest{Addrs: addrs, Nonce: nonce}}})
		if len(b) <= maxMsgSize {
			panic("c16: too-large request is not too large")
		}
		return c16Frame(b)
	}
	return nil
}

// c16Serve opens a stream from `requester`, starts the scripted client and runs the REAL serveDialRequest on
// the calling goroutine. The outcome is complete when it returns.
func c16Serve(e *c16Env, ids *c16IDs, obs []c16Obs, rq c16Req) *c16Outcome {
	o := c16Start(e, ids, obs, rq)
	o.wait()
	// let everything this request set in motion at this instant run to its end (e.g. the swarm dials several
	// resolved addresses in parallel; the second Dial may still be on its way when the first one has succeeded
	// and the server has answered), so that dials are attributed to the request that caused them
	synctest.Wait()
	e.mu.Lock()
	o.o.dial1 = len(e.dials)
	e.mu.Unlock()
	return o.o
}

type c16Running struct {
	o    *c16Outcome
	e    *c16Env
	cwg  sync.WaitGroup
	swg  sync.WaitGroup
	cli  *c16Stream
	srvS *c16Stream
}

func (r *c16Running) wait() {
	r.swg.Wait()
	r.cwg.Wait()
}

// c16Start does the same but runs the server side on its own goroutine (for concurrent requests).
func c16Start(e *c16Env, ids *c16IDs, obs []c16Obs, rq c16Req) *c16Running {
	requester := ids.a
	if rq.Requester == "b" {
		requester = ids.b
	}
	ob := obs[rq.Obs]
	o := &c16Outcome{req: rq, nonce: 0xC16C16}
	o.reqAddrs = c16BuildAddrs(ids, ob, requester.id, &rq)
	if rq.Long != "" {
		o.reqAddrs = c16LongList(ids, ob, requester.id, rq.Long)
	}
	if rq.Kind == c16ReqTooLarge {
		o.reqAddrs = nil
		for i := 0; i < 1200; i++ {
			o.reqAddrs = append(o.reqAddrs, ma.StringCast(fmt.Sprintf("/ip4/5.6.7.8/tcp/%d", 1000+i)).Bytes())
		}
	}
	o.req.ObsAddr = ob.addr.String()
	for _, a := range o.reqAddrs {
		if m, err := ma.NewMultiaddrBytes(a); err == nil {
			o.req.Addrs = append(o.req.Addrs, m.String())
		} else {
			o.req.Addrs = append(o.req.Addrs, fmt.Sprintf("bytes:%x", a))
		}
	}
	cli, srvS := c16NewStreamPair(true, &c16ReqConn{localPeer: ids.other.id, remotePeer: requester.id, remoteAddr: ob.addr, limited: ob.limited})
	e.mu.Lock()
	o.stream = len(e.streams)
	e.streams = append(e.streams, srvS)
	o.dial0 = len(e.dials)
	e.mu.Unlock()
	o.started = time.Since(e.start)
	r := &c16Running{o: o, e: e, cli: cli, srvS: srvS}
	frame := c16ReqFrame(&rq, o.reqAddrs, o.nonce)
	r.cwg.Add(1)
	go func() {
		defer r.cwg.Done()
		c16Client(cli, o, frame)
	}()
	r.swg.Add(1)
	go func() {
		defer r.swg.Done()
		evt := e.srv.serveDialRequest(srvS)
		// the real stream handler returns here; a muxer would now free the stream: make sure the client sees the end
		srvS.Close()
		e.mu.Lock()
		o.evt = evt
		o.done = true
		o.ended = time.Since(e.start)
		o.dial1 = len(e.dials)
		e.mu.Unlock()
	}()
	return r
}

// c16LongList: lists around the server's cap on inspected addresses (maxPeerAddresses = 50).
func c16LongList(ids *c16IDs, ob c16Obs, requester peer.ID, kind string) [][]byte {
	var out [][]byte
	add := func(c c16Class, n int) {
		for i := 0; i < n; i++ {
			out = append(out, c16AddrBytes(ids, ob, requester, c, len(out)))
		}
	}
	switch kind {
	case "51xprivate":
		add(c16Private, 51)
	case "49xprivate+same":
		add(c16Private, 49)
		add(c16Same, 1)
	case "49xunparsable+foreign":
		add(c16Unparsable, 49)
		add(c16Foreign, 1)
	case "50xprivate+same":
		add(c16Private, 50)
		add(c16Same, 1)
	case "50xprivate+foreign":
		add(c16Private, 50)
		add(c16Foreign, 1)
	case "50xunparsable+foreign":
		add(c16Unparsable, 50)
		add(c16Foreign, 1)
	case "50xno-transport+dns":
		add(c16NoTransport, 50)
		add(c16DNS, 1)
	default:
		panic("c16: unknown long list " + kind)
	}
	return out
}

var c16LongKinds = []string{"51xprivate", "49xprivate+same", "49xunparsable+foreign", "50xprivate+same", "50xprivate+foreign", "50xunparsable+foreign", "50xno-transport+dns"}

// c16LongLabels: per-entry labels of a long list (same construction as c16LongList).
func c16LongLabels(kind string) []int {
	rep := func(l, n int) []int {
		out := make([]int, n)
		for i := range out {
			out[i] = l
		}
		return out
	}
	switch kind {
	case "51xprivate":
		return rep(c16No, 51)
	case "49xprivate+same", "49xunparsable+foreign":
		return append(rep(c16No, 49), c16Yes)
	default:
		return append(rep(c16No, 50), c16Yes)
	}
}

// ---------- audit ----------

type c16Finding struct{ key, desc string }

func c16IPOf(m ma.Multiaddr) net.IP {
	var ip net.IP
	ma.ForEach(m, func(c ma.Component) bool {
		switch c.Protocol().Code {
		case ma.P_IP4, ma.P_IP6:
			ip = net.IP(c.RawValue())
			return false
		}
		return true
	})
	return ip
}

func c16StripP2P(m ma.Multiaddr, p peer.ID) ma.Multiaddr {
	t, id := peer.SplitAddr(m)
	if id == p && t != nil {
		return t
	}
	return m
}

// c16Audit checks one finished (or abandoned) request against the statement. dials are the transport-level
// dials that happened while it was being served.
//
// mayBeRateLimited: the request was one of several against a server whose limits can be reached; then
// E_REQUEST_REJECTED (the rate limiter speaks before the request is even read) is as good a refusal as
// E_DIAL_REFUSED. Against a fresh server no limit can apply and the answer has to be E_DIAL_REFUSED.
func c16Audit(ids *c16IDs, obs []c16Obs, o *c16Outcome, dials []c16Dial, mayBeRateLimited bool) []c16Finding {
	var out []c16Finding
	add := func(key, f string, a ...any) { out = append(out, c16Finding{key, fmt.Sprintf(f, a...)}) }
	requester := ids.a.id
	if o.req.Requester == "b" {
		requester = ids.b.id
	}
	ob := obs[o.req.Obs]
	dns := c16DNSTable(ob)
	// addresses "taken from the request"
	var allowed []ma.Multiaddr
	if o.req.Kind == c16ReqNormal || o.req.Kind == c16ReqTooLarge {
		for _, b := range o.reqAddrs {
			m, err := ma.NewMultiaddrBytes(b)
			if err != nil || len(m) == 0 {
				continue
			}
			allowed = append(allowed, m, c16StripP2P(m, requester))
			for _, r := range c16Resolve(dns, m, 100) {
				allowed = append(allowed, r, c16StripP2P(r, requester))
			}
		}
	}
	ddr := o.ddr()
	if ddr != nil && (ddr.NumBytes < 30_000 || ddr.NumBytes > 100_000) {
		add("server-dial-data-size-out-of-range", "DialDataRequest.NumBytes=%d, outside 30000..100000", ddr.NumBytes)
	}
	obsIP := c16IPOf(ob.addr)
	if _, err := ob.addr.ValueForProtocol(ma.P_CIRCUIT); err == nil {
		// the request arrived over a relayed connection: the IP in the connection's remote address is the RELAY's, the
		// IP the request came from is not known to the server - no address can be "the same IP" as it
		obsIP = nil
	}
	for _, d := range dials {
		if d.Peer != requester {
			add("server-dial-wrong-peer", "dialled %s for peer %s, the requester is %s", d.Addr, d.Peer, requester)
		}
		found := false
		for _, a := range allowed {
			if a.Equal(d.Addr) {
				found = true
				break
			}
		}
		if !found {
			add("server-dial-address-not-in-request", "dialled %s which is not an address of the request %v", d.Addr, o.req.Addrs)
		}
		dip := c16IPOf(d.Addr)
		if obsIP != nil && dip != nil && obsIP.Equal(dip) {
			continue // same IP as the one the request came from: no dial data needed
		}
		if ddr == nil {
			add("server-dial-foreign-ip-before-dial-data", "dialled %s (request observed from %s) without ever asking for dial data", d.Addr, ob.addr)
			continue
		}
		consumed := int64(0)
		if o.stream < len(d.Consumed) {
			consumed = d.Consumed[o.stream]
		}
		payload, raw := c16Delivered(o, consumed)
		got := payload
		if c16Beh(o.req.Beh) == c16BGarbage {
			// the client sent framed bytes that are not DialDataResponse messages; the server counts them by
			// length without parsing. Weaker oracle for this one behaviour: bytes on the stream.
			got = raw
		}
		if uint64(got) < ddr.NumBytes {
			add("server-dial-foreign-ip-before-dial-data", "dialled %s (request observed from %s) at +%s when the client had sent %d of the %d bytes of dial data asked for (behaviour %s)",
				d.Addr, ob.addr, d.At, got, ddr.NumBytes, c16BehNames[o.req.Beh])
		}
	}
	// refusal
	if o.req.Kind == c16ReqNormal && o.done {
		labels := []int{}
		if o.req.Long != "" {
			labels = c16LongLabels(o.req.Long)
		} else {
			for _, c := range o.req.Classes {
				labels = append(labels, c16ClassLabel[c])
			}
		}
		allNo := true
		for _, l := range labels {
			if l != c16No {
				allNo = false
			}
		}
		if allNo {
			if len(dials) > 0 {
				add("server-dial-for-undialable-request", "request %v names no public dialable address but %d dial(s) happened, first to %s", o.req.Addrs, len(dials), dials[0].Addr)
			}
			resp := o.lastResp()
			refused := resp != nil && (resp.Status == pb.DialResponse_E_DIAL_REFUSED || (mayBeRateLimited && resp.Status == pb.DialResponse_E_REQUEST_REJECTED))
			if !refused || o.ddr() != nil {
				add("server-undialable-request-not-refused", "request %v names no public dialable address; server messages: %s", o.req.Addrs, c16ShowMsgs(o.msgs))
			}
		}
	}
	return out
}

// c16Delivered: bytes of dial data (and raw bytes after the request frame) contained in the first `consumed`
// bytes the server took from the stream. Only completely consumed messages count as dial data.
func c16Delivered(o *c16Outcome, consumed int64) (payload, raw int64) {
	left := consumed - int64(o.reqLen)
	if left < 0 {
		return 0, 0
	}
	raw = left
	for _, f := range o.frames {
		if left < int64(f.raw) {
			break
		}
		left -= int64(f.raw)
		payload += int64(f.payload)
	}
	return payload, raw
}

func c16ShowMsgs(ms []*pb.Message) string {
	var s []string
	for _, m := range ms {
		switch {
		case m.GetDialDataRequest() != nil:
			s = append(s, fmt.Sprintf("DialDataRequest{idx=%d n=%d}", m.GetDialDataRequest().AddrIdx, m.GetDialDataRequest().NumBytes))
		case m.GetDialResponse() != nil:
			s = append(s, fmt.Sprintf("DialResponse{%s idx=%d %s}", m.GetDialResponse().Status, m.GetDialResponse().AddrIdx, m.GetDialResponse().DialStatus))
		default:
			s = append(s, fmt.Sprintf("%T", m.Msg))
		}
	}
	if len(s) == 0 {
		return "(none; stream reset/closed)"
	}
	return strings.Join(s, " ")
}

// class of what happened (deterministic: no byte counts, no times)
func c16OutcomeClass(o *c16Outcome, dials []c16Dial) string {
	resp := "no-response(reset)"
	if r := o.lastResp(); r != nil {
		resp = r.Status.String()
		if r.Status == pb.DialResponse_OK {
			resp += "/" + r.DialStatus.String()
		}
	}
	dd := "no-dial-data-asked"
	if o.ddr() != nil {
		dd = "dial-data:" + c16BehNames[o.req.Beh]
	}
	// (how many of several resolved addresses get dialled before the first success is up to the swarm's
	// scheduling, so the class only says whether there was a dial)
	nd := "dials=0"
	if len(dials) >= 1 {
		nd = "dials>=1"
	}
	return fmt.Sprintf("%s %s %s %s", c16ReqKindNames[o.req.Kind], dd, resp, nd)
}

// ---------- job runner ----------

type c16Job struct {
	name string
	run  func(t *testing.T) *c16JobResult // executed inside its own bubble
}

type c16JobResult struct {
	findings []c16Finding
	classes  []string // outcome classes observed (one per request)
	distinct []string // keys of distinct non-trivial cases
	execs    int
	replay   any
	sample   any
	ddAsked  bool
	sanity   string // non-empty: the honest baseline did not behave as expected (no verdict)
}

func c16RunJobs(t *testing.T, r *vrep.Result, jobs []c16Job) (sanity []string) {
	res := make([]*c16JobResult, len(jobs))
	idx := make(chan int, len(jobs))
	for i := range jobs {
		idx <- i
	}
	close(idx)
	var wg sync.WaitGroup
	deadline := vrep.Deadline()
	for w := 0; w < runtime.GOMAXPROCS(0); w++ {
		wg.Add(1)
		go func() {
			defer wg.Done()
			for i := range idx {
				if time.Now().After(deadline) {
					continue
				}
				synctest.Test(t, func(t *testing.T) { res[i] = jobs[i].run(t) })
			}
		}()
	}
	wg.Wait()
	distinct := map[string]struct{}{}
	skipped := 0
	for i, jr := range res {
		if jr == nil {
			skipped++
			continue
		}
		r.Executions += int64(jr.execs)
		for _, c := range jr.classes {
			r.Outcome(c)
		}
		for _, d := range jr.distinct {
			distinct[d] = struct{}{}
		}
		for _, f := range jr.findings {
			r.Violate(f.key, f.desc, map[string]any{"job": jobs[i].name, "case": jr.replay})
		}
		if jr.sample != nil && (i%997 == 5 || i == 0) {
			r.Sample(jr.sample)
		}
		if jr.sanity != "" {
			sanity = append(sanity, jobs[i].name+": "+jr.sanity)
		}
	}
	if skipped > 0 {
		r.Cap("deadline reached: %d of %d cases not executed", skipped, len(jobs))
	}
	r.Distinct += int64(len(distinct))
	return sanity
}

// ---------- family 1: single requests ----------

func c16Lists(classes []c16Class, maxLen int) [][]int {
	out := [][]int{{}}
	prev := [][]int{{}}
	for l := 1; l <= maxLen; l++ {
		var cur [][]int
		for _, p := range prev {
			for _, c := range classes {
				cur = append(cur, append(append([]int{}, p...), int(c)))
			}
		}
		out = append(out, cur...)
		prev = cur
	}
	return out
}

// c16SingleJob: one request shape; runs behaviour `exact` first and, only if the server asked for dial data,
// every other behaviour (up to the DialDataRequest the client behaves identically whatever the behaviour, so
// the other runs would be literally the same execution).
func c16SingleJob(ids *c16IDs, obs []c16Obs, rq c16Req, dialOK bool, behs []c16Beh) c16Job {
	name := fmt.Sprintf("single obs=%s kind=%s list=%s dialOK=%v", obs[rq.Obs].name, c16ReqKindNames[rq.Kind], c16ListName(rq), dialOK)
	return c16Job{name: name, run: func(t *testing.T) *c16JobResult {
		jr := &c16JobResult{}
		for bi, b := range behs {
			rq := rq
			rq.Beh = int(b)
			e := c16NewEnv(ids, c16DNSTable(obs[rq.Obs]), dialOK)
			o := c16Serve(e, ids, obs, rq)
			e.mu.Lock()
			dials := append([]c16Dial{}, e.dials...)
			backs := append([]c16DialBack{}, e.backs...)
			e.mu.Unlock()
			e.close()
			jr.execs++
			fs := c16Audit(ids, obs, o, dials, false)
			cl := c16OutcomeClass(o, dials)
			jr.classes = append(jr.classes, cl)
			jr.distinct = append(jr.distinct, fmt.Sprintf("%d|%d|%s|%v|%s|%s", rq.Obs, rq.Kind, c16ListName(rq), dialOK, c16BehNames[b], cl))
			rep := map[string]any{"request": o.req, "dial_ok": dialOK, "behaviour": c16BehNames[b], "server_messages": c16ShowMsgs(o.msgs), "dials": c16ShowDials(dials)}
			if len(fs) > 0 && jr.replay == nil {
				jr.replay = rep
			}
			jr.findings = append(jr.findings, fs...)
			if bi == 0 {
				jr.sample = rep
				jr.sanity = c16Baseline(o, dials, backs, dialOK)
			}
			if o.ddr() == nil {
				break
			}
			jr.ddAsked = true
		}
		return jr
	}}
}

func c16ListName(rq c16Req) string {
	if rq.Long != "" {
		return rq.Long
	}
	var s []string
	for _, c := range rq.Classes {
		s = append(s, c16ClassNames[c])
	}
	return "[" + strings.Join(s, ",") + "]"
}

func c16ShowDials(ds []c16Dial) []string {
	var out []string
	for _, d := range ds {
		out = append(out, fmt.Sprintf("%s peer=%s at=+%s consumed=%v via=%s", d.Addr, d.Peer, d.At, d.Consumed, d.Tpt))
	}
	return out
}

// c16Baseline: the honest runs must succeed, otherwise the enumeration proves nothing (reported as "no
// verdict", never as a violation): a request whose FIRST address is same-ip/foreign-ip, honest dial data.
func c16Baseline(o *c16Outcome, dials []c16Dial, backs []c16DialBack, dialOK bool) string {
	if o.req.Kind != c16ReqNormal || o.req.Long != "" || len(o.req.Classes) == 0 {
		return ""
	}
	first := c16Class(o.req.Classes[0])
	if first != c16Same && first != c16Foreign {
		return ""
	}
	resp := o.lastResp()
	if resp == nil || resp.Status != pb.DialResponse_OK || len(dials) != 1 || resp.AddrIdx != 0 {
		return fmt.Sprintf("honest request %v: expected OK and one dial, got %s with %d dials", o.req.Addrs, c16ShowMsgs(o.msgs), len(dials))
	}
	// (observed addresses 2 and 4 are relayed connections: its IP is the relay's, so "same-ip" is not the IP the request came from
	// and dial data is expected for every address; observed address 3 has no IP at all)
	wantData := first == c16Foreign || o.req.Obs == 2 || o.req.Obs == 4
	if wantData != (o.ddr() != nil) && o.req.Obs != 3 {
		return fmt.Sprintf("honest request %v: dial data asked=%v", o.req.Addrs, o.ddr() != nil)
	}
	if dialOK {
		if resp.DialStatus != pb.DialStatus_OK || len(backs) != 1 || backs[0].Nonce != o.nonce {
			return fmt.Sprintf("honest request %v with a reachable client: dial status %s, dial-backs %v", o.req.Addrs, resp.DialStatus, backs)
		}
	} else if resp.DialStatus != pb.DialStatus_E_DIAL_ERROR {
		return fmt.Sprintf("honest request %v with an unreachable client: dial status %s", o.req.Addrs, resp.DialStatus)
	}
	return ""
}

func c16SelfTest(t *testing.T, ids *c16IDs, obs []c16Obs) {
	// hand-written encoder == protobuf
	for _, n := range []int{0, 1, 99, 100, 125, 126, 127, 128, 4000, 8186, 8200} {
		want, err := proto.Marshal(&pb.Message{Msg: &pb.Message_DialDataResponse{DialDataResponse: &pb.DialDataResponse{Data: make([]byte, n)}}})
		if err != nil || !bytes.Equal(want, c16DialDataMsg(n)) {
			t.Fatalf("c16 harness self-test: dial data encoder differs from protobuf at n=%d", n)
		}
	}
	if got := len(c16Frame(c16DialDataMsg(8186))) - binary.PutUvarint(make([]byte, 10), 8192); got != maxMsgSize {
		t.Fatalf("c16 harness self-test: largest message is %d bytes, want %d", got, maxMsgSize)
	}
	// labels: what the harness calls public/private is what manet says
	for _, ob := range obs {
		for c := c16Class(0); c < c16NumClasses; c++ {
			b := c16AddrBytes(ids, ob, ids.a.id, c, 0)
			m, err := ma.NewMultiaddrBytes(b)
			switch c {
			case c16Unparsable:
				if err == nil {
					t.Fatalf("c16 harness self-test: unparsable bytes parse as %s", m)
				}
			case c16Empty:
				if err == nil && len(m) != 0 {
					t.Fatalf("c16 harness self-test: empty bytes parse as %s", m)
				}
			case c16Private:
				if err != nil || manet.IsPublicAddr(m) {
					t.Fatalf("c16 harness self-test: %s is not private", m)
				}
			case c16Doc4, c16Multicast4, c16Doc6:
				if err != nil || manet.IsPublicAddr(m) || manet.IsPrivateAddr(m) {
					t.Fatalf("c16 harness self-test: %s should be neither public nor private", m)
				}
			default:
				if err != nil || !manet.IsPublicAddr(m) {
					t.Fatalf("c16 harness self-test: class %s address %v is not public (%v)", c16ClassNames[c], m, err)
				}
			}
		}
	}
}

func c16Server(t *testing.T) {
	ids := c16MakeIDs()
	obs := c16Observed(ids)
	c16SelfTest(t, ids, obs)

	base := []c16Class{c16Same, c16Foreign, c16Private, c16Unparsable, c16NoTransport, c16DNS}
	ext := []c16Class{c16Same, c16Foreign, c16Private, c16Unparsable, c16NoTransport, c16DNS, c16Foreign6, c16Circuit, c16DNSNoTpt, c16P2PSelf, c16P2POther, c16Empty, c16DNSTwo, c16Doc4, c16Multicast4, c16Doc6}
	allBeh := []c16Beh{}
	for b := c16Beh(0); b < c16NumBeh; b++ {
		if b == c16BFragmented && !vrep.Thorough() {
			continue
		}
		allBeh = append(allBeh, b)
	}

	// ---- family 1
	r := vrep.New("C16", "server-requests")
	var jobs []c16Job
	seenShape := map[string]bool{}
	addLists := func(ob int, lists [][]int, behs []c16Beh) {
		for _, l := range lists {
			for _, ok := range []bool{false, true} {
				k := fmt.Sprint(ob, l, ok)
				if seenShape[k] {
					continue
				}
				seenShape[k] = true
				jobs = append(jobs, c16SingleJob(ids, obs, c16Req{Requester: "a", Obs: ob, Classes: l}, ok, behs))
			}
		}
	}
	if vrep.Thorough() {
		for ob := range obs {
			addLists(ob, c16Lists(ext, 3), allBeh)
		}
		addLists(0, c16Lists(base, 4), allBeh)
		r.Bounds["address_lists"] = "observed ip4-tcp, ip6-quic, relayed (limited / through a relay without limits), no-ip: every list of length 0..3 over 16 classes; plus length 4 over the 6 base classes (observed ip4-tcp); plus 7 lists of 50/51 entries"
	} else {
		addLists(0, c16Lists(base, 3), allBeh)
		addLists(0, c16Lists(ext, 2), allBeh)
		for ob := 1; ob < len(obs); ob++ {
			addLists(ob, c16Lists(base, 2), allBeh)
			addLists(ob, c16Lists(ext, 1), allBeh)
		}
		r.Bounds["address_lists"] = "observed ip4-tcp: every list of length 0..3 over 6 base classes and 0..2 over 16 classes; observed ip6-quic, relayed (limited / through a relay without limits), no-ip: length 0..2 over 6 classes, 0..1 over 16; plus 7 lists of 50/51 entries"
	}
	for _, lk := range c16LongKinds {
		for _, ok := range []bool{false, true} {
			jobs = append(jobs, c16SingleJob(ids, obs, c16Req{Requester: "a", Obs: 0, Long: lk}, ok, allBeh))
		}
	}
	for _, kind := range []int{c16ReqWrongMsg, c16ReqGarbage, c16ReqTooLarge, c16ReqSilent} {
		jobs = append(jobs, c16SingleJob(ids, obs, c16Req{Requester: "a", Obs: 0, Kind: kind, Classes: []int{int(c16Same)}}, false, allBeh))
	}
	var bn []string
	for _, b := range allBeh {
		bn = append(bn, c16BehNames[b])
	}
	r.Bounds["address_classes"] = strings.Join(c16ClassNames, ", ")
	r.Bounds["dial_data_behaviours"] = strings.Join(bn, ", ")
	r.Bounds["dial_outcome"] = "scripted transport: every dial fails / every dial succeeds and the dial-back stream is answered"
	r.Bounds["request_kinds"] = strings.Join(c16ReqKindNames, ", ")
	r.Bounds["server_config"] = "defaultSettings(): RPM 60/12/12, 2 concurrent, amplification policy, dial wait up to 3 s (virtual)"
	sanity := c16RunJobs(t, r, jobs)
	r.Flush()

	c16ServerMulti(t, ids, obs)

	sort.Strings(sanity)
	for i, s := range sanity {
		if i < 5 {
			t.Errorf("C16 server: honest baseline failed, no verdict: %s", s)
		}
	}
}
