//go:build verif

package libp2pwebtransport

// C18, part "verifier": the dialer-side certificate check verifyRawCerts over the full product
//   leaf kind x lifetime x instant (relative to NotBefore/NotAfter) x hash list x chain shape.
// verifyRawCerts reads time.Now, so every (kind, lifetime) runs in a testing/synctest bubble whose virtual
// clock is moved to each instant in ascending order.
//
// Oracle, per the statement ("accepts a server certificate only if its SHA-256 equals one of the hashes in
// the dialed address and it meets the validity rules (not RSA, at most 14 days, currently valid)"):
//   accepted  =>  every rule holds            (all chains; "server certificate" = first certificate of the chain, RFC 8446 4.4.2)
//   every rule holds  =>  accepted            (single-certificate chains only: non-vacuity / "keeps verifying")
// Exactly at NotBefore and exactly at NotAfter the statement is silent: either answer is accepted and recorded.

import (
	"crypto/ecdsa"
	"crypto/ed25519"
	"crypto/elliptic"
	"crypto/rand"
	"crypto/rsa"
	"crypto/sha256"
	"crypto/sha512"
	"crypto/x509"
	"crypto/x509/pkix"
	"fmt"
	"math/big"
	"testing"
	"testing/synctest"
	"time"

	"github.com/libp2p/go-libp2p/x/verif/vrep"
	"github.com/multiformats/go-multihash"
)

type c18LeafKind struct {
	name   string
	broken string // the rule a certificate of this kind breaks ("" = none)
}

var c18LeafKinds = []c18LeafKind{
	{"ecdsa-p256 self-signed", ""},
	{"ed25519 self-signed", ""},
	{"rsa-2048 self-signed sha256WithRSA", "rsa-pkcs1"},
	{"rsa-2048 self-signed sha384WithRSA", "rsa-pkcs1"},
	{"rsa-2048 self-signed sha512WithRSA", "rsa-pkcs1"},
	{"rsa-2048 self-signed sha256WithRSAPSS", "rsa-pss"},
	{"rsa-2048 key issued by an ecdsa issuer", "rsa-key-signed-by-ecdsa-issuer"},
	{"random bytes", "unparsable"},
	{"truncated certificate", "unparsable"},
}

type c18Pos struct {
	name   string
	fromNA bool          // relative to NotAfter (else NotBefore)
	d      time.Duration // offset
	class  int           // -1 before, 0 exactly at a boundary, 1 inside, 2 after
}

var c18Positions = []c18Pos{
	{"NotBefore-1s", false, -time.Second, -1},
	{"NotBefore-1ns", false, -time.Nanosecond, -1},
	{"NotBefore", false, 0, 0},
	{"NotBefore+1ns", false, time.Nanosecond, 1},
	{"NotBefore+1h", false, time.Hour, 1},
	{"NotAfter-1ns", true, -time.Nanosecond, 1},
	{"NotAfter", true, 0, 0},
	{"NotAfter+1ns", true, time.Nanosecond, 2},
	{"NotAfter+1s", true, time.Second, 2},
}

var c18HashModes = []struct {
	name   string
	broken string
}{
	{"sha2-256 of the certificate, alone", ""},
	{"sha2-256 of the certificate, last of three", ""},
	{"empty list", "hash-not-listed"},
	{"only other digests", "hash-not-listed"},
	{"same digest under code sha3-256", "hash-listed-under-other-function"},
	{"sha2-512 of the certificate", "hash-listed-under-other-function"},
	{"sha2-256 code, digest truncated to 31 bytes", "hash-not-listed"},
	{"dbl-sha2-256 of the certificate", "hash-listed-under-other-function"},
}

var c18Chains = []string{"empty", "leaf", "leaf,extra", "extra,leaf"}

func c18HashList(mode int, cert []byte) []multihash.DecodedMultihash {
	h := sha256.Sum256(cert)
	o1 := sha256.Sum256([]byte("some other certificate"))
	o2 := sha256.Sum256([]byte("yet another certificate"))
	mh := func(code uint64, d []byte) multihash.DecodedMultihash {
		return multihash.DecodedMultihash{Code: code, Name: multihash.Codes[code], Length: len(d), Digest: d}
	}
	switch mode {
	case 0:
		return []multihash.DecodedMultihash{mh(multihash.SHA2_256, h[:])}
	case 1:
		return []multihash.DecodedMultihash{mh(multihash.SHA2_256, o1[:]), mh(multihash.SHA3_256, o2[:]), mh(multihash.SHA2_256, h[:])}
	case 2:
		return nil
	case 3:
		return []multihash.DecodedMultihash{mh(multihash.SHA2_256, o1[:]), mh(multihash.SHA2_256, o2[:])}
	case 4:
		return []multihash.DecodedMultihash{mh(multihash.SHA3_256, h[:])}
	case 5:
		h5 := sha512.Sum512(cert)
		return []multihash.DecodedMultihash{mh(multihash.SHA2_512, h5[:])}
	case 6:
		return []multihash.DecodedMultihash{mh(multihash.SHA2_256, h[:31])}
	default:
		d := sha256.Sum256(h[:])
		return []multihash.DecodedMultihash{mh(multihash.DBL_SHA2_256, d[:])}
	}
}

type c18VKeys struct {
	ec, ec2, issuer *ecdsa.PrivateKey
	ed              ed25519.PrivateKey
	rsa             *rsa.PrivateKey
}

func c18MakeCert(k *c18VKeys, kind int, nb, na time.Time) ([]byte, error) {
	tmpl := &x509.Certificate{
		SerialNumber:          big.NewInt(int64(1000 + kind)),
		Subject:               pkix.Name{CommonName: "c18 " + c18LeafKinds[kind].name},
		NotBefore:             nb,
		NotAfter:              na,
		IsCA:                  true,
		BasicConstraintsValid: true,
		KeyUsage:              x509.KeyUsageDigitalSignature | x509.KeyUsageCertSign,
		ExtKeyUsage:           []x509.ExtKeyUsage{x509.ExtKeyUsageServerAuth},
	}
	switch kind {
	case 0:
		return x509.CreateCertificate(rand.Reader, tmpl, tmpl, &k.ec.PublicKey, k.ec)
	case 1:
		return x509.CreateCertificate(rand.Reader, tmpl, tmpl, k.ed.Public(), k.ed)
	case 2, 3, 4, 5:
		tmpl.SignatureAlgorithm = []x509.SignatureAlgorithm{x509.SHA256WithRSA, x509.SHA384WithRSA, x509.SHA512WithRSA, x509.SHA256WithRSAPSS}[kind-2]
		return x509.CreateCertificate(rand.Reader, tmpl, tmpl, &k.rsa.PublicKey, k.rsa)
	case 6:
		ca := &x509.Certificate{SerialNumber: big.NewInt(7), Subject: pkix.Name{CommonName: "c18 issuer"}, NotBefore: nb, NotAfter: na,
			IsCA: true, BasicConstraintsValid: true, KeyUsage: x509.KeyUsageCertSign}
		return x509.CreateCertificate(rand.Reader, tmpl, ca, &k.rsa.PublicKey, k.issuer)
	case 7:
		b := sha512.Sum512([]byte("c18 not a certificate"))
		return b[:], nil
	default:
		c, err := x509.CreateCertificate(rand.Reader, tmpl, tmpl, &k.ec.PublicKey, k.ec)
		if err != nil {
			return nil, err
		}
		return c[:len(c)/2], nil
	}
}

// c18Verifier fills and returns its record; the caller flushes it (after the manager part, so that the records appear
// in the order manager, dial, verifier).
func c18Verifier(t *testing.T) (r *vrep.Result) {
	r = vrep.New("C18", "verifier")
	lives := []time.Duration{c18MaxLife - time.Second, c18MaxLife, c18MaxLife + time.Second}
	var kn, pn, hn []string
	for _, k := range c18LeafKinds {
		kn = append(kn, k.name)
	}
	for _, p := range c18Positions {
		pn = append(pn, p.name)
	}
	for _, h := range c18HashModes {
		hn = append(hn, h.name)
	}
	r.Bounds["leaf kinds"] = kn
	r.Bounds["lifetimes"] = []string{"14d-1s", "14d", "14d+1s"}
	r.Bounds["instants"] = pn
	r.Bounds["hash lists"] = hn
	r.Bounds["chains"] = c18Chains

	keys := &c18VKeys{}
	var err error
	if keys.ec, err = ecdsa.GenerateKey(elliptic.P256(), rand.Reader); err == nil {
		if keys.ec2, err = ecdsa.GenerateKey(elliptic.P256(), rand.Reader); err == nil {
			if keys.issuer, err = ecdsa.GenerateKey(elliptic.P256(), rand.Reader); err == nil {
				if _, keys.ed, err = ed25519.GenerateKey(rand.Reader); err == nil {
					keys.rsa, err = rsa.GenerateKey(rand.Reader, 2048)
				}
			}
		}
	}
	if err != nil {
		r.Cap("key generation failed (infrastructure): %v", err)
		return
	}
	distinct := map[string]struct{}{}
	for kind := range c18LeafKinds {
		for _, life := range lives {
			synctest.Test(t, func(*testing.T) {
				t0 := time.Now().Truncate(time.Second)
				nb := t0.Add(2 * time.Hour)
				na := nb.Add(life)
				cert, err := c18MakeCert(keys, kind, nb, na)
				if err != nil {
					r.Cap("cannot create %s certificate (infrastructure): %v", c18LeafKinds[kind].name, err)
					return
				}
				etm := &x509.Certificate{SerialNumber: big.NewInt(99), Subject: pkix.Name{CommonName: "c18 extra"}, NotBefore: t0, NotAfter: t0.Add(c18MaxLife)}
				extra, err := x509.CreateCertificate(rand.Reader, etm, etm, &keys.ec2.PublicKey, keys.ec2)
				if err != nil {
					r.Cap("cannot create the extra certificate (infrastructure): %v", err)
					return
				}
				for _, pos := range c18Positions {
					target := nb.Add(pos.d)
					if pos.fromNA {
						target = na.Add(pos.d)
					}
					if d := target.Sub(time.Now()); d > 0 {
						time.Sleep(d)
					}
					if !time.Now().Equal(target) {
						r.Cap("virtual clock at %v instead of %v (infrastructure)", time.Now(), target)
						return
					}
					for mode := range c18HashModes {
						list := c18HashList(mode, cert)
						for _, chain := range c18Chains {
							var raws [][]byte
							switch chain {
							case "leaf":
								raws = [][]byte{cert}
							case "leaf,extra":
								raws = [][]byte{cert, extra}
							case "extra,leaf":
								raws = [][]byte{extra, cert}
							}
							got := verifyRawCerts(raws, list)
							r.Executions++
							accepted := got == nil

							// rules broken by the SERVER certificate (the first of the chain)
							var broken []string
							boundary := false
							switch chain {
							case "empty":
								broken = append(broken, "empty-chain")
							case "extra,leaf":
								// the server certificate is `extra`; its hash is in none of the lists
								broken = append(broken, "unpinned-leaf-when-last-chain-cert-is-pinned")
							default:
								if b := c18HashModes[mode].broken; b != "" {
									broken = append(broken, b)
								}
								if b := c18LeafKinds[kind].broken; b != "" {
									broken = append(broken, b)
								}
								if life > c18MaxLife && c18LeafKinds[kind].broken != "unparsable" {
									broken = append(broken, "validity-over-14d")
								}
								if c18LeafKinds[kind].broken != "unparsable" {
									switch pos.class {
									case -1:
										broken = append(broken, "not-yet-valid")
									case 2:
										broken = append(broken, "expired")
									case 0:
										boundary = true
									}
								}
							}
							desc := map[string]any{"leaf": c18LeafKinds[kind].name, "lifetime": life.String(), "now": pos.name, "hashes": c18HashModes[mode].name, "chain": chain}
							res := "rejected"
							if accepted {
								res = "accepted"
							}
							distinct[fmt.Sprintf("%v|%v|%s|%s", broken, boundary, chain, res)] = struct{}{}
							switch {
							case accepted && len(broken) > 0:
								r.Outcome("VIOLATION accepted although: " + broken[0])
								r.Violate("verifier-accepts-"+broken[0], fmt.Sprintf("verifyRawCerts accepted %v although the server certificate breaks: %v", desc, broken), desc)
							case !accepted && len(broken) == 0 && !boundary && chain == "leaf":
								r.Outcome("VIOLATION rejected a certificate that meets every rule")
								r.Violate("verifier-rejects-valid-certificate", fmt.Sprintf("verifyRawCerts rejected %v: %v", desc, got), desc)
							case accepted && boundary:
								r.Outcome("exactly at " + pos.name + " (statement silent): accepted")
							case !accepted && len(broken) == 0 && boundary && chain == "leaf":
								r.Outcome("exactly at " + pos.name + " (statement silent): rejected")
							case accepted:
								r.Outcome("accepted, every rule holds (chain " + chain + ")")
							case len(broken) > 0:
								r.Outcome("rejected, breaks: " + broken[0])
							default:
								r.Outcome("rejected, chain " + chain + " (statement gives no obligation to accept)")
							}
							if len(r.Samples) < 3 && kind+mode == len(r.Samples)*3 && chain == "leaf" {
								desc["result"] = fmt.Sprint(got)
								r.Sample(desc)
							}
						}
					}
				}
			})
		}
	}
	r.Distinct = int64(len(distinct))
	r.Note("distinct_nontrivial = distinct (set of rules the server certificate breaks, exactly-at-a-boundary flag, chain shape, result) classes; evaluations = verifyRawCerts calls")
	return r
}
