//go:build verif

package libp2pwebtransport

// C18, part "dial": the real dial path (transport.Dial -> TLS with verifyRawCerts -> upgrade() with the Noise
// early-data check) against a real listener of the same package over loopback QUIC.
//
// Universe of hashes: cur (certificate being served), next (the upcoming one), prev (a digest the server may
// still list, as lastConfig would be) and bogus. For EVERY non-empty subset D used to dial (the certhash
// components of the dialled address) and EVERY subset L the server lists in its Noise early data (set
// white-box on the listener's certManager; a lying or restarted server is part of the environment):
//     Dial succeeds  =>  cur in D  (the served certificate is pinned)  and  D subset-of L  (every hash the
//                        dialer relied on is confirmed inside the authenticated handshake).
// Only this implication is an oracle. The converse is recorded as an outcome class; for the honest
// configuration (D = advertised address, L = the manager's own list) a rejection for a LOGICAL reason
// (hash mismatch / missing hash) is reported, a timeout or socket error only caps the run.
// Real time is used only as a liveness bound (dial timeout); it decides no oracle.

import (
	"context"
	"crypto/ed25519"
	"crypto/sha256"
	"errors"
	"fmt"
	"strings"
	"testing"
	"time"

	ic "github.com/libp2p/go-libp2p/core/crypto"
	"github.com/libp2p/go-libp2p/core/network"
	"github.com/libp2p/go-libp2p/core/peer"
	"github.com/libp2p/go-libp2p/p2p/transport/quicreuse"
	"github.com/libp2p/go-libp2p/x/verif/vrep"
	ma "github.com/multiformats/go-multiaddr"
	"github.com/multiformats/go-multihash"
	"github.com/quic-go/quic-go"
)

func c18DetKey(label string) (ic.PrivKey, peer.ID, error) {
	seed := sha256.Sum256([]byte(fmt.Sprintf("c18 dial %s %d", label, vrep.Seed())))
	k, err := ic.UnmarshalEd25519PrivateKey(ed25519.NewKeyFromSeed(seed[:]))
	if err != nil {
		return nil, "", err
	}
	id, err := peer.IDFromPrivateKey(k)
	return k, id, err
}

func c18DialErrClass(err error) string {
	var mm ErrCertHashMismatch
	switch {
	case err == nil:
		return "connected"
	case errors.As(err, &mm) || strings.Contains(err.Error(), "cert hash not found"):
		return "refused in TLS: certificate hash not among the dialled hashes"
	case strings.Contains(err.Error(), "missing cert hash"):
		return "refused in Noise early data: a dialled hash is not confirmed by the server"
	case errors.Is(err, context.DeadlineExceeded) || strings.Contains(err.Error(), "timeout") || strings.Contains(err.Error(), "deadline"):
		return "timeout"
	default:
		e := err.Error()
		if len(e) > 80 {
			e = e[:80]
		}
		return "other error: " + e
	}
}

// c18Dial fills and returns its record; the caller flushes it (after the manager part, so that the records appear
// in the order manager, dial, verifier).
func c18Dial(t *testing.T) (r *vrep.Result) {
	r = vrep.New("C18", "dial")
	names := []string{"cur", "next", "prev", "bogus"}
	r.Bounds["dialled hash sets"] = "all 15 non-empty subsets of {cur, next, prev, bogus}"
	r.Bounds["server early-data lists"] = "all 16 subsets of {cur, next, prev, bogus}"

	serverKey, serverID, err := c18DetKey("server")
	if err != nil {
		r.Cap("key generation failed (infrastructure): %v", err)
		return
	}
	clientKey, _, err := c18DetKey("client")
	if err != nil {
		r.Cap("key generation failed (infrastructure): %v", err)
		return
	}
	cm1, err := quicreuse.NewConnManager(quic.StatelessResetKey{}, quic.TokenGeneratorKey{})
	if err != nil {
		r.Cap("conn manager (infrastructure): %v", err)
		return
	}
	defer cm1.Close()
	cm2, err := quicreuse.NewConnManager(quic.StatelessResetKey{}, quic.TokenGeneratorKey{})
	if err != nil {
		r.Cap("conn manager (infrastructure): %v", err)
		return
	}
	defer cm2.Close()
	tr1, err := New(serverKey, nil, cm1, nil, &network.NullResourceManager{})
	if err != nil {
		r.Cap("server transport (infrastructure): %v", err)
		return
	}
	srv := tr1.(*transport)
	defer srv.Close()
	ln, err := srv.Listen(ma.StringCast("/ip4/127.0.0.1/udp/0/quic-v1/webtransport"))
	if err != nil {
		r.Cap("cannot listen on loopback UDP (infrastructure): %v - dial part skipped", err)
		return
	}
	defer ln.Close()
	go func() {
		for {
			c, err := ln.Accept()
			if err != nil {
				return
			}
			c.Close()
		}
	}()
	tr2, err := New(clientKey, nil, cm2, nil, &network.NullResourceManager{})
	if err != nil {
		r.Cap("client transport (infrastructure): %v", err)
		return
	}
	cli := tr2.(*transport)
	defer cli.Close()

	cmgr := srv.certManager
	cmgr.mx.RLock()
	honest := append([][]byte{}, cmgr.serializedCertHashes...)
	digests := [][]byte{cmgr.currentConfig.sha256[:], cmgr.nextConfig.sha256[:]}
	cmgr.mx.RUnlock()
	served := sha256.Sum256(cmgr.GetConfig().Certificates[0].Certificate[0])
	if string(served[:]) != string(digests[0]) {
		r.Cap("currentConfig.sha256 is not the hash of the served certificate (harness assumption)")
		return
	}
	p := sha256.Sum256([]byte("c18 previous certificate"))
	b := sha256.Sum256([]byte("c18 bogus certificate"))
	digests = append(digests, p[:], b[:])
	var comps []*ma.Component
	var mhs [][]byte
	for _, d := range digests {
		c, err := addrComponentForCert(d)
		if err != nil {
			r.Cap("addrComponentForCert (infrastructure): %v", err)
			return
		}
		comps = append(comps, c)
		h, _ := multihash.Encode(d, multihash.SHA2_256)
		mhs = append(mhs, h)
	}
	base, _ := ma.SplitFunc(ln.Multiaddr(), func(c ma.Component) bool { return c.Protocol().Code == ma.P_CERTHASH })
	setList := func(l [][]byte) {
		cmgr.mx.Lock()
		cmgr.serializedCertHashes = l
		cmgr.mx.Unlock()
	}
	dial := func(addr ma.Multiaddr) error {
		ctx, cancel := context.WithTimeout(context.Background(), 15*time.Second)
		defer cancel()
		c, err := cli.Dial(ctx, addr, serverID)
		if err == nil {
			c.Close()
		}
		return err
	}
	setName := func(mask int) string {
		var s []string
		for i, n := range names {
			if mask&(1<<i) != 0 {
				s = append(s, n)
			}
		}
		return "{" + strings.Join(s, ",") + "}"
	}

	// honest baseline: the address the listener advertises, the list the manager computed
	setList(honest)
	var herr error
	for try := 0; try < 3; try++ {
		herr = dial(ln.Multiaddr())
		r.Executions++
		if herr == nil {
			break
		}
	}
	switch cls := c18DialErrClass(herr); {
	case herr == nil:
		r.Outcome("honest configuration (advertised address, manager's own list): connected")
	case strings.HasPrefix(cls, "refused"):
		r.Violate("honest-dial-refused", fmt.Sprintf("dialling the advertised address %v of an unmodified listener fails: %v", ln.Multiaddr(), herr), map[string]any{"dial": "advertised address", "server": "unmodified"})
		return
	default:
		r.Cap("honest baseline dial failed for a non-logical reason (infrastructure, dial part skipped): %v", herr)
		return
	}

	distinct := map[string]struct{}{}
	for L := 0; L < 16; L++ {
		var list [][]byte
		for i := range mhs {
			if L&(1<<i) != 0 {
				list = append(list, mhs[i])
			}
		}
		setList(list)
		for D := 1; D < 16; D++ {
			if time.Now().After(vrep.Deadline()) {
				r.Cap("deadline reached in the dial part at server list %s", setName(L))
				setList(honest)
				return
			}
			addr := base
			for i := range comps {
				if D&(1<<i) != 0 {
					addr = addr.AppendComponent(comps[i])
				}
			}
			err := dial(addr)
			r.Executions++
			pinned := D&1 != 0
			confirmed := D&^L == 0
			cls := c18DialErrClass(err)
			rep := map[string]any{"dialled": setName(D), "server lists": setName(L), "result": cls}
			distinct[fmt.Sprintf("%v|%v|%s", pinned, confirmed, cls)] = struct{}{}
			r.Outcome(fmt.Sprintf("served cert pinned=%v, every dialled hash confirmed=%v: %s", pinned, confirmed, cls))
			if err == nil && !pinned {
				r.Violate("dial-completes-without-pinning-the-served-certificate", fmt.Sprintf("dialled %s (served certificate is cur), server lists %s: connected", setName(D), setName(L)), rep)
			}
			if err == nil && !confirmed {
				r.Violate("dial-completes-without-server-confirmation", fmt.Sprintf("dialled %s, server's early data lists only %s: connected", setName(D), setName(L)), rep)
			}
			if (D == 3 && L == 3) || (D == 5 && L == 1) || (D == 2 && L == 15) {
				r.Sample(rep)
			}
		}
	}
	setList(honest)
	r.Distinct = int64(len(distinct))
	r.Note("distinct_nontrivial = distinct (served cert pinned, all dialled hashes confirmed, result class) triples")
	return r
}
