//go:build verif

package libp2pwebtransport

// C18, part "listener": what a REAL listener (transport.Listen, WithClock(mock clock)) that stays open across
// certificate rollovers actually puts on the wire, observed by real loopback QUIC/TLS/HTTP3/Noise handshakes.
//
// The manager part drives the certManager directly; this part closes the gap between the manager's state and what
// the listener serves and confirms: per scenario (host key, start instant relative to the bucket boundaries,
// optional restart of the whole transport) the mock clock is moved through the instants of 2 (thorough 3)
// certificate periods and, at every instant, for every open listener of the transport (one opened at the start,
// one opened after the first rollover):
//   1. the address ln.Multiaddr() is read (what a peer would LEARN at that instant);
//   2. a client runs the package's own dial() (QUIC + TLS + WebTransport session; the certificate chain the server
//      presents is captured in the TLS callback) and then the package's own upgrade() (Noise; the dialer-side
//      early-data check) with the certhashes of a learned address as "the hashes the dialer relied on" - once with
//      the address advertised at this very instant and once with every distinct address the same listener slot
//      advertised earlier in the current or in the previous certificate period.
//      (transport.Dial itself cannot be used after a rollover: verifyRawCerts reads the wall clock, while the
//      listener lives on the mock clock. Hash membership and validity are therefore evaluated by the harness, on
//      the mock clock's instant, from the captured certificate.)
// Oracles (the statement's own inequalities, on the mock clock's instant `now`):
//   served certificate:  NotBefore + skew <= now <= NotAfter - skew;  NotAfter - NotBefore <= 14 d;  not RSA;
//                        SHA-256(served) in certhashes(ln.Multiaddr()) at that instant;
//                        SHA-256(served) in the certhashes of every address learned in the current/previous period;
//   confirmation:        upgrade() with the hashes of an address that the RUNNING transport advertised in the current
//                        or previous period is not refused with "missing cert hash". For an address advertised by
//                        an earlier run (before a restart of the transport) a refusal is recorded as an outcome
//                        class only, exactly as in the manager part.
// Only logical refusals are oracles; a timeout / socket error / event wait that expires caps the run.
// Real time is used only as a liveness bound. The instant of a rollover is awaited as an EVENT: the mock clock
// fires the manager's timer synchronously inside Set(), the timer is absent from the mock's timer list until the
// manager's goroutine has finished the rollover and re-armed it (Reset happens under the manager's lock).

import (
	"context"
	"crypto/tls"
	"crypto/x509"
	"fmt"
	"reflect"
	"sort"
	"strings"
	"sync"
	"testing"
	"time"
	"unsafe"

	"github.com/benbjohnson/clock"
	ic "github.com/libp2p/go-libp2p/core/crypto"
	"github.com/libp2p/go-libp2p/core/network"
	"github.com/libp2p/go-libp2p/core/peer"
	tpt "github.com/libp2p/go-libp2p/core/transport"
	"github.com/libp2p/go-libp2p/p2p/transport/quicreuse"
	"github.com/libp2p/go-libp2p/x/verif/vrep"
	ma "github.com/multiformats/go-multiaddr"
	manet "github.com/multiformats/go-multiaddr/net"
	"github.com/multiformats/go-multihash"
	"github.com/quic-go/quic-go"
)

// c18MockArmed returns the number of timers registered with the mock clock (read under the mock's own lock).
func c18MockArmed(m *clock.Mock) (n int, ok bool) {
	defer func() {
		if recover() != nil {
			n, ok = 0, false
		}
	}()
	v := reflect.ValueOf(m).Elem()
	mu, tm := v.FieldByName("mu"), v.FieldByName("timers")
	if !mu.IsValid() || !tm.IsValid() || mu.Type() != reflect.TypeOf(sync.Mutex{}) {
		return 0, false
	}
	l := (*sync.Mutex)(unsafe.Pointer(mu.UnsafeAddr()))
	l.Lock()
	defer l.Unlock()
	return tm.Len(), true
}

type c18LnAdv struct {
	sig string
	set map[string]bool // SHA2-256 digests (hex) among the certhash components
	dec []multihash.DecodedMultihash
	at  time.Time
	run int // latest run of the transport that advertised exactly this
	per int // period index (of the slot) in which it was first seen
}

// c18LnSlot: one listener of the transport under test and what it advertised so far.
type c18LnSlot struct {
	name            string
	ln              tpt.Listener
	served          string // SHA-256 of the certificate presented at the previous sample
	leaf            *x509.Certificate
	period          int
	advCur, advPrev []*c18LnAdv
}

type c18LnClient struct{ tr *transport }

// c18LnCapture is the TLS client configuration of ONE probe: nothing is verified in TLS (verifyRawCerts reads the
// wall clock, the listener lives on the mock clock); the chain the server presents is captured for the harness.
type c18LnCapture struct {
	mu    sync.Mutex
	chain [][]byte
}

func (c *c18LnCapture) conf() *tls.Config {
	return &tls.Config{
		InsecureSkipVerify: true,
		VerifyPeerCertificate: func(raw [][]byte, _ [][]*x509.Certificate) error {
			cp := make([][]byte, len(raw))
			for i := range raw {
				cp[i] = append([]byte{}, raw[i]...)
			}
			c.mu.Lock()
			c.chain = cp
			c.mu.Unlock()
			return nil
		},
	}
}

func (c *c18LnCapture) get() [][]byte {
	c.mu.Lock()
	defer c.mu.Unlock()
	return c.chain
}

type c18LnScen struct {
	r        *vrep.Result
	name     string
	key      ic.PrivKey
	id       peer.ID
	base     time.Time
	mk       *clock.Mock
	cli      *c18LnClient
	cm       *quicreuse.ConnManager
	srv      *transport
	slots    []*c18LnSlot
	run      int
	hist     []string
	distinct map[string]struct{}
	sampled  *int
	stop     bool // a violation or an infrastructure problem ended the scenario
}

func (sc *c18LnScen) rel(t time.Time) string { return fmt.Sprintf("bucketStart%+v", t.Sub(sc.base)) }

func (sc *c18LnScen) capf(f string, a ...any) {
	sc.r.Cap("listener scenario %s: "+f, append([]any{sc.name}, a...)...)
	sc.stop = true
}

func (sc *c18LnScen) violate(key, desc string) {
	sc.r.Violate(key, fmt.Sprintf("scenario %s, history %s: %s", sc.name, strings.Join(sc.hist, " / "), desc),
		map[string]any{"part": "listener", "scenario": sc.name, "history": append([]string{}, sc.hist...)})
	sc.stop = true
}

// open starts a transport with the scenario's key on the scenario's mock clock.
func (sc *c18LnScen) open() bool {
	cm, err := quicreuse.NewConnManager(quic.StatelessResetKey{}, quic.TokenGeneratorKey{})
	if err != nil {
		sc.capf("conn manager (infrastructure): %v", err)
		return false
	}
	tr, err := New(sc.key, nil, cm, nil, &network.NullResourceManager{}, WithClock(sc.mk))
	if err != nil {
		cm.Close()
		sc.capf("server transport (infrastructure): %v", err)
		return false
	}
	sc.cm, sc.srv = cm, tr.(*transport)
	return true
}

func (sc *c18LnScen) listen(slot *c18LnSlot) bool {
	ln, err := sc.srv.Listen(ma.StringCast("/ip4/127.0.0.1/udp/0/quic-v1/webtransport"))
	if err != nil {
		sc.capf("cannot listen on loopback UDP (infrastructure): %v", err)
		return false
	}
	slot.ln = ln
	go func() {
		for {
			c, err := ln.Accept()
			if err != nil {
				return
			}
			c.Close()
		}
	}()
	return true
}

func (sc *c18LnScen) closeServer() {
	for _, s := range sc.slots {
		if s.ln != nil {
			s.ln.Close()
			s.ln = nil
		}
	}
	if sc.srv != nil {
		sc.srv.Close()
		sc.srv = nil
	}
	if sc.cm != nil {
		sc.cm.Close()
		sc.cm = nil
	}
}

// advance moves the mock clock to t (never backwards) and waits for the EVENT "the certificate manager's timer is
// registered with the mock clock", i.e. a rollover triggered by the move has been completed (see the file comment).
func (sc *c18LnScen) advance(t time.Time) bool {
	if t.After(sc.mk.Now()) {
		sc.mk.Set(t)
	}
	deadline := time.Now().Add(30 * time.Second)
	for {
		n, ok := c18MockArmed(sc.mk)
		if !ok {
			sc.capf("the mock clock's timer list cannot be inspected (harness assumption)")
			return false
		}
		if n >= 1 {
			break
		}
		if time.Now().After(deadline) {
			sc.capf("the certificate manager did not re-arm its timer within 30 s after the clock was moved to %s (event wait expired; not an oracle)", sc.rel(t))
			return false
		}
		time.Sleep(200 * time.Microsecond)
	}
	if sc.srv != nil && sc.srv.certManager != nil {
		sc.srv.certManager.GetConfig() // takes the manager's lock: the rollover's critical section is over
	}
	return true
}

// probe runs one real handshake against the listener: dial() (the presented chain is captured), then upgrade()
// with D as the hashes the dialer relied on. A non-logical failure is retried twice.
func (sc *c18LnScen) probe(ln tpt.Listener, D []multihash.DecodedMultihash) (chain [][]byte, cls string, err error) {
	laddr := ln.(*listener).multiaddr // without certhashes
	_, hostport, err := manet.DialArgs(laddr)
	if err != nil {
		return nil, "other error: " + err.Error(), err
	}
	url := fmt.Sprintf("https://%s%s?type=noise", hostport, webtransportHTTPEndpoint)
	qaddr, _ := ma.SplitFunc(laddr, func(c ma.Component) bool { return c.Protocol().Code == ma.P_WEBTRANSPORT })
	for try := 0; try < 3; try++ {
		ctx, cancel := context.WithTimeout(context.Background(), 20*time.Second)
		capt := &c18LnCapture{}
		sc.cli.tr.tlsClientConf = capt.conf() // dial() clones it; probes are sequential
		sc.r.Executions++
		sess, qconn, derr := sc.cli.tr.dial(ctx, qaddr, url, "", nil) // no certhashes: dial() installs no verifier of its own
		chain = capt.get()
		if derr != nil {
			cancel()
			err, cls = derr, c18DialErrClass(derr)
			continue
		}
		_, uerr := sc.cli.tr.upgrade(ctx, sess, sc.id, D)
		sess.CloseWithError(0, "")
		qconn.CloseWithError(0, "")
		cancel()
		err, cls = uerr, c18DialErrClass(uerr)
		if uerr == nil || strings.HasPrefix(cls, "refused") {
			return chain, cls, err
		}
	}
	return chain, cls, err
}

func c18LnDecode(addr ma.Multiaddr) (*c18LnAdv, error) {
	dec, err := extractCertHashes(addr)
	if err != nil {
		return nil, err
	}
	a := &c18LnAdv{set: map[string]bool{}, dec: dec}
	var l []string
	for _, d := range dec {
		l = append(l, fmt.Sprintf("%x:%s", d.Code, c18Hex(d.Digest)[:16]))
		if d.Code == multihash.SHA2_256 {
			a.set[c18Hex(d.Digest)] = true
		}
	}
	a.sig = strings.Join(l, ",")
	return a, nil
}

// checkServed evaluates the statement on the certificate chain a handshake presented at instant now.
func (sc *c18LnScen) checkServed(slot *c18LnSlot, pos string, now time.Time, chain [][]byte, cur *c18LnAdv) (*x509.Certificate, string, bool) {
	if len(chain) == 0 {
		sc.violate("listener-serves-no-certificate", fmt.Sprintf("at %s (%s) the handshake with %s completed without a server certificate", sc.rel(now), pos, slot.name))
		return nil, "", false
	}
	leaf, err := x509.ParseCertificate(chain[0])
	if err != nil {
		sc.violate("listener-serves-unparsable-certificate", fmt.Sprintf("at %s (%s) %s: %v", sc.rel(now), pos, slot.name, err))
		return nil, "", false
	}
	hash := c18Sha(chain[0])
	what := fmt.Sprintf("at %s (%s) %s presents, in a real TLS handshake, the certificate sha256 %s NotBefore=%s NotAfter=%s", sc.rel(now), pos, slot.name, hash[:16], sc.rel(leaf.NotBefore), sc.rel(leaf.NotAfter))
	// "serves a certificate that has been valid for at least the clock-skew allowance and stays valid for at least that long"
	if leaf.NotBefore.Add(c18Skew).After(now) {
		sc.violate("listener-serves-cert-not-yet-valid-for-skew", fmt.Sprintf("%s: valid for only %v, less than the clock-skew allowance", what, now.Sub(leaf.NotBefore)))
		return nil, "", false
	}
	if now.After(leaf.NotAfter.Add(-c18Skew)) {
		sc.violate("listener-serves-cert-expiring-within-skew", fmt.Sprintf("%s: only %v of validity left, less than the clock-skew allowance", what, leaf.NotAfter.Sub(now)))
		return nil, "", false
	}
	// "whose validity period does not exceed 14 days" (and the dialer's rule: not RSA)
	if l := leaf.NotAfter.Sub(leaf.NotBefore); l > c18MaxLife {
		sc.violate("listener-serves-cert-validity-exceeds-14d", fmt.Sprintf("%s: valid for %v", what, l))
		return nil, "", false
	}
	if leaf.PublicKeyAlgorithm == x509.RSA {
		sc.violate("listener-serves-rsa", what+": RSA key")
		return nil, "", false
	}
	// "the certificate hashes it advertises always contain the hash of the certificate being served"
	if !cur.set[hash] {
		sc.violate("listener-serves-cert-not-in-advertised-hashes", fmt.Sprintf("%s, but its Multiaddr() at that instant advertises only %s", what, cur.sig))
		return nil, "", false
	}
	return leaf, hash, true
}

// sample evaluates the statement at the mock clock's current instant on every open listener.
func (sc *c18LnScen) sample(pos string) {
	if sc.stop {
		return
	}
	now := sc.mk.Now()
	sc.hist = append(sc.hist, fmt.Sprintf("%s@%s", pos, sc.rel(now)))
	for _, slot := range sc.slots {
		if slot.ln == nil || sc.stop {
			continue
		}
		if time.Now().After(vrep.Deadline()) {
			sc.capf("deadline reached at %s", pos)
			return
		}
		addr := slot.ln.Multiaddr()
		cur, err := c18LnDecode(addr)
		if err != nil {
			sc.violate("advertised-address-undecodable", fmt.Sprintf("%s Multiaddr()=%v: %v", slot.name, addr, err))
			return
		}
		cur.at, cur.run = now, sc.run
		// --- handshake with the address a peer learns at this very instant
		chain, cls, perr := sc.probe(slot.ln, cur.dec)
		if !slot.ln.Multiaddr().Equal(addr) {
			sc.capf("the advertised address of %s changed during a handshake although the clock stood still (harness assumption)", slot.name)
			return
		}
		if len(chain) == 0 && perr != nil {
			sc.capf("handshake with %s at %s failed before a certificate was presented (infrastructure): %v", slot.name, sc.rel(now), perr)
			return
		}
		leaf, hash, ok := sc.checkServed(slot, pos, now, chain, cur)
		if !ok {
			return
		}
		if slot.served != "" && hash != slot.served {
			slot.advPrev, slot.advCur = slot.advCur, nil
			slot.period++
			sc.r.Outcome("rollover observed on the wire (served certificate changed) at " + pos)
		}
		slot.served, slot.leaf = hash, leaf
		known := false
		for _, a := range slot.advCur {
			if a.sig == cur.sig {
				known, a.run = true, sc.run
			}
		}
		if !known {
			cur.per = slot.period
			slot.advCur = append(slot.advCur, cur)
		}
		switch {
		case perr == nil:
			sc.r.Outcome("address advertised now: served certificate pinned, valid for the skew allowance both ways, every hash confirmed in a real Noise handshake")
		case strings.HasPrefix(cls, "refused in Noise"):
			sc.violate("listener-does-not-confirm-learned-address", fmt.Sprintf("at %s (%s) %s advertises %s, serves sha256 %s, but the dialer's upgrade() with exactly the advertised hashes is refused: %v",
				sc.rel(now), pos, slot.name, cur.sig, hash[:16], perr))
			return
		default:
			sc.capf("handshake with %s at %s failed for a non-logical reason: %v", slot.name, sc.rel(now), perr)
			return
		}
		sc.distinct[fmt.Sprintf("%s|%s|p%d|%s|now|%s", sc.name, slot.name, slot.period, pos, cls)] = struct{}{}
		*sc.sampled++
		if *sc.sampled%37 == 1 {
			sc.r.Sample(map[string]any{"scenario": sc.name, "listener": slot.name, "instant": sc.rel(now), "position": pos,
				"served": fmt.Sprintf("sha256 %s NotBefore=%s NotAfter=%s", hash[:16], sc.rel(leaf.NotBefore), sc.rel(leaf.NotAfter)), "advertised": cur.sig, "result": cls})
		}

		// --- "an address learned at any time keeps verifying through the current and the following certificate period"
		for gi, group := range [][]*c18LnAdv{slot.advCur, slot.advPrev} {
			for _, a := range group {
				if a.sig == cur.sig {
					continue // done above
				}
				when := "earlier in the current period"
				if gi == 1 {
					when = "in the previous period"
				}
				who := "by the running transport"
				if a.run != sc.run {
					who = "by an earlier run (before a restart)"
				}
				if !a.set[hash] {
					sc.violate("listener-learned-address-stops-pinning-served-cert", fmt.Sprintf("at %s (%s) %s serves sha256 %s, which is not among the hashes %s of the address it advertised %s at %s",
						sc.rel(now), pos, slot.name, hash[:16], a.sig, when, sc.rel(a.at)))
					return
				}
				chain2, cls2, perr2 := sc.probe(slot.ln, a.dec)
				if len(chain2) == 0 && perr2 != nil {
					sc.capf("handshake with %s at %s failed before a certificate was presented (infrastructure): %v", slot.name, sc.rel(now), perr2)
					return
				}
				if _, h2, ok := sc.checkServed(slot, pos, now, chain2, cur); !ok {
					return
				} else if h2 != hash {
					sc.capf("two handshakes at the same instant were served different certificates, both legal (not expected; harness assumption)")
					return
				}
				sc.distinct[fmt.Sprintf("%s|%s|p%d|%s|%s %s|%s", sc.name, slot.name, slot.period, pos, when, who, cls2)] = struct{}{}
				switch {
				case perr2 == nil:
					sc.r.Outcome("address learned " + when + ", advertised " + who + ": served certificate pinned and every hash confirmed in a real Noise handshake")
				case strings.HasPrefix(cls2, "refused in Noise") && a.run != sc.run:
					sc.r.Outcome("address learned " + when + ", advertised " + who + ": pinned, but a hash is NOT confirmed by the restarted transport (observation, not flagged)")
				case strings.HasPrefix(cls2, "refused in Noise"):
					sc.violate("listener-does-not-confirm-learned-address", fmt.Sprintf("at %s (%s) %s, running without a restart since it advertised %s %s (at %s), serves sha256 %s which that address pins, but the dialer's upgrade() with the hashes of that address is refused: %v (the listener now advertises %s)",
						sc.rel(now), pos, slot.name, a.sig, when, sc.rel(a.at), hash[:16], perr2, cur.sig))
					return
				default:
					sc.capf("handshake with %s at %s failed for a non-logical reason: %v", slot.name, sc.rel(now), perr2)
					return
				}
			}
		}
	}
}

type c18LnPt struct {
	t    time.Time
	name string
}

// c18LnPoints: sample instants inside the period of the certificate valid [S, E], strictly between now and E - skew.
func c18LnPoints(S, E, now time.Time, thorough bool) []c18LnPt {
	D := E.Add(-c18Skew)
	var all []c18LnPt
	if thorough {
		for i := 1; i < 14; i++ {
			all = append(all, c18LnPt{S.Add(time.Duration(i) * 24 * time.Hour), fmt.Sprintf("NotBefore+%dd", i)})
		}
		all = append(all, c18LnPt{S.Add(c18Skew + time.Millisecond), "NotBefore+skew+1ms"}, c18LnPt{S.Add(2 * c18Skew), "NotBefore+2skew"},
			c18LnPt{E.Add(-3 * c18Skew), "NotAfter-3skew"}, c18LnPt{E.Add(-2*c18Skew - time.Millisecond), "NotAfter-2skew-1ms"},
			c18LnPt{E.Add(-2 * c18Skew), "NotAfter-2skew"}, c18LnPt{E.Add(-2*c18Skew + time.Millisecond), "NotAfter-2skew+1ms"})
	} else {
		all = append(all, c18LnPt{S.Add(7 * 24 * time.Hour), "NotBefore+7d"})
	}
	all = append(all, c18LnPt{D.Add(-time.Millisecond), "NotAfter-skew-1ms"})
	sort.Slice(all, func(i, j int) bool { return all[i].t.Before(all[j].t) })
	var out []c18LnPt
	for _, p := range all {
		if p.t.After(now) && p.t.Before(D) {
			out = append(out, p)
		}
	}
	return out
}

// c18LnRun plays one scenario: start at base+d, then maxRolls certificate periods; restartAfter >= 0: the whole
// transport is closed and started again (same key, same clock) right after that rollover.
func c18LnRun(r *vrep.Result, cli *c18LnClient, name string, key ic.PrivKey, id peer.ID, base time.Time, d time.Duration,
	maxRolls, restartAfter int, thorough bool, distinct map[string]struct{}, sampled *int) {
	sc := &c18LnScen{r: r, name: name, key: key, id: id, base: base, mk: clock.NewMock(), cli: cli, distinct: distinct, sampled: sampled}
	sc.mk.Set(base.Add(d))
	if !sc.open() {
		return
	}
	defer sc.closeServer()
	first := &c18LnSlot{name: "the listener opened at the start"}
	sc.slots = []*c18LnSlot{first}
	if !sc.listen(first) || !sc.advance(sc.mk.Now()) {
		return
	}
	sc.sample("after Listen")
	for roll := 0; roll < maxRolls && !sc.stop; roll++ {
		S, E := first.leaf.NotBefore, first.leaf.NotAfter
		for _, p := range c18LnPoints(S, E, sc.mk.Now(), thorough) {
			if sc.stop || !sc.advance(p.t) {
				return
			}
			sc.sample(p.name)
		}
		if sc.stop || !sc.advance(E.Add(-c18Skew)) {
			return
		}
		sc.sample("NotAfter-skew of the retiring certificate (rollover instant)")
		if sc.stop {
			return
		}
		if roll == 0 {
			second := &c18LnSlot{name: "the listener opened after the first rollover"}
			sc.slots = append(sc.slots, second)
			if !sc.listen(second) {
				return
			}
			sc.sample("second listener opened")
		}
		if roll == restartAfter {
			sc.closeServer()
			if !sc.open() {
				return
			}
			sc.run++
			for _, s := range sc.slots {
				if !sc.listen(s) {
					return
				}
			}
			if !sc.advance(sc.mk.Now()) {
				return
			}
			sc.r.Outcome("transport restarted (closed, New + Listen with the same key on the same clock)")
			sc.sample("after restart of the transport")
		}
		if sc.stop || !sc.advance(E.Add(-c18Skew).Add(time.Millisecond)) {
			return
		}
		sc.sample("rollover instant+1ms")
	}
	if sc.stop {
		return
	}
	// into the last period
	for _, p := range c18LnPoints(first.leaf.NotBefore, first.leaf.NotAfter, sc.mk.Now(), thorough) {
		if sc.stop || !sc.advance(p.t) {
			return
		}
		sc.sample(p.name)
	}
	if !sc.stop {
		sc.r.Outcome(fmt.Sprintf("scenario completed: %d certificate periods observed on the first listener", first.period+1))
		if first.period != maxRolls {
			// cannot happen without one of the oracles above having fired; recorded, not judged
			sc.r.Note("scenario %s: %d rollovers observed on the wire, %d driven", name, first.period, maxRolls)
		}
	}
}

// c18Listener fills and returns its record; the caller flushes it.
func c18Listener(t *testing.T) (r *vrep.Result) {
	r = vrep.New("C18", "listener")
	thorough := vrep.Thorough()
	maxRolls := 2
	nkeys := 2
	if thorough {
		maxRolls, nkeys = 3, 3
	}
	type st struct {
		name string
		d    time.Duration
	}
	starts := []st{{"bucketStart+30m (the previous bucket's certificate is still served; rollover 30 min away)", 30 * time.Minute},
		{"bucketStart+skew-1ms (rollover 1 ms away)", c18Skew - time.Millisecond},
		{"bucketStart+skew (the first instant of a period)", c18Skew},
		{"bucketStart+7d", 7 * 24 * time.Hour}}
	if thorough {
		starts = append(starts, st{"bucketStart", 0}, st{"bucketStart+skew+1ms", c18Skew + time.Millisecond}, st{"bucketEnd-1h", c18Period - time.Hour})
	}
	r.Bounds["host keys"] = fmt.Sprintf("%d deterministic Ed25519 keys (real keys: the Noise handshake signs)", nkeys)
	var sn []string
	for _, s := range starts {
		sn = append(sn, s.name)
	}
	r.Bounds["start instants"] = sn
	r.Bounds["rollovers per scenario"] = maxRolls
	r.Bounds["listeners"] = "one opened at the start, one opened on the same transport after the first rollover"
	r.Bounds["restart of the transport"] = "none; and (start bucketStart+7d) right after rollover 1 (thorough: after rollover 1 and after rollover 2)"
	if thorough {
		r.Bounds["samples per period"] = "after Listen / rollover instant / +1ms, every 24 h, NotBefore+skew+1ms, NotBefore+2skew, NotAfter-3skew, NotAfter-2skew+-{0,1ms}, NotAfter-skew-1ms"
	} else {
		r.Bounds["samples per period"] = "after Listen / rollover instant / +1ms, NotBefore+7d, NotAfter-skew-1ms"
	}
	r.Bounds["handshakes per sample and listener"] = "one with the address advertised at that instant + one per distinct address advertised earlier in the current or previous period"

	clientKey, _, err := c18DetKey("listener-part client")
	if err != nil {
		r.Cap("key generation failed (infrastructure): %v", err)
		return
	}
	ccm, err := quicreuse.NewConnManager(quic.StatelessResetKey{}, quic.TokenGeneratorKey{})
	if err != nil {
		r.Cap("conn manager (infrastructure): %v", err)
		return
	}
	defer ccm.Close()
	cli := &c18LnClient{}
	ctr, err := New(clientKey, nil, ccm, nil, &network.NullResourceManager{}, WithTLSClientConfig((&c18LnCapture{}).conf()))
	if err != nil {
		r.Cap("client transport (infrastructure): %v", err)
		return
	}
	cli.tr = ctr.(*transport)
	defer cli.tr.Close()

	distinct := map[string]struct{}{}
	sampled := 0
	d2024 := time.Date(2024, 6, 1, 0, 0, 0, 0, time.UTC)
	for ki := 0; ki < nkeys; ki++ {
		key, id, err := c18DetKey(fmt.Sprintf("listener-part server %d", ki))
		if err != nil {
			r.Cap("key generation failed (infrastructure): %v", err)
			return
		}
		off := c18OffsetOf(key)
		base := c18Base(off, d2024)
		for si, s := range starts {
			restarts := []int{-1}
			if s.d == 7*24*time.Hour {
				restarts = append(restarts, 0)
				if thorough {
					restarts = append(restarts, 1)
				}
			}
			if !thorough && ki > 0 && si%2 == 1 {
				continue // quick tier: the second key takes every other start instant
			}
			for _, ra := range restarts {
				if time.Now().After(vrep.Deadline()) {
					r.Cap("deadline reached before listener scenario key %d / %s", ki, s.name)
					return
				}
				name := fmt.Sprintf("key %d (offset %dmin), start %s", ki, int(off/time.Minute), s.name)
				if ra >= 0 {
					name += fmt.Sprintf(", transport restarted after rollover %d", ra+1)
				}
				c18LnRun(r, cli, name, key, id, base, s.d, maxRolls, ra, thorough, distinct, &sampled)
			}
		}
	}
	r.Distinct = int64(len(distinct))
	r.Note("distinct_nontrivial = distinct (scenario, listener, period index, sample position, which learned address, result class) tuples; executions = real handshakes (dial + upgrade)")
	return r
}
