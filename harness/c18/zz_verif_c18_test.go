//go:build verif

package libp2pwebtransport

// C18: WebTransport serves a valid, advertised certificate at all times; dialers pin it.
// Parts (one vrep record each): "verifier" (verifyRawCerts over a product of certificates, hash lists, instants
// and chains), "dial" (real transport over loopback QUIC: the early-data confirmation), "manager" (the
// certificate manager over virtual time, engine E1). The two bounded-cost parts run first so that the
// manager search owns whatever is left of the time budget.

import "testing"

func TestVerifC18(t *testing.T) {
	c18Verifier(t)
	c18Dial(t)
	c18Manager(t)
}
