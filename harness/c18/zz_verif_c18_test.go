//go:build verif

package libp2pwebtransport

// C18: WebTransport serves a valid, advertised certificate at all times; dialers pin it.
// Parts (one vrep record each): "verifier" (verifyRawCerts over a product of certificates, hash lists, instants
// and chains), "dial" (real transport over loopback QUIC: the early-data confirmation), "listener" (a real
// listener kept open across certificate rollovers on a mock clock: what is served and confirmed on the wire),
// "manager" (the certificate manager over virtual time, engine E1). The bounded-cost parts run first so that
// the manager search owns whatever is left of the time budget.

import (
	"testing"
	"time"
)

func TestVerifC18(t *testing.T) {
	t0 := time.Now()
	rv := c18Verifier(t)
	t1 := time.Now()
	rd := c18Dial(t)
	t2 := time.Now()
	rl := c18Listener(t)
	t3 := time.Now()
	// flushed after the manager part (record order manager, listener, dial, verifier); wall_s of these records therefore
	// spans the whole run, their own duration is noted
	rv.Note("this part alone took %.2fs", t1.Sub(t0).Seconds())
	rd.Note("this part alone took %.2fs", t2.Sub(t1).Seconds())
	rl.Note("this part alone took %.2fs", t3.Sub(t2).Seconds())
	defer rv.Flush()
	defer rd.Flush()
	defer rl.Flush()
	c18Manager(t)
}
