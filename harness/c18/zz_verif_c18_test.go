//go:build verif

package libp2pwebtransport

// C18: WebTransport serves a valid, advertised certificate at all times; dialers pin it.
// Parts (one vrep record each): "verifier" (verifyRawCerts over a product of certificates, hash lists, instants
// and chains), "dial" (real transport over loopback QUIC: the early-data confirmation), "manager" (the
// certificate manager over virtual time, engine E1). The two bounded-cost parts run first so that the
// manager search owns whatever is left of the time budget.

import (
	"testing"
	"time"
)

func TestVerifC18(t *testing.T) {
	t0 := time.Now()
	rv := c18Verifier(t)
	t1 := time.Now()
	rd := c18Dial(t)
	t2 := time.Now()
	// flushed after the manager part (record order manager, dial, verifier); wall_s of these two records therefore
	// spans the whole run, their own duration is noted
	rv.Note("this part alone took %.2fs", t1.Sub(t0).Seconds())
	rd.Note("this part alone took %.2fs", t2.Sub(t1).Seconds())
	defer rv.Flush()
	defer rd.Flush()
	c18Manager(t)
}
