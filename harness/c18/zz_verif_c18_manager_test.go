//go:build verif

package libp2pwebtransport

// C18, part "manager": the certificate manager over virtual time. Engine E1 (seqmc).
//
// One closed system per (host key, clock kind, base date). A state is (instant, real certManager, tracker of
// what was advertised). Operations:
//   start(g)       fresh manager at bucketStart+g, g on a grid over one bucket period (only in the root state)
//   toTimer        advance the clock, sampling every grid point on the way, until the served certificate
//                  changes (the rollover timer fired)
//   restartAt(p)   advance (sampling) to point p of the current period, Close() the manager and start a fresh
//                  one with the same key on the same clock
// Every execution runs in its own testing/synctest bubble. Clock kind "mock" hands the manager the
// benbjohnson mock clock (the harness calls Set and then synctest.Wait, so the background goroutine has
// finished the rollover before anything is observed); clock kind "real" hands it clock.New(), whose time
// is the bubble's virtual time (this is the production default of the transport, and it lets the real
// verifyRawCerts - which reads time.Now - be applied to the served certificate at the same instant).
//
// The oracles are the statement's inequalities, evaluated at both ends of every inter-event interval (see
// c18Inst.sample). No oracle compares against a re-implementation of the bucket arithmetic; the harness
// uses the documented arithmetic only to PLACE its grid around the bucket boundaries.

import (
	"bytes"
	"crypto/ed25519"
	"crypto/sha256"
	"crypto/x509"
	"encoding/binary"
	"encoding/hex"
	"fmt"
	"reflect"
	"sort"
	"strings"
	"sync"
	"sync/atomic"
	"testing"
	"testing/synctest"
	"time"
	"unsafe"

	"github.com/benbjohnson/clock"
	ic "github.com/libp2p/go-libp2p/core/crypto"
	pb "github.com/libp2p/go-libp2p/core/crypto/pb"
	"github.com/libp2p/go-libp2p/x/verif/seqmc"
	"github.com/libp2p/go-libp2p/x/verif/vrep"
	"github.com/multiformats/go-multihash"
)

const (
	c18Skew    = time.Hour           // "the clock-skew allowance"
	c18MaxLife = 14 * 24 * time.Hour // "does not exceed 14 days"
	// bucket period as documented in cert_manager.go; used only to place the start grid
	c18Period = c18MaxLife - 2*c18Skew
	// Confirmation of learned addresses ("an address learned at any time keeps verifying through the current and the
	// following certificate period" + "completes the connection only if the server confirms ... every certificate hash
	// the dialer relied on"): the list SerializedCertHashes() - what listener.handshake sends as Noise early data - of
	// a manager that has been RUNNING since the address was advertised must contain every hash of every address it
	// advertised during the current or the previous certificate period; otherwise a dialer that learned that address
	// pins the served certificate and is then refused by upgrade() ("missing cert hash"). That is a violation.
	// An address advertised by an EARLIER RUN (before a restart) is held to the same rule: certificates are a
	// deterministic function of the host key and the time bucket precisely so that a restarted listener can stand in
	// for the run before it ("every restart at an arbitrary later instant" is in the quantifier), so it can - and must
	// - regenerate the previous bucket's certificate and confirm its hash. (At first this case was only recorded as an
	// outcome class, on the argument that a restarted manager cannot know the previous certificate; a reviewing
	// sub-agent pointed out that it can. The tree was repaired: see DESIGN.md section 9, row 31.)
	c18ConfirmAfterRestartIsViolation = true
)

// ---------- host keys ----------

// c18StubPriv is a host key whose public bytes select the bucket offset exactly.
type c18StubPriv struct{ pub, raw []byte }
type c18StubPub struct{ pub []byte }

func (k *c18StubPriv) Equals(o ic.Key) bool               { b, _ := o.Raw(); return bytes.Equal(b, k.raw) }
func (k *c18StubPriv) Raw() ([]byte, error)               { return append([]byte{}, k.raw...), nil }
func (k *c18StubPriv) Type() pb.KeyType                   { return pb.KeyType_Ed25519 }
func (k *c18StubPriv) Sign([]byte) ([]byte, error)        { return nil, fmt.Errorf("stub key cannot sign") }
func (k *c18StubPriv) GetPublic() ic.PubKey               { return &c18StubPub{k.pub} }
func (k *c18StubPub) Equals(o ic.Key) bool                { b, _ := o.Raw(); return bytes.Equal(b, k.pub) }
func (k *c18StubPub) Raw() ([]byte, error)                { return append([]byte{}, k.pub...), nil }
func (k *c18StubPub) Type() pb.KeyType                    { return pb.KeyType_Ed25519 }
func (k *c18StubPub) Verify([]byte, []byte) (bool, error) { return false, nil }

type c18Key struct {
	name   string
	priv   ic.PrivKey
	offset time.Duration // as documented: uint16le(pub[0:2]) minutes mod 14 days (grid placement only)
}

func c18OffsetOf(priv ic.PrivKey) time.Duration {
	b, err := priv.GetPublic().Raw()
	if err != nil || len(b) < 2 {
		return 0
	}
	return (time.Duration(binary.LittleEndian.Uint16(b)) * time.Minute) % c18MaxLife
}

func c18StubKey(u16 uint16) c18Key {
	pub := make([]byte, 32)
	binary.LittleEndian.PutUint16(pub, u16)
	h := sha256.Sum256([]byte(fmt.Sprintf("c18 stub key %d", u16)))
	copy(pub[2:], h[:30])
	raw := sha256.Sum256(h[:])
	k := &c18StubPriv{pub: pub, raw: append(raw[:], pub...)}
	return c18Key{name: fmt.Sprintf("stub(u16=%d,offset=%dmin)", u16, int(c18OffsetOf(k)/time.Minute)), priv: k, offset: c18OffsetOf(k)}
}

// c18RealKey searches deterministic Ed25519 keys (seed = sha256(label, VERIF_SEED, i)) for one whose bucket
// offset, in minutes, lies in [lo, hi].
func c18RealKey(label string, lo, hi int) (c18Key, bool) {
	for i := 0; i < 400000; i++ {
		seed := sha256.Sum256([]byte(fmt.Sprintf("c18 real key %d %d", vrep.Seed(), i)))
		priv := ed25519.NewKeyFromSeed(seed[:])
		pub := priv[32:]
		off := int(binary.LittleEndian.Uint16(pub)) % int(c18MaxLife/time.Minute)
		if off < lo || off > hi {
			continue
		}
		k, err := ic.UnmarshalEd25519PrivateKey(priv)
		if err != nil {
			continue
		}
		return c18Key{name: fmt.Sprintf("ed25519(%s,try=%d,offset=%dmin)", label, i, off), priv: k, offset: c18OffsetOf(k)}, true
	}
	return c18Key{}, false
}

// ---------- clock ----------

// c18Clk is the clock handed to the manager. It forwards to the mock clock or to the real (bubble) clock and
// records the instants at which the code under test READ the clock, which pins the instant of a rollover
// (the background goroutine reads the clock when its timer fires).
type c18Clk struct {
	clock.Clock
	mock  *clock.Mock
	mu    sync.Mutex
	reads []time.Time
}

func (c *c18Clk) Now() time.Time {
	t := c.Clock.Now()
	c.mu.Lock()
	c.reads = append(c.reads, t)
	c.mu.Unlock()
	return t
}

func (c *c18Clk) harnessNow() time.Time { return c.Clock.Now() }

// advanceTo moves virtual time to t (never backwards) and waits until every goroutine of the bubble is
// durably blocked again, i.e. until a rollover triggered on the way has completed.
func (c *c18Clk) advanceTo(t time.Time) {
	now := c.Clock.Now()
	if t.After(now) {
		if c.mock != nil {
			c.mock.Set(t)
		} else {
			time.Sleep(t.Sub(now))
		}
	}
	synctest.Wait()
}

// lastReadIn returns the latest recorded clock read in (after, upTo].
func (c *c18Clk) lastReadIn(after, upTo time.Time) (time.Time, bool) {
	c.mu.Lock()
	defer c.mu.Unlock()
	for i := len(c.reads) - 1; i >= 0; i-- {
		r := c.reads[i]
		if r.After(after) && !r.After(upTo) {
			return r, true
		}
	}
	return time.Time{}, false
}

// c18MockTimers reads the pending deadlines of the mock clock (white-box, for the state key only).
func c18MockTimers(m *clock.Mock) (out []time.Time) {
	defer func() {
		if recover() != nil {
			out = nil
		}
	}()
	v := reflect.ValueOf(m).Elem().FieldByName("timers")
	if !v.IsValid() {
		return nil
	}
	v = reflect.NewAt(v.Type(), unsafe.Pointer(v.UnsafeAddr())).Elem()
	for i := 0; i < v.Len(); i++ {
		res := v.Index(i).Elem().MethodByName("Next").Call(nil)
		out = append(out, res[0].Interface().(time.Time))
	}
	sort.Slice(out, func(i, j int) bool { return out[i].Before(out[j]) })
	return out
}

// ---------- the closed system ----------

type c18Start struct {
	name string
	d    time.Duration // relative to the reference bucket start
}

type c18Sys struct {
	name        string
	key         c18Key
	real        bool      // clock kind
	base        time.Time // reference bucket start (offset + k*period), as the harness computes it
	starts      []c18Start
	maxRolls    int
	maxRestarts int
	freshEvery  int // compare with a fresh manager at every freshEvery-th hourly sample (and all boundary samples)
	restartStep int // restart points: every restartStep-th hourly sample (and all boundary samples)
	r           *vrep.Result
	st          *c18Stats
	ptCache     sync.Map // (NotBefore, NotAfter) -> sample points of that period
	doneFresh   sync.Map // (instant, served, next) already compared with a fresh manager
	doneVerify  sync.Map // (instant, served, advertisement) already given to verifyRawCerts
}

// c18Stats: outcome classes and distinct evaluated cases, merged once per operation (not once per sample).
type c18Stats struct {
	mu       sync.Mutex
	outcomes map[string]int64
	distinct map[c18Case]struct{}
	deep     map[string]string // system -> the longest history explored (ties: smallest text), for the evidence samples
	nontriv  atomic.Int64      // explored histories (each explored exactly once) with at least one rollover or restart
}

type c18Case struct {
	sys     string
	t       int64
	served  string
	lastNil bool
}

type c18Cls struct {
	text    string
	lastNil bool
	ns, na  int
}

func (st *c18Stats) merge(in *c18Inst) {
	st.mu.Lock()
	for k, v := range in.outc {
		st.outcomes[k] += v
	}
	for k, v := range in.outs {
		l := "last=nil"
		if !k.lastNil {
			l = "last!=nil"
		}
		st.outcomes[fmt.Sprintf("oracles hold at %s (%s, advertised %d+%d hashes)", k.text, l, k.ns, k.na)] += v
	}
	for k := range in.cases {
		st.distinct[k] = struct{}{}
	}
	if d, ok := st.deep[in.sys.name]; !ok || strings.Count(in.hist, "/") > strings.Count(d, "/") ||
		(strings.Count(in.hist, "/") == strings.Count(d, "/") && in.hist < d) {
		st.deep[in.sys.name] = in.hist
	}
	st.mu.Unlock()
	in.outc, in.outs, in.cases = map[string]int64{}, map[c18Cls]int64{}, map[c18Case]struct{}{}
}

const (
	c18OpStart = iota
	c18OpToTimer
	c18OpRestartAt
)

type c18Op struct {
	kind int
	arg  int64 // start: index into starts; restartAt: offset from the served certificate's NotBefore, ns
}

type c18Adv struct {
	sig  string
	ser  map[string]bool              // SHA2-256 digests in SerializedCertHashes()
	addr map[string]bool              // SHA2-256 digests among the certhash components of AddrComponent()
	dec  []multihash.DecodedMultihash // extractCertHashes(AddrComponent()): what a dialer pins
	at   time.Time
	run  int // the latest run of the manager (= number of restarts before it) that advertised exactly this
}

type c18Inst struct {
	sys  *c18Sys
	clk  *c18Clk
	m    *certManager
	hist string
	dead bool

	lastOp          int
	rolls, restarts int
	servedRaw       []byte // certificate served at the previous sample
	nextRaw         []byte // the manager's upcoming certificate at the previous sample (white-box)
	servedS         time.Time
	servedE         time.Time
	advCur, advPrev []*c18Adv
	lastSample      time.Time
	advKey          string
	advLast         *c18Adv
	shaCache        map[string]string
	outc            map[string]int64
	outs            map[c18Cls]int64
	cases           map[c18Case]struct{}
	certCache       map[string]*x509.Certificate
}

// c18Memo: (system, history) -> instant at which its last operation ended when it was explored. A history that
// is replayed as the prefix of a longer one skips what cannot influence the state (fresh-manager comparison,
// dialer-side verifier call, statistics, and the hourly samples other than the one the operation ended at):
// all of that was checked when the prefix itself was the history under exploration (BFS: always earlier).
var c18Memo sync.Map

func (in *c18Inst) outcome(k string) { in.outc[k]++ }

func (in *c18Inst) kill() {
	if in.m != nil && !in.dead {
		in.m.Close()
	}
	in.dead = true
}

func (in *c18Inst) parse(raw []byte) (*x509.Certificate, error) {
	if c, ok := in.certCache[string(raw)]; ok {
		return c, nil
	}
	c, err := x509.ParseCertificate(raw)
	if err == nil {
		in.certCache[string(raw)] = c
	}
	return c, err
}

func c18Hex(b []byte) string { return hex.EncodeToString(b) }

func c18Sha(raw []byte) string { h := sha256.Sum256(raw); return hex.EncodeToString(h[:]) }

func (in *c18Inst) sha(raw []byte) string {
	if h, ok := in.shaCache[string(raw)]; ok {
		return h
	}
	h := c18Sha(raw)
	in.shaCache[string(raw)] = h
	return h
}

func (in *c18Inst) rel(t time.Time) string {
	return fmt.Sprintf("bucketStart%+v", t.Sub(in.sys.base))
}

type c18Pt struct {
	t        time.Time
	name     string
	boundary bool // one of the named near-boundary instants (otherwise an hourly sample)
	fresh    bool
	restart  bool
}

// points lists the sample instants of the period of the certificate with validity [S, E], strictly after
// `now`, up to E-skew+1ns: hourly, and +-{0,1ms} around S+skew, S+2skew, E-3skew, E-2skew (the NotBefore of the
// certificate the manager prepares next), E-skew (the last instant the served certificate satisfies the
// statement), plus E-skew-+1ns.
func (s *c18Sys) points(S, E, now time.Time) []c18Pt {
	ck := [2]int64{S.UnixNano(), E.UnixNano()}
	var all []c18Pt
	if v, ok := s.ptCache.Load(ck); ok {
		all = v.([]c18Pt)
	} else {
		all = s.allPoints(S, E)
		s.ptCache.Store(ck, all)
	}
	i := sort.Search(len(all), func(i int) bool { return all[i].t.After(now) })
	return all[i:]
}

func (s *c18Sys) allPoints(S, E time.Time) []c18Pt {
	D := E.Add(-c18Skew)
	m := map[int64]*c18Pt{}
	add := func(t time.Time, name string, boundary, fresh, restart bool) {
		if !t.After(S) || t.After(D.Add(time.Nanosecond)) {
			return
		}
		k := t.UnixNano()
		if p, ok := m[k]; ok {
			p.fresh = p.fresh || fresh
			p.restart = p.restart || restart
			if boundary {
				p.name, p.boundary = name, true
			}
			return
		}
		m[k] = &c18Pt{t: t, name: name, boundary: boundary, fresh: fresh, restart: restart}
	}
	hours := int(E.Sub(S) / time.Hour)
	if hours > 24*20 {
		hours = 24 * 20
	}
	for i := 1; i < hours; i++ {
		add(S.Add(time.Duration(i)*time.Hour), fmt.Sprintf("NotBefore+%dh", i), false, i%s.freshEvery == 0, i%s.restartStep == 0)
	}
	type bd struct {
		t    time.Time
		name string
	}
	for _, b := range []bd{{S.Add(c18Skew), "NotBefore+skew"}, {S.Add(2 * c18Skew), "NotBefore+2skew"}, {E.Add(-3 * c18Skew), "NotAfter-3skew"},
		{E.Add(-2 * c18Skew), "NotAfter-2skew"}, {D, "NotAfter-skew"}} {
		add(b.t.Add(-time.Millisecond), b.name+"-1ms", true, true, true)
		add(b.t, b.name, true, true, true)
		add(b.t.Add(time.Millisecond), b.name+"+1ms", true, true, true)
	}
	add(D.Add(-time.Nanosecond), "NotAfter-skew-1ns", true, true, true)
	add(D.Add(time.Nanosecond), "NotAfter-skew+1ns", true, true, false)
	out := make([]c18Pt, 0, len(m))
	for _, p := range m {
		out = append(out, *p)
	}
	sort.Slice(out, func(i, j int) bool { return out[i].t.Before(out[j].t) })
	return out
}

func c18DigestSets(ser [][]byte, dec []multihash.DecodedMultihash) (map[string]bool, map[string]bool, string) {
	sm, am := map[string]bool{}, map[string]bool{}
	var sl, al []string
	for _, b := range ser {
		d, err := multihash.Decode(b)
		if err != nil {
			sl = append(sl, "undecodable:"+c18Hex(b))
			continue
		}
		sl = append(sl, fmt.Sprintf("%x:%s", d.Code, c18Hex(d.Digest)))
		if d.Code == multihash.SHA2_256 {
			sm[c18Hex(d.Digest)] = true
		}
	}
	for _, d := range dec {
		al = append(al, fmt.Sprintf("%x:%s", d.Code, c18Hex(d.Digest)))
		if d.Code == multihash.SHA2_256 {
			am[c18Hex(d.Digest)] = true
		}
	}
	return sm, am, "ser=" + strings.Join(sl, ",") + " addr=" + strings.Join(al, ",")
}

// sample evaluates the statement at the current instant. `pos` names the instant; `first` is false while a
// history is being replayed as the prefix of a longer one (every check that does not influence the state was
// already made when that prefix was explored: the dialer-side verifier call, the fresh-manager comparison and
// the statistics are skipped then); `fresh` asks for the comparison with a fresh manager.
func (in *c18Inst) sample(pos string, boundary, first, fresh bool) error {
	full := first && fresh
	now := in.clk.harnessNow()
	m := in.m
	conf := m.GetConfig()
	if conf == nil || len(conf.Certificates) == 0 || len(conf.Certificates[0].Certificate) == 0 {
		return seqmc.Violation("no-certificate-served", "GetConfig() holds no certificate at %s", in.rel(now))
	}
	raw := conf.Certificates[0].Certificate[0]
	leaf, err := in.parse(raw)
	if err != nil {
		return seqmc.Violation("served-certificate-unparsable", "at %s: %v", in.rel(now), err)
	}
	hash := in.sha(raw)

	// --- a rollover happened since the previous sample?
	rolled := in.servedRaw != nil && !bytes.Equal(raw, in.servedRaw)
	if rolled {
		// "the certificate served during the following period is the one previously advertised as next"
		for _, a := range in.advCur {
			if !a.ser[hash] || !a.addr[hash] {
				return seqmc.Violation("served-cert-was-not-advertised-as-next", "certificate served from %s on (sha256 %s) was not among the hashes advertised at %s: %s",
					in.rel(now), hash[:16], in.rel(a.at), a.sig)
			}
		}
		if in.nextRaw != nil && !bytes.Equal(raw, in.nextRaw) {
			return seqmc.Violation("served-cert-is-not-the-announced-next", "after the rollover before %s the served certificate (sha256 %s) is not the one held as next (sha256 %s)",
				in.rel(now), hash[:16], c18Sha(in.nextRaw)[:16])
		}
		// start of the new certificate's interval: the instant the background goroutine woke up
		if at, ok := in.clk.lastReadIn(in.lastSample, now); ok {
			if leaf.NotBefore.Add(c18Skew).After(at) {
				return seqmc.Violation("served-cert-not-yet-valid-for-skew", "rollover at %s switched to a certificate with NotBefore=%s: valid for only %v, less than the clock-skew allowance",
					in.rel(at), in.rel(leaf.NotBefore), at.Sub(leaf.NotBefore))
			}
			if first {
				in.outcome("rollover instant pinned by the manager's clock read")
			}
		} else if first {
			in.outcome("rollover instant NOT pinned (no clock read recorded)")
		}
		in.advPrev, in.advCur = in.advCur, nil
		in.rolls++
	}

	// --- "valid for at least the clock-skew allowance and stays valid for at least that long"
	if leaf.NotBefore.Add(c18Skew).After(now) {
		return seqmc.Violation("served-cert-not-yet-valid-for-skew", "at %s (%s) the served certificate has NotBefore=%s: valid for only %v, less than the clock-skew allowance",
			in.rel(now), pos, in.rel(leaf.NotBefore), now.Sub(leaf.NotBefore))
	}
	if now.After(leaf.NotAfter.Add(-c18Skew)) {
		return seqmc.Violation("served-cert-expires-within-skew", "at %s (%s) the served certificate has NotAfter=%s: only %v of validity left, less than the clock-skew allowance",
			in.rel(now), pos, in.rel(leaf.NotAfter), leaf.NotAfter.Sub(now))
	}
	// --- "whose validity period does not exceed 14 days" (and a dialer's rule: not RSA)
	if l := leaf.NotAfter.Sub(leaf.NotBefore); l > c18MaxLife {
		return seqmc.Violation("served-cert-validity-exceeds-14d", "served certificate is valid for %v", l)
	}
	if leaf.PublicKeyAlgorithm == x509.RSA {
		return seqmc.Violation("served-cert-is-rsa", "served certificate has an RSA key")
	}

	// --- "the certificate hashes it advertises always contain the hash of the certificate being served and of the one served next"
	ser := m.SerializedCertHashes()
	addr := m.AddrComponent()
	akey := string(addr.Bytes()) + "|" + string(bytes.Join(ser, []byte{0}))
	if in.advLast == nil || akey != in.advKey { // decoded once per distinct advertisement
		dec, err := extractCertHashes(addr)
		if err != nil {
			return seqmc.Violation("advertised-address-undecodable", "AddrComponent()=%v: %v", addr, err)
		}
		sm, am, sig := c18DigestSets(ser, dec)
		in.advKey, in.advLast = akey, &c18Adv{sig: sig, ser: sm, addr: am, dec: dec, at: now}
	}
	sm, am, sig := in.advLast.ser, in.advLast.addr, in.advLast.sig
	if !sm[hash] {
		return seqmc.Violation("served-hash-not-in-SerializedCertHashes", "at %s served sha256 %s, advertised %s", in.rel(now), hash, sig)
	}
	if !am[hash] {
		return seqmc.Violation("served-hash-not-in-AddrComponent", "at %s served sha256 %s, advertised %s", in.rel(now), hash, sig)
	}
	m.mx.RLock()
	nc := m.nextConfig
	m.mx.RUnlock()
	if nc == nil || nc.tlsConf == nil || len(nc.tlsConf.Certificates) == 0 {
		return seqmc.Violation("no-next-certificate", "at %s the manager holds no upcoming certificate, so its hash cannot be advertised", in.rel(now))
	}
	nraw := nc.tlsConf.Certificates[0].Certificate[0]
	nhash := in.sha(nraw)
	if !sm[nhash] {
		return seqmc.Violation("next-hash-not-in-SerializedCertHashes", "at %s next sha256 %s, advertised %s", in.rel(now), nhash, sig)
	}
	if !am[nhash] {
		return seqmc.Violation("next-hash-not-in-AddrComponent", "at %s next sha256 %s, advertised %s", in.rel(now), nhash, sig)
	}
	known := false
	for _, a := range in.advCur {
		if a.sig == sig {
			known = true
			a.run = in.restarts // advertised (again) by the manager that is running now
		}
	}
	if !known {
		a := *in.advLast
		a.at, a.run = now, in.restarts
		in.advCur = append(in.advCur, &a)
	}

	// --- "an address learned at any time keeps verifying through the current and the following certificate period"
	for gi, group := range [][]*c18Adv{in.advCur, in.advPrev} {
		for _, a := range group {
			if !a.addr[hash] {
				return seqmc.Violation("learned-address-stops-verifying", "at %s the served certificate (sha256 %s) is not pinned by the address learned at %s (%s)",
					in.rel(now), hash[:16], in.rel(a.at), a.sig)
			}
			// would the server CONFIRM every hash of that address in its Noise early data?
			confirmed, missing := true, ""
			for h := range a.addr {
				if !sm[h] {
					confirmed, missing = false, h
				}
			}
			cls := "current period"
			if gi == 1 {
				cls = "previous period"
			}
			if !confirmed && a.run == in.restarts {
				// the manager has been running ever since it advertised that address: it is the one that has to confirm it
				return seqmc.Violation("learned-address-not-confirmed-by-running-manager",
					"at %s (%s) the manager, running without a restart since it advertised the address learned at %s in the %s (%s), serves a certificate that address pins (sha256 %s) but SerializedCertHashes() - the list confirmed inside the Noise handshake - lacks its hash %s: %s; the dialer's upgrade() refuses with \"missing cert hash\"",
					in.rel(now), pos, in.rel(a.at), cls, a.sig, hash[:16], missing[:16], sig)
			}
			if !first {
				continue
			}
			if in.sys.real && fresh {
				// the manager's clock is time.Now here, so the real dialer-side verifier sees the same instant
				if _, done := in.sys.doneVerify.LoadOrStore(fmt.Sprintf("%d|%s|%s", now.UnixNano(), hash[:16], a.sig), struct{}{}); !done {
					in.outcome("verifyRawCerts(served certificate, hashes of a learned address) at the manager's instant")
					if err := verifyRawCerts([][]byte{raw}, a.dec); err != nil {
						return seqmc.Violation("learned-address-stops-verifying", "at %s verifyRawCerts(served certificate, hashes of the address learned at %s) = %v",
							in.rel(now), in.rel(a.at), err)
					}
				}
			}
			switch {
			case confirmed && a.run == in.restarts:
				in.outcome("address learned in the " + cls + " from the running manager: every hash confirmed by SerializedCertHashes")
			case confirmed:
				in.outcome("address learned in the " + cls + " from an earlier run (before a restart): every hash confirmed by SerializedCertHashes")
			default: // a.run != in.restarts: see c18ConfirmAfterRestartIsViolation
				in.outcome("address learned in the " + cls + " from an earlier run (before a restart): a hash is NOT confirmed by the restarted manager ")
				if c18ConfirmAfterRestartIsViolation {
					return seqmc.Violation("learned-address-not-confirmed-after-restart", "at %s address learned at %s (%s) vs server list %s", in.rel(now), in.rel(a.at), a.sig, sig)
				}
			}
		}
	}
	if nl, err := in.parse(nraw); err == nil {
		if l := nl.NotAfter.Sub(nl.NotBefore); l > c18MaxLife {
			return seqmc.Violation("served-cert-validity-exceeds-14d", "upcoming certificate is valid for %v", l)
		}
	}

	// --- "certificates are a deterministic function of the host key and the time bucket": a fresh manager started
	// at this very instant with the same key serves byte-identical current and next certificates
	if full {
		_, done := in.sys.doneFresh.LoadOrStore(fmt.Sprintf("%d|%s|%s", now.UnixNano(), hash[:16], nhash[:16]), struct{}{})
		full = !done
	}
	if full {
		f, err := newCertManager(in.sys.key.priv, in.clk.Clock)
		if err != nil {
			return seqmc.Violation("manager-construction-failed", "fresh manager at %s: %v", in.rel(now), err)
		}
		fraw := f.GetConfig().Certificates[0].Certificate[0]
		var fnext []byte
		if f.nextConfig != nil {
			fnext = f.nextConfig.tlsConf.Certificates[0].Certificate[0]
		}
		f.Close()
		synctest.Wait()
		if !bytes.Equal(fraw, raw) {
			fl, _ := x509.ParseCertificate(fraw)
			d := "unparsable"
			if fl != nil {
				d = fmt.Sprintf("NotBefore=%s serial=%v", in.rel(fl.NotBefore), fl.SerialNumber)
			}
			return seqmc.Violation("restart-serves-different-certificate", "at %s (%s) the running manager serves NotBefore=%s serial=%v sha256 %s, a fresh manager with the same key serves %s sha256 %s",
				in.rel(now), pos, in.rel(leaf.NotBefore), leaf.SerialNumber, hash[:16], d, c18Sha(fraw)[:16])
		}
		if !bytes.Equal(fnext, nraw) {
			return seqmc.Violation("restart-prepares-different-next-certificate", "at %s (%s) next certificate of the running manager sha256 %s, of a fresh manager %s",
				in.rel(now), pos, nhash[:16], c18Sha(fnext)[:16])
		}
		in.outcome("fresh manager at the same instant serves byte-identical current and next certificates")
	}

	// bookkeeping
	in.servedRaw, in.nextRaw, in.servedS, in.servedE, in.lastSample = raw, nraw, leaf.NotBefore, leaf.NotAfter, now
	if !first {
		return nil
	}
	cls := "an hourly sample"
	if boundary {
		cls = pos
	}
	in.outs[c18Cls{cls, m.lastConfig == nil, len(sm), len(am)}]++
	in.cases[c18Case{in.sys.name, now.UnixNano(), hash[:8], m.lastConfig == nil}] = struct{}{}
	return nil
}

func (s *c18Sys) show(o c18Op) string {
	switch o.kind {
	case c18OpStart:
		return fmt.Sprintf("start(%s)", s.starts[o.arg].name)
	case c18OpToTimer:
		return "advanceToRollover"
	default:
		return fmt.Sprintf("restartAt(NotBefore+%v)", time.Duration(o.arg))
	}
}

func (s *c18Sys) newInst() *c18Inst {
	in := &c18Inst{sys: s, certCache: map[string]*x509.Certificate{}, shaCache: map[string]string{}, lastOp: -1,
		outc: map[string]int64{}, outs: map[c18Cls]int64{}, cases: map[c18Case]struct{}{}}
	if s.real {
		in.clk = &c18Clk{Clock: clock.New()}
	} else {
		mk := clock.NewMock()
		in.clk = &c18Clk{Clock: mk, mock: mk}
	}
	return in
}

func (s *c18Sys) ops(in *c18Inst) []c18Op {
	if in.dead {
		return nil
	}
	if in.m == nil {
		out := make([]c18Op, len(s.starts))
		for i := range s.starts {
			out[i] = c18Op{kind: c18OpStart, arg: int64(i)}
		}
		return out
	}
	var out []c18Op
	if in.rolls < s.maxRolls {
		out = append(out, c18Op{kind: c18OpToTimer})
	}
	if in.restarts < s.maxRestarts {
		now := in.clk.harnessNow()
		D := in.servedE.Add(-c18Skew)
		from := now
		if in.lastOp == c18OpToTimer {
			from = now.Add(-time.Nanosecond) // a restart at the very instant of the rollover is allowed
		}
		for _, p := range s.points(in.servedS, in.servedE, from) {
			if p.restart && p.t.Before(D) {
				out = append(out, c18Op{kind: c18OpRestartAt, arg: int64(p.t.Sub(in.servedS))})
			}
		}
	}
	return out
}

func (s *c18Sys) apply(in *c18Inst, op c18Op) (err error) {
	var first bool
	var endedAt *atomic.Int64
	defer func() {
		if r := recover(); r != nil {
			in.kill()
			panic(r)
		}
		if err != nil {
			in.kill() // a violating instance is never extended; leave no goroutine behind in the bubble
		}
		s.st.merge(in)
		if first && op.kind != c18OpStart {
			s.st.nontriv.Add(1)
		}
		if err == nil && first && in.m != nil && endedAt != nil {
			endedAt.Store(in.clk.harnessNow().UnixNano())
		}
	}()
	in.hist += "/" + s.show(op)
	mv, replayed := c18Memo.LoadOrStore(s.name+in.hist, new(atomic.Int64))
	endedAt = mv.(*atomic.Int64)
	first = !replayed
	// skip reports whether a sample point may be passed over without sampling
	skip := func(p c18Pt) bool { return !first && !p.boundary && p.t.UnixNano() != endedAt.Load() }
	in.lastOp = op.kind
	switch op.kind {
	case c18OpStart:
		st := s.starts[op.arg]
		in.clk.advanceTo(s.base.Add(st.d))
		m, err := newCertManager(s.key.priv, in.clk)
		if err != nil {
			in.dead = true
			return seqmc.Violation("manager-construction-failed", "newCertManager at %s: %v", in.rel(in.clk.harnessNow()), err)
		}
		in.m = m
		synctest.Wait()
		return in.sample("start", true, first, true)

	case c18OpToTimer:
		before := in.rolls
		for _, p := range s.points(in.servedS, in.servedE, in.clk.harnessNow()) {
			if skip(p) {
				continue
			}
			in.clk.advanceTo(p.t)
			if err := in.sample(p.name, p.boundary, first, p.fresh); err != nil {
				return err
			}
			if in.rolls > before {
				if first {
					in.outcome("rollover observed at " + p.name + " of the retiring certificate")
				}
				return nil
			}
		}
		return seqmc.Violation("served-cert-expires-within-skew", "no rollover although the clock passed NotAfter - skew (%s)", in.rel(in.servedE.Add(-c18Skew)))

	default: // restartAt
		target := in.servedS.Add(time.Duration(op.arg))
		for _, p := range s.points(in.servedS, in.servedE, in.clk.harnessNow()) {
			if p.t.After(target) {
				break
			}
			if skip(p) && !p.t.Equal(target) {
				continue
			}
			in.clk.advanceTo(p.t)
			if err := in.sample(p.name, p.boundary, first, p.fresh && p.t.Equal(target)); err != nil {
				return err
			}
		}
		in.clk.advanceTo(target)
		now := in.clk.harnessNow()
		oldRaw, oldNext := in.servedRaw, in.nextRaw
		if in.lastSample.Before(now) { // target was not a sample point of this period (cannot happen with the grids used)
			if err := in.sample("restart point", true, first, false); err != nil {
				return err
			}
			oldRaw, oldNext = in.servedRaw, in.nextRaw
		}
		in.m.Close()
		synctest.Wait()
		m, err := newCertManager(s.key.priv, in.clk)
		if err != nil {
			in.dead = true
			return seqmc.Violation("manager-construction-failed", "restart at %s: %v", in.rel(now), err)
		}
		in.m = m
		in.restarts++
		synctest.Wait()
		nraw := m.GetConfig().Certificates[0].Certificate[0]
		if !bytes.Equal(nraw, oldRaw) {
			return seqmc.Violation("restart-serves-different-certificate", "restart at %s: before sha256 %s, after sha256 %s", in.rel(now), c18Sha(oldRaw)[:16], c18Sha(nraw)[:16])
		}
		if m.nextConfig == nil || !bytes.Equal(m.nextConfig.tlsConf.Certificates[0].Certificate[0], oldNext) {
			return seqmc.Violation("restart-prepares-different-next-certificate", "restart at %s changes the upcoming certificate", in.rel(now))
		}
		if first {
			in.outcome("restart: same current and next certificate")
		}
		return in.sample("after restart", true, first, false)
	}
}

func (s *c18Sys) keyOf(in *c18Inst) string {
	if in.m == nil {
		return fmt.Sprintf("root dead=%v", in.dead)
	}
	now := in.clk.harnessNow()
	var sb strings.Builder
	fmt.Fprintf(&sb, "t=%d dead=%v lastOp=%d rolls=%d restarts=%d|", now.Sub(s.base), in.dead, in.lastOp, in.rolls, in.restarts)
	m := in.m
	for _, c := range []*certConfig{m.lastConfig, m.currentConfig, m.nextConfig} {
		if c == nil {
			sb.WriteString("nil;")
			continue
		}
		fmt.Fprintf(&sb, "%d..%d:%x;", c.Start().Sub(s.base), c.End().Sub(s.base), c.sha256[:8])
	}
	for _, h := range m.serializedCertHashes {
		fmt.Fprintf(&sb, "s%x,", h)
	}
	fmt.Fprintf(&sb, "|a=%v|", m.addrComp)
	// fields a later change adds to certManager join the key (they would otherwise be abstracted away)
	sb.WriteString(seqmc.ExtraFields(m, "clock", "ctx", "ctxCancel", "refCount", "mx", "lastConfig", "currentConfig", "nextConfig", "addrComp", "serializedCertHashes"))
	sb.WriteString("|")
	if in.clk.mock != nil {
		for _, t := range c18MockTimers(in.clk.mock) {
			fmt.Fprintf(&sb, "timer@%d,", t.Sub(s.base))
		}
	}
	sb.WriteString("|trk:")
	for _, g := range [][]*c18Adv{in.advCur, in.advPrev} {
		for _, a := range g {
			fmt.Fprintf(&sb, "%s@run%d;", a.sig, a.run)
		}
		sb.WriteString("/")
	}
	fmt.Fprintf(&sb, "served=%s next=%s", in.sha(in.servedRaw)[:16], in.sha(in.nextRaw)[:16])
	return sb.String()
}

// c18StartGrid: instants relative to the reference bucket start: hourly over one bucket period, plus
// +-{0, 1ms, 1h, 1h+-1ms} around the bucket start, bucket start + skew (the instant the previous certificate
// is retired), the bucket end (= End - 2*skew) and End - skew.
func c18StartGrid(hourStep int) []c18Start {
	m := map[time.Duration]string{}
	for i := 0; i*int(time.Hour) < int(c18Period); i += hourStep {
		m[time.Duration(i)*time.Hour] = fmt.Sprintf("bucketStart+%dh", i)
	}
	bs := []struct {
		d    time.Duration
		name string
	}{{0, "bucketStart"}, {c18Skew, "bucketStart+skew"}, {c18Period, "bucketEnd(=End-2skew)"}, {c18Period + c18Skew, "End-skew"}}
	deltas := []time.Duration{0, time.Millisecond, time.Hour - time.Millisecond, time.Hour, time.Hour + time.Millisecond}
	for _, b := range bs {
		for _, d := range deltas {
			for _, sign := range []time.Duration{-1, 1} {
				k := b.d + sign*d
				switch {
				case d == 0:
					m[k] = b.name
				case sign > 0:
					m[k] = fmt.Sprintf("%s + %v", b.name, d)
				default:
					m[k] = fmt.Sprintf("%s - %v", b.name, d)
				}
			}
		}
	}
	out := make([]c18Start, 0, len(m))
	for d, n := range m {
		out = append(out, c18Start{name: n, d: d})
	}
	sort.Slice(out, func(i, j int) bool { return out[i].d < out[j].d })
	return out
}

// c18Base: the first bucket start (offset + k*period) at or after `after`.
func c18Base(offset time.Duration, after time.Time) time.Time {
	pm, om, am := c18Period.Milliseconds(), offset.Milliseconds(), after.UnixMilli()
	k := (am-om)/pm + 1
	return time.UnixMilli(om + k*pm).UTC()
}

func c18Manager(t *testing.T) {
	r := vrep.New("C18", "manager")
	defer r.Flush()
	thorough := vrep.Thorough()

	var keys []c18Key
	stubs := []uint16{0, 20039, 20159, 1}
	if thorough {
		stubs = []uint16{0, 1, 20039, 20040, 20041, 20159}
	}
	for _, u := range stubs {
		keys = append(keys, c18StubKey(u))
	}
	type rng struct {
		label  string
		lo, hi int
	}
	reals := []rng{{"near bucket length", 20036, 20044}, {"any", 0, 20159}}
	if thorough {
		reals = []rng{{"near 0", 0, 3}, {"near bucket length", 20036, 20044}, {"near 14d", 20156, 20159}, {"any", 0, 20159}}
	}
	for _, g := range reals {
		if k, ok := c18RealKey(g.label, g.lo, g.hi); ok {
			keys = append(keys, k)
		} else {
			r.Cap("no Ed25519 key found with offset in [%d,%d] min", g.lo, g.hi)
		}
	}

	hourStep, freshEvery, restartStep, maxRolls, maxRestarts := 6, 24, 24, 3, 1
	if thorough {
		hourStep, freshEvery, restartStep, maxRolls, maxRestarts = 1, 4, 24, 4, 2
	}
	starts := c18StartGrid(hourStep)
	var offs []string
	for _, k := range keys {
		offs = append(offs, k.name)
	}
	r.Bounds["host keys"] = offs
	r.Bounds["clock kinds"] = "benbjohnson mock clock driven by the harness (every key); clock.New() on the bubble's virtual time (thorough: every key, quick: every other key)"
	r.Bounds["start instants per key"] = fmt.Sprintf("%d: every %dh over one bucket period + {0,+-1ms,+-1h,+-(1h-1ms),+-(1h+1ms)} around bucketStart, bucketStart+skew, bucketEnd(=End-2skew), End-skew", len(starts), hourStep)
	r.Bounds["rollovers"] = fmt.Sprintf("0..%d per history", maxRolls)
	r.Bounds["restarts"] = fmt.Sprintf("0..%d per history, at every boundary sample and every %dth hourly sample of a period", maxRestarts, restartStep)
	r.Bounds["samples per period"] = "hourly + {-1ms,0,+1ms} around NotBefore+skew, NotBefore+2skew, NotAfter-3skew, NotAfter-2skew, NotAfter-skew, and NotAfter-skew-+1ns"
	r.Bounds["fresh-manager comparison"] = fmt.Sprintf("at every boundary sample, every %dth hourly sample, every start and every restart", freshEvery)
	r.Bounds["skew"] = c18Skew.String()
	r.Bounds["depth"] = "closure (rollovers and restarts are bounded, so the history space is finite)"

	stats := &c18Stats{outcomes: map[string]int64{}, distinct: map[c18Case]struct{}{}, deep: map[string]string{}}
	type sysdef struct {
		key  c18Key
		real bool
		date time.Time
		tag  string
	}
	var defs []sysdef
	d2000 := time.Date(2000, 1, 1, 6, 0, 0, 0, time.UTC) // the bubble's clock starts at 2000-01-01 00:00 UTC
	d2024 := time.Date(2024, 6, 1, 0, 0, 0, 0, time.UTC)
	if thorough {
		// validity periods that straddle 2038-01-19 (32-bit time_t) and 2050-01-01 (X.509 UTCTime -> GeneralizedTime)
		defs = append(defs, sysdef{keys[0], false, time.Date(2037, 12, 25, 0, 0, 0, 0, time.UTC), "mock@2038"},
			sysdef{keys[len(keys)-1], false, time.Date(2049, 12, 1, 0, 0, 0, 0, time.UTC), "mock@2050"})
	}
	for i, k := range keys {
		defs = append(defs, sysdef{k, false, d2024, "mock@2024"})
		if thorough || i%2 == 0 { // quick tier: the real-clock variant for every other key
			defs = append(defs, sysdef{k, true, d2000, "real@2000"})
		}
	}
	for _, d := range defs {
		if time.Now().After(vrep.Deadline()) {
			r.Cap("deadline reached before system %s/%s", d.key.name, d.tag)
			break
		}
		s := &c18Sys{name: d.key.name + " " + d.tag, key: d.key, real: d.real, base: c18Base(d.key.offset, d.date), starts: starts,
			maxRolls: maxRolls, maxRestarts: maxRestarts, freshEvery: freshEvery, restartStep: restartStep, r: r, st: stats}
		sp := &seqmc.Spec[*c18Inst, c18Op]{
			Name:     s.name,
			New:      s.newInst,
			Close:    func(in *c18Inst) { in.kill() },
			Ops:      s.ops,
			Apply:    s.apply,
			Key:      s.keyOf,
			Show:     s.show,
			Depth:    1 << 20,
			Bubble:   true,
			T:        t,
			Deadline: vrep.Deadline(),
		}
		st := seqmc.Run(sp)
		seqmc.Fill(r, s.name, st)
	}
	for k, v := range stats.outcomes {
		r.Outcomes[k] += v
	}
	// put two of the longest explored histories in front of the samples (the engine's own samples are short ones)
	var deep []any
	for _, d := range defs {
		if h, ok := stats.deep[d.key.name+" "+d.tag]; ok && len(deep) < 2 {
			deep = append(deep, map[string]any{"search": d.key.name + " " + d.tag, "history": strings.Split(strings.TrimPrefix(h, "/"), "/")})
		}
	}
	r.Samples = append(deep, r.Samples...)
	if len(r.Samples) > 6 {
		r.Samples = r.Samples[:6]
	}
	r.Distinct = stats.nontriv.Load()
	r.Note("oracle evaluation points: %d distinct (system, instant, served certificate, lastConfig nil/non-nil) tuples", len(stats.distinct))
	r.Note("distinct_nontrivial = explored histories (BFS explores every history exactly once) that contain at least one rollover or restart; a history consisting of start(g) alone is counted as trivial")
}
