//go:build verif

package client_test

// C12, part "circuit-client": where ConnStats.Limited ORIGINATES. The swarm-level parts of C12 take the Limited flag
// of a relayed connection as given (fake transports set it); this part drives the REAL circuit-v2 client transport
// (dial side: p2p/protocol/circuitv2/client/dial.go, accepting side: handlers.go) end to end through a scripted relay
// that announces an enumerated Limit on every circuit: none, duration only, data only, both, both zero - the circuit
// v2 wire format lets a relay restrict one dimension only (0 = no limit on that dimension); go-libp2p's own relay
// always fills in both fields, so only a scripted relay reaches the other forms. Real hosts on loopback TCP, real
// time: the oracle therefore judges only WHAT calls return, never how long they took; a wait that runs out is an
// outcome class / cap, never a violation.
//
// Oracle (implications of the statement): when the relay announced a limit in at least one dimension, the relayed
// connection reports Limited on the dialling AND on the accepting side, the peer's connectedness is Limited (not
// Connected) on both sides, a stream open that does not allow limited connections never returns a stream, and one
// that allows them works (non-vacuity). Without any Limit message the connection is not limited (outcome class;
// asserted only as the baseline that a plain stream open works). A Limit message with both fields zero: outcome class.

import (
	"context"
	"encoding/json"
	"fmt"
	"io"
	"os"
	"testing"
	"time"

	"github.com/libp2p/go-libp2p"
	"github.com/libp2p/go-libp2p/core/host"
	"github.com/libp2p/go-libp2p/core/network"
	"github.com/libp2p/go-libp2p/core/peer"
	"github.com/libp2p/go-libp2p/core/peerstore"
	pbv2 "github.com/libp2p/go-libp2p/p2p/protocol/circuitv2/pb"
	"github.com/libp2p/go-libp2p/p2p/protocol/circuitv2/proto"
	"github.com/libp2p/go-libp2p/p2p/protocol/circuitv2/util"
	"github.com/libp2p/go-libp2p/x/verif/vrep"

	ma "github.com/multiformats/go-multiaddr"
)

type c12cLimit struct {
	Name     string
	Limit    *pbv2.Limit
	Limiting bool // at least one dimension is restricted
}

func c12cU32(v uint32) *uint32 { return &v }
func c12cU64(v uint64) *uint64 { return &v }

func c12cLimits() []c12cLimit {
	return []c12cLimit{
		{"no Limit message", nil, false},
		{"duration only", &pbv2.Limit{Duration: c12cU32(120)}, true},
		{"data only", &pbv2.Limit{Data: c12cU64(1 << 17)}, true},
		{"duration and data", &pbv2.Limit{Duration: c12cU32(120), Data: c12cU64(1 << 17)}, true},
		{"duration set, data explicitly 0", &pbv2.Limit{Duration: c12cU32(120), Data: c12cU64(0)}, true},
		{"data set, duration explicitly 0", &pbv2.Limit{Duration: c12cU32(0), Data: c12cU64(1 << 17)}, true},
		{"both fields 0", &pbv2.Limit{Duration: c12cU32(0), Data: c12cU64(0)}, false},
		{"empty Limit message", &pbv2.Limit{}, false},
	}
}

const c12cWait = 60 * time.Second

// c12cRelay: a minimal circuit-v2 relay on r that announces limit in the STOP CONNECT and in the HOP STATUS and pipes.
func c12cRelay(r host.Host, limit *pbv2.Limit) {
	r.SetStreamHandler(proto.ProtoIDv2Hop, func(s network.Stream) {
		rd := util.NewDelimitedReader(s, 4096)
		var msg pbv2.HopMessage
		err := rd.ReadMsg(&msg)
		rd.Close()
		if err != nil || msg.GetType() != pbv2.HopMessage_CONNECT {
			s.Reset()
			return
		}
		dest, err := util.PeerToPeerInfoV2(msg.GetPeer())
		if err != nil {
			s.Reset()
			return
		}
		ctx, cancel := context.WithTimeout(context.Background(), c12cWait)
		defer cancel()
		bs, err := r.NewStream(network.WithNoDial(ctx, "relay"), dest.ID, proto.ProtoIDv2Stop)
		if err != nil {
			s.Reset()
			return
		}
		err = util.NewDelimitedWriter(bs).WriteMsg(&pbv2.StopMessage{Type: pbv2.StopMessage_CONNECT.Enum(),
			Peer: util.PeerInfoToPeerV2(peer.AddrInfo{ID: s.Conn().RemotePeer()}), Limit: limit})
		if err != nil {
			bs.Reset()
			s.Reset()
			return
		}
		brd := util.NewDelimitedReader(bs, 4096)
		var resp pbv2.StopMessage
		err = brd.ReadMsg(&resp)
		brd.Close()
		if err != nil || resp.GetType() != pbv2.StopMessage_STATUS || resp.GetStatus() != pbv2.Status_OK {
			bs.Reset()
			s.Reset()
			return
		}
		if err := util.NewDelimitedWriter(s).WriteMsg(&pbv2.HopMessage{Type: pbv2.HopMessage_STATUS.Enum(), Status: pbv2.Status_OK.Enum(), Limit: limit}); err != nil {
			bs.Reset()
			s.Reset()
			return
		}
		go func() { io.Copy(s, bs); s.Reset(); bs.Reset() }()
		go func() { io.Copy(bs, s); s.Reset(); bs.Reset() }()
	})
}

type c12cObs struct {
	Infra       string // the scenario could not be set up / a wait ran out (no verdict)
	DialLimited bool
	AccLimited  bool
	ConnDial    network.Connectedness
	ConnAcc     network.Connectedness
	PlainStream string // "refused" | "opened" (a stream was returned to a caller that did not allow limited connections)
	AllowStream string // "opened" | error
}

func c12cRun(l c12cLimit) (o c12cObs) {
	relay, err := libp2p.New(libp2p.ListenAddrStrings("/ip4/127.0.0.1/tcp/0"), libp2p.DisableRelay())
	if err != nil {
		o.Infra = "relay host: " + err.Error()
		return
	}
	defer relay.Close()
	c12cRelay(relay, l.Limit)
	// h1 and h2 listen nowhere: the only way from one to the other is the relay
	h1, err := libp2p.New(libp2p.NoListenAddrs, libp2p.EnableRelay())
	if err != nil {
		o.Infra = "h1: " + err.Error()
		return
	}
	defer h1.Close()
	h2, err := libp2p.New(libp2p.NoListenAddrs, libp2p.EnableRelay())
	if err != nil {
		o.Infra = "h2: " + err.Error()
		return
	}
	defer h2.Close()
	const protoID = "/c12c/1.0.0"
	h2.SetStreamHandler(protoID, func(s network.Stream) { s.Close() })
	ctx, cancel := context.WithTimeout(context.Background(), c12cWait)
	defer cancel()
	ri := peer.AddrInfo{ID: relay.ID(), Addrs: relay.Addrs()}
	if err := h1.Connect(ctx, ri); err != nil {
		o.Infra = "h1 -> relay: " + err.Error()
		return
	}
	if err := h2.Connect(ctx, ri); err != nil {
		o.Infra = "h2 -> relay: " + err.Error()
		return
	}
	h1.Peerstore().AddAddr(h2.ID(), ma.StringCast("/p2p/"+relay.ID().String()+"/p2p-circuit"), peerstore.TempAddrTTL)
	c, err := h1.Network().DialPeer(ctx, h2.ID())
	if err != nil {
		o.Infra = "dial through the relay: " + err.Error()
		return
	}
	if _, err := c.RemoteMultiaddr().ValueForProtocol(ma.P_CIRCUIT); err != nil {
		o.Infra = "the connection does not go through the relay: " + c.RemoteMultiaddr().String()
		return
	}
	o.DialLimited = c.Stat().Limited
	var acc network.Conn
	for t0 := time.Now(); time.Since(t0) < c12cWait; time.Sleep(5 * time.Millisecond) {
		if cs := h2.Network().ConnsToPeer(h1.ID()); len(cs) > 0 {
			acc = cs[0]
			break
		}
	}
	if acc == nil {
		o.Infra = "the accepting side never listed the relayed connection"
		return
	}
	o.AccLimited = acc.Stat().Limited
	o.ConnDial, o.ConnAcc = h1.Network().Connectedness(h2.ID()), h2.Network().Connectedness(h1.ID())
	// a caller that does not allow limited connections: NoDial, so that nothing but the existing connection can serve it;
	// the call waits for a direct connection until its context ends - only a RETURNED stream is judged
	sctx, scancel := context.WithTimeout(network.WithNoDial(context.Background(), "c12c"), 300*time.Millisecond)
	s, err := h1.NewStream(sctx, h2.ID(), protoID)
	scancel()
	o.PlainStream = "refused"
	if err == nil {
		o.PlainStream = "opened"
		s.Reset()
	}
	actx, acancel := context.WithTimeout(network.WithAllowLimitedConn(context.Background(), "c12c"), c12cWait)
	s, err = h1.NewStream(actx, h2.ID(), protoID)
	acancel()
	if err != nil {
		// (real time, loaded machine: a stream open that allows limited connections and still fails is treated as a
		// run without a verdict and repeated; a tree on which it always fails ends as a cap, never as a verdict)
		o.Infra = "stream open with WithAllowLimitedConn failed: " + err.Error()
		o.AllowStream = err.Error()
	} else {
		o.AllowStream = "opened"
		s.Close()
	}
	return
}

func TestVerifC12Client(t *testing.T) {
	r := vrep.New("C12", "circuit-client")
	defer r.Flush()
	limits := c12cLimits()
	var names []string
	for _, l := range limits {
		names = append(names, l.Name)
	}
	r.Bounds["limit_forms_announced_by_the_relay"] = names
	r.Bounds["sides"] = "dialling side (client/dial.go), accepting side (client/handlers.go)"
	shard, nshards := vrep.Shard()
	only := -1
	if p := vrep.ReplayPath(); p != "" {
		if shard != 0 {
			return
		}
		var rp struct {
			Replay struct {
				Form int `json:"form"`
			} `json:"replay"`
		}
		if b, err := os.ReadFile(p); err == nil && json.Unmarshal(b, &rp) == nil {
			only = rp.Replay.Form
		}
	}
	distinct := map[string]struct{}{}
	for i, l := range limits {
		if only >= 0 && i != only {
			continue
		}
		if only < 0 && i%nshards != shard {
			continue
		}
		var o c12cObs
		for try := 0; try < 3; try++ {
			o = c12cRun(l)
			if o.Infra == "" {
				break
			}
		}
		if only >= 0 {
			fmt.Fprintf(os.Stdout, "REPLAY form %d (%s): %+v\n", i, l.Name, o)
		}
		if o.Infra != "" {
			r.Cap("form %q: no verdict after 3 tries: %s", l.Name, o.Infra)
			continue
		}
		r.Executions++
		cls := fmt.Sprintf("%s -> dial-side limited=%v accept-side limited=%v connectedness=%v/%v plain stream %s, allow-limited stream %s", l.Name, o.DialLimited, o.AccLimited, o.ConnDial, o.ConnAcc, o.PlainStream, o.AllowStream)
		r.Outcome(cls)
		distinct[cls] = struct{}{}
		r.Sample(map[string]any{"form": l.Name, "observed": cls})
		rp := map[string]any{"part": "circuit-client", "form": i, "limit": l.Name}
		if o.AllowStream != "opened" {
			r.Violate("baseline-failed", fmt.Sprintf("relay announcing %q: a stream open that allows limited connections failed over the relayed connection: %s", l.Name, o.AllowStream), rp)
			continue
		}
		if !l.Limiting {
			continue
		}
		if !o.DialLimited {
			r.Violate("limited-circuit-not-marked-limited/dialling-side", fmt.Sprintf("the relay announced a limit (%s) but the relayed connection reports Limited=false on the dialling side", l.Name), rp)
		}
		if !o.AccLimited {
			r.Violate("limited-circuit-not-marked-limited/accepting-side", fmt.Sprintf("the relay announced a limit (%s) but the relayed connection reports Limited=false on the accepting side", l.Name), rp)
		}
		if o.ConnDial == network.Connected || o.ConnAcc == network.Connected {
			r.Violate("limited-peer-reported-connected", fmt.Sprintf("the only connection is a circuit with an announced limit (%s) but connectedness is %v (dialling side) / %v (accepting side)", l.Name, o.ConnDial, o.ConnAcc), rp)
		}
		if o.PlainStream == "opened" {
			r.Violate("stream-over-limited-circuit-without-permission", fmt.Sprintf("the only connection is a circuit with an announced limit (%s); NewStream without WithAllowLimitedConn returned a stream", l.Name), rp)
		}
	}
	r.Distinct = int64(len(distinct))
}
