//go:build verif

package relay

// C11, concurrent part ("for concurrent requests racing on the counters"). Engine E2: package relay AND this
// harness together with the fixture of harness/c11 (scripted host / network / connections / streams, real rcmgr,
// real BasicConnMgr, real pstoremem) are instrumented, so every mutex / channel operation of the relay and of the
// fixture is a scheduling point; the fixture's synctest.Wait() calls become vsched.SyncWait (continue at
// quiescence). A scenario = a sequential prologue (reservations, circuits) followed by 2-3 racing threads
// (RESERVE / CONNECT requests whose hop streams are already open, a peer disconnecting, a circuit ending, the
// relay closing) and a fixed epilogue: (1) observe; (2) end every circuit; (3) disconnect everybody; (4) let
// every reservation expire and be collected. Oracles (implications and restore-equalities only):
//   - at every scheduling point Relay.conns[p] <= MaxCircuits (white box, read under the cooperative scheduler);
//   - (1) OK answers to concurrently open CONNECTs never exceed MaxCircuits for a shared end; OK answers to
//     RESERVE are within the total / per-IP caps; no reservation => no reservation tag; closed relay => no
//     reservation and no reservation tag;
//   - (2) with no circuit left: no circuit counter, no hop tag, service-scope memory and streams as before;
//   - (3) a peer whose reservation was granted before it disconnected holds none afterwards; a tag only ever
//     accompanies a reservation;
//   - (4) after ReservationTTL + one collection period: no reservation, no tag, for anybody.
// A reservation that is granted after the peer's Disconnected notification was processed (the handler had read
// the request before the connection died) stays until it expires: the statement's "disappear when that peer
// disconnects" is about reservations that exist when the peer disconnects, so this is reported as an outcome
// class, not as a violation; its tag and expiry are still checked by (3) and (4).

import (
	"fmt"
	"os"
	"sort"
	"strings"
	"testing"
	"testing/synctest"
	"time"

	"github.com/libp2p/go-libp2p/core/peer"
	pbv2 "github.com/libp2p/go-libp2p/p2p/protocol/circuitv2/pb"
	circuitproto "github.com/libp2p/go-libp2p/p2p/protocol/circuitv2/proto"
	"github.com/libp2p/go-libp2p/p2p/protocol/circuitv2/util"
	"github.com/libp2p/go-libp2p/x/verif/vrep"
	vs "github.com/libp2p/go-libp2p/x/verif/vsched"
)

const c11sTTL = 10 * time.Minute

type c11sStep struct {
	K    string // "reserve" | "connect" | "disconnect" | "endcircuit" | "closerelay"
	C, D int    // client (source), destination / index of the prologue circuit
}

func (st c11sStep) show() string {
	switch st.K {
	case "reserve":
		return fmt.Sprintf("RESERVE(p%d)", st.C+1)
	case "connect":
		return fmt.Sprintf("CONNECT(p%d->p%d)", st.C+1, st.D+1)
	case "disconnect", "disconnect-first":
		return fmt.Sprintf("Disconnect(p%d)", st.C+1)
	case "endcircuit":
		return fmt.Sprintf("EndCircuit(#%d)", st.D)
	case "closerelay":
		return "Relay.Close"
	case "reserve-newconn":
		return fmt.Sprintf("Reconnect+RESERVE(p%d)", st.C+1)
	}
	return st.K
}

type c11sScn struct {
	Name        string
	MaxRes      int
	MaxCircuits int
	PerIP       int
	SameIP      bool // p1 and p2 share one IP address
	Limited     bool
	Pre         []c11sStep // sequential prologue (reserve / connect only)
	Race        []c11sStep // one thread each
	Bound       int        // deviation bound override (0: default)
}

func (sc c11sScn) cfg() *c11Cfg {
	ip := []string{"198.51.100.1", "198.51.100.2", "198.51.100.3"}
	if sc.SameIP {
		ip[1] = ip[0]
	}
	cfg := &c11Cfg{Name: sc.Name, RC: Resources{ReservationTTL: c11sTTL, MaxReservations: sc.MaxRes, MaxCircuits: sc.MaxCircuits, BufferSize: 16,
		MaxReservationsPerPeer: 1, MaxReservationsPerIP: sc.PerIP, MaxReservationsPerASN: 8}}
	if sc.Limited {
		cfg.RC.Limit = c11Limited()
	}
	for i := 0; i < 3; i++ {
		cfg.Clients = append(cfg.Clients, c11ClientSpec{Label: fmt.Sprintf("p%d", i+1),
			Addrs: []c11AddrSpec{{Name: string(rune('A' + i)), Addr: fmt.Sprintf("/ip4/%s/tcp/%d", ip[i], 4001+i), IP: ip[i]}}})
	}
	return cfg
}

type c11sReq struct {
	step  c11sStep
	conn2 *c11Conn // reserve-newconn: the new connection
	hop   *c11Stream
	rep   c11Reply
	done  bool
	ended bool
}

func c11sBody(sc c11sScn) func(x *vs.Exec) {
	return func(x *vs.Exec) {
		s := x.S
		cfg := sc.cfg()
		var sy *c11Sys
		var base *c11Obs
		var first []*c11Conn // every client's first connection (what "disconnect" closes)
		var pre []*c11sReq   // prologue requests (circuits that are open when the race starts)
		var reqs []*c11sReq  // racing requests, index = race thread
		heldBefore := map[int]bool{}
		send := func(rq *c11sReq) {
			switch rq.step.K {
			case "reserve":
				rq.hop.hSendMsg(&pbv2.HopMessage{Type: pbv2.HopMessage_RESERVE.Enum()})
			case "connect":
				rq.hop.hSendMsg(&pbv2.HopMessage{Type: pbv2.HopMessage_CONNECT.Enum(), Peer: util.PeerInfoToPeerV2(peer.AddrInfo{ID: sy.ids[rq.step.D].id})})
			}
		}
		finish := func(rq *c11sReq) {
			synctest.Wait()
			rq.rep = c11ReadHopReply(rq.hop)
			rq.done = true
			if rq.step.K == "reserve" {
				rq.hop.hCloseWrite()
			}
		}
		fail := ""
		s.Go("prologue", func() {
			sy = c11NewSys(cfg)
			// every destination answers the relay's STOP CONNECT with OK at once
			sy.host.onOutbound = func(st *c11Stream) {
				st.hSendMsg(&pbv2.StopMessage{Type: pbv2.StopMessage_STATUS.Enum(), Status: pbv2.Status_OK.Enum()})
			}
			for c := range cfg.Clients {
				sy.dial(c, 0)
			}
			synctest.Wait()
			base = sy.observe() // before any request: what "as before" means for memory and streams
			for _, st := range sc.Pre {
				rq := &c11sReq{step: st, hop: sy.host.inbound(sy.conns[st.C][0], circuitproto.ProtoIDv2Hop)}
				send(rq)
				finish(rq)
				if !rq.rep.Got || rq.rep.Status != pbv2.Status_OK {
					fail = fmt.Sprintf("prologue step %s answered %s", st.show(), rq.rep.class())
					return
				}
				if st.K == "reserve" {
					heldBefore[st.C] = true
				} else {
					pre = append(pre, rq)
				}
			}
			// the racing requests' hop streams exist (their handlers wait for the request) before anything races
			for c := range cfg.Clients {
				first = append(first, sy.conns[c][0])
			}
			for _, st := range sc.Race {
				rq := &c11sReq{step: st}
				if st.K == "reserve" || st.K == "connect" {
					rq.hop = sy.host.inbound(sy.conns[st.C][0], circuitproto.ProtoIDv2Hop)
				}
				reqs = append(reqs, rq)
			}
			synctest.Wait()
		})
		if !s.Run() && !s.Free {
			x.Fail("deadlock", "prologue: %s", s.Deadlock)
			return
		}
		if fail != "" {
			x.Outcome = "infrastructure: " + fail
			return
		}
		if !s.Free {
			r, max := sy.relay, cfg.RC.MaxCircuits
			s.SetInvariant(func() error {
				for p, n := range r.conns {
					if n > max {
						return fmt.Errorf("Relay.conns[%s] = %d > MaxCircuits = %d", sy.label(p), n, max)
					}
				}
				return nil
			})
		}
		baseMem := int64(0)
		if base != nil {
			baseMem = base.SvcMem
		}
		// ----- the race -----
		for i, st := range sc.Race {
			rq := reqs[i]
			switch st.K {
			case "reserve", "connect":
				s.Go(st.show(), func() {
					send(rq)
					finish(rq)
				})
			case "disconnect":
				s.GoPrio(st.show(), 1, func() {
					vs.Yield()
					first[st.C].Close()
					rq.done = true
				})
			case "disconnect-first":
				// like "disconnect", but part of the default schedule's beginning: the interesting interleavings then
				// need a single preemption inside the Disconnected handler instead of an early start plus a preemption
				s.Go(st.show(), func() {
					first[st.C].Close()
					rq.done = true
				})
			case "reserve-newconn":
				// the peer comes back over a NEW connection and reserves over it (while its old connection may be closing)
				s.Go(st.show(), func() {
					c2 := sy.net.openConn(sy.ids[st.C], sy.addrs[st.C][0], false)
					rq.conn2 = c2
					rq.hop = sy.host.inbound(c2, circuitproto.ProtoIDv2Hop)
					rq.step.K = "reserve"
					send(rq)
					finish(rq)
					rq.step.K = "reserve-newconn"
				})
			case "endcircuit":
				s.GoPrio(st.show(), 1, func() {
					vs.Yield()
					pre[st.D].hop.hReset()
					pre[st.D].ended = true
					rq.done = true
				})
			case "closerelay":
				s.GoPrio(st.show(), 1, func() {
					vs.Yield()
					sy.relay.Close()
					rq.done = true
				})
			}
		}
		ok := s.Run()
		if s.InvErr != nil {
			x.Fail("circuit-count-above-max", "%v", s.InvErr)
		}
		if !ok && s.Deadlock != "" {
			x.Fail("deadlock", "threads blocked forever: %s", s.Deadlock)
		}
		if s.Free {
			s.Go("teardown", func() { sy.shutdown() })
			s.Drain()
			return
		}
		s.SetInvariant(nil)
		var obs [4]*c11Obs
		relayClosed, disc, reconnected := false, map[int]bool{}, map[int]bool{}
		for _, st := range sc.Race {
			relayClosed = relayClosed || st.K == "closerelay"
			if st.K == "disconnect" || st.K == "disconnect-first" {
				disc[st.C] = true
			}
			if st.K == "reserve-newconn" {
				reconnected[st.C] = true
			}
		}
		if ok && x.VioKey == "" {
			s.Go("epilogue", func() {
				synctest.Wait()
				obs[0] = sy.observe()
				for _, rq := range append(append([]*c11sReq{}, pre...), reqs...) {
					if rq.step.K == "connect" && rq.hop != nil && !rq.ended {
						rq.hop.hReset()
					}
				}
				synctest.Wait()
				obs[1] = sy.observe()
				for _, c := range sy.net.Conns() {
					c.Close()
				}
				synctest.Wait()
				obs[2] = sy.observe()
				time.Sleep(c11sTTL + time.Minute + time.Second)
				synctest.Wait()
				obs[3] = sy.observe()
			})
			if !s.Run() {
				ok = false
				if s.Deadlock != "" {
					x.Fail("deadlock", "epilogue: %s", s.Deadlock)
				}
			}
		}
		var out []string
		if ok && x.VioKey == "" && obs[3] != nil {
			lbl := func(c int) string { return cfg.Clients[c].Label }
			// (1) right after the race
			okConn, okRes := map[int]int{}, []int{}
			for _, rq := range pre {
				if !rq.ended {
					okConn[rq.step.C]++
					okConn[rq.step.D]++
				}
			}
			for i, rq := range reqs {
				cl := "-"
				if rq.hop != nil {
					cl = rq.rep.class()
				}
				out = append(out, fmt.Sprintf("%s=%s", sc.Race[i].show(), cl))
				if rq.hop == nil || !rq.rep.Got || rq.rep.Status != pbv2.Status_OK {
					continue
				}
				if rq.step.K == "connect" {
					okConn[rq.step.C]++
					okConn[rq.step.D]++
				} else {
					okRes = append(okRes, rq.step.C)
				}
			}
			endsInRace := false
			for _, st := range sc.Race {
				endsInRace = endsInRace || st.K == "endcircuit" || st.K == "disconnect" || st.K == "disconnect-first" || st.K == "closerelay"
			}
			if !endsInRace {
				// nothing ended during the race: every OK circuit was open at the same time as the others
				for c, n := range okConn {
					if n > cfg.RC.MaxCircuits {
						x.Fail("circuits-above-max", "%s is an end of %d simultaneously open circuits (MaxCircuits = %d): %v", lbl(c), n, cfg.RC.MaxCircuits, out)
					}
				}
				holders := map[int]bool{}
				for c := range heldBefore {
					holders[c] = true
				}
				for _, c := range okRes {
					holders[c] = true
				}
				if len(holders) > cfg.RC.MaxReservations {
					x.Fail("reservations-above-total-cap", "%d peers hold a reservation at the same time (MaxReservations = %d): %v", len(holders), cfg.RC.MaxReservations, out)
				}
				perIP := map[string]int{}
				for c := range holders {
					perIP[cfg.Clients[c].Addrs[0].IP]++
				}
				for ip, n := range perIP {
					if n > cfg.RC.MaxReservationsPerIP {
						x.Fail("reservations-above-ip-cap", "%d peers from %s hold a reservation at the same time (MaxReservationsPerIP = %d): %v", n, ip, cfg.RC.MaxReservationsPerIP, out)
					}
				}
				for _, c := range okRes {
					if _, has := obs[0].Rsvp[lbl(c)]; !has {
						x.Fail("granted-reservation-missing", "RESERVE of %s was answered OK, nothing ended since, and the relay holds no reservation for it", lbl(c))
					}
				}
			}
			tagRule := func(stage string, o *c11Obs) {
				for c := range cfg.Clients {
					_, has := o.Rsvp[lbl(c)]
					if !has && c11TagIn(o.Tags[lbl(c)], "relay-reservation") {
						x.Fail("reservation-tag-without-reservation", "%s: %s has no reservation but carries the reservation tag: tags %s", stage, lbl(c), o.Tags[lbl(c)])
					}
					if o.Conns[lbl(c)] == 0 && c11TagIn(o.Tags[lbl(c)], relayHopTag) {
						x.Fail("hop-tag-without-circuit", "%s: %s is in no circuit but carries the hop tag: tags %s", stage, lbl(c), o.Tags[lbl(c)])
					}
				}
			}
			for _, rq := range reqs {
				if rq.step.K == "reserve-newconn" {
					_, has := obs[0].Rsvp[lbl(rq.step.C)]
					out = append(out, fmt.Sprintf("reservation-after-race=%v", has))
				}
				if rq.step.K == "reserve-newconn" && rq.rep.Got && rq.rep.Status == pbv2.Status_OK && rq.conn2 != nil && !relayClosed { // (nothing closes the new connection before the epilogue)
					if _, has := obs[0].Rsvp[lbl(rq.step.C)]; !has {
						x.Fail("reservation-lost-while-connected", "%s reserved over a new connection (answered OK) that stays open, nothing expired, and the relay holds no reservation for it: rsvp{%s} tags %s (%v)",
							lbl(rq.step.C), c11SortedMap(obs[0].Rsvp), obs[0].Tags[lbl(rq.step.C)], out)
					}
				}
			}
			tagRule("after the race", obs[0])
			if relayClosed {
				if len(obs[0].Rsvp) > 0 {
					x.Fail("reservation-after-relay-close", "Relay.Close returned and reservations remain: %s", c11SortedMap(obs[0].Rsvp))
				}
			}
			// (2) no circuit left
			tagRule("after every circuit ended", obs[1])
			if len(obs[1].Conns) > 0 {
				x.Fail("circuit-counter-not-restored", "every circuit has ended, counters remain: conns{%s}", c11SortedMap(obs[1].Conns))
			}
			if obs[1].SvcMem != baseMem {
				x.Fail("memory-not-restored", "every circuit has ended; relay service scope holds %d bytes, %d before the requests", obs[1].SvcMem, baseMem)
			}
			if obs[1].SvcIn != 0 || obs[1].SvcOut != 0 {
				x.Fail("streams-not-restored", "every circuit has ended; relay service scope still counts streams in=%d out=%d", obs[1].SvcIn, obs[1].SvcOut)
			}
			// (3) everybody disconnected
			tagRule("after everybody disconnected", obs[2])
			late := 0
			for c := range cfg.Clients {
				if _, has := obs[2].Rsvp[lbl(c)]; !has {
					continue
				}
				if disc[c] {
					late++ // granted after its Disconnected was processed: lives until it expires (see the header)
					continue
				}
				x.Fail("reservation-survives-disconnect", "%s disconnected after its reservation was granted, the reservation is still there: rsvp{%s}", lbl(c), c11SortedMap(obs[2].Rsvp))
			}
			if late > 0 {
				out = append(out, fmt.Sprintf("granted-after-disconnect=%d", late))
			}
			// (4) expired and collected
			tagRule("after expiry and collection", obs[3])
			if len(obs[3].Rsvp) > 0 {
				x.Fail("reservation-survives-expiry", "ReservationTTL + one collection period have passed, reservations remain: rsvp{%s}", c11SortedMap(obs[3].Rsvp))
			}
			for c := range cfg.Clients {
				if t := obs[3].Tags[lbl(c)]; t != "-" && t != "[]" {
					x.Fail("tag-survives-everything", "every circuit ended, everybody disconnected, every reservation expired; %s still has tags %s", lbl(c), t)
				}
			}
		}
		sort.Strings(out)
		x.Outcome = strings.Join(out, " ")
		s.Go("teardown", func() { sy.shutdown() })
		s.Drain()
	}
}

func c11sScenarios(thorough bool) []c11sScn {
	res := func(c int) c11sStep { return c11sStep{K: "reserve", C: c} }
	con := func(c, d int) c11sStep { return c11sStep{K: "connect", C: c, D: d} }
	dis := func(c int) c11sStep { return c11sStep{K: "disconnect", C: c} }
	end := func(i int) c11sStep { return c11sStep{K: "endcircuit", D: i} }
	scs := []c11sScn{
		{Name: "two CONNECTs to one destination, MaxCircuits 1", MaxRes: 3, MaxCircuits: 1, PerIP: 1,
			Pre: []c11sStep{res(2)}, Race: []c11sStep{con(0, 2), con(1, 2)}},
		{Name: "two RESERVEs, MaxReservations 1", MaxRes: 1, MaxCircuits: 1, PerIP: 1,
			Race: []c11sStep{res(0), res(1)}},
		{Name: "RESERVE racing the peer's disconnect", MaxRes: 3, MaxCircuits: 1, PerIP: 1,
			Race: []c11sStep{res(0), dis(0)}},
		{Name: "RESERVE racing Relay.Close", MaxRes: 3, MaxCircuits: 1, PerIP: 1,
			Race: []c11sStep{res(0), {K: "closerelay"}}},
		{Name: "the peer's old connection closes while it reserves over a new one", MaxRes: 3, MaxCircuits: 1, PerIP: 1,
			Pre: []c11sStep{res(0)}, Race: []c11sStep{{K: "disconnect-first", C: 0}, {K: "reserve-newconn", C: 0}}},
		{Name: "CONNECT racing the destination's disconnect", MaxRes: 3, MaxCircuits: 1, PerIP: 1,
			Pre: []c11sStep{res(2)}, Race: []c11sStep{con(0, 2), dis(2)}},
		{Name: "CONNECT racing the source's disconnect", MaxRes: 3, MaxCircuits: 1, PerIP: 1,
			Pre: []c11sStep{res(2)}, Race: []c11sStep{con(0, 2), dis(0)}},
		{Name: "CONNECT racing the end of the destination's only circuit, MaxCircuits 1", MaxRes: 3, MaxCircuits: 1, PerIP: 1,
			Pre: []c11sStep{res(2), con(0, 2)}, Race: []c11sStep{con(1, 2), end(0)}},
	}
	if thorough {
		scs = append(scs,
			c11sScn{Name: "two RESERVEs from one IP, per-IP cap 1", MaxRes: 3, MaxCircuits: 1, PerIP: 1, SameIP: true,
				Race: []c11sStep{res(0), res(1)}},
			c11sScn{Name: "two CONNECTs from one source to two destinations, MaxCircuits 1", MaxRes: 3, MaxCircuits: 1, PerIP: 1,
				Pre: []c11sStep{res(1), res(2)}, Race: []c11sStep{con(0, 1), con(0, 2)}},
			c11sScn{Name: "CONNECT racing Relay.Close", MaxRes: 3, MaxCircuits: 1, PerIP: 1,
				Pre: []c11sStep{res(2)}, Race: []c11sStep{con(0, 2), {K: "closerelay"}}},
			c11sScn{Name: "refresh RESERVE racing the peer's disconnect", MaxRes: 3, MaxCircuits: 1, PerIP: 1,
				Pre: []c11sStep{res(0)}, Race: []c11sStep{res(0), dis(0)}},
			c11sScn{Name: "limited relay: two CONNECTs to one destination, MaxCircuits 2, third refused", MaxRes: 3, MaxCircuits: 2, PerIP: 1, Limited: true,
				Pre: []c11sStep{res(2), con(0, 2)}, Race: []c11sStep{con(1, 2), con(0, 2)}},
		)
	}
	return scs
}

func c11sScenario(sc c11sScn) *vs.Scenario {
	return &vs.Scenario{Name: sc.Name, Body: c11sBody(sc), LeakIsViolation: false,
		Opt: vs.Options{Horizon: 30 * time.Minute, IdleStep: 997 * time.Millisecond, MaxSteps: 60000}}
}

func TestVerifC11Sched(t *testing.T) {
	scs := c11sScenarios(vrep.Thorough())
	if p := vrep.ReplayPath(); p != "" {
		rp, err := vs.LoadReplay(p)
		if err != nil || rp.Scenario == "" {
			t.Skip("not a scheduler replay")
		}
		for _, sc := range c11sScenarios(true) {
			if sc.Name == rp.Scenario {
				x := vs.Replay(t, c11sScenario(sc), rp.Choices)
				fmt.Fprintf(os.Stdout, "REPLAY %s choices=%v\n%s\nverdict: key=%q %s\npanic=%s outcome=%s\n", sc.Name, rp.Choices, strings.Join(x.S.Log, "\n"), x.VioKey, x.VioDesc, x.Panic, x.Outcome)
				return
			}
		}
		return
	}
	if vs.FreeMode() {
		// free-running pass for the race detector (validates the data-race-freedom assumption of the scheduler)
		r := vrep.New("C11", "race-pass")
		dl := vrep.Deadline()
		n := 0
		for time.Now().Before(dl) {
			for _, sc := range scs {
				runs, _ := vs.FreeRun(t, c11sScenario(sc), 3, dl)
				n += runs
			}
		}
		r.Executions = int64(n)
		r.Note("free-running executions: %d", n)
		r.Flush()
		return
	}
	si, sn := vrep.Shard()
	bound := 3
	if vrep.Thorough() {
		bound = 4
	}
	r := vrep.New("C11", "relay-schedules")
	r.Bounds["deviation_bound"] = bound
	r.Bounds["scenarios"] = len(scs)
	for i, sc := range scs {
		left := time.Until(vrep.Deadline())
		share := left / time.Duration(len(scs)-i)
		b := bound
		if sc.Bound > 0 {
			b = sc.Bound
		}
		vs.Explore(t, c11sScenario(sc), vs.Config{MaxBound: b, Deadline: time.Now().Add(share), ShardI: si, ShardN: sn, Property: "C11"}, r)
	}
	r.Flush()
}
