//go:build verif

package eventbus

// C15, two subscriptions of one owner. "Closing subscriptions and emitters concurrently with emits never deadlocks":
// the single-subscription templates cannot see a Close that waits behind an emit which is itself waiting for a
// SIBLING subscription of the same owner. Scenario: the owner subscribes twice to one event type (typed + typed,
// typed + wildcard, or two types sharing one), reads nothing (or one event) and shuts down the natural way - one
// Close after the other; an emitter emits meanwhile and closes. Oracle: every thread finishes (no deadlock, no
// panic, nothing delivered after a Close returned).

import (
	"fmt"

	"github.com/libp2p/go-libp2p/core/event"
	vs "github.com/libp2p/go-libp2p/x/verif/vsched"
)

type c15TwoTmpl struct {
	Name            string
	Buf             int
	SecondWC        bool // the second subscription is a wildcard subscription
	BothWC          bool // both are wildcard subscriptions
	Emits           int
	ReadFirst       int  // events the owner reads from the FIRST subscription before it starts closing
	CloseFirstFirst bool // close the first subscription first (else the second first: the order of deferred Closes)
}

func c15TwoBody(tp c15TwoTmpl) func(x *vs.Exec) {
	return func(x *vs.Exec) {
		s := x.S
		bus := NewBus()
		em, err := bus.Emitter(new(c15EvA))
		if err != nil {
			panic(err)
		}
		subscribed := make(chan struct{})
		var lateDelivery string
		s.Go("owner", func() {
			mk := func(wc bool) event.Subscription {
				var sub event.Subscription
				var err error
				if wc {
					sub, err = bus.Subscribe(event.WildcardSubscription, BufSize(tp.Buf))
				} else {
					sub, err = bus.Subscribe(new(c15EvA), BufSize(tp.Buf))
				}
				if err != nil {
					panic(err)
				}
				return sub
			}
			s1 := mk(tp.BothWC)
			s2 := mk(tp.BothWC || tp.SecondWC)
			vs.Close(subscribed)
			for i := 0; i < tp.ReadFirst; i++ {
				if _, ok := vs.Recv2(-9, s1.Out()); !ok {
					break
				}
			}
			first, second := s2, s1
			if tp.CloseFirstFirst {
				first, second = s1, s2
			}
			first.Close()
			if v, ok, got := vs.TryRecv(first.Out()); got && ok {
				lateDelivery = fmt.Sprintf("%v readable from a subscription after its Close returned", v)
			}
			second.Close()
		})
		s.Go("emitter", func() {
			vs.Recv(-9, subscribed)
			for n := 1; n <= tp.Emits; n++ {
				em.Emit(c15EvA{0, n})
			}
			em.Close()
		})
		ok := s.Run()
		if !ok && s.Deadlock != "" {
			x.Fail("deadlock", "one owner closes its two subscriptions one after the other while an emitter emits: threads blocked forever: %s", s.Deadlock)
		}
		if ok && lateDelivery != "" && !s.Free {
			x.Fail("delivered-to-closed-subscription", "%s", lateDelivery)
		}
		x.Outcome = fmt.Sprintf("finished=%v", ok)
		s.Drain()
	}
}

func c15TwoTemplates(thorough bool) []c15TwoTmpl {
	out := []c15TwoTmpl{
		{Name: "two typed subscriptions of one owner buf=0, closes second then first, emit1", Buf: 0, Emits: 1},
		{Name: "typed + wildcard subscription of one owner buf=1, closes second then first, emit2", Buf: 1, SecondWC: true, Emits: 2},
	}
	if thorough {
		out = append(out,
			c15TwoTmpl{Name: "two typed subscriptions of one owner buf=1, reads one, closes first then second, emit3", Buf: 1, Emits: 3, ReadFirst: 1, CloseFirstFirst: true},
			c15TwoTmpl{Name: "two wildcard subscriptions of one owner buf=0, closes second then first, emit1", Buf: 0, BothWC: true, Emits: 1},
		)
	}
	return out
}

// Three parties and the bus-wide lock. withNode / tryDropNode take the bus lock and then wait for a node lock, and a
// node lock is held for as long as an emit waits for a slow consumer. Scenario: a consumer reads one event of type A,
// then touches the bus (closes its subscription to an unrelated type B, asks for the event types, makes an emitter)
// before it reads on; meanwhile an emitter emits A and a newcomer subscribes to A and leaves again. Oracle as above:
// every thread finishes.
type c15BusTmpl struct {
	Name  string
	Op    string // what the consumer does between two reads: "close-other", "event-types", "new-emitter"
	Emits int
}

func c15BusBody(tp c15BusTmpl) func(x *vs.Exec) {
	return func(x *vs.Exec) {
		s := x.S
		bus := NewBus()
		em, err := bus.Emitter(new(c15EvA))
		if err != nil {
			panic(err)
		}
		subscribed := make(chan struct{})
		s.Go("consumer", func() {
			sa, err := bus.Subscribe(new(c15EvA), BufSize(0))
			if err != nil {
				panic(err)
			}
			sb, err := bus.Subscribe(new(c15EvB), BufSize(0))
			if err != nil {
				panic(err)
			}
			vs.Close(subscribed)
			vs.Recv2(-9, sa.Out())
			switch tp.Op {
			case "close-other":
				sb.Close()
			case "event-types":
				bus.GetAllEventTypes()
			case "new-emitter":
				e2, err := bus.Emitter(new(c15EvB))
				if err != nil {
					panic(err)
				}
				e2.Close()
			}
			for i := 1; i < tp.Emits; i++ {
				vs.Recv2(-9, sa.Out())
			}
			sa.Close()
			sb.Close()
		})
		s.Go("emitter", func() {
			vs.Recv(-9, subscribed)
			for n := 1; n <= tp.Emits; n++ {
				em.Emit(c15EvA{0, n})
			}
			em.Close()
		})
		s.Go("newcomer", func() {
			vs.Recv(-9, subscribed)
			sub, err := bus.Subscribe(new(c15EvA), BufSize(4))
			if err != nil {
				panic(err)
			}
			sub.Close()
		})
		ok := s.Run()
		if !ok && s.Deadlock != "" {
			x.Fail("deadlock", "a consumer touches the bus (%s) between two reads while an emitter emits and a newcomer subscribes: threads blocked forever: %s", tp.Op, s.Deadlock)
		}
		x.Outcome = fmt.Sprintf("finished=%v", ok)
		s.Drain()
	}
}

// c15Extra: the scenarios of this file under one roof (name + body).
type c15Extra struct {
	Name string
	Body func(x *vs.Exec)
}

func c15ExtraScenarios(thorough bool) []c15Extra {
	var out []c15Extra
	for _, tp := range c15TwoTemplates(thorough) {
		out = append(out, c15Extra{tp.Name, c15TwoBody(tp)})
	}
	bus := []c15BusTmpl{{Name: "consumer closes its subscription to another type between two reads, newcomer subscribes, emit2", Op: "close-other", Emits: 2}}
	if thorough {
		bus = append(bus,
			c15BusTmpl{Name: "consumer lists the event types between two reads, newcomer subscribes, emit2", Op: "event-types", Emits: 2},
			c15BusTmpl{Name: "consumer makes an emitter between two reads, newcomer subscribes, emit2", Op: "new-emitter", Emits: 2})
	}
	for _, tp := range bus {
		out = append(out, c15Extra{tp.Name, c15BusBody(tp)})
	}
	return out
}
