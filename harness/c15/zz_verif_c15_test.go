//go:build verif

package eventbus

// C15: event bus. Engine E2: the package is instrumented, every lock / atomic / channel operation / select /
// go statement is a scheduling point; all schedules within a deviation bound are explored for each template.
//
// The subscriber thread is also the closer (DESIGN.md section 5, C15): it subscribes, reads n events, calls
// Close, then reads whatever is still readable. All statements of the oracle are phrased over exact logical
// time stamps (vsched.Stamp), which is sound because exactly one thread runs at a time.

import (
	"fmt"
	"os"
	"sort"
	"strings"
	"testing"
	"time"

	"github.com/libp2p/go-libp2p/core/event"
	vs "github.com/libp2p/go-libp2p/x/verif/vsched"
	"github.com/libp2p/go-libp2p/x/verif/vrep"
)

type c15EvA struct{ E, N int }
type c15EvB struct{ E, N int }

type c15Tmpl struct {
	Name       string
	Buf        int
	Wildcard   bool
	Stateful   bool
	Multi      bool // emitter 0 emits c15EvA, emitter 1 emits c15EvB, one subscription for both
	Emitters   int
	PerEmitter int
	ReadFirst  int  // events read before Close; -1 = read until all emitters are done and nothing is ready
	EmitAfter  bool // emitters wait until Subscribe returned
	PreEmit    int  // stateful: events emitted (by emitter 0) before anything else starts
	Slow       bool // the subscriber sleeps 1.5 s (virtual) before reading: slow-consumer path
	EmCloseRace bool // emitter 0 is closed by a third thread while the subscriber subscribes; a fresh emitter then emits
	// PlainSecond: with Stateful, only emitter 0 asks for Stateful; the others are plain emitters of the same type (a type
	// is stateful as soon as one of its emitters said so)
	PlainSecond bool
	// OtherWildcard: another wildcard subscription exists from the start and is closed by its own thread during the race
	OtherWildcard bool
}

type c15Emit struct {
	e, n       int
	start, end int64
	err        string
}

type c15Read struct {
	e, n int
	at   int64
}

type c15Run struct {
	subDone, closeStart, closeEnd int64
	emits                         []c15Emit
	reads                         []c15Read
	subErr                        string
}

func c15Val(v any) (int, int, bool) {
	switch x := v.(type) {
	case c15EvA:
		return x.E, x.N, true
	case c15EvB:
		return x.E, x.N, true
	}
	return 0, 0, false
}

func c15Body(tp c15Tmpl) func(x *vs.Exec) {
	return func(x *vs.Exec) {
		s := x.S
		run := &c15Run{}
		bus := NewBus()
		var ems []event.Emitter
		mkEmitter := func(i int) event.Emitter {
			var opts []event.EmitterOpt
			if tp.Stateful && !(tp.PlainSecond && i > 0) {
				opts = append(opts, Stateful)
			}
			var em event.Emitter
			var err error
			if tp.Multi && i == 1 {
				em, err = bus.Emitter(new(c15EvB), opts...)
			} else {
				em, err = bus.Emitter(new(c15EvA), opts...)
			}
			if err != nil {
				panic(err)
			}
			return em
		}
		for i := 0; i < tp.Emitters; i++ {
			ems = append(ems, mkEmitter(i))
		}
		emitLogs := make([][]c15Emit, tp.Emitters+1)
		emit := func(em event.Emitter, i, n int) {
			rec := c15Emit{e: i, n: n, start: vs.Stamp()}
			var err error
			if tp.Multi && i == 1 {
				err = em.Emit(c15EvB{i, n})
			} else {
				err = em.Emit(c15EvA{i, n})
			}
			rec.end = vs.Stamp()
			if err != nil {
				rec.err = err.Error()
			}
			emitLogs[i] = append(emitLogs[i], rec)
		}
		subscribed := make(chan struct{})
		emittersDone := make(chan struct{})
		remaining := tp.Emitters
		if tp.EmCloseRace {
			remaining = 1
		}
		var sub event.Subscription
		var other event.Subscription
		if tp.OtherWildcard {
			var err error
			if other, err = bus.Subscribe(event.WildcardSubscription); err != nil {
				panic(err)
			}
		}

		// phase 0 (stateful): earlier events, emitted under the scheduler but before the race starts
		if tp.PreEmit > 0 {
			s.Go("pre-emit", func() {
				for n := 1; n <= tp.PreEmit; n++ {
					emit(ems[0], 0, n)
				}
			})
			if !s.Run() && !s.Free {
				x.Fail("deadlock", "pre-emit phase did not finish: %s", s.Deadlock)
				return
			}
		}

		s.Go("subscriber", func() {
			var what any = new(c15EvA)
			if tp.Wildcard {
				what = event.WildcardSubscription
			} else if tp.Multi {
				what = []any{new(c15EvA), new(c15EvB)}
			}
			var err error
			sub, err = bus.Subscribe(what, BufSize(tp.Buf))
			if err != nil {
				run.subErr = err.Error()
				close(subscribed)
				return
			}
			run.subDone = vs.Stamp()
			vs.Close(subscribed)
			if tp.Slow {
				vs.Sleep(1500 * time.Millisecond)
			}
			out := sub.Out()
			for i := 0; tp.ReadFirst < 0 || i < tp.ReadFirst; i++ {
				var v any
				var ok, stopped bool
				if i == 0 && tp.Stateful && tp.PreEmit > 0 {
					// the retained event is delivered asynchronously but it IS delivered: block for it
					v, ok = vs.Recv2(-9, out)
				} else {
					v, ok, stopped = vs.RecvOr(out, emittersDone)
				}
				if stopped || !ok {
					break
				}
				e, n, _ := c15Val(v)
				run.reads = append(run.reads, c15Read{e, n, vs.Stamp()})
			}
			run.closeStart = vs.Stamp()
			sub.Close()
			run.closeEnd = vs.Stamp()
			// whatever is still readable after Close returned
			for {
				v, ok, got := vs.TryRecv(out)
				if !got || !ok {
					break
				}
				e, n, _ := c15Val(v)
				run.reads = append(run.reads, c15Read{e, n, vs.Stamp()})
			}
		})
		if other != nil {
			s.Go("other-wildcard-closes", func() {
				other.Close()
			})
		}
		if tp.EmCloseRace {
			s.Go("emitter-closer", func() {
				ems[0].Close()
			})
			s.Go("late-emitter", func() {
				vs.Recv(-9, subscribed)
				em := mkEmitter(0)
				ems = append(ems, em)
				for n := 1; n <= tp.PerEmitter; n++ {
					emit(em, tp.Emitters, n)
				}
				vs.Close(emittersDone)
			})
		} else {
			for i := 0; i < tp.Emitters; i++ {
				s.Go(fmt.Sprintf("emitter%d", i), func() {
					if tp.EmitAfter {
						vs.Recv(-9, subscribed)
					}
					for n := 1; n <= tp.PerEmitter; n++ {
						emit(ems[i], i, tp.PreEmit+n)
					}
					last := false
					vs.Locked(func() { remaining--; last = remaining == 0 })
					if last {
						vs.Close(emittersDone)
					}
				})
			}
		}
		ok := s.Run()
		for _, l := range emitLogs {
			run.emits = append(run.emits, l...)
		}
		if !ok {
			switch {
			case s.Deadlock != "":
				x.Fail("deadlock", "threads blocked forever: %s", s.Deadlock)
			case s.InvErr != nil, s.Horizon:
			}
		}
		if run.subErr != "" {
			x.Fail("subscribe-error", "%s", run.subErr)
		}
		if ok {
			c15Oracle(x, tp, run)
		}
		// tear down under the scheduler
		s.Go("teardown", func() {
			for i, em := range ems {
				if tp.EmCloseRace && i == 0 {
					continue
				}
				em.Close()
			}
		})
		s.Drain()
		x.Outcome = c15Outcome(run)
	}
}

func c15Outcome(r *c15Run) string {
	var sb strings.Builder
	for _, rd := range r.reads {
		after := ""
		if rd.at > r.closeEnd {
			after = "'"
		}
		fmt.Fprintf(&sb, "%d.%d%s ", rd.e, rd.n, after)
	}
	ret := 0
	for _, e := range r.emits {
		if e.end < r.closeStart {
			ret++
		}
	}
	return fmt.Sprintf("read[%s] emitsReturnedBeforeClose=%d", strings.TrimSpace(sb.String()), ret)
}

func c15Oracle(x *vs.Exec, tp c15Tmpl, r *c15Run) {
	type key struct{ e, n int }
	got := map[key]int64{}
	lastN := map[int]int{}
	for _, rd := range r.reads {
		k := key{rd.e, rd.n}
		if _, dup := got[k]; dup {
			x.Fail("delivered-twice", "event %d.%d was received twice (reads %v)", rd.e, rd.n, r.reads)
			return
		}
		got[k] = rd.at
		if rd.n <= lastN[rd.e] {
			x.Fail("out-of-order", "event %d.%d received after %d.%d (reads %v)", rd.e, rd.n, rd.e, lastN[rd.e], r.reads)
			return
		}
		lastN[rd.e] = rd.n
	}
	emitOf := map[key]c15Emit{}
	for _, e := range r.emits {
		emitOf[key{e.e, e.n}] = e
		if e.err != "" {
			x.Fail("emit-error", "Emit %d.%d returned %s", e.e, e.n, e.err)
			return
		}
	}
	for i, rd := range r.reads {
		e, ok := emitOf[key{rd.e, rd.n}]
		if !ok {
			x.Fail("phantom-event", "received %d.%d which nobody emitted", rd.e, rd.n)
			return
		}
		// every received event comes from an Emit that started before Close returned
		if r.closeEnd > 0 && e.start > r.closeEnd {
			x.Fail("delivered-to-closed-subscription", "event %d.%d (Emit started at %d) received although Close returned at %d", rd.e, rd.n, e.start, r.closeEnd)
			return
		}
		// an event of an Emit that had returned before Subscribe was called can only arrive as the retained
		// last event of a stateful type, and only as the first event
		if e.end < r.subDone && e.start < r.subDone {
			if !tp.Stateful {
				// Emit wholly before Subscribe returned: may legitimately have been delivered if it overlapped
				// with Subscribe; only "ended before Subscribe started" would be wrong, which needs the start stamp
				// of Subscribe - not recorded separately; PreEmit templates cover it for the stateful case.
				continue
			}
			if i != 0 {
				x.Fail("stale-event-not-first", "retained event %d.%d delivered at position %d", rd.e, rd.n, i)
				return
			}
		}
	}
	// no gap: if event j of an emitter was received, every earlier event i of that emitter whose Emit started
	// after Subscribe returned was received too
	for k, at := range got {
		if at > r.closeStart {
			// after Close started its drain goroutine legitimately competes with the reader for buffered events
			continue
		}
		for n := 1; n < k.n; n++ {
			e, ok := emitOf[key{k.e, n}]
			if !ok {
				continue
			}
			if e.start > r.subDone {
				if _, ok := got[key{k.e, n}]; !ok {
					x.Fail("event-lost", "event %d.%d was received but the earlier %d.%d (emitted after Subscribe returned) was not: reads %v", k.e, k.n, k.e, n, r.reads)
					return
				}
			}
		}
	}
	// subscriber that reads everything before closing: every Emit that started after Subscribe returned and
	// returned before Close started was received
	if tp.ReadFirst < 0 {
		for _, e := range r.emits {
			if e.start > r.subDone && e.end < r.closeStart {
				if _, ok := got[key{e.e, e.n}]; !ok {
					x.Fail("event-lost", "event %d.%d emitted after Subscribe returned and before Close started was never received: reads %v", e.e, e.n, r.reads)
					return
				}
			}
		}
	}
	// an unbuffered Emit cannot return before its event was taken; before Close starts only the reader takes
	if tp.Buf == 0 {
		for _, e := range r.emits {
			if e.start > r.subDone && e.end < r.closeStart {
				if _, ok := got[key{e.e, e.n}]; !ok {
					x.Fail("event-dropped", "Emit %d.%d returned (at %d) before Close started (%d) on an unbuffered subscription but the event was never received", e.e, e.n, e.end, r.closeStart)
					return
				}
			}
		}
	}
	// Emit blocks rather than drops: before Close starts, the number of Emits (to this subscription) that have
	// returned never exceeds the number of completed reads plus the buffer size. The typed bus holds this
	// exactly; the wildcard node is subject to the same statement.
	var rets []int64
	for _, e := range r.emits {
		if e.start > r.subDone && e.end < r.closeStart {
			rets = append(rets, e.end)
		}
	}
	sort.Slice(rets, func(i, j int) bool { return rets[i] < rets[j] })
	for i, t := range rets {
		reads := 0
		for _, rd := range r.reads {
			// a read is "complete" for this purpose once the value left the channel; the stamp is taken right
			// after, in the same uninterrupted run of the reader, so at < t is exact
			if rd.at < t {
				reads++
			}
		}
		// the reader takes the value in the step before it stamps it: allow the one read in flight
		inflight := 1
		if i+1 > reads+tp.Buf+inflight {
			x.Fail("emit-did-not-block", "%d Emits had returned at time %d but only %d events had been read (buffer %d)", i+1, t, reads, tp.Buf)
			return
		}
	}
	// stateful: the first event a late subscriber receives is the most recent earlier one
	if tp.Stateful && tp.PreEmit > 0 {
		if len(r.reads) == 0 {
			if tp.ReadFirst != 0 {
				x.Fail("retained-event-missing", "stateful subscription received nothing although %d events had been emitted before Subscribe", tp.PreEmit)
			}
			return
		}
		first := r.reads[0]
		// the retained event is sent under the node lock taken by Subscribe, so nothing emitted later can overtake it:
		// the first event comes from an Emit that had at least started when Subscribe returned
		if e, ok := emitOf[key{first.e, first.n}]; ok && e.start > r.subDone {
			x.Fail("retained-event-missing", "the first event received, %d.%d, was emitted after Subscribe had returned although %d events had been emitted before: the most recent earlier event was not delivered first (reads %v)", first.e, first.n, tp.PreEmit, r.reads)
			return
		}
		// candidates: latest Emit that returned before Subscribe returned ... latest Emit that started before it
		lo, hi := 0, 0
		for _, e := range r.emits {
			if e.e != first.e {
				continue
			}
			if e.end < r.subDone && e.n > lo {
				lo = e.n
			}
			if e.start < r.subDone && e.n > hi {
				hi = e.n
			}
		}
		_ = hi
		if first.n < lo {
			x.Fail("retained-event-stale", "first event is %d.%d but %d.%d had been emitted before Subscribe returned", first.e, first.n, first.e, lo)
			return
		}
		// contiguous afterwards (no gap from the retained event on)
		// (binds only reads made before Close started: from then on Close's own drain goroutine takes events too)
		for i := 1; i < len(r.reads); i++ {
			if r.closeStart != 0 && r.reads[i].at > r.closeStart {
				break
			}
			if r.reads[i].e == first.e && r.reads[i].n != r.reads[i-1].n+1 && r.reads[i-1].e == first.e {
				x.Fail("event-lost", "gap after retained event: reads %v", r.reads)
				return
			}
		}
	}
}

func c15Templates(thorough bool) []c15Tmpl {
	var out []c15Tmpl
	for _, buf := range []int{0, 1} {
		out = append(out,
			c15Tmpl{Name: fmt.Sprintf("typed buf=%d emit2 read-all", buf), Buf: buf, Emitters: 1, PerEmitter: 2, ReadFirst: -1},
			c15Tmpl{Name: fmt.Sprintf("typed buf=%d emit2 read1-then-close", buf), Buf: buf, Emitters: 1, PerEmitter: 2, ReadFirst: 1},
			c15Tmpl{Name: fmt.Sprintf("typed buf=%d emit2 close-at-once", buf), Buf: buf, Emitters: 1, PerEmitter: 2, ReadFirst: 0},
			c15Tmpl{Name: fmt.Sprintf("typed buf=%d two-emitters read-all", buf), Buf: buf, Emitters: 2, PerEmitter: 1, ReadFirst: -1, EmitAfter: true},
			c15Tmpl{Name: fmt.Sprintf("multi-type buf=%d read1-then-close", buf), Buf: buf, Multi: true, Emitters: 2, PerEmitter: 1, ReadFirst: 1},
			c15Tmpl{Name: fmt.Sprintf("wildcard buf=%d emit2 read1-then-close", buf), Buf: buf, Wildcard: true, Emitters: 1, PerEmitter: 2, ReadFirst: 1, EmitAfter: true},
			c15Tmpl{Name: fmt.Sprintf("stateful buf=%d late-subscriber", buf), Buf: buf, Stateful: true, Emitters: 1, PerEmitter: 1, PreEmit: 2, ReadFirst: -1},
			c15Tmpl{Name: fmt.Sprintf("emitter-close-vs-subscribe buf=%d", buf), Buf: buf, Emitters: 1, PerEmitter: 1, ReadFirst: -1, EmCloseRace: true},
		)
	}
	out = append(out,
		c15Tmpl{Name: "stateful buf=1 late-subscriber, the type also has a plain emitter", Buf: 1, Stateful: true, PlainSecond: true, Emitters: 2, PerEmitter: 1, PreEmit: 2, ReadFirst: -1, EmitAfter: true},
		c15Tmpl{Name: "wildcard buf=1 subscribe while the only other wildcard subscription closes, emit2 read-all", Buf: 1, Wildcard: true, OtherWildcard: true, Emitters: 1, PerEmitter: 2, ReadFirst: -1, EmitAfter: true})
	out = append(out, c15Tmpl{Name: "typed buf=1 slow-consumer", Buf: 1, Emitters: 1, PerEmitter: 3, ReadFirst: -1, EmitAfter: true, Slow: true})
	if thorough {
		for _, buf := range []int{0, 1, 2} {
			out = append(out,
				c15Tmpl{Name: fmt.Sprintf("typed buf=%d emit3 read2-then-close", buf), Buf: buf, Emitters: 1, PerEmitter: 3, ReadFirst: 2},
				c15Tmpl{Name: fmt.Sprintf("typed buf=%d two-emitters x2 read2-then-close", buf), Buf: buf, Emitters: 2, PerEmitter: 2, ReadFirst: 2},
				c15Tmpl{Name: fmt.Sprintf("wildcard buf=%d two-emitters read-all", buf), Buf: buf, Wildcard: true, Emitters: 2, PerEmitter: 1, ReadFirst: -1},
				c15Tmpl{Name: fmt.Sprintf("stateful buf=%d late-subscriber read1", buf), Buf: buf, Stateful: true, Emitters: 1, PerEmitter: 2, PreEmit: 1, ReadFirst: 1},
			)
		}
	}
	return out
}

func TestVerifC15(t *testing.T) {
	tps := c15Templates(vrep.Thorough())
	if vs.FreeMode() {
		// free-running pass for the race detector (validates the data-race-freedom assumption of the scheduler)
		r := vrep.New("C15", "race-pass")
		dl := vrep.Deadline()
		n := 0
		for time.Now().Before(dl) {
			for _, sc := range tps {
				runs, _ := vs.FreeRun(t, &vs.Scenario{Name: sc.Name, Body: c15Body(sc), Opt: vs.Options{Horizon: 4 * time.Second, IdleStep: time.Second}}, 3, dl)
				n += runs
			}
		}
		r.Executions = int64(n)
		r.Note("free-running executions: %d", n)
		r.Flush()
		return
	}
	si, sn := vrep.Shard()
	bound := 3
	if vrep.Thorough() {
		bound = 4
	}
	if p := vrep.ReplayPath(); p != "" {
		c15Replay(t, p, tps)
		return
	}
	r := vrep.New("C15", "eventbus-schedules")
	r.Bounds["deviation_bound"] = bound
	r.Bounds["templates"] = len(tps)
	start := time.Now()
	total := time.Until(vrep.Deadline())
	for i, tp := range tps {
		// every template gets an equal share of what is left
		left := time.Until(vrep.Deadline())
		share := left / time.Duration(len(tps)-i)
		_ = total
		sc := &vs.Scenario{Name: tp.Name, Body: c15Body(tp), LeakIsViolation: true,
			Opt: vs.Options{Horizon: 4 * time.Second, IdleStep: time.Second, MaxSteps: 3000}}
		vs.Explore(t, sc, vs.Config{MaxBound: bound, Deadline: time.Now().Add(share), ShardI: si, ShardN: sn, Property: "C15"}, r)
	}
	_ = start
	// two subscriptions of one owner (zz_verif_c15_two_test.go)
	two := c15ExtraScenarios(vrep.Thorough())
	for i, tp := range two {
		left := time.Until(vrep.Deadline())
		share := left / time.Duration(len(two)-i)
		if share < 5*time.Second {
			share = 5 * time.Second
		}
		sc := &vs.Scenario{Name: tp.Name, Body: tp.Body, LeakIsViolation: true, LeakKey: "deadlock",
			Opt: vs.Options{Horizon: 4 * time.Second, IdleStep: time.Second, MaxSteps: 3000}}
		vs.Explore(t, sc, vs.Config{MaxBound: bound, Deadline: time.Now().Add(share), ShardI: si, ShardN: sn, Property: "C15"}, r)
	}
	r.Flush()
}

func c15Replay(t *testing.T, path string, tps []c15Tmpl) {
	rp, err := vs.LoadReplay(path)
	if err != nil {
		t.Fatal(err)
	}
	for _, tp := range c15Templates(true) {
		if tp.Name == rp.Scenario {
			sc := &vs.Scenario{Name: tp.Name, Body: c15Body(tp), LeakIsViolation: true,
				Opt: vs.Options{Horizon: 4 * time.Second, IdleStep: time.Second, MaxSteps: 3000}}
			x := vs.Replay(t, sc, rp.Choices)
			fmt.Fprintf(os.Stdout, "REPLAY %s choices=%v\n%s\nverdict: key=%q %s\npanic=%s outcome=%s\n", tp.Name, rp.Choices, strings.Join(x.S.Log, "\n"), x.VioKey, x.VioDesc, x.Panic, x.Outcome)
			return
		}
	}
	for _, tp := range c15ExtraScenarios(true) {
		if tp.Name == rp.Scenario {
			sc := &vs.Scenario{Name: tp.Name, Body: tp.Body, LeakIsViolation: true, LeakKey: "deadlock",
				Opt: vs.Options{Horizon: 4 * time.Second, IdleStep: time.Second, MaxSteps: 3000}}
			x := vs.Replay(t, sc, rp.Choices)
			fmt.Fprintf(os.Stdout, "REPLAY %s choices=%v\n%s\nverdict: key=%q %s\npanic=%s outcome=%s\n", tp.Name, rp.Choices, strings.Join(x.S.Log, "\n"), x.VioKey, x.VioDesc, x.Panic, x.Outcome)
			return
		}
	}
	t.Fatalf("scenario %q not found", rp.Scenario)
}
