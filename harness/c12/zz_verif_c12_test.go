//go:build verif

package swarm

// C12 (swarm part): limited (relayed) connections are never mistaken for direct ones. Engine E2 over the
// instrumented swarm package with the fake network of harness/swarmfix: stream opens / dials with every
// context option set race against a direct connection appearing or disappearing, waiter cancellation and the
// dial-peer timeout (virtual time). Addresses that only BECOME relay addresses when they are resolved are part of
// the space: the swarm runs its real resolver (ResolverFromMaDNS) over a scripted DNS backend (c12DNS), and the
// peerstore of some scenarios holds /dnsaddr and /dns4 names instead of literal addresses.

import (
	"context"
	"errors"
	"fmt"
	"net"
	"os"
	"strings"
	"testing"
	"time"

	"github.com/libp2p/go-libp2p/core/network"
	"github.com/libp2p/go-libp2p/core/peerstore"
	"github.com/libp2p/go-libp2p/core/transport"
	"github.com/libp2p/go-libp2p/x/verif/vrep"
	vs "github.com/libp2p/go-libp2p/x/verif/vsched"
	ma "github.com/multiformats/go-multiaddr"
	madns "github.com/multiformats/go-multiaddr-dns"
)

const c12TCP1 = "/ip4/1.2.3.4/tcp/4001"

// Names in the scripted DNS (c12DNS) and what they resolve to.
const (
	c12DNSRelayOnly = "/dnsaddr/relayonly.verif.example"    // TXT -> relay address of P
	c12DNSBoth      = "/dnsaddr/both.verif.example"         // TXT -> relay address of P, tcp address of P, an address of another peer
	c12DNSNested    = "/dnsaddr/nested.verif.example"       // TXT -> /dnsaddr/relayonly.verif.example (one more level)
	c12DNS4Direct   = "/dns4/direct.verif.example/tcp/4001" // A   -> 1.2.3.6
	c12TCPResolved  = "/ip4/1.2.3.6/tcp/4001"               // what c12DNS4Direct and the tcp record of c12DNSBoth resolve to
	c12RelayHopR    = "/ip4/5.6.7.10/tcp/4007"              // relay hop of the relay address that only appears through resolution
)

// c12RelayResolved is the relay address of P that exists only in DNS records (as dialled: without the /p2p/P suffix).
func c12RelayResolved() string {
	return c12RelayHopR + "/p2p/" + fxID("relay").ID.String() + "/p2p-circuit"
}

// c12DNS builds the swarm's REAL resolver (ResolverFromMaDNS over madns.Resolver) on a scripted DNS backend; nothing
// touches the network. The table does not depend on the scenario; scenarios without DNS names never consult it.
func c12DNS() network.MultiaddrDNSResolver {
	P := fxID("P").ID.String()
	mock := &madns.MockResolver{
		TXT: map[string][]string{
			"_dnsaddr.relayonly.verif.example": {"dnsaddr=" + c12RelayResolved() + "/p2p/" + P},
			"_dnsaddr.both.verif.example": {
				"dnsaddr=" + c12RelayResolved() + "/p2p/" + P,
				"dnsaddr=" + c12TCPResolved + "/p2p/" + P,
				"dnsaddr=/ip4/6.6.6.6/tcp/4001/p2p/" + fxID("mallory").ID.String(), // somebody else's record: dropped by the resolver
			},
			"_dnsaddr.nested.verif.example": {"dnsaddr=" + c12DNSRelayOnly + "/p2p/" + P},
		},
		IP: map[string][]net.IPAddr{"direct.verif.example": {{IP: net.ParseIP("1.2.3.6")}}},
	}
	r, err := madns.NewResolver(madns.WithDefaultResolver(mock))
	if err != nil {
		panic(err)
	}
	return ResolverFromMaDNS{Resolver: r}
}

type c12Op struct {
	Kind         string // "stream" (NewStream) or "dial" (DialPeer)
	AllowLimited bool
	ForceDirect  bool
	NoDial       bool
	Cancel       bool
}

type c12Scn struct {
	Name          string
	HaveLimited   bool     // a relayed connection exists at the start (Limited unless RelayNoLimits)
	HaveDirect    bool     // a direct connection exists at the start
	Addrs         []string // addresses known for the peer (scripts: every dial succeeds when completed)
	Complete      []string // addresses whose dial completes successfully (others hang)
	Fail          []string // addresses whose dial fails
	Ticks         []time.Duration
	Ops           []c12Op
	DirectAppears bool // an inbound direct connection is admitted at some point
	DirectCloses  bool // the (initial or appearing) direct connection is closed at some point
	// DirectDies: the INITIAL direct connection dies underneath the swarm (its transport connection is closed, as when the
	// remote goes away); in the window before the swarm has noticed, the connection is "closing": still in the
	// connection table, already closed. The thread that closed it asks for the peer's connectedness at once.
	DirectDies bool
	// StaleDirect: part of the HISTORY, next to the limited connection: an old direct connection to the peer that is already
	// closed at the transport level (the remote went away) but still registered in the swarm - the swarm's accept loop
	// for it has not run yet, so its removal is pending ("closing" in the property's quantifier). The removal is an
	// environment event of its own ("swarm-notices", late by default): the window in which the connection table holds a
	// dead direct connection is held open deterministically while the calls and the other events race in it.
	StaleDirect   bool
	LimitedCloses bool
	Limited2      bool  // a second limited connection is admitted at some point
	MustSucceed   []int // baseline (non-vacuity): these ops return a connection in every complete execution
	RelayNoLimits bool  // the relay imposes no limits: relayed connections are proxied but report Limited == false
}

type c12OpRun struct {
	spec                c12Op
	stream              network.Stream
	conn                network.Conn
	err                 error
	start, end          int64
	startT, endT        time.Time
	cancelT             time.Time
	cancelAt            int64
	ctxErr              error
	cancelIdle, endIdle time.Duration
}

// c12LingerConn is a transport connection whose death the swarm's accept loop learns of only when the harness lets it:
// Close / IsClosed behave as for every fxConn (the connection IS closed for everybody who asks), AcceptStream reports the
// error only once `noticed` is closed. Under the controlled scheduler that is nothing but the accept-loop goroutine not
// having been scheduled yet, made an explicit event so that the default schedule holds the window open.
type c12LingerConn struct {
	*fxConn
	noticed chan struct{}
}

func (c *c12LingerConn) AcceptStream() (network.MuxedStream, error) {
	st, err := c.fxConn.AcceptStream()
	if err != nil {
		fxSelect(fxRecvCase(c.noticed))
	}
	return st, err
}

var _ transport.CapableConn = (*c12LingerConn)(nil)
var _ network.ConnStat = (*c12LingerConn)(nil)

// c12Fx returns the fake transport connection underneath a swarm connection (nil if it is none of ours).
func c12Fx(tc transport.CapableConn) *fxConn {
	switch c := tc.(type) {
	case *fxConn:
		return c
	case *c12LingerConn:
		return c.fxConn
	}
	return nil
}

func c12Body(sc c12Scn) func(x *vs.Exec) {
	return func(x *vs.Exec) {
		s := x.S
		env := fxNewEnv(0, 0, WithMultiaddrResolver(c12DNS()))
		P := fxID("P")
		if sc.RelayNoLimits {
			env.Relay.limited = false
		}
		for _, a := range sc.Addrs {
			env.PS.AddAddr(P.ID, ma.StringCast(a), peerstore.PermanentAddrTTL)
		}
		var limited, direct *fxConn
		var stale *c12LingerConn
		// initial connections are admitted under the scheduler, before the race starts
		s.Go("setup", func() {
			if sc.HaveLimited {
				limited, _, _ = env.Inbound(env.Relay, P, "/ip4/5.6.7.8/tcp/4007/p2p/"+fxID("relay").ID.String()+"/p2p-circuit")
			}
			if sc.StaleDirect {
				// an earlier direct connection: admitted, then closed underneath the swarm; its removal stays pending
				stale = &c12LingerConn{fxConn: fxNewConn("tcp-in#stale", env.TCP, env.Local, P, ma.StringCast("/ip4/1.2.3.4/tcp/5000"), false), noticed: make(chan struct{})}
				if _, err := env.Swarm.addConn(stale, network.DirInbound); err != nil {
					x.Fail("baseline-dial-failed", "the old direct connection was not admitted: %v", err)
					return
				}
				stale.Close()
				if got := env.Swarm.Connectedness(P.ID); got == network.Connected && !sc.HaveDirect && !s.Free {
					x.Fail("connected-reported-with-only-a-closed-direct-connection", "the only direct connection to the peer has been closed (the swarm has not removed it yet); Connectedness() = %v although the peer is reachable over limited connections at most", got)
				}
			}
			if sc.HaveDirect {
				direct, _, _ = env.Inbound(env.TCP, P, "/ip4/1.2.3.4/tcp/5001")
			}
		})
		if !s.Run() && !s.Free {
			x.Fail("deadlock", "setup did not finish: %s", s.Deadlock)
			return
		}
		runs := make([]*c12OpRun, len(sc.Ops))
		for i, op := range sc.Ops {
			r := &c12OpRun{spec: op}
			runs[i] = r
			ctx, cancel := context.WithCancel(context.Background())
			if op.AllowLimited {
				ctx = network.WithAllowLimitedConn(ctx, "verif")
			}
			if op.ForceDirect {
				ctx = network.WithForceDirectDial(ctx, "verif")
			}
			if op.NoDial {
				ctx = network.WithNoDial(ctx, "verif")
			}
			s.Go(fmt.Sprintf("%s%d", op.Kind, i), func() {
				r.start, r.startT = vs.Stamp(), time.Now()
				if op.Kind == "conn-stream" {
					// a stream opened directly on the (limited) connection object
					var lc network.Conn
					for _, c := range env.Swarm.ConnsToPeer(P.ID) {
						if c.Stat().Limited {
							lc = c
						}
					}
					if lc == nil {
						r.err = errors.New("no limited conn")
					} else {
						st, err := lc.NewStream(ctx)
						r.err = err
						if err == nil {
							r.stream = st
							r.conn = st.Conn()
						}
					}
				} else if op.Kind == "stream" {
					st, err := env.Swarm.NewStream(ctx, P.ID)
					r.err = err
					if err == nil {
						r.stream = st
						r.conn = st.Conn()
					}
				} else {
					c, err := env.Swarm.DialPeer(ctx, P.ID)
					r.err = err
					if err == nil {
						r.conn = c
					}
				}
				r.ctxErr = ctx.Err()
				r.end, r.endT, r.endIdle = vs.Stamp(), time.Now(), vs.IdleTime()
			})
			if op.Cancel {
				s.GoPrio(fmt.Sprintf("cancel%d", i), 2, func() {
					vs.Yield()
					r.cancelAt, r.cancelT, r.cancelIdle = vs.Stamp(), time.Now(), vs.IdleTime()
					cancel()
				})
			} else {
				defer cancel()
			}
		}
		for _, a := range sc.Complete {
			addr := ma.StringCast(a)
			s.GoPrio("net:"+a[len(a)-10:], 1, func() { env.TransportFor(addr).Complete(addr, fxOK) })
		}
		for _, a := range sc.Fail {
			addr := ma.StringCast(a)
			s.GoPrio("netfail:"+a[len(a)-10:], 1, func() { env.TransportFor(addr).Complete(addr, fxFail) })
		}
		if sc.DirectAppears {
			s.GoPrio("direct-appears", 1, func() {
				vs.Yield()
				direct, _, _ = env.Inbound(env.TCP, P, "/ip4/1.2.3.4/tcp/5002")
			})
		}
		if sc.Limited2 {
			s.GoPrio("second-limited-appears", 1, func() {
				vs.Yield()
				env.Inbound(env.Relay, P, "/ip4/5.6.7.9/tcp/4007/p2p/"+fxID("relay").ID.String()+"/p2p-circuit")
			})
		}
		if sc.DirectCloses {
			s.GoPrio("direct-closes", 2, func() {
				vs.Yield()
				if direct != nil {
					direct.Close()
				}
			})
		}
		if sc.DirectDies && direct != nil && !sc.DirectAppears {
			dying := direct
			s.GoPrio("direct-dies", 2, func() {
				vs.Yield()
				dying.Close() // the transport connection: the swarm learns of it through its accept loop
				got := env.Swarm.Connectedness(P.ID)
				// no other unlimited connection exists or can appear in this scenario: every unlimited connection to the
				// peer is closed, so the peer is reachable over limited connections at most
				if got == network.Connected && !s.Free {
					x.Fail("connected-reported-with-only-a-closed-direct-connection", "the only direct connection to the peer has been closed (the swarm has not removed it yet); Connectedness() = %v although the peer is reachable over limited connections at most", got)
				}
			})
		}
		if sc.LimitedCloses {
			s.GoPrio("limited-closes", 2, func() {
				vs.Yield()
				if limited != nil {
					limited.Close()
				}
			})
		}
		if stale != nil {
			s.GoPrio("swarm-notices", 3, func() {
				vs.Yield()
				vs.Close(stale.noticed) // the accept loop of the old direct connection gets to run: the swarm removes it
			})
		}
		ok := s.Run()
		if !ok && s.Deadlock != "" {
			x.Fail("call-never-returns", "threads blocked forever: %s", s.Deadlock)
		}
		if ok {
			c12Oracle(x, sc, env, runs)
		}
		var sb strings.Builder
		for i, r := range runs {
			switch {
			case r.err == nil && r.conn != nil:
				fmt.Fprintf(&sb, "op%d=%s/limited=%v ", i, r.spec.Kind, r.conn.Stat().Limited)
			case errors.Is(r.err, network.ErrLimitedConn):
				fmt.Fprintf(&sb, "op%d=ErrLimitedConn ", i)
			case errors.Is(r.err, network.ErrNoConn):
				fmt.Fprintf(&sb, "op%d=ErrNoConn ", i)
			case r.ctxErr != nil:
				fmt.Fprintf(&sb, "op%d=ctx ", i)
			default:
				fmt.Fprintf(&sb, "op%d=err ", i)
			}
		}
		fmt.Fprintf(&sb, "connectedness=%v", env.Swarm.Connectedness(P.ID))
		x.Outcome = sb.String()
		s.Go("teardown", func() {
			for _, r := range runs {
				if r.stream != nil {
					r.stream.Reset()
				}
			}
			env.Close()
		})
		if !s.Drain() && s.Deadlock != "" {
			x.Fail("deadlock-in-close", "Swarm.Close did not finish: %s", s.Deadlock)
		}
	}
}

func c12Oracle(x *vs.Exec, sc c12Scn, env *fxEnv, runs []*c12OpRun) {
	P := fxID("P")
	for i, r := range runs {
		if r.err == nil {
			if r.conn == nil {
				x.Fail("nil-result-nil-error", "op %d returned neither a result nor an error", i)
				return
			}
			sc2 := r.conn.(*Conn)
			isLimited := r.conn.Stat().Limited
			if fc := c12Fx(sc2.conn); fc != nil && fc.limited != isLimited {
				x.Fail("limited-flag-lost", "op %d: transport connection limited=%v but the swarm connection reports limited=%v", i, fc.limited, isLimited)
				return
			}
			if (r.spec.Kind == "stream" || r.spec.Kind == "conn-stream") && isLimited && !r.spec.AllowLimited {
				x.Fail("stream-over-limited-conn-without-permission", "op %d: NewStream without allow-limited returned a stream over %v", i, r.conn)
				return
			}
			if r.spec.ForceDirect && sc2.conn.Transport().Proxy() {
				x.Fail("force-direct-got-relayed-conn", "op %d demanded a direct connection and got %v", i, r.conn)
				return
			}
			if r.conn.RemotePeer() != P.ID {
				x.Fail("connection-to-wrong-peer", "op %d", i)
				return
			}
		} else if r.spec.Kind == "stream" && !r.spec.Cancel && !r.spec.NoDial && sc.DirectAppears && !sc.DirectCloses && r.ctxErr == nil {
			// "waits for a direct connection and fails if none appears in time": one did appear and stayed
			x.Fail("waiter-failed-although-direct-conn-appeared", "op %d returned %q although a direct connection was admitted and stayed open", i, r.err)
			return
		} else if r.spec.Cancel && r.ctxErr != nil && r.cancelAt > r.start && r.cancelAt < r.end && r.endIdle != r.cancelIdle {
			x.Fail("cancelled-waiter-not-released-promptly", "op %d was cancelled at virtual time %v but returned at %v", i, r.cancelT.Sub(r.startT), r.endT.Sub(r.startT))
			return
		}
		if r.spec.NoDial {
			for _, d := range env.AllDials() {
				if d.Start > r.start && d.Start < r.end && len(runs) == 1 {
					x.Fail("no-dial-dialled", "op %d has the no-dial option but %s was dialled", i, d.Addr)
					return
				}
			}
		}
	}
	// baseline: the scenario is what it claims to be (e.g. the DNS name really resolves to a dialable address)
	for _, i := range sc.MustSucceed {
		if r := runs[i]; r.err != nil || r.conn == nil {
			x.Fail("baseline-dial-failed", "op %d (%+v) must succeed in this scenario but returned %v; dials: %s", i, r.spec, r.err, c12DialList(env))
			return
		}
	}
	onlyFD := len(runs) > 0
	for _, r := range runs {
		if !r.spec.ForceDirect {
			onlyFD = false
		}
	}
	for _, d := range env.AllDials() {
		if strings.Contains(d.Addr, "p2p-circuit") && (d.ForceDirect || onlyFD) {
			x.Fail("force-direct-dialled-relay", "relay address %s dialled for a request that demands a direct connection", d.Addr)
			return
		}
	}
	// connectedness: Limited exactly when there are open connections and all of them are limited
	haveDirect, haveLimited := false, false
	for _, c := range env.Swarm.ConnsToPeer(P.ID) {
		fc := c12Fx(c.(*Conn).conn)
		if fc == nil || fc.isClosed() {
			continue
		}
		if fc.limited {
			haveLimited = true
		} else {
			haveDirect = true
		}
	}
	want := network.NotConnected
	if haveDirect {
		want = network.Connected
	} else if haveLimited {
		want = network.Limited
	}
	if got := env.Swarm.Connectedness(P.ID); got != want {
		x.Fail("connectedness-wrong", "Connectedness=%v but open connections: direct=%v limited=%v", got, haveDirect, haveLimited)
		return
	}
	// no waiter left behind
	if n := len(env.Swarm.directConnNotifs.m); n != 0 {
		x.Fail("direct-conn-waiter-left-behind", "%d peers still have registered direct-connection waiters after every call returned", n)
		return
	}
}

func c12DialList(env *fxEnv) string {
	var sb strings.Builder
	for _, d := range env.AllDials() {
		fmt.Fprintf(&sb, "[%s force-direct=%v %s]", d.Addr, d.ForceDirect, d.Result)
	}
	return sb.String()
}

func c12Scenarios(thorough bool) []c12Scn {
	relay := "/ip4/5.6.7.8/tcp/4007/p2p/" + fxID("relay").ID.String() + "/p2p-circuit"
	relayR := c12RelayResolved()
	plain := c12Op{Kind: "stream"}
	fdDial := c12Op{Kind: "dial", ForceDirect: true}
	scs := []c12Scn{
		{Name: "waiter with limited conn, direct appears", HaveLimited: true, Ops: []c12Op{plain}, DirectAppears: true},
		{Name: "waiter with limited conn, direct appears and closes", HaveLimited: true, Ops: []c12Op{plain}, DirectAppears: true, DirectCloses: true},
		{Name: "limited + direct conn, the direct one dies underneath the swarm; allow-limited stream", HaveLimited: true, HaveDirect: true, DirectDies: true, Ops: []c12Op{{Kind: "stream", AllowLimited: true}}},
		{Name: "waiter with limited conn, a second limited conn appears, then a direct one", HaveLimited: true, Ops: []c12Op{plain}, Limited2: true, DirectAppears: true},
		// "closing" as part of the history: the connection table still holds an old direct connection that is already dead
		{Name: "waiter with limited conn and an old direct conn that is closed but not yet removed, a new direct conn appears", HaveLimited: true, StaleDirect: true, Ops: []c12Op{plain}, DirectAppears: true},
		{Name: "allow-limited and plain stream with limited conn and an old direct conn that is closed but not yet removed, a new direct conn appears", HaveLimited: true, StaleDirect: true, Ops: []c12Op{{Kind: "stream", AllowLimited: true}, plain}, DirectAppears: true},
		{Name: "stream opened on the limited connection object with and without permission", HaveLimited: true, Ops: []c12Op{{Kind: "conn-stream"}, {Kind: "conn-stream", AllowLimited: true}}},
		{Name: "waiter with limited conn, cancelled", HaveLimited: true, Ops: []c12Op{{Kind: "stream", Cancel: true}}},
		{Name: "waiter with limited conn, nothing happens (timeout)", HaveLimited: true, Ops: []c12Op{plain}},
		{Name: "allow-limited and plain stream with limited conn, direct appears", HaveLimited: true, Ops: []c12Op{{Kind: "stream", AllowLimited: true}, plain}, DirectAppears: true},
		{Name: "force-direct dial with limited conn and relay+tcp addresses", HaveLimited: true, Addrs: []string{relay, c12TCP1}, Complete: []string{relay, c12TCP1}, Ops: []c12Op{{Kind: "dial", ForceDirect: true}}},
		{Name: "force-direct dial with limited conn and only a relay address", HaveLimited: true, Addrs: []string{relay}, Complete: []string{relay}, Ops: []c12Op{{Kind: "dial", ForceDirect: true}}},
		{Name: "plain dial then force-direct dial join one worker: relay succeeds, the shared direct dial fails", Addrs: []string{relay, c12TCP1}, Complete: []string{relay}, Fail: []string{c12TCP1}, Ops: []c12Op{{Kind: "dial"}, {Kind: "dial", ForceDirect: true}}, Ticks: []time.Duration{501 * time.Millisecond}},
		{Name: "no-dial stream without any connection", Addrs: []string{c12TCP1}, Complete: []string{c12TCP1}, Ops: []c12Op{{Kind: "stream", NoDial: true}}},
		{Name: "plain stream, peer reachable only through relay", Addrs: []string{relay}, Complete: []string{relay}, Ops: []c12Op{plain}},
		// relayed is not the same as Limited: a relay without limits gives proxied connections with Limited == false
		{Name: "force-direct dial with a relayed conn that is not Limited (relay without limits) and only a relay address", HaveLimited: true, RelayNoLimits: true, Addrs: []string{relay}, Complete: []string{relay}, Ops: []c12Op{fdDial}},
		// addresses that are relay addresses only after resolution (the force-direct filter has to look at what is DIALLED)
		{Name: "force-direct dial with limited conn, peerstore holds only a dnsaddr name that resolves to a relay address", HaveLimited: true, Addrs: []string{c12DNSRelayOnly}, Complete: []string{relayR}, Ops: []c12Op{fdDial}},
		{Name: "plain dial, dnsaddr name resolves to a relay address only (baseline: the resolved relay address is dialled)", Addrs: []string{c12DNSRelayOnly}, Complete: []string{relayR}, Ops: []c12Op{{Kind: "dial"}}, MustSucceed: []int{0}},
		{Name: "force-direct dial with limited conn; dnsaddr name resolves to relay + tcp, dns4 name to tcp, nested dnsaddr name to a relay address, literal relay address", HaveLimited: true, Addrs: []string{c12DNSBoth, c12DNS4Direct, c12DNSNested, relay}, Complete: []string{relay, c12TCPResolved}, Ops: []c12Op{fdDial}, MustSucceed: []int{0}},
	}
	if thorough {
		scs = append(scs,
			c12Scn{Name: "two waiters, direct appears, one cancelled", HaveLimited: true, Ops: []c12Op{plain, {Kind: "stream", Cancel: true}}, DirectAppears: true},
			c12Scn{Name: "waiter with limited + direct conn, direct closing", HaveLimited: true, HaveDirect: true, Ops: []c12Op{plain}, DirectCloses: true},
			c12Scn{Name: "waiter with limited conn, limited closes", HaveLimited: true, Ops: []c12Op{plain}, LimitedCloses: true},
			c12Scn{Name: "two waiters with limited conn and an old direct conn that is closed but not yet removed, direct appears, one cancelled", HaveLimited: true, StaleDirect: true, Ops: []c12Op{plain, {Kind: "stream", Cancel: true}}, DirectAppears: true},
			c12Scn{Name: "waiter with limited conn and an old direct conn that is closed but not yet removed, a new direct conn appears and closes", HaveLimited: true, StaleDirect: true, Ops: []c12Op{plain}, DirectAppears: true, DirectCloses: true},
			c12Scn{Name: "waiter with limited conn and an old direct conn that is closed but not yet removed, a second limited conn appears, then a direct one", HaveLimited: true, StaleDirect: true, Ops: []c12Op{plain}, Limited2: true, DirectAppears: true},
			c12Scn{Name: "force-direct and plain dial, relay+tcp", Addrs: []string{relay, c12TCP1}, Complete: []string{relay, c12TCP1}, Ops: []c12Op{{Kind: "dial", ForceDirect: true}, {Kind: "dial"}}},
			c12Scn{Name: "plain dial then force-direct dial join one worker, dnsaddr name resolves to relay + tcp: relay succeeds, the shared direct dial fails", Addrs: []string{c12DNSBoth}, Complete: []string{relayR}, Fail: []string{c12TCPResolved}, Ops: []c12Op{{Kind: "dial"}, fdDial}, Ticks: []time.Duration{501 * time.Millisecond}},
			c12Scn{Name: "force-direct stream and plain stream without any connection, nested dnsaddr name (relay) and dns4 name (tcp)", Addrs: []string{c12DNSNested, c12DNS4Direct}, Complete: []string{relayR, c12TCPResolved}, Ops: []c12Op{{Kind: "stream", ForceDirect: true}, plain}},
		)
	}
	return scs
}

func c12Scenario(sc c12Scn) *vs.Scenario {
	if sc.Ticks == nil {
		// timers (relay dial delay 500 ms, ranking delays) can only fire while environment threads are still
		// pending if virtual time is allowed to pass as an explicit (deviation-costing) alternative
		sc.Ticks = []time.Duration{501 * time.Millisecond}
	}
	return &vs.Scenario{Name: sc.Name, Body: c12Body(sc), LeakIsViolation: true,
		Opt: vs.Options{Horizon: 70 * time.Second, IdleStep: 97 * time.Millisecond, MaxSteps: 20000, Ticks: sc.Ticks}}
}

func TestVerifC12(t *testing.T) {
	for _, n := range []string{"P", "relay", "mallory", "local"} {
		fxID(n)
	}
	scs := c12Scenarios(vrep.Thorough())
	if p := vrep.ReplayPath(); p != "" {
		rp, err := vs.LoadReplay(p)
		if err != nil {
			t.Fatal(err)
		}
		if rp.Scenario == "" {
			fmt.Fprintf(os.Stdout, "REPLAY %s is not a replay of the scheduler-driven part\n", p)
			return
		}
		for _, sc := range c12Scenarios(true) {
			if sc.Name == rp.Scenario {
				x := vs.Replay(t, c12Scenario(sc), rp.Choices)
				fmt.Fprintf(os.Stdout, "REPLAY %s choices=%v\n%s\nverdict: key=%q %s\npanic=%s outcome=%s\n", sc.Name, rp.Choices, strings.Join(x.S.Log, "\n"), x.VioKey, x.VioDesc, x.Panic, x.Outcome)
				return
			}
		}
		t.Fatalf("scenario %q not found", rp.Scenario)
	}
	if vs.FreeMode() {
		// free-running pass for the race detector (validates the data-race-freedom assumption of the scheduler)
		r := vrep.New("C12", "race-pass")
		dl := vrep.Deadline()
		n := 0
		for time.Now().Before(dl) {
			for _, sc := range scs {
				runs, _ := vs.FreeRun(t, c12Scenario(sc), 3, dl)
				n += runs
			}
		}
		r.Executions = int64(n)
		r.Note("free-running executions: %d", n)
		r.Flush()
		return
	}
	si, sn := vrep.Shard()
	bound := 2
	if vrep.Thorough() {
		bound = 3
	}
	r := vrep.New("C12", "swarm-limited-conns")
	r.Bounds["deviation_bound"] = bound
	r.Bounds["scenarios"] = len(scs)
	for i, sc := range scs {
		left := time.Until(vrep.Deadline())
		share := left / time.Duration(len(scs)-i)
		if !vrep.Thorough() {
			// quick tier: every scenario finishes in a small fraction of its fair share; on a heavily loaded machine a
			// worker can stall for many seconds, so a scenario may use up to three fair shares before it is capped
			share = min(3*share, left)
		}
		vs.Explore(t, c12Scenario(sc), vs.Config{MaxBound: bound, Deadline: time.Now().Add(share), ShardI: si, ShardN: sn, Property: "C12"}, r)
	}
	r.Flush()
}
