//go:build verif

package httppeeridauth

// C19, client side: "the client reports a server peer ID only if the server's signature over the client's
// own fresh challenge, the client's public key and the hostname verifies under that ID's key".
//
// The real ClientPeerIDAuth.AuthenticatedDo runs against a scripted http.RoundTripper that forwards each
// request in-process to a real ServerPeerIDAuth handler and applies exactly one fault per execution: a
// mutation of the WWW-Authenticate / Authentication-Info value delivered to the client, or a man-in-the-
// middle action on the forwarded request (other server, other hostname, other client key, other challenge).
// Oracle: if AuthenticatedDo returns an ID without error, some response of this call must carry a signature
// that verifies under that ID's key over (a challenge-server value the client sent earlier in this call,
// the client's public key, the hostname of the request) - computed by the harness's own encoder - or the ID
// is the one proven by an earlier call of the same client for that hostname (bearer-token reuse).

import (
	"encoding/json"
	"fmt"
	"io"
	"net/http"
	"os"
	"strings"
	"testing"
	"time"

	"github.com/libp2p/go-libp2p/core/crypto"
	"github.com/libp2p/go-libp2p/core/peer"
	"github.com/libp2p/go-libp2p/p2p/http/auth/internal/handshake"
	"github.com/libp2p/go-libp2p/x/verif/vrep"
)

type c19Exch struct {
	reqAuthz  string // Authorization as sent by the client
	status    int    // as delivered to the client
	www, info string // as delivered to the client
}

type c19Fault struct {
	RT     int // round trip (of the observed call) the fault applies to; -1: every round trip
	Kind   string
	Detail string
	req    func(up *c19Server, host, authz string) (*c19Server, string, string)
	resp   func(status int, www, info string) (int, string, string)
}

func (f *c19Fault) key() string {
	if f == nil {
		return "none"
	}
	return fmt.Sprintf("%d|%s|%s", f.RT, f.Kind, f.Detail)
}

type c19RT struct {
	up         *c19Server
	keys       *c19Keys
	client     *c19Key
	stripFirst bool // the server side ignores the client's first Authorization: forces the server-initiated flow
	fault      *c19Fault
	n          int
	log        []c19Exch
	foreign    []string // reports of a peer other than the client by the upstream server
}

func (rt *c19RT) RoundTrip(req *http.Request) (*http.Response, error) {
	i := rt.n
	rt.n++
	if req.Body != nil {
		io.Copy(io.Discard, req.Body)
		req.Body.Close()
	}
	sent := req.Header.Get("Authorization")
	up, host, authz := rt.up, req.Host, sent
	if rt.stripFirst && i == 0 {
		authz = ""
	}
	f := rt.fault
	active := f != nil && (f.RT == i || f.RT == -1)
	if active && f.req != nil {
		up, host, authz = f.req(up, host, authz)
	}
	var av []string
	if authz != "" {
		av = []string{authz}
	}
	out := up.serve(host, av, true)
	if out.next > 0 && out.peer != rt.client.id {
		rt.foreign = append(rt.foreign, fmt.Sprintf("%s reported %s", up.label, rt.keys.name(out.peer)))
	}
	status, www, info := out.status, out.www, out.info
	if active && f.resp != nil {
		status, www, info = f.resp(status, www, info)
	}
	rt.log = append(rt.log, c19Exch{reqAuthz: sent, status: status, www: www, info: info})
	h := http.Header{}
	if www != "" {
		h.Set("WWW-Authenticate", www)
	}
	if info != "" {
		h.Set("Authentication-Info", info)
	}
	return &http.Response{Status: fmt.Sprintf("%d %s", status, http.StatusText(status)), StatusCode: status, Proto: "HTTP/1.1", ProtoMajor: 1, ProtoMinor: 1,
		Header: h, Body: http.NoBody, Request: req}, nil
}

type c19CliRun struct {
	id       peer.ID
	err      error
	panicked any
	log      []c19Exch
	prior    peer.ID // ID returned by the preparatory honest call (two-call flows)
	prepErr  error
	prepLog  []c19Exch // the exchanges of the preparatory call
	foreign  []string
	// follow-up: after an observed call that returned without error, one more fault-free call of the same client
	// for the same hostname - what the client CACHED with the token is what this call reports
	afterRan bool
	afterID  peer.ID
	afterErr error
	afterLog []c19Exch
}

var c19CliFlows = []string{"ci", "si-fallback", "si-after-reject", "token-reuse"}

// c19ClientRun performs one execution in its own bubble: a fresh client, (for the two-call flows) one honest
// call, then the observed call with at most one fault.
func c19ClientRun(t *testing.T, keys *c19Keys, S *c19Server, client *c19Key, host, flow, seed string, fault *c19Fault) (res c19CliRun) {
	restore := handshake.VerifC19SetRand(c19Reader("client-part", seed))
	defer restore()
	c19Bubble(t, 0, func() {
		defer func() {
			if p := recover(); p != nil {
				res.panicked = p
			}
		}()
		ca := &ClientPeerIDAuth{PrivKey: client.priv}
		rt := &c19RT{up: S, keys: keys, client: client}
		hc := &http.Client{Transport: rt}
		newReq := func() *http.Request {
			req, err := http.NewRequest("POST", "http://"+host+"/", strings.NewReader("body"))
			if err != nil {
				panic(err)
			}
			return req
		}
		if flow == "si-after-reject" || flow == "token-reuse" {
			id, resp, err := ca.AuthenticatedDo(hc, newReq())
			if resp != nil && resp.Body != nil {
				resp.Body.Close()
			}
			res.prior, res.prepErr, res.prepLog = id, err, rt.log
			if err != nil {
				return
			}
			if flow == "si-after-reject" {
				time.Sleep(S.ttl + time.Second) // the server now refuses the token and challenges the client
			}
		}
		rt.stripFirst = flow == "si-fallback"
		rt.n, rt.log, rt.fault = 0, nil, fault
		id, resp, err := ca.AuthenticatedDo(hc, newReq())
		if resp != nil && resp.Body != nil {
			resp.Body.Close()
		}
		res.id, res.err, res.log, res.foreign = id, err, rt.log, rt.foreign
		if err == nil {
			rt.stripFirst, rt.fault = false, nil
			rt.n, rt.log = 0, nil
			id, resp, err := ca.AuthenticatedDo(hc, newReq())
			if resp != nil && resp.Body != nil {
				resp.Body.Close()
			}
			res.afterRan, res.afterID, res.afterErr, res.afterLog = true, id, err, rt.log
		}
	})
	return res
}

// c19ClientJustified: is the ID the client reported backed by a server proof?
func c19ClientJustified(keys *c19Keys, client *c19Key, host string, run c19CliRun) (bool, string) {
	return c19ClientJustifiedBy(keys, client, host, run.id, run.log, run.prior)
}

// c19ClientJustifiedBy decides it for one call: id = what the call returned, log = the exchanges of that call,
// priors = IDs proven by earlier calls of the same client for this hostname (bearer-token reuse).
func c19ClientJustifiedBy(keys *c19Keys, client *c19Key, host string, id peer.ID, log []c19Exch, priors ...peer.ID) (bool, string) {
	k := keys.byID[id]
	if k == nil {
		return false, "the ID belongs to no key that exists in the run"
	}
	var challenges []string
	for _, e := range log {
		if v, ok := c19Get(c19ParseHonest(e.reqAuthz), "challenge-server"); ok && v != "" {
			challenges = append(challenges, v)
		}
		for sg := range c19Candidates(e.www, e.info) {
			if len(sg) < 32 || len(sg) > 600 {
				continue
			}
			for _, cs := range challenges {
				if c19Verify(k, c19ServerSigData(cs, client.pubBytes, host), []byte(sg)) {
					return true, "proof in this call"
				}
			}
		}
	}
	for _, p := range priors {
		if p != "" && id == p {
			return true, "ID proven by an earlier call for this hostname (token reuse)"
		}
	}
	return false, fmt.Sprintf("no response of the call carries a signature by that ID's key over any of the %d challenge(s) the client sent in this call, the client's public key and hostname %q", len(challenges), host)
}

type c19CliCfg struct {
	skt, ckt string
	host     int
}

func (c c19CliCfg) name() string { return fmt.Sprintf("server=%s client=%s h%d", c.skt, c.ckt, c.host) }

type c19CliWorld struct {
	keys *c19Keys
}

func (w *c19CliWorld) server(kt, who string) *c19Server {
	switch who {
	case "A":
		return &c19Server{label: "honest(" + kt + ")", key: w.keys.get(kt, "cli-serverA"), secret: []byte("c19-client-part-secret-A-0123456789"), ttl: time.Hour}
	default:
		return &c19Server{label: "other(" + kt + ")", key: w.keys.get(kt, "cli-serverB"), secretID: 1, secret: []byte("c19-client-part-secret-B-9876543210"), ttl: time.Hour}
	}
}

type c19Donor struct {
	name string
	run  c19CliRun
}

func c19HdrOf(e c19Exch, which string) string {
	if which == "www" {
		return e.www
	}
	return e.info
}

// c19GenClientFaults enumerates the single faults for one (configuration, flow), given its fault-free log.
func c19GenClientFaults(w *c19CliWorld, cfg c19CliCfg, base c19CliRun, donors []c19Donor, masks []byte, thorough bool, emit func(*c19Fault)) {
	otherHost := c19Hosts[1-cfg.host]
	otherClient := w.keys.get(cfg.ckt, "client1")
	nextKT := c19KeyTypes[(c19KTIndex(cfg.skt)+1)%len(c19KeyTypes)]
	srvB, srvC := w.server(cfg.skt, "B"), w.server(nextKT, "A")
	seen := map[string]struct{}{} // (round trip, header, delivered value) already generated
	onHdr := func(i int, which, kind, det string, fn func(string) string) {
		seen[fmt.Sprint(i, which, "|", fn(c19HdrOf(base.log[i], which)))] = struct{}{}
		emit(&c19Fault{RT: i, Kind: which + "/" + kind, Detail: det, resp: func(st int, www, info string) (int, string, string) {
			if which == "www" {
				return st, fn(www), info
			}
			return st, www, fn(info)
		}})
	}
	konst := func(v string) func(string) string { return func(string) string { return v } }
	for i, e := range base.log {
		for _, which := range []string{"www", "info"} {
			H := c19HdrOf(e, which)
			if H == "" {
				continue
			}
			ps := c19ParseHonest(H)
			onHdr(i, which, "drop-header", "", konst(""))
			emit(&c19Fault{RT: i, Kind: which + "/move-header", resp: func(st int, www, info string) (int, string, string) { return st, info, www }})
			for _, p := range ps {
				onHdr(i, which, "drop/"+p.k, "", konst(c19Build(c19Without(ps, p.k))))
				onHdr(i, which, "empty/"+p.k, "", konst(c19Build(c19With(ps, p.k, ""))))
				onHdr(i, which, "dup-same/"+p.k, "", konst(c19Build(append(append([]c19Param{}, ps...), p))))
			}
			for _, d := range donors {
				if i >= len(d.run.log) {
					continue
				}
				DH := c19HdrOf(d.run.log[i], which)
				if DH == "" {
					continue
				}
				onHdr(i, which, "replace-header/"+d.name, "", konst(DH))
				dps := c19ParseHonest(DH)
				var shared []string
				for _, p := range ps {
					if _, ok := c19Get(dps, p.k); ok {
						shared = append(shared, p.k)
					}
				}
				for m := 1; m < 1<<len(shared)-1; m++ { // proper subsets (the full set is replace-header)
					mut := ps
					var names []string
					for j, k := range shared {
						if m&(1<<j) != 0 {
							v, _ := c19Get(dps, k)
							mut = c19With(mut, k, v)
							names = append(names, k)
						}
					}
					onHdr(i, which, "swap/"+d.name+"/"+strings.Join(names, "+"), "", konst(c19Build(mut)))
				}
				for _, k := range shared {
					v, _ := c19Get(dps, k)
					onHdr(i, which, "dup-foreign-last/"+d.name+"/"+k, "", konst(c19Build(append(append([]c19Param{}, ps...), c19Param{k, v}))))
					onHdr(i, which, "dup-foreign-first/"+d.name+"/"+k, "", konst(c19Build(append([]c19Param{{k, v}}, ps...))))
				}
			}
			for _, p := range ps {
				if !c19B64Params[p.k] {
					continue
				}
				identity := p.k == "sig" || p.k == "public-key"
				if !identity && !thorough {
					continue
				}
				raw := c19MustDec(p.v)
				ms := masks
				if !identity {
					ms = []byte{0x01}
				}
				for j := range raw {
					for _, m := range ms {
						buf := append([]byte{}, raw...)
						buf[j] ^= m
						onHdr(i, which, "xor/"+p.k, fmt.Sprintf("byte %d mask %#02x", j, m), konst(c19Build(c19With(ps, p.k, c19B64(buf)))))
					}
				}
				if identity {
					for l := 0; l < len(raw); l++ {
						onHdr(i, which, "truncate/"+p.k, fmt.Sprint("len ", l), konst(c19Build(c19With(ps, p.k, c19B64(raw[:l])))))
					}
					onHdr(i, which, "append/"+p.k, "", konst(c19Build(c19With(ps, p.k, c19B64(append(append([]byte{}, raw...), 0))))))
					for _, v := range c19B64Variants(raw) {
						onHdr(i, which, "b64/"+v.k+"/"+p.k, "", konst(c19Build(c19With(ps, p.k, v.v))))
					}
				}
			}
			body := strings.TrimPrefix(H, c19Scheme+" ")
			onHdr(i, which, "syntax/no-scheme", "", konst(body))
			onHdr(i, which, "syntax/scheme-lower", "", konst(strings.ToLower(c19Scheme)+" "+body))
			onHdr(i, which, "syntax/other-scheme-first", "", konst(`Basic realm="x", `+H))
		}
		for _, st := range []int{200, 401, 403, 500} {
			if st != e.status {
				st := st
				emit(&c19Fault{RT: i, Kind: "status", Detail: fmt.Sprint(st), resp: func(_ int, www, info string) (int, string, string) { return st, www, info }})
			}
		}
	}
	c19GenClientAddFaults(w, cfg, base, donors, thorough, seen, emit)
	// man-in-the-middle actions on the forwarded request, at one round trip or at all of them
	rts := []int{-1}
	for i := range base.log {
		rts = append(rts, i)
	}
	staleCS := ""
	for _, d := range donors {
		if d.name == "stale" {
			for _, e := range d.run.log {
				if v, ok := c19Get(c19ParseHonest(e.reqAuthz), "challenge-server"); ok && staleCS == "" {
					staleCS = v
				}
			}
		}
	}
	repl := func(k, v string) func(up *c19Server, host, authz string) (*c19Server, string, string) {
		return func(up *c19Server, host, authz string) (*c19Server, string, string) {
			ps := c19ParseHonest(authz)
			if _, ok := c19Get(ps, k); !ok {
				return up, host, authz
			}
			return up, host, c19Build(c19With(ps, k, v))
		}
	}
	for _, i := range rts {
		emit(&c19Fault{RT: i, Kind: "mitm/to-other-server-same-keytype", req: func(_ *c19Server, host, authz string) (*c19Server, string, string) { return srvB, host, authz }})
		emit(&c19Fault{RT: i, Kind: "mitm/to-other-server-other-keytype", req: func(_ *c19Server, host, authz string) (*c19Server, string, string) { return srvC, host, authz }})
		emit(&c19Fault{RT: i, Kind: "mitm/host-rewritten", req: func(up *c19Server, _, authz string) (*c19Server, string, string) { return up, otherHost, authz }})
		emit(&c19Fault{RT: i, Kind: "mitm/client-key-replaced", req: repl("public-key", c19B64(otherClient.pubBytes))})
		emit(&c19Fault{RT: i, Kind: "mitm/challenge-replaced-by-constant", req: repl("challenge-server", "bWl0bS1jaG9zZW4tY2hhbGxlbmdlLXNlcnZlci0wMTIzNDU2Nzg5")})
		if staleCS != "" {
			emit(&c19Fault{RT: i, Kind: "mitm/challenge-replaced-by-stale", req: repl("challenge-server", staleCS)})
		}
		emit(&c19Fault{RT: i, Kind: "mitm/authorization-stripped", req: func(up *c19Server, host, _ string) (*c19Server, string, string) { return up, host, "" }})
	}
}

// c19PoolMsg is one message (or one whole exchange) a malicious server has at hand: its parameters can be
// re-sent in any later - or any other - message.
type c19PoolMsg struct {
	name string
	ps   []c19Param
}

// c19GenClientAddFaults: the malicious-server edits that ADD something to a message. For every response header
// of every round trip of the flow (and for every header the honest response does not carry at all):
//   - every parameter of every message of the pool - the Authorization, WWW-Authenticate and Authentication-Info
//     values of every round trip (including the preparatory call) of this very run and of the donor runs (stale
//     session, other hostname, other server of the same / another key type, other client) - added at the end and
//     at the front, whether or not the header already carries that parameter (absent -> added, present -> duplicated);
//   - all parameters of one whole exchange (request + responses of one round trip) added at once, at the end / front;
//   - every known parameter name (and two the scheme does not define) with attacker-chosen values: the key of a
//     victim who never signs anything (same / other key type), the attacker's own key, the client's key, a well-formed
//     key nobody holds, garbage, non-base64, empty; a signature by the attacker over this run's fresh data; constants;
//   - the attacker's own / a victim's key together with the attacker's signature over this run's fresh data.
//
// One such edit of one message per execution. Edits that produce a header value already generated for the same
// position are skipped.
func c19GenClientAddFaults(w *c19CliWorld, cfg c19CliCfg, base c19CliRun, donors []c19Donor, thorough bool, seen map[string]struct{}, emit func(*c19Fault)) {
	if !thorough && cfg.host != 0 {
		return // quick tier: these families for the first hostname only (the two hostnames are symmetric)
	}
	client, hn, otherHost := w.keys.get(cfg.ckt, "client0"), c19Hosts[cfg.host], c19Hosts[1-cfg.host]
	nextKT := c19KeyTypes[(c19KTIndex(cfg.skt)+1)%len(c19KeyTypes)]
	attacker := w.server(cfg.skt, "B").key
	victim, victim2 := w.keys.get(cfg.skt, "victim"), w.keys.get(nextKT, "victim")
	var pool, exch []c19PoolMsg
	addRun := func(dn string, log []c19Exch, tag string) {
		for j, e := range log {
			var union []c19Param
			for _, m := range []struct{ kind, h string }{{"req", e.reqAuthz}, {"www", e.www}, {"info", e.info}} {
				ps := c19ParseHonest(m.h)
				if m.h == "" || len(ps) == 0 {
					continue
				}
				pool = append(pool, c19PoolMsg{fmt.Sprintf("%s/%s%d/%s", dn, tag, j, m.kind), ps})
				union = append(union, ps...)
			}
			if len(union) > 0 {
				exch = append(exch, c19PoolMsg{fmt.Sprintf("%s/%s%d", dn, tag, j), union})
			}
		}
	}
	addRun("self", base.prepLog, "prep")
	addRun("self", base.log, "rt")
	for _, d := range donors {
		addRun(d.name, d.run.prepLog, "prep")
		addRun(d.name, d.run.log, "rt")
	}
	deliver := func(i int, which, kind, v string) {
		sk := fmt.Sprint(i, which, "|", v)
		if _, dup := seen[sk]; dup {
			return
		}
		seen[sk] = struct{}{}
		emit(&c19Fault{RT: i, Kind: which + "/" + kind, resp: func(st int, www, info string) (int, string, string) {
			if which == "www" {
				return st, v, info
			}
			return st, www, v
		}})
	}
	cat := func(a, b []c19Param) []c19Param { return append(append([]c19Param{}, a...), b...) }
	unowned := ""
	if pk, err := crypto.UnmarshalEd25519PublicKey([]byte("c19-a-key-nobody-holds-012345678")); err == nil {
		if b, err := crypto.MarshalPublicKey(pk); err == nil {
			unowned = c19B64(b)
		}
	}
	garbage := func(n int, label string) string {
		b := make([]byte, n)
		io.ReadFull(c19Reader("garbage", label), b)
		return c19B64(b)
	}
	cs := "" // the latest challenge the client has sent when response i is produced
	for i, e := range base.log {
		if v, ok := c19Get(c19ParseHonest(e.reqAuthz), "challenge-server"); ok && v != "" {
			cs = v
		}
		attackerSig := ""
		if cs != "" {
			if sg, err := attacker.priv.Sign(c19ServerSigData(cs, client.pubBytes, hn)); err == nil {
				attackerSig = c19B64(sg)
			}
		}
		chosen := []struct{ k, label, v string }{
			{"public-key", "victim", c19B64(victim.pubBytes)},
			{"public-key", "victim-other-keytype", c19B64(victim2.pubBytes)},
			{"public-key", "attacker", c19B64(attacker.pubBytes)},
			{"public-key", "the-client's", c19B64(client.pubBytes)},
			{"public-key", "well-formed-key-nobody-holds", unowned},
			{"public-key", "garbage", garbage(36, "pk")},
			{"public-key", "not-base64", "!!!"},
			{"public-key", "empty", ""},
			{"sig", "attacker-over-fresh-challenge", attackerSig},
			{"sig", "garbage", garbage(64, "sig")},
			{"sig", "not-base64", "!!!"},
			{"sig", "empty", ""},
			{"challenge-client", "constant", "YXR0YWNrZXItY2hvc2VuLWNoYWxsZW5nZS1jbGllbnQtMDEyMzQ1Njc4OQ=="},
			{"challenge-client", "short", "QUJD"},
			{"challenge-client", "empty", ""},
			{"challenge-server", "constant", "bWl0bS1jaG9zZW4tY2hhbGxlbmdlLXNlcnZlci0wMTIzNDU2Nzg5"},
			{"challenge-server", "echo-of-the-client's", cs},
			{"opaque", "garbage", garbage(96, "opaque")},
			{"opaque", "empty", ""},
			{"bearer", "garbage", garbage(96, "bearer")},
			{"bearer", "empty", ""},
			{"hostname", "other", otherHost},
			{"hostname", "refused", c19HBad},
			{"peer-id", "victim", victim.id.String()},
		}
		for _, which := range []string{"www", "info"} {
			H := c19HdrOf(e, which)
			if H == "" {
				// the honest response does not carry this header at all: add one
				if thorough { // quick tier: whole exchanges and chosen keys only
					for _, m := range pool {
						deliver(i, which, "add-header/"+m.name, c19Build(m.ps))
					}
				}
				for _, m := range exch {
					deliver(i, which, "add-header-exchange/"+m.name, c19Build(m.ps))
				}
				for _, c := range chosen {
					if c.k == "public-key" && c.v != "" {
						deliver(i, which, "add-header-chosen/"+c.k+"="+c.label, c19Build([]c19Param{{c.k, c.v}}))
					}
				}
				continue
			}
			ps := c19ParseHonest(H)
			for _, m := range pool {
				for _, p := range m.ps {
					one := []c19Param{p}
					deliver(i, which, "add-last/"+m.name+"/"+p.k, c19Build(cat(ps, one)))
					deliver(i, which, "add-first/"+m.name+"/"+p.k, c19Build(cat(one, ps)))
				}
			}
			for _, m := range exch {
				deliver(i, which, "add-exchange-last/"+m.name, c19Build(cat(ps, m.ps)))
				deliver(i, which, "add-exchange-first/"+m.name, c19Build(cat(m.ps, ps)))
			}
			for _, c := range chosen {
				if c.v == "" && c.label != "empty" {
					continue
				}
				one := []c19Param{{c.k, c.v}}
				deliver(i, which, "add-chosen-last/"+c.k+"="+c.label, c19Build(cat(ps, one)))
				deliver(i, which, "add-chosen-first/"+c.k+"="+c.label, c19Build(cat(one, ps)))
			}
			if attackerSig != "" {
				for _, id := range []*c19Key{attacker, victim} {
					two := []c19Param{{"public-key", c19B64(id.pubBytes)}, {"sig", attackerSig}}
					deliver(i, which, "add-identity-last/key-of-"+id.label+"+sig-of-attacker", c19Build(cat(ps, two)))
					deliver(i, which, "add-identity-first/key-of-"+id.label+"+sig-of-attacker", c19Build(cat(two, ps)))
				}
			}
		}
	}
}

// c19CliFamily: "www/xor/sig" -> "xor", "mitm/host-rewritten" -> "mitm/host-rewritten", "status" -> "status"
func c19CliFamily(kind string) string {
	p := strings.Split(kind, "/")
	if (p[0] == "www" || p[0] == "info") && len(p) > 1 {
		return p[1]
	}
	if len(p) > 2 {
		p = p[:2]
	}
	return strings.Join(p, "/")
}

type c19CliReplay struct {
	Part   string `json:"part"`
	Config string `json:"config"`
	Flow   string `json:"flow"`
	Fault  string `json:"fault"`
}

func TestVerifC19Client(t *testing.T) {
	r := vrep.New("C19", "client-scripted-roundtripper")
	distinct := map[string]struct{}{}
	defer func() {
		r.Distinct = int64(len(distinct))
		r.Flush()
	}()
	var only *c19CliReplay
	if p := vrep.ReplayPath(); p != "" {
		b, _ := os.ReadFile(p)
		var f struct {
			Replay c19CliReplay `json:"replay"`
		}
		if json.Unmarshal(b, &f) != nil || f.Replay.Part != "client-scripted-roundtripper" {
			return
		}
		only = &f.Replay
	}
	deadline := vrep.Deadline()
	w := &c19CliWorld{keys: c19NewKeys()}
	masks := []byte{0x01, 0x80, 0xff}
	if vrep.Thorough() {
		masks = []byte{0x01, 0x02, 0x04, 0x08, 0x10, 0x20, 0x40, 0x80, 0xff}
	}
	r.Bounds["configurations"] = "4 server key types x 4 client key types x 2 hostnames x 4 flows (client-initiated, server-initiated after the server ignored the client's challenge, server-initiated after a rejected token, token reuse)"
	if !vrep.Thorough() {
		r.Bounds["configurations_quick_tier"] = "as above, but only the 7 key-type pairs in which the server or the client is Ed25519"
	}
	r.Bounds["faults_per_execution"] = "1 edit of 1 message (an edit may add several parameters taken from one recorded message / exchange, or one key together with one signature)"
	r.Bounds["added_parameters"] = "every parameter of every recorded message (Authorization / WWW-Authenticate / Authentication-Info of every round trip, preparatory call included, of this run and of 5 donor runs), singly and per whole exchange, and 24 attacker-chosen (name, value) pairs over {public-key, sig, challenge-client, challenge-server, opaque, bearer, hostname, peer-id}, each at the end and at the front of every response header, and as a header the honest response does not carry"
	if !vrep.Thorough() {
		r.Bounds["added_parameters_quick_tier"] = "as above for the first of the two hostnames; a header the honest response does not carry is added per whole exchange and per chosen key only (not per single recorded message)"
	}
	r.Bounds["follow_up_call"] = "after every observed call that returned without error: one fault-free call of the same client and hostname (reports what was cached with the token)"
	r.Bounds["xor_masks"] = fmt.Sprintf("%#02x", masks)
	sampled := map[string]bool{}
	var generated int64
	for _, skt := range c19KeyTypes {
		for _, ckt := range c19KeyTypes {
			if skt != "ed25519" && ckt != "ed25519" && !vrep.Thorough() && only == nil {
				continue // quick tier: every key type as server and as client, paired with Ed25519 (7 of the 16 pairs)
			}
			for host := 0; host < 2; host++ {
				cfg := c19CliCfg{skt, ckt, host}
				S := w.server(skt, "A")
				client := w.keys.get(ckt, "client0")
				hn := c19Hosts[host]
				nextKT := c19KeyTypes[(c19KTIndex(skt)+1)%len(c19KeyTypes)]
				for _, flow := range c19CliFlows {
					if only != nil && (only.Config != cfg.name() || only.Flow != flow) {
						continue
					}
					if time.Now().After(deadline) {
						r.Cap("deadline reached at %s %s", cfg.name(), flow)
						return
					}
					seed := cfg.name() + "|" + flow
					rp := c19CliReplay{Part: "client-scripted-roundtripper", Config: cfg.name(), Flow: flow, Fault: "none"}
					base := c19ClientRun(t, w.keys, S, client, hn, flow, seed, nil)
					r.Executions++
					if base.panicked != nil || base.prepErr != nil || base.err != nil || base.id != S.key.id {
						r.Violate("client-baseline-failed", fmt.Sprintf("fault-free %s flow (%s): AuthenticatedDo returned id=%s err=%v prepErr=%v panic=%v, want the server's ID",
							flow, cfg.name(), w.keys.name(base.id), base.err, base.prepErr, base.panicked), rp)
						continue
					}
					if ok, why := c19ClientJustified(w.keys, client, hn, base); !ok {
						// the harness's own encoding of the signed data disagrees with the server's: harness bug, not a verdict
						r.Cap("reference decision does not accept the fault-free %s flow (%s): %s", flow, cfg.name(), why)
						continue
					}
					if !base.afterRan || base.afterErr != nil || base.afterID != S.key.id {
						r.Violate("client-baseline-failed", fmt.Sprintf("follow-up call after the fault-free %s flow (%s): AuthenticatedDo returned id=%s err=%v, want the server's ID",
							flow, cfg.name(), w.keys.name(base.afterID), base.afterErr), rp)
						continue
					}
					r.Outcome(fmt.Sprintf("baseline %s -> server ID after %d round trips, follow-up call -> server ID after %d", flow, len(base.log), len(base.afterLog)))
					donors := []c19Donor{
						{"stale", c19ClientRun(t, w.keys, S, client, hn, flow, seed+"|stale", nil)},
						{"other-host", c19ClientRun(t, w.keys, S, client, c19Hosts[1-host], flow, seed+"|host", nil)},
						{"other-server", c19ClientRun(t, w.keys, w.server(skt, "B"), client, hn, flow, seed+"|srvB", nil)},
						{"other-server-keytype", c19ClientRun(t, w.keys, w.server(nextKT, "A"), client, hn, flow, seed+"|srvC", nil)},
						{"other-client", c19ClientRun(t, w.keys, S, w.keys.get(ckt, "client1"), hn, flow, seed+"|client1", nil)},
					}
					c19GenClientFaults(w, cfg, base, donors, masks, vrep.Thorough(), func(f *c19Fault) {
						generated++
						if only != nil {
							if only.Fault != f.key() {
								return
							}
						} else if !c19Mine(c19Hash(cfg.name(), flow, f.key())) {
							return
						}
						dk := cfg.name() + "|" + flow + "|" + f.key()
						if _, dup := distinct[dk]; dup {
							return
						}
						distinct[dk] = struct{}{}
						run := c19ClientRun(t, w.keys, S, client, hn, flow, seed, f)
						r.Executions++
						rp := c19CliReplay{Part: "client-scripted-roundtripper", Config: cfg.name(), Flow: flow, Fault: f.key()}
						var cls string
						switch {
						case run.panicked != nil:
							cls = "panic"
							r.Note("panic in %s %s fault %s: %v", cfg.name(), flow, f.key(), run.panicked)
						case run.prepErr != nil:
							cls = "preparatory call failed"
						case run.err != nil:
							cls = "error"
						case run.id == S.key.id:
							cls = "honest server's ID"
						default:
							cls = "another ID"
						}
						r.Outcome(c19CliFamily(f.Kind) + " -> " + cls)
						if only != nil {
							t.Logf("replay %s %s fault %s: id=%s err=%v log=%+v", cfg.name(), flow, f.key(), w.keys.name(run.id), run.err, run.log)
						}
						if run.panicked == nil && run.prepErr == nil && run.err == nil {
							if ok, why := c19ClientJustified(w.keys, client, hn, run); !ok {
								r.Violate("client-reported-unproven-server/"+c19CliFamily(f.Kind),
									fmt.Sprintf("AuthenticatedDo (%s, %s flow, Host %s) returned server ID %s without error under fault [round trip %d: %s %s] although %s",
										cfg.name(), flow, hn, w.keys.name(run.id), f.RT, f.Kind, f.Detail, why), rp)
							} else if run.afterRan && run.afterErr == nil {
								// what was cached with the token: the next (fault-free) call may report only an ID proven in that
								// call itself or by one of the earlier calls (the observed one, the preparatory one)
								if ok, why := c19ClientJustifiedBy(w.keys, client, hn, run.afterID, run.afterLog, run.id, run.prior); !ok {
									r.Violate("client-cached-unproven-server/"+c19CliFamily(f.Kind),
										fmt.Sprintf("the call after AuthenticatedDo (%s, %s flow, Host %s; returned %s) under fault [round trip %d: %s %s] reported server ID %s without error although %s and no earlier call proved it",
											cfg.name(), flow, hn, w.keys.name(run.id), f.RT, f.Kind, f.Detail, w.keys.name(run.afterID), why), rp)
								}
								switch {
								case run.afterID == run.id:
								case run.afterID == S.key.id:
									r.Outcome("follow-up call -> honest server's ID after another ID")
								default:
									r.Outcome("follow-up call -> another ID than the observed call")
								}
							}
						}
						fam := c19CliFamily(f.Kind)
						if !sampled[fam] && len(sampled) < 4 && (strings.HasPrefix(fam, "mitm") || strings.Contains(fam, "swap") || strings.Contains(fam, "xor") || strings.Contains(fam, "replace")) {
							sampled[fam] = true
							var delivered []string
							for _, e := range run.log {
								delivered = append(delivered, fmt.Sprintf("%d www=%s info=%s", e.status, c19Trunc(e.www, 120), c19Trunc(e.info, 120)))
							}
							r.Sample(map[string]any{"config": cfg.name(), "flow": flow, "fault": f.key(), "responses_delivered": delivered, "outcome": cls, "error": fmt.Sprint(run.err)})
						}
					})
				}
			}
		}
	}
	r.Note("faults generated (all shards): %d", generated)
}
