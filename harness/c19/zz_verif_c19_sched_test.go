//go:build verif

package httppeeridauth

// C19, concurrent requests (engine E2, part "sched"). One ServerPeerIDAuth value serves every request of a server, and
// the only state it keeps between requests is its pool of keyed HMAC instances. "Any alteration of the ... token ... is
// rejected" must also hold when requests overlap: the hash a request computes its verdict with must be its own for as
// long as it uses it. The package is built instrumented (sync.Pool becomes the deterministic LIFO pool of x/verif/vsync,
// one legal behaviour of sync.Pool) and the pool hands out hashes whose Reset / Write / Sum are scheduling points, so
// the explorer interleaves two requests INSIDE their HMAC computations - the places where a real preemption would hurt.
//
// Scenario = a sequential prologue of requests that are answered without authentication (none; a bearer token with a
// wrong HMAC; a challenge answer whose opaque state has a wrong HMAC - the exits that hand the hash back early or
// twice are on these paths) followed by 2-3 overlapping requests from the menu
//   genuine   the attacker M's own valid bearer token (M is an honest account holder)
//   forged    M's token with the peer ID in the signed fields replaced by the victim V's (HMAC of M's token kept)
//   garbage   a token-shaped value with a wrong HMAC
// Oracle (the statement itself): the application callback runs for a request only with the peer ID of a token this
// server issued and that the request carries byte for byte - i.e. only for "genuine", with M. Baseline (non-vacuity):
// every "genuine" request reaches the callback with M in every schedule.

import (
	"crypto/hmac"
	"crypto/sha256"
	"fmt"
	"hash"
	"net/http"
	"os"
	"strings"
	"testing"
	"time"

	"github.com/libp2p/go-libp2p/core/peer"
	"github.com/libp2p/go-libp2p/p2p/http/auth/internal/handshake"
	"github.com/libp2p/go-libp2p/x/verif/vrep"
	vs "github.com/libp2p/go-libp2p/x/verif/vsched"
)

// c19sHash: an HMAC whose operations are scheduling points.
type c19sHash struct {
	hash.Hash
	id int
}

func (h *c19sHash) Write(p []byte) (int, error) { vs.Yield(); return h.Hash.Write(p) }
func (h *c19sHash) Sum(b []byte) []byte         { vs.Yield(); return h.Hash.Sum(b) }
func (h *c19sHash) Reset()                      { vs.Yield(); h.Hash.Reset() }

type c19sScn struct {
	Name string
	Pre  []string // prologue requests, sequential: "bad-bearer" | "bad-opaque"
	Race []string // overlapping requests: "genuine" | "forged" | "garbage"
}

func c19sScenarios(thorough bool) []c19sScn {
	var out []c19sScn
	pres := [][]string{nil, {"bad-bearer"}, {"bad-opaque"}}
	races := [][]string{{"forged", "genuine"}, {"genuine", "genuine"}, {"forged", "garbage"}}
	if thorough {
		pres = append(pres, []string{"bad-bearer", "bad-bearer"}, []string{"bad-opaque", "bad-bearer"})
		races = append(races, []string{"forged", "forged"}, []string{"forged", "genuine", "genuine"}, []string{"garbage", "genuine"})
	}
	for _, p := range pres {
		for _, r := range races {
			pn := "no prologue"
			if len(p) > 0 {
				pn = "after " + strings.Join(p, ", ")
			}
			out = append(out, c19sScn{Name: strings.Join(r, " || ") + " (" + pn + ")", Pre: p, Race: r})
		}
	}
	return out
}

func c19sBody(sc c19sScn) func(x *vs.Exec) {
	return func(x *vs.Exec) {
		s := x.S
		ks := c19NewKeys()
		skey := ks.get("ed25519", "server0")
		M, V := ks.get("ed25519", "client0"), ks.get("ed25519", "client1")
		host := c19Hosts[0]
		a := &ServerPeerIDAuth{PrivKey: skey.priv, TokenTTL: time.Hour, NoTLS: true, ValidHostnameFn: c19ValidHost, HmacKey: c19SecretA}
		srv := &c19Server{label: "S(sched)", key: skey, secret: c19SecretA, ttl: time.Hour, inst: a}
		var genuine, forged, garbage, badOpaque string
		infra := ""
		nHash := 0
		s.Go("setup", func() {
			// first request: the server builds its pool; from then on the pool makes hashes that yield
			srv.serve(host, nil, false)
			a.hmacPool.p.New = func() any {
				nHash++
				return &c19sHash{Hash: hmac.New(sha256.New, a.HmacKey), id: nHash}
			}
			for {
				if _, ok := a.hmacPool.p.Get().(*c19sHash); ok {
					break // (a fresh one, made by New: the plain hashes of the first request are gone; this one is dropped too)
				}
			}
			// M's honest handshake (client-initiated flow) and bearer token
			hc := handshake.PeerIDAuthHandshakeClient{Hostname: host, PrivKey: M.priv}
			authz := func() string { h := http.Header{}; hc.AddHeader(h); return h.Get("Authorization") }
			hc.SetInitiateChallenge()
			if err := hc.Run(); err != nil {
				infra = "client run 0: " + err.Error()
				return
			}
			r1 := srv.serve(host, []string{authz()}, false)
			if r1.status != http.StatusUnauthorized || r1.www == "" {
				infra = fmt.Sprintf("step 1: status %d www %q", r1.status, r1.www)
				return
			}
			if err := hc.ParseHeader(c19Hdr("WWW-Authenticate", r1.www)); err != nil {
				infra = "client parse 1: " + err.Error()
				return
			}
			if err := hc.Run(); err != nil {
				infra = "client run 1: " + err.Error()
				return
			}
			a2 := authz()
			r2 := srv.serve(host, []string{a2}, false)
			if r2.next != 1 || r2.peer != M.id || r2.info == "" {
				infra = fmt.Sprintf("step 2: status %d next %d", r2.status, r2.next)
				return
			}
			if err := hc.ParseHeader(c19Hdr("Authentication-Info", r2.info)); err != nil {
				infra = "client parse 2: " + err.Error()
				return
			}
			if err := hc.Run(); err != nil {
				infra = "client run 2: " + err.Error()
				return
			}
			genuine = hc.BearerToken()
			tv, _ := c19Get(c19ParseHonest(genuine), "bearer")
			tok := c19MustDec(tv)
			if len(tok) < 33 || !strings.Contains(string(tok[32:]), M.id.String()) || len(M.id.String()) != len(V.id.String()) {
				infra = "token layout not as expected"
				return
			}
			f := append(append([]byte{}, tok[:32]...), []byte(strings.Replace(string(tok[32:]), M.id.String(), V.id.String(), 1))...)
			forged = c19Build([]c19Param{{"bearer", c19B64(f)}})
			g := append([]byte{}, tok...)
			g[0] ^= 0x55
			garbage = c19Build([]c19Param{{"bearer", c19B64(g)}})
			// a challenge answer whose opaque state has a wrong HMAC
			ps := c19ParseHonest(a2)
			ov, _ := c19Get(ps, "opaque")
			ob := c19MustDec(ov)
			ob[0] ^= 0x55
			badOpaque = c19Build(c19With(ps, "opaque", c19B64(ob)))
			for _, p := range sc.Pre {
				h := garbage
				if p == "bad-opaque" {
					h = badOpaque
				}
				if o := srv.serve(host, []string{h}, false); o.next != 0 {
					infra = "prologue request " + p + " reached the application"
					return
				}
			}
		})
		if !s.Run() {
			if !s.Free {
				x.Fail("deadlock", "setup did not finish: %s", s.Deadlock)
			}
			return
		}
		if infra != "" {
			x.Outcome = "infra: " + infra
			x.Fail("baseline-failed", "the honest prologue failed: %s", infra)
			return
		}
		outs := make([]c19Out, len(sc.Race))
		for i, kind := range sc.Race {
			h := map[string]string{"genuine": genuine, "forged": forged, "garbage": garbage}[kind]
			s.Go(fmt.Sprintf("%s%d", kind, i), func() {
				outs[i] = srv.serve(host, []string{h}, false)
			})
		}
		ok := s.Run()
		if !ok {
			if s.Deadlock != "" {
				x.Fail("deadlock", "requests blocked forever: %s", s.Deadlock)
			}
			return
		}
		var cls []string
		for i, kind := range sc.Race {
			o := outs[i]
			c := fmt.Sprintf("%s:%d", kind, o.status)
			if o.next > 0 {
				c = fmt.Sprintf("%s:next(%s)", kind, map[peer.ID]string{M.id: "M", V.id: "V"}[o.peer])
			}
			cls = append(cls, c)
			if s.Free {
				continue
			}
			switch {
			case kind != "genuine" && o.next > 0:
				who := "the victim V"
				if o.peer == M.id {
					who = "M"
				} else if o.peer != V.id {
					who = o.peer.String()
				}
				x.Fail("unissued-token-accepted-under-concurrency", "request %d carries a %s bearer token (never issued by the server) and overlaps %v; the application callback ran with the peer ID of %s", i, kind, sc.Race, who)
			case kind == "genuine" && (o.next != 1 || o.peer != M.id):
				x.Fail("genuine-token-refused-under-concurrency", "request %d carries M's valid token and overlaps %v; status %d, callback ran %d times (peer %s)", i, sc.Race, o.status, o.next, o.peer)
			}
		}
		x.Outcome = strings.Join(cls, " ")
	}
}

func c19sScenario(sc c19sScn) *vs.Scenario {
	return &vs.Scenario{Name: sc.Name, Body: c19sBody(sc), LeakIsViolation: true,
		Opt: vs.Options{Horizon: 4 * time.Second, IdleStep: time.Second, MaxSteps: 5000}}
}

func TestVerifC19Sched(t *testing.T) {
	scs := c19sScenarios(vrep.Thorough())
	if vs.FreeMode() {
		r := vrep.New("C19", "race-pass")
		dl := vrep.Deadline()
		n := 0
		for time.Now().Before(dl) {
			for _, sc := range scs {
				runs, _ := vs.FreeRun(t, c19sScenario(sc), 3, dl)
				n += runs
			}
		}
		r.Executions = int64(n)
		r.Note("free-running executions: %d", n)
		r.Flush()
		return
	}
	if p := vrep.ReplayPath(); p != "" {
		rp, err := vs.LoadReplay(p)
		if err != nil {
			t.Fatal(err)
		}
		for _, sc := range c19sScenarios(true) {
			if sc.Name == rp.Scenario {
				x := vs.Replay(t, c19sScenario(sc), rp.Choices)
				fmt.Fprintf(os.Stdout, "REPLAY %s choices=%v\n%s\nverdict: key=%q %s\npanic=%s outcome=%s\n", sc.Name, rp.Choices, strings.Join(x.S.Log, "\n"), x.VioKey, x.VioDesc, x.Panic, x.Outcome)
				return
			}
		}
		if rp.Scenario == "" {
			return // a replay file of another part
		}
		t.Fatalf("scenario %q not found", rp.Scenario)
	}
	si, sn := vrep.Shard()
	bound := 3
	if vrep.Thorough() {
		bound = 4
	}
	r := vrep.New("C19", "concurrent-requests")
	r.Bounds["deviation_bound"] = bound
	r.Bounds["scenarios"] = len(scs)
	for i, sc := range scs {
		left := time.Until(vrep.Deadline())
		share := left / time.Duration(len(scs)-i)
		if share < 3*time.Second {
			share = 3 * time.Second
		}
		vs.Explore(t, c19sScenario(sc), vs.Config{MaxBound: bound, Deadline: time.Now().Add(share), ShardI: si, ShardN: sn, Property: "C19"}, r)
	}
	r.Flush()
}
