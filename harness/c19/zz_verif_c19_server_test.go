//go:build verif

package httppeeridauth

// C19, server side: "the server reports a client peer ID to the application only if ...".
//
// 1. Honest sessions are recorded (real handshake client against the real ServerPeerIDAuth handler) for both
//    flows x 4 key types x 2 clients x 2 servers x 2 hostnames (x 2 repetitions: the second one is the
//    "stale session of the same parties").
// 2. Every recorded Authorization value is mutated exhaustively over the alphabet in c19GenServerCases and
//    sent - at every time offset of interest, in a synctest bubble - to a fresh handler.
// 3. Oracle (c19World.justify): Next(P) => the request carries a byte-identical token this server('s secret)
//    issued for P and that is unexpired, or a byte-identical unexpired challenge state of this server for the
//    request's hostname plus a signature that verifies under P's key over (that challenge, this server's
//    public key, the request's hostname). Baselines strictly inside the lifetimes must reach Next(P).

import (
	"encoding/json"
	"fmt"
	"net/http"
	"os"
	"sort"
	"strings"
	"testing"
	"time"

	"github.com/libp2p/go-libp2p/core/peer"
	"github.com/libp2p/go-libp2p/p2p/http/auth/internal/handshake"
	"github.com/libp2p/go-libp2p/x/verif/vrep"
)

type c19Sess struct {
	flow           string // "si" server-initiated, "ci" client-initiated
	kt             string
	ci, srv, host  int
	rep            int
	client         *c19Key
	a1, w1, a2, i2 string // step 1 request (ci only) / response, step 2 request / response
	a3             string // step 3 request (bearer)
	opaque         []byte // decoded opaque challenge state
	token          []byte // decoded bearer token
	cc             string // challenge-client as sent by the server
	created        time.Time
}

func (s *c19Sess) name() string {
	return fmt.Sprintf("%s/%s/c%d/s%d/h%d/r%d", s.flow, s.kt, s.ci, s.srv, s.host, s.rep)
}

type c19World struct {
	keys    *c19Keys
	servers []*c19Server
	sess    map[string]*c19Sess
	order   []*c19Sess
	chBy    map[string]*c19Sess // decoded opaque -> session that obtained it
	tokBy   map[string]*c19Sess // decoded token  -> session that obtained it
	sigs    map[string]struct{} // every signature produced by a key holder in this run (recorded or crafted)
	variant []string            // accepted requests whose verifying signature is none of those (signature malleability)
	nvar    int
}

func c19SessKey(flow, kt string, ci, srv, host, rep int) string {
	return fmt.Sprintf("%s/%s/c%d/s%d/h%d/r%d", flow, kt, ci, srv, host, rep)
}

// the two secrets an application configures explicitly (HmacKey set)
var (
	c19SecretA = []byte("c19-hmac-secret-A-0123456789abcdef")
	c19SecretB = []byte("c19-hmac-secret-B-fedcba9876543210")
)

func c19NewWorld() *c19World {
	ks := c19NewKeys()
	secA, secB := c19SecretA, c19SecretB
	k0, k1 := ks.get("ed25519", "server0"), ks.get("ecdsa", "server1")
	return &c19World{keys: ks, sess: map[string]*c19Sess{}, chBy: map[string]*c19Sess{}, tokBy: map[string]*c19Sess{}, sigs: map[string]struct{}{},
		servers: []*c19Server{
			{label: "S0(ed25519 key0,secretA,ttl=1h)", key: k0, secretID: 0, secret: secA, ttl: time.Hour},
			{label: "S1(ecdsa key1,secretB,ttl=2m)", key: k1, secretID: 1, secret: secB, ttl: 2 * time.Minute},
			// replay targets only:
			{label: "S2(ed25519 key0,secretB,ttl=1h)", key: k0, secretID: 1, secret: secB, ttl: time.Hour},
			{label: "S3(ecdsa key1,secretA,ttl=1h)", key: k1, secretID: 0, secret: secA, ttl: time.Hour},
		}}
}

func c19Hdr(k, v string) http.Header { h := http.Header{}; h.Set(k, v); return h }

// record runs one honest handshake + one bearer request. Must be called inside a bubble.
func (w *c19World) record(flow, kt string, ci, srv, host, rep int) (*c19Sess, error) {
	s := &c19Sess{flow: flow, kt: kt, ci: ci, srv: srv, host: host, rep: rep, client: w.keys.get(kt, fmt.Sprint("client", ci)), created: time.Now()}
	S, hn := w.servers[srv], c19Hosts[host]
	hc := handshake.PeerIDAuthHandshakeClient{Hostname: hn, PrivKey: s.client.priv}
	authz := func() string { h := http.Header{}; hc.AddHeader(h); return h.Get("Authorization") }
	var r1 c19Out
	if flow == "ci" {
		hc.SetInitiateChallenge()
		if err := hc.Run(); err != nil {
			return nil, fmt.Errorf("client run 0: %w", err)
		}
		s.a1 = authz()
		r1 = S.serve(hn, []string{s.a1}, false)
	} else {
		r1 = S.serve(hn, nil, false)
	}
	if r1.status != http.StatusUnauthorized || r1.www == "" || r1.next != 0 {
		return nil, fmt.Errorf("step 1: status %d next %d www %q", r1.status, r1.next, r1.www)
	}
	s.w1 = r1.www
	if err := hc.ParseHeader(c19Hdr("WWW-Authenticate", s.w1)); err != nil {
		return nil, fmt.Errorf("client parse 1: %w", err)
	}
	if err := hc.Run(); err != nil {
		return nil, fmt.Errorf("client run 1: %w", err)
	}
	s.a2 = authz()
	r2 := S.serve(hn, []string{s.a2}, false)
	if r2.next != 1 || r2.peer != s.client.id || r2.info == "" {
		return nil, fmt.Errorf("step 2: status %d next %d peer %s info %q", r2.status, r2.next, w.keys.name(r2.peer), r2.info)
	}
	s.i2 = r2.info
	if err := hc.ParseHeader(c19Hdr("Authentication-Info", s.i2)); err != nil {
		return nil, fmt.Errorf("client parse 2: %w", err)
	}
	if err := hc.Run(); err != nil {
		return nil, fmt.Errorf("client run 2: %w", err)
	}
	s.a3 = hc.BearerToken()
	r3 := S.serve(hn, []string{s.a3}, false)
	if r3.next != 1 || r3.peer != s.client.id {
		return nil, fmt.Errorf("step 3: status %d next %d peer %s", r3.status, r3.next, w.keys.name(r3.peer))
	}
	wp := c19ParseHonest(s.w1)
	s.cc, _ = c19Get(wp, "challenge-client")
	ov, _ := c19Get(wp, "opaque")
	s.opaque = c19MustDec(ov)
	tv, _ := c19Get(c19ParseHonest(s.a3), "bearer")
	s.token = c19MustDec(tv)
	if sv, ok := c19Get(c19ParseHonest(s.a2), "sig"); ok {
		w.sigs[string(c19MustDec(sv))] = struct{}{}
	}
	if s.cc == "" || len(s.opaque) < 33 || len(s.token) < 33 {
		return nil, fmt.Errorf("recorded session incomplete: %+v", s)
	}
	w.sess[s.name()] = s
	w.order = append(w.order, s)
	w.chBy[string(s.opaque)] = s
	w.tokBy[string(s.token)] = s
	return s, nil
}

// justify decides whether the report "peer p" for this request is permitted by the statement.
func (w *c19World) justify(y *c19Server, host string, authz []string, now time.Time, p peer.ID) (bool, string) {
	k := w.keys.byID[p]
	if k == nil {
		return false, "reported peer ID belongs to no key that exists in the run"
	}
	cands := c19Candidates(authz...)
	for c := range cands {
		// (a token is bound to the hostname it was issued for - its signed fields carry it -: "any alteration of the ...
		// hostname ... is rejected" covers a token presented under another hostname the server also answers for)
		if s := w.tokBy[c]; s != nil && w.servers[s.srv].secretID == y.secretID && s.client.id == p && c19Hosts[s.host] == host {
			// created at s.created; unexpired = not after created + TokenTTL (the boundary instant is accepted either way)
			if !now.After(s.created.Add(y.ttl)) {
				return true, "token " + s.name()
			}
		}
	}
	for c := range cands {
		s := w.chBy[c]
		if s == nil || w.servers[s.srv].secretID != y.secretID || c19Hosts[s.host] != host || now.After(s.created.Add(c19ChallengeTTL)) {
			continue
		}
		data := c19ClientSigData(s.cc, y.key.pubBytes, host)
		for sg := range cands {
			if len(sg) >= 32 && len(sg) <= 600 && c19Verify(k, data, []byte(sg)) {
				if _, known := w.sigs[sg]; !known {
					// the key's Verify accepts bytes its holder never produced (the primitive is trusted here:
					// "a signature valid under that peer's public key"); counted and reported, not a violation
					w.nvar++
					if len(w.variant) < 3 {
						w.variant = append(w.variant, fmt.Sprintf("%s key, %d-byte signature", k.kt, len(sg)))
					}
				}
				return true, "challenge " + s.name()
			}
		}
	}
	return false, "no unexpired token issued under this server's secret for that peer, and no signature by that peer over an unexpired challenge of this server for this hostname, is carried by the request"
}

// ---------- case generation ----------

type c19Case struct {
	kind  string // class of the mutation
	det   string // detail (indices etc.)
	step  int    // which recorded request it derives from: 1, 2 or 3
	srv   int
	host  string
	authz []string
	base  bool // unmodified request to its own server and hostname
	pkey  uint64
}

var c19B64Params = map[string]bool{"opaque": true, "bearer": true, "sig": true, "public-key": true}

func (w *c19World) neighbours(s *c19Sess) []c19Param /* kind -> session key */ {
	of := "si"
	if s.flow == "si" {
		of = "ci"
	}
	nb := []c19Param{
		{"stale", c19SessKey(s.flow, s.kt, s.ci, s.srv, s.host, 1)},
		{"flow", c19SessKey(of, s.kt, s.ci, s.srv, s.host, 0)},
		{"client", c19SessKey(s.flow, s.kt, 1-s.ci, s.srv, s.host, 0)},
		{"server", c19SessKey(s.flow, s.kt, s.ci, 1-s.srv, s.host, 0)},
		{"host", c19SessKey(s.flow, s.kt, s.ci, s.srv, 1-s.host, 0)},
	}
	for _, kt := range c19KeyTypes {
		if kt != s.kt {
			nb = append(nb, c19Param{"kt", c19SessKey(s.flow, kt, s.ci, s.srv, s.host, 0)})
		}
	}
	return nb
}

func (s *c19Sess) stepHdr(step int) string {
	switch step {
	case 1:
		return s.a1
	case 2:
		return s.a2
	}
	return s.a3
}

type c19GenOpts struct {
	masks []byte
}

// c19GenServerCases enumerates the mutation alphabet for one recorded session. emit is called for every
// case; cases whose content hash belongs to another shard are dropped there.
func (w *c19World) genServerCases(s *c19Sess, o c19GenOpts, emit func(c c19Case, lazy func() []string)) {
	ownHost := c19Hosts[s.host]
	otherHost := c19Hosts[1-s.host]
	put := func(kind, det string, step, srv int, host string, authz ...string) {
		emit(c19Case{kind: kind, det: det, step: step, srv: srv, host: host, authz: authz,
			pkey: c19Hash(append([]string{fmt.Sprint(srv), host}, authz...)...)}, nil)
	}
	own := func(kind, det string, step int, authz ...string) { put(kind, det, step, s.srv, ownHost, authz...) }

	for _, step := range []int{1, 2, 3} {
		H := s.stepHdr(step)
		if H == "" {
			continue
		}
		ps := c19ParseHonest(H)
		// 0. baseline
		emit(c19Case{kind: "baseline", step: step, srv: s.srv, host: ownHost, authz: []string{H}, base: true,
			pkey: c19Hash(fmt.Sprint(s.srv), ownHost, H)}, nil)
		// 1. the request's Host changed; the request sent to another server (and both)
		for _, h := range []string{otherHost, c19HX, c19HBad, "", strings.ToUpper(ownHost), ownHost + ":443", ownHost + "."} {
			put("host/"+c19HostClass(h), h, step, s.srv, h, H)
		}
		for y := range w.servers {
			if y == s.srv {
				continue
			}
			put(fmt.Sprintf("server/S%d", y), "", step, y, ownHost, H)
			put(fmt.Sprintf("server+host/S%d", y), "", step, y, otherHost, H)
		}
		// 2. each parameter dropped / emptied / duplicated
		for _, p := range ps {
			own("drop/"+p.k, "", step, c19Build(c19Without(ps, p.k)))
			own("empty/"+p.k, "", step, c19Build(c19With(ps, p.k, "")))
			own("dup-same/"+p.k, "", step, c19Build(append(append([]c19Param{}, ps...), p)))
		}
		// 3. parameters swapped with the same parameter of another session; duplicates with a foreign value
		for _, nb := range w.neighbours(s) {
			ns := w.sess[nb.v]
			if ns == nil || ns.stepHdr(step) == "" {
				continue
			}
			nps := c19ParseHonest(ns.stepHdr(step))
			var shared []string
			for _, p := range ps {
				if _, ok := c19Get(nps, p.k); ok {
					shared = append(shared, p.k)
				}
			}
			for m := 1; m < 1<<len(shared); m++ {
				mut := ps
				var names []string
				for i, k := range shared {
					if m&(1<<i) != 0 {
						v, _ := c19Get(nps, k)
						mut = c19With(mut, k, v)
						names = append(names, k)
					}
				}
				kind := "swap/" + nb.k + "/" + strings.Join(names, "+")
				own(kind, nb.v, step, c19Build(mut))
				// ... and the same mixture with a parameter ADDED that a client never sends: the challenge the server
				// once issued to the neighbour's session (the text the neighbour's signature was made over), named as if
				// the client could tell the server which challenge to verify against
				if _, has := c19Get(ps, "challenge-client"); !has && ns.cc != "" {
					own(kind+"+add-challenge-client", nb.v, step, c19Build(append(append([]c19Param{}, mut...), c19Param{"challenge-client", ns.cc})))
					own(kind+"+add-challenge-client-first", nb.v, step, c19Build(append([]c19Param{{"challenge-client", ns.cc}}, mut...)))
				}
				// the same mixture presented where the neighbour's session was valid
				put(kind+"@nb", nb.v, step, ns.srv, c19Hosts[ns.host], c19Build(mut))
			}
			for _, k := range shared {
				v, _ := c19Get(nps, k)
				own("dup-foreign-last/"+nb.k+"/"+k, nb.v, step, c19Build(append(append([]c19Param{}, ps...), c19Param{k, v})))
				own("dup-foreign-first/"+nb.k+"/"+k, nb.v, step, c19Build(append([]c19Param{{k, v}}, ps...)))
			}
			// parameters a client never sends, added to the otherwise honest header with the neighbour's / a made-up value
			for _, ad := range []c19Param{{"challenge-client", ns.cc}, {"challenge-client", s.cc}, {"hostname", otherHost}, {"hostname", c19Hosts[ns.host]}, {"client-public-key", c19B64(ns.client.pubBytes)}, {"server-public-key", c19B64(w.servers[1-s.srv].key.pubBytes)}} {
				if _, has := c19Get(ps, ad.k); has || ad.v == "" {
					continue
				}
				own("add/"+nb.k+"/"+ad.k, nb.v, step, c19Build(append(append([]c19Param{}, ps...), ad)))
			}
			// two Authorization header lines
			own("two-headers/own-first/"+nb.k, nb.v, step, H, ns.stepHdr(step))
			own("two-headers/foreign-first/"+nb.k, nb.v, step, ns.stepHdr(step), H)
		}
		// 4. every byte of every decoded base64 parameter XOR mask; truncations; extensions; re-encodings
		for _, p := range ps {
			if !c19B64Params[p.k] {
				continue
			}
			raw := c19MustDec(p.v)
			region := func(i int) string {
				if p.k == "opaque" || p.k == "bearer" {
					if i < 32 {
						return "/hmac"
					}
					return "/state"
				}
				return ""
			}
			buf := make([]byte, len(raw))
			for i := range raw {
				for _, m := range o.masks {
					copy(buf, raw)
					buf[i] ^= m
					own(fmt.Sprintf("xor/%s%s", p.k, region(i)), fmt.Sprintf("byte %d mask %#02x", i, m), step, c19Build(c19With(ps, p.k, c19B64(buf))))
				}
			}
			for l := 0; l < len(raw); l++ {
				own("truncate/"+p.k, fmt.Sprint("len ", l), step, c19Build(c19With(ps, p.k, c19B64(raw[:l]))))
			}
			for _, b := range []byte{0x00, ' ', '}', '\n'} {
				own("append/"+p.k, fmt.Sprintf("byte %#02x", b), step, c19Build(c19With(ps, p.k, c19B64(append(append([]byte{}, raw...), b)))))
			}
			own("prepend/"+p.k, "", step, c19Build(c19With(ps, p.k, c19B64(append([]byte{0}, raw...)))))
			for _, v := range c19B64Variants(raw) {
				own("b64/"+v.k+"/"+p.k, "", step, c19Build(c19With(ps, p.k, v.v)))
			}
		}
		// 5. syntax
		body := strings.TrimPrefix(H, c19Scheme+" ")
		own("syntax/scheme-lower", "", step, strings.ToLower(c19Scheme)+" "+body)
		own("syntax/no-scheme", "", step, body)
		own("syntax/scheme-twice", "", step, c19Scheme+" "+H)
		own("syntax/other-scheme-first", "", step, `Basic dXNlcjpwdw==, `+H)
		own("syntax/other-scheme-after", "", step, H+`, Basic dXNlcjpwdw==`)
		own("syntax/sep-comma-only", "", step, strings.ReplaceAll(H, `", `, `",`))
		own("syntax/sep-space-only", "", step, strings.ReplaceAll(H, `", `, `" `))
		own("syntax/unknown-param", "", step, H+`, realm="x"`)
		own("syntax/leading-space", "", step, " "+H)
		for _, p := range ps {
			own("syntax/key-upper/"+p.k, "", step, strings.Replace(H, p.k+`="`, strings.ToUpper(p.k)+`="`, 1))
			own("syntax/noquote/"+p.k, "", step, strings.Replace(H, p.k+`="`+p.v+`"`, p.k+`=`+p.v, 1))
			own("syntax/space-around-eq/"+p.k, "", step, strings.Replace(H, p.k+`="`, p.k+` = "`, 1))
		}
	}

	// 6. token presented as opaque and vice versa; both kinds of credential in one request
	a2, a3 := c19ParseHonest(s.a2), c19ParseHonest(s.a3)
	sigv, _ := c19Get(a2, "sig")
	opv, _ := c19Get(a2, "opaque")
	tokv, _ := c19Get(a3, "bearer")
	own("confuse/token-as-opaque/own", "", 2, c19Build(c19With(a2, "opaque", tokv)))
	own("confuse/opaque-as-bearer/own", "", 3, c19Build(c19With(a3, "bearer", opv)))
	own("confuse/challenge+valid-bearer", "", 2, c19Build(c19With(a2, "bearer", tokv)))
	own("confuse/bearer+valid-challenge", "", 3, c19Build(append(append([]c19Param{}, a3...), c19Param{"opaque", opv}, c19Param{"sig", sigv})))
	own("confuse/bearer+opaque-without-sig", "", 3, c19Build(append(append([]c19Param{}, a3...), c19Param{"opaque", opv})))
	own("confuse/bearer+sig-without-opaque", "", 3, c19Build(append(append([]c19Param{}, a3...), c19Param{"sig", sigv})))
	own("confuse/sigless-challenge+bearer", "", 2, c19Build(c19With(c19Without(a2, "sig"), "bearer", tokv)))
	own("confuse/opaque-as-bearer+sig", "", 2, c19Build([]c19Param{{"bearer", opv}}))
	for _, nb := range w.neighbours(s) {
		ns := w.sess[nb.v]
		if ns == nil {
			continue
		}
		ntok, _ := c19Get(c19ParseHonest(ns.a3), "bearer")
		nop, _ := c19Get(c19ParseHonest(ns.a2), "opaque")
		nsig, _ := c19Get(c19ParseHonest(ns.a2), "sig")
		own("confuse/token-as-opaque/"+nb.k, nb.v, 2, c19Build(c19With(a2, "opaque", ntok)))
		own("confuse/opaque-as-bearer/"+nb.k, nb.v, 3, c19Build(c19With(a3, "bearer", nop)))
		own("confuse/bearer+foreign-challenge/"+nb.k, nb.v, 3, c19Build(append(append([]c19Param{}, a3...), c19Param{"opaque", nop}, c19Param{"sig", nsig})))
		own("confuse/challenge+foreign-bearer/"+nb.k, nb.v, 2, c19Build(c19With(a2, "bearer", ntok)))
		if s.flow == "ci" {
			// a client-initiated answer normally carries no public-key parameter: add one
			own("add-public-key/"+nb.k, nb.v, 2, c19Build(c19With(a2, "public-key", c19B64(ns.client.pubBytes))))
		}
	}
	if s.flow == "ci" {
		own("add-public-key/own", "", 2, c19Build(c19With(a2, "public-key", c19B64(s.client.pubBytes))))
	}

	// 7. requests crafted by a party that holds a private key (its own): signatures over every combination of
	// (state blob presented as opaque, challenge text, server key, hostname), sent to either hostname.
	type blob struct {
		name string
		b    []byte
		cc   string
	}
	blobs := []blob{{"own-opaque", s.opaque, s.cc}, {"own-token", s.token, ""}}
	for _, nb := range w.neighbours(s) {
		if ns := w.sess[nb.v]; ns != nil && (nb.k == "stale" || nb.k == "flow" || nb.k == "server" || nb.k == "host" || nb.k == "client") {
			blobs = append(blobs, blob{nb.k + "-opaque", ns.opaque, ns.cc})
		}
	}
	nextKT := c19KeyTypes[(c19KTIndex(s.kt)+1)%len(c19KeyTypes)]
	signers := []c19Param{{"self", s.client.label}, {"other-client", w.keys.get(s.kt, fmt.Sprint("client", 1-s.ci)).label}, {"other-keytype", w.keys.get(nextKT, "client0").label}}
	S, So := w.servers[s.srv], w.servers[1-s.srv]
	for _, sg := range signers {
		signer := w.keys.byLabel[sg.v]
		for _, bl := range blobs {
			ccs := []c19Param{{"matching-cc", bl.cc}}
			if bl.cc != s.cc {
				ccs = append(ccs, c19Param{"own-cc", s.cc})
			}
			if bl.cc != "" {
				ccs = append(ccs, c19Param{"empty-cc", ""})
			}
			for _, cc := range ccs {
				for _, spk := range []c19Param{{"this-server-key", string(S.key.pubBytes)}, {"other-server-key", string(So.key.pubBytes)}} {
					for _, hs := range []c19Param{{"signed-own-host", ownHost}, {"signed-other-host", otherHost}} {
						for _, th := range []c19Param{{"to-own-host", ownHost}, {"to-other-host", otherHost}} {
							kind := strings.Join([]string{"crafted", sg.k, bl.name, cc.k, spk.k, hs.k, th.k}, "/")
							desc := strings.Join([]string{"crafted", signer.label, string(bl.b), cc.v, spk.v, hs.v, th.v, fmt.Sprint(s.srv)}, "\x00")
							blb, ccv, spkv, hsv := bl.b, cc.v, spk.v, hs.v
							emit(c19Case{kind: kind, det: signer.label, step: 2, srv: s.srv, host: th.v, pkey: c19Hash(desc)}, func() []string {
								sig, err := signer.priv.Sign(c19ClientSigData(ccv, []byte(spkv), hsv))
								if err != nil {
									panic("c19 harness: signing failed: " + err.Error())
								}
								w.sigs[string(sig)] = struct{}{}
								return []string{c19Build([]c19Param{{"opaque", c19B64(blb)}, {"sig", c19B64(sig)},
									{"public-key", c19B64(signer.pubBytes)}, {"challenge-server", "Y3JhZnRlZC1jaGFsbGVuZ2Utc2VydmVyLTAxMjM0NTY3ODk="}})}
							})
						}
					}
				}
			}
		}
	}
}

func c19KTIndex(kt string) int {
	for i, k := range c19KeyTypes {
		if k == kt {
			return i
		}
	}
	return 0
}

func c19HostClass(h string) string {
	switch h {
	case c19H0, c19H1:
		return "other-valid"
	case c19HX:
		return "third-valid"
	case c19HBad:
		return "invalid"
	case "":
		return "empty"
	}
	return "variant-spelling"
}

func c19Family(kind string) string {
	p := strings.Split(kind, "/")
	if p[0] == "crafted" {
		return strings.Join(p[:3], "/")
	}
	if len(p) > 2 {
		p = p[:2]
	}
	return strings.Join(p, "/")
}

// ---------- the check ----------

type c19Replay struct {
	Part    string   `json:"part"`
	Server  int      `json:"server"`
	Host    string   `json:"host"`
	Authz   []string `json:"authorization"`
	Offset  int64    `json:"offset_ns"`
	Session string   `json:"session"`
	Kind    string   `json:"kind"`
	Detail  string   `json:"detail"`
}

func TestVerifC19Server(t *testing.T) {
	if p := vrep.ReplayPath(); p != "" {
		c19ReplayServer(t, p)
		return
	}
	r := vrep.New("C19", "server-mutations")
	defer r.Flush()
	deadline := vrep.Deadline()
	restore := handshake.VerifC19SetRand(c19Reader("server-part"))
	defer restore()

	w := c19NewWorld()
	var recErr error
	c19Bubble(t, 0, func() {
		for rep := 0; rep < 2 && recErr == nil; rep++ {
			for _, flow := range []string{"si", "ci"} {
				for _, kt := range c19KeyTypes {
					for ci := 0; ci < 2; ci++ {
						for srv := 0; srv < 2; srv++ {
							for host := 0; host < 2; host++ {
								if _, err := w.record(flow, kt, ci, srv, host, rep); err != nil && recErr == nil {
									recErr = fmt.Errorf("%s: %w", c19SessKey(flow, kt, ci, srv, host, rep), err)
								}
							}
						}
					}
				}
			}
		}
	})
	if recErr != nil {
		// an honest handshake does not complete: the baseline of the property fails
		r.Violate("baseline-handshake-failed", "an unmodified handshake does not reach Next with the client's peer ID: "+recErr.Error(), map[string]any{"part": "server-mutations", "session": recErr.Error()})
		return
	}

	opts := c19GenOpts{masks: []byte{0x01, 0x80, 0xff}}
	if vrep.Thorough() {
		opts.masks = []byte{0x01, 0x02, 0x04, 0x08, 0x10, 0x20, 0x40, 0x80, 0xff}
	}
	r.Bounds["sessions"] = "2 flows x 4 key types x 2 clients x 2 servers x 2 hostnames (+ a second recording of each as the stale session)"
	r.Bounds["xor_masks"] = fmt.Sprintf("%#02x", opts.masks)
	r.Bounds["faults_per_request"] = 1
	r.Bounds["servers"] = []string{w.servers[0].label, w.servers[1].label, w.servers[2].label, w.servers[3].label}
	r.Bounds["challenge_ttl"] = c19ChallengeTTL.String()

	seen := map[uint64]struct{}{}
	var generated, sigChecks, otherHostTokens int64
	sampled := map[string]bool{}
	kinds := map[string]struct{}{}
	detail := map[string]int{} // per-kind outcome table, written to $VERIF_C19_DUMP when set (debugging aid)

sessions:
	for _, s := range w.order {
		if s.rep != 0 {
			continue
		}
		// cases of this session that belong to this shard
		var cases []c19Case
		w.genServerCases(s, opts, func(c c19Case, lazy func() []string) {
			generated++
			if !c19Mine(c.pkey) {
				return
			}
			if lazy != nil {
				c.authz = lazy()
			}
			cases = append(cases, c)
		})
		// time offsets: challenge lifetime and the token lifetimes of the two recording servers
		offs := map[time.Duration]bool{}
		for _, d := range c19Offsets(c19ChallengeTTL) {
			offs[d] = true
		}
		for _, d := range c19Offsets(w.servers[s.srv].ttl) {
			offs[d] = true
		}
		var offList []time.Duration
		for d := range offs {
			offList = append(offList, d)
		}
		sort.Slice(offList, func(i, j int) bool { return offList[i] < offList[j] })
		for _, off := range offList {
			if time.Now().After(deadline) {
				r.Cap("deadline reached at session %s offset %s", s.name(), off)
				break sessions
			}
			c19Bubble(t, off, func() {
				now := time.Now()
				for i := range cases {
					c := &cases[i]
					if !vrep.Thorough() && c19ByteFamily(c.kind) {
						// quick tier: the byte-level families only fresh and just after the expiry that applies to them
						after := c19ChallengeTTL + time.Nanosecond
						if c.step == 3 {
							after = w.servers[s.srv].ttl + time.Nanosecond
						}
						if !(off == 0 || (off == after && c.step > 1)) {
							continue
						}
					}
					key := c19Hash(fmt.Sprint(c.pkey), fmt.Sprint(int64(off)))
					if _, dup := seen[key]; dup && !c.base {
						continue // identical (server, Host, Authorization, time) already executed; baselines are always run
					}
					seen[key] = struct{}{}
					y := w.servers[c.srv]
					out := y.serve(c.host, c.authz, i%2 == 1)
					r.Executions++
					kinds[c.kind] = struct{}{}
					if !c.base {
						r.Distinct++
					}
					cls := out.class(w.keys, s.client.id)
					r.Outcome(strings.SplitN(c.kind, "/", 2)[0] + " -> " + cls)
					if os.Getenv("VERIF_C19_DUMP") != "" {
						detail[fmt.Sprintf("step%d %s %s -> %s", c.step, s.flow, c.kind, cls)]++
					}
					rp := c19Replay{Part: "server-mutations", Server: c.srv, Host: c.host, Authz: c.authz, Offset: int64(off), Session: s.name(), Kind: c.kind, Detail: c.det}
					if out.next > 0 {
						sigChecks++
						ok, why := w.justify(y, c.host, c.authz, now, out.peer)
						if !ok {
							r.Violate("server-reported-unproven-peer/"+c19Family(c.kind),
								fmt.Sprintf("%s called Next with peer %s for a request (Host %q, %s after the session was recorded, mutation %s %s of step %d of session %s) although %s. Authorization: %s",
									y.label, w.keys.name(out.peer), c.host, c19Dur(off), c.kind, c.det, c.step, s.name(), why, c19Trunc(strings.Join(c.authz, " || "), 700)), rp)
						}
						if c.step == 3 && strings.HasPrefix(c.kind, "host/") {
							otherHostTokens++
						}
						if out.next > 1 {
							r.Note("Next called %d times for one request (%s)", out.next, c.kind)
						}
					}
					if c.base && c.step >= 2 {
						ttl := c19ChallengeTTL
						if c.step == 3 {
							ttl = y.ttl
						}
						if off < ttl && !(out.next == 1 && out.peer == s.client.id) {
							r.Violate("baseline-rejected", fmt.Sprintf("unmodified step-%d request of session %s, %s old (lifetime %s), did not reach Next with the client's peer ID: status %d next %d peer %s",
								c.step, s.name(), c19Dur(off), ttl, out.status, out.next, w.keys.name(out.peer)), rp)
						}
					}
					if !c.base && !sampled[c19Family(c.kind)] && (len(sampled) < 3 || strings.HasPrefix(c.kind, "crafted") || strings.HasPrefix(c.kind, "confuse") || strings.HasPrefix(c.kind, "swap")) && len(sampled) < 6 {
						sampled[c19Family(c.kind)] = true
						r.Sample(map[string]any{"session": s.name(), "mutation": c.kind, "detail": c.det, "server": y.label, "host": c.host, "age": c19Dur(off),
							"authorization": c19Trunc(strings.Join(c.authz, " || "), 400), "outcome": cls})
					}
				}
			})
		}
	}
	r.Bounds["mutation_kinds_executed"] = len(kinds)
	if otherHostTokens > 0 {
		r.Note("%d requests presenting an unexpired bearer token under another hostname accepted by ValidHostnameFn reached Next (the handler does not compare the token's hostname; the statement does not require it): same peer, counted as proven", otherHostTokens)
	}
	if w.nvar > 0 {
		r.Note("%d accepted requests carried a signature that is not byte-identical to any signature a key holder produced but that the key type's Verify accepts (e.g. %v): same peer, counted as proven", w.nvar, w.variant)
	}
	r.Note("cases generated (all shards, before de-duplication, per time offset): %d; reports checked against the reference decision: %d", generated, sigChecks)
	if os.Getenv("VERIF_C19_DUMP") != "" {
		b, _ := json.MarshalIndent(detail, "", " ")
		os.WriteFile(os.Getenv("VERIF_C19_DUMP"), b, 0o644)
	}
}

func c19ByteFamily(kind string) bool {
	return strings.HasPrefix(kind, "xor/") || strings.HasPrefix(kind, "truncate/")
}

func c19ReplayServer(t *testing.T, path string) {
	b, err := os.ReadFile(path)
	if err != nil {
		t.Logf("replay: %v", err)
		return
	}
	var f struct {
		Replay c19Replay `json:"replay"`
	}
	if json.Unmarshal(b, &f) != nil || f.Replay.Part != "server-mutations" {
		return
	}
	w := c19NewWorld()
	for _, kt := range c19KeyTypes { // so that reported peers can be named
		w.keys.get(kt, "client0")
		w.keys.get(kt, "client1")
	}
	rp := f.Replay
	c19Bubble(t, time.Duration(rp.Offset), func() {
		out := w.servers[rp.Server].serve(rp.Host, rp.Authz, false)
		t.Logf("replay %s (%s %s): server %s Host %q age %s -> status %d, Next called %d time(s) with peer %s",
			rp.Session, rp.Kind, rp.Detail, w.servers[rp.Server].label, rp.Host, c19Dur(time.Duration(rp.Offset)), out.status, out.next, w.keys.name(out.peer))
	})
}
