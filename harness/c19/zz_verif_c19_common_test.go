//go:build verif

package httppeeridauth

// C19: HTTP Peer-ID auth reports only proven identities. Engine E3 (exhaustive input / mutation enumeration).
//
// This file: deterministic identities, the server fixtures, the harness's own (independent) reference
// pieces - header tokenizer, signed-data encoder, "is this report justified" decision - and the mutation
// helpers shared by the server-side and client-side parts.

import (
	stdcrypto "crypto"
	"crypto/ecdsa"
	"crypto/elliptic"
	"crypto/rsa"
	"crypto/sha256"
	"crypto/x509"
	"encoding/base64"
	"encoding/binary"
	"fmt"
	"hash/fnv"
	"io"
	"math/big"
	mrand "math/rand/v2"
	"net/http"
	"net/http/httptest"
	"sort"
	"strings"
	"testing"
	"testing/synctest"
	"time"

	"github.com/libp2p/go-libp2p/core/crypto"
	"github.com/libp2p/go-libp2p/core/peer"
	"github.com/libp2p/go-libp2p/p2p/http/auth/internal/handshake"
	"github.com/libp2p/go-libp2p/x/verif/vrep"
)

// ---------- deterministic randomness ----------

// c19Reader is a deterministic byte stream derived from VERIF_SEED and a label.
func c19Reader(label ...any) io.Reader {
	h := sha256.Sum256([]byte(fmt.Sprint(vrep.Seed(), "|", fmt.Sprint(label...))))
	return mrand.NewChaCha8(h)
}

// ---------- deterministic identities ----------

var c19KeyTypes = []string{"ed25519", "ecdsa", "secp256k1", "rsa"}

type c19Key struct {
	label    string
	kt       string
	priv     crypto.PrivKey
	pub      crypto.PubKey
	pubBytes []byte // crypto.MarshalPublicKey(pub): what travels in public-key= and is signed over
	id       peer.ID
}

// c19DetECDSA signs deterministically (RFC 6979, rand == nil) so that recorded sessions - and hence the
// enumerated space - are identical from run to run. libp2p's own ECDSA Sign is hedged with crypto/rand.
// Only signing by the harness's honest parties goes through this; verification (the property) is the
// repository's code.
type c19DetECDSA struct {
	crypto.PrivKey
	raw *ecdsa.PrivateKey
}

func (k *c19DetECDSA) Sign(data []byte) ([]byte, error) {
	h := sha256.Sum256(data)
	return k.raw.Sign(nil, h[:], stdcrypto.SHA256)
}

func c19Prime(rd io.Reader, bits int) *big.Int {
	b := make([]byte, bits/8)
	io.ReadFull(rd, b)
	b[0] |= 0xC0
	b[len(b)-1] |= 1
	p := new(big.Int).SetBytes(b)
	two := big.NewInt(2)
	for !p.ProbablyPrime(12) {
		p.Add(p, two)
	}
	return p
}

// c19GenRSA generates an RSA-2048 key deterministically from rd (crypto/rsa deliberately defeats
// deterministic generation from a caller-supplied reader).
func c19GenRSA(rd io.Reader) *rsa.PrivateKey {
	one := big.NewInt(1)
	for {
		p, q := c19Prime(rd, 1024), c19Prime(rd, 1024)
		if p.Cmp(q) == 0 {
			continue
		}
		n := new(big.Int).Mul(p, q)
		if n.BitLen() != 2048 {
			continue
		}
		phi := new(big.Int).Mul(new(big.Int).Sub(p, one), new(big.Int).Sub(q, one))
		e := big.NewInt(65537)
		d := new(big.Int).ModInverse(e, phi)
		if d == nil {
			continue
		}
		k := &rsa.PrivateKey{PublicKey: rsa.PublicKey{N: n, E: 65537}, D: d, Primes: []*big.Int{p, q}}
		k.Precompute()
		if k.Validate() != nil {
			continue
		}
		return k
	}
}

func c19GenKey(kt string, who string) (*c19Key, error) {
	rd := c19Reader("key", kt, who)
	var priv crypto.PrivKey
	var err error
	switch kt {
	case "ed25519":
		priv, _, err = crypto.GenerateEd25519Key(rd)
	case "secp256k1":
		// GenerateSecp256k1Key ignores its reader; derive the scalar from the seeded stream instead
		var b [32]byte
		io.ReadFull(rd, b[:])
		b[0] &= 0x7f // below the group order
		b[31] |= 1   // non-zero
		priv, err = crypto.UnmarshalSecp256k1PrivateKey(b[:])
	case "ecdsa":
		var b [32]byte
		io.ReadFull(rd, b[:])
		curve := elliptic.P256()
		nm1 := new(big.Int).Sub(curve.Params().N, big.NewInt(1))
		d := new(big.Int).SetBytes(b[:])
		d.Mod(d, nm1).Add(d, big.NewInt(1))
		raw := new(ecdsa.PrivateKey)
		raw.Curve = curve
		raw.D = d
		raw.X, raw.Y = curve.ScalarBaseMult(d.FillBytes(make([]byte, 32)))
		var inner crypto.PrivKey
		inner, _, err = crypto.ECDSAKeyPairFromKey(raw)
		if err == nil {
			priv = &c19DetECDSA{PrivKey: inner, raw: raw}
		}
	case "rsa":
		raw := c19GenRSA(rd)
		priv, err = crypto.UnmarshalRsaPrivateKey(x509.MarshalPKCS1PrivateKey(raw))
	default:
		err = fmt.Errorf("unknown key type %s", kt)
	}
	if err != nil {
		return nil, err
	}
	k := &c19Key{label: kt + "/" + who, kt: kt, priv: priv, pub: priv.GetPublic()}
	if k.pubBytes, err = crypto.MarshalPublicKey(k.pub); err != nil {
		return nil, err
	}
	if k.id, err = peer.IDFromPublicKey(k.pub); err != nil {
		return nil, err
	}
	return k, nil
}

// c19Keys caches keys by label and is the registry "peer ID -> public key" used by the oracles: a peer ID
// that is not in the registry belongs to nobody who ever signed anything in the run.
type c19Keys struct {
	byLabel map[string]*c19Key
	byID    map[peer.ID]*c19Key
}

func c19NewKeys() *c19Keys {
	return &c19Keys{byLabel: map[string]*c19Key{}, byID: map[peer.ID]*c19Key{}}
}

func (ks *c19Keys) get(kt, who string) *c19Key {
	l := kt + "/" + who
	if k := ks.byLabel[l]; k != nil {
		return k
	}
	k, err := c19GenKey(kt, who)
	if err != nil {
		panic("c19 harness: key generation failed: " + err.Error())
	}
	ks.byLabel[l] = k
	ks.byID[k.id] = k
	return k
}

func (ks *c19Keys) name(p peer.ID) string {
	if p == "" {
		return "(none)"
	}
	if k := ks.byID[p]; k != nil {
		return k.label
	}
	return "UNKNOWN:" + p.String()
}

// ---------- hostnames ----------

const (
	c19H0   = "a.example"
	c19H1   = "b.example"
	c19HX   = "a.example.org" // valid for the servers, never used to record a session (c19H0 is a prefix of it)
	c19HBad = "evil.example"  // refused by ValidHostnameFn
)

var c19Hosts = []string{c19H0, c19H1}

func c19ValidHost(h string) bool { return h == c19H0 || h == c19H1 || h == c19HX }

// ---------- servers ----------

type c19Server struct {
	label    string
	key      *c19Key
	secretID int // identifies the secret: two servers are "the same server" for tokens / state iff their secretIDs are equal
	secret   []byte
	ttl      time.Duration
	// inst, when non-nil, is the one ServerPeerIDAuth value that serves every request of this server. This is
	// how the DEFAULT configuration is modelled: HmacKey is left unset, so the secret is whatever that value
	// generates for itself on first use and exists nowhere else (the harness does not know it). nil = a fresh
	// handler configured with the explicit secret for every request.
	inst *ServerPeerIDAuth
}

// c19DefaultServer is a server in the default configuration: no HmacKey given by the application. Every call
// constructs an independent server, so every call must be given a secretID of its own.
func c19DefaultServer(label string, key *c19Key, secretID int, ttl time.Duration) *c19Server {
	return &c19Server{label: label, key: key, secretID: secretID, ttl: ttl,
		inst: &ServerPeerIDAuth{PrivKey: key.priv, TokenTTL: ttl, NoTLS: true, ValidHostnameFn: c19ValidHost}}
}

func (s *c19Server) isDefault() bool { return s.inst != nil }

type c19Out struct {
	status int
	next   int
	peer   peer.ID
	www    string
	info   string
}

func (o c19Out) class(ks *c19Keys, want peer.ID) string {
	switch {
	case o.next > 0 && o.peer == want:
		return "next(same-peer)"
	case o.next > 0:
		return "next(other-peer)"
	case o.status == http.StatusUnauthorized && o.www != "":
		return "401+challenge"
	default:
		return fmt.Sprint(o.status)
	}
}

// serve runs ONE request through a fresh ServerPeerIDAuth (the handler keeps no state between requests
// apart from its HMAC pool) - or, for a server in the default configuration, through its one persistent
// value - and reports whether / with which peer ID the application callback ran.
func (s *c19Server) serve(host string, authz []string, viaServeHTTP bool) c19Out {
	var out c19Out
	next := func(p peer.ID, w http.ResponseWriter, r *http.Request) {
		out.next++
		out.peer = p
		w.WriteHeader(http.StatusOK)
	}
	a := s.inst
	if a == nil {
		a = &ServerPeerIDAuth{PrivKey: s.key.priv, TokenTTL: s.ttl, NoTLS: true, ValidHostnameFn: c19ValidHost, HmacKey: s.secret}
	}
	req := httptest.NewRequest("POST", "http://x.invalid/", nil)
	req.Host = host
	for _, v := range authz {
		req.Header.Add("Authorization", v)
	}
	rec := httptest.NewRecorder()
	if viaServeHTTP {
		a.Next = next
		a.ServeHTTP(rec, req)
		a.Next = nil
	} else {
		a.ServeHTTPWithNextHandler(rec, req, next)
	}
	out.status = rec.Code
	out.www = rec.Header().Get("WWW-Authenticate")
	out.info = rec.Header().Get("Authentication-Info")
	return out
}

// ---------- reference pieces (written for the harness, independent of the code under test) ----------

const c19Scheme = "libp2p-PeerID"

type c19Param struct{ k, v string }

// c19ParseHonest tokenizes a header value produced by an honest party: `libp2p-PeerID k="v", k="v"`.
func c19ParseHonest(h string) []c19Param {
	var ps []c19Param
	h = strings.TrimPrefix(h, c19Scheme)
	for _, f := range strings.Split(h, ",") {
		f = strings.TrimSpace(f)
		if f == "" {
			continue
		}
		k, v, ok := strings.Cut(f, "=")
		if !ok {
			continue
		}
		ps = append(ps, c19Param{k, strings.Trim(v, `"`)})
	}
	return ps
}

func c19Build(ps []c19Param) string {
	var sb strings.Builder
	sb.WriteString(c19Scheme + " ")
	for i, p := range ps {
		if i > 0 {
			sb.WriteString(", ")
		}
		sb.WriteString(p.k + `="` + p.v + `"`)
	}
	return sb.String()
}

func c19Get(ps []c19Param, k string) (string, bool) {
	for _, p := range ps {
		if p.k == k {
			return p.v, true
		}
	}
	return "", false
}

func c19With(ps []c19Param, k, v string) []c19Param {
	out := make([]c19Param, 0, len(ps)+1)
	done := false
	for _, p := range ps {
		if p.k == k {
			out = append(out, c19Param{k, v})
			done = true
		} else {
			out = append(out, p)
		}
	}
	if !done {
		out = append(out, c19Param{k, v})
	}
	return out
}

func c19Without(ps []c19Param, k string) []c19Param {
	out := make([]c19Param, 0, len(ps))
	for _, p := range ps {
		if p.k != k {
			out = append(out, p)
		}
	}
	return out
}

func c19B64(b []byte) string { return base64.URLEncoding.EncodeToString(b) }

func c19MustDec(v string) []byte {
	b, err := base64.URLEncoding.DecodeString(v)
	if err != nil {
		panic("c19 harness: honest value does not decode: " + err.Error())
	}
	return b
}

var c19Encs = []*base64.Encoding{base64.URLEncoding, base64.RawURLEncoding, base64.StdEncoding, base64.RawStdEncoding}

// c19Candidates returns every byte string that any double-quote-delimited piece of the header values decodes
// to under any of the four base64 variants: a superset of whatever a parser could extract as a parameter
// value. "Harmless re-encodings that decode to the same bytes" are thereby treated as the same content.
func c19Candidates(hdrs ...string) map[string]struct{} {
	set := map[string]struct{}{}
	for _, h := range hdrs {
		for _, piece := range strings.Split(h, `"`) {
			if piece == "" {
				continue
			}
			for _, e := range c19Encs {
				if b, err := e.DecodeString(piece); err == nil && len(b) > 0 {
					set[string(b)] = struct{}{}
				}
			}
		}
	}
	return set
}

// c19SignedData is the byte string the scheme signs: the scheme name followed by the parts sorted by key,
// each as uvarint(len(key)+1+len(value)) key '=' value.
func c19SignedData(parts map[string][]byte) []byte {
	keys := make([]string, 0, len(parts))
	for k := range parts {
		keys = append(keys, k)
	}
	sort.Strings(keys)
	buf := []byte(c19Scheme)
	for _, k := range keys {
		buf = binary.AppendUvarint(buf, uint64(len(k)+1+len(parts[k])))
		buf = append(buf, k...)
		buf = append(buf, '=')
		buf = append(buf, parts[k]...)
	}
	return buf
}

// what a client signs for a server / a server signs for a client
func c19ClientSigData(challengeClient string, serverPub []byte, hostname string) []byte {
	return c19SignedData(map[string][]byte{"challenge-client": []byte(challengeClient), "server-public-key": serverPub, "hostname": []byte(hostname)})
}

func c19ServerSigData(challengeServer string, clientPub []byte, hostname string) []byte {
	return c19SignedData(map[string][]byte{"challenge-server": []byte(challengeServer), "client-public-key": clientPub, "hostname": []byte(hostname)})
}

func c19Verify(k *c19Key, data, sig []byte) (ok bool) {
	defer func() {
		if recover() != nil {
			ok = false
		}
	}()
	ok, err := k.pub.Verify(data, sig)
	return ok && err == nil
}

// ---------- small utilities ----------

func c19Hash(parts ...string) uint64 {
	h := fnv.New64a()
	for _, p := range parts {
		h.Write([]byte(p))
		h.Write([]byte{0})
	}
	return h.Sum64()
}

func c19Mine(h uint64) bool {
	i, n := vrep.Shard()
	return int(h%uint64(n)) == i
}

// c19Bubble runs f in a fresh synctest bubble after advancing the bubble's virtual clock by off. Every
// bubble starts at the same virtual instant, so state recorded in one bubble at offset 0 is "off old" here.
func c19Bubble(t *testing.T, off time.Duration, f func()) {
	synctest.Test(t, func(t *testing.T) {
		if off > 0 {
			time.Sleep(off)
		}
		f()
	})
}

func c19Trunc(s string, n int) string {
	if len(s) <= n {
		return s
	}
	return s[:n] + fmt.Sprintf("...(%d bytes)", len(s))
}

func c19Dur(d time.Duration) string {
	if d%time.Second == 0 {
		return d.String()
	}
	base := d.Truncate(time.Second)
	return fmt.Sprintf("%s+%dns", base, int64(d-base))
}

var c19ChallengeTTL = handshake.VerifC19ChallengeTTL

// c19Offsets: {0, TTL-1s, TTL, TTL+1ns, 2*TTL}
func c19Offsets(ttl time.Duration) []time.Duration {
	return []time.Duration{0, ttl - time.Second, ttl, ttl + time.Nanosecond, 2 * ttl}
}

// base64 re-encodings of the same bytes, and textual near-misses
func c19B64Variants(b []byte) []c19Param {
	url := base64.URLEncoding.EncodeToString(b)
	vs := []c19Param{
		{"std", base64.StdEncoding.EncodeToString(b)},
		{"urlraw", base64.RawURLEncoding.EncodeToString(b)},
		{"stdraw", base64.RawStdEncoding.EncodeToString(b)},
		{"extrapad", url + "="},
		{"lower", strings.ToLower(url)},
		{"upper", strings.ToUpper(url)},
		{"chopchar", url[:len(url)-1]},
		{"crlf", url[:len(url)/2] + "\r\n" + url[len(url)/2:]},
	}
	// non-canonical trailing bits: same bytes under a lenient decoder
	raw := strings.TrimRight(url, "=")
	if len(b)%3 != 0 && len(raw) > 0 {
		const alpha = "ABCDEFGHIJKLMNOPQRSTUVWXYZabcdefghijklmnopqrstuvwxyz0123456789-_"
		i := strings.IndexByte(alpha, raw[len(raw)-1])
		if i >= 0 {
			vs = append(vs, c19Param{"trailbits", raw[:len(raw)-1] + string(alpha[i|1]) + url[len(raw):]})
		}
	}
	return vs
}
