//go:build verif

package handshake

import (
	"io"
	"time"
)

// Export shim for the C19 harness (injected by overlay only when building with -tags verif).

// VerifC19ChallengeTTL is the lifetime of a server challenge (the harness does not hard-code it).
const VerifC19ChallengeTTL time.Duration = challengeTTL

// VerifC19SetRand replaces the source of challenge randomness (client and server challenges) by a
// deterministic reader and returns a function restoring the previous one.
func VerifC19SetRand(r io.Reader) (restore func()) {
	old := randReader
	randReader = r
	return func() { randReader = old }
}
