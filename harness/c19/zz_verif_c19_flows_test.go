//go:build verif

package httppeeridauth

// C19, server side, histories: complete honest handshakes with the virtual clock stepped between the
// steps. a = age of the challenge when it is answered, b = age of the bearer token when it is used, both
// over {0, TTL-1s, TTL, TTL+1ns, 2*TTL}. "unexpired" / "any use after expiry": strictly inside the lifetime
// the request must reach Next with the client's ID (baseline), strictly after it must not; exactly at the
// boundary either answer is accepted.

import (
	"fmt"
	"net/http"
	"testing"
	"time"

	"github.com/libp2p/go-libp2p/p2p/http/auth/internal/handshake"
	"github.com/libp2p/go-libp2p/x/verif/vrep"
)

func TestVerifC19Flows(t *testing.T) {
	if vrep.ReplayPath() != "" {
		return
	}
	r := vrep.New("C19", "server-timed-flows")
	distinct := map[string]struct{}{}
	defer func() {
		r.Distinct = int64(len(distinct))
		r.Flush()
	}()
	deadline := vrep.Deadline()
	restore := handshake.VerifC19SetRand(c19Reader("flows-part"))
	defer restore()
	w := c19NewWorld()
	r.Bounds["flows"] = "2 flows x 4 key types x 2 clients x 2 servers x 2 hostnames"
	r.Bounds["challenge_age"] = "{0, TTL-1s, TTL, TTL+1ns, 2*TTL}, TTL = " + c19ChallengeTTL.String()
	r.Bounds["token_age"] = "{0, TTL-1s, TTL, TTL+1ns, 2*TTL}, TTL = 1h (S0) / 2m (S1), counted from the moment the token was issued"
	idx := 0
	shard, nshards := vrep.Shard()
	for _, flow := range []string{"si", "ci"} {
		for _, kt := range c19KeyTypes {
			for ci := 0; ci < 2; ci++ {
				for srv := 0; srv < 2; srv++ {
					for host := 0; host < 2; host++ {
						S, hn := w.servers[srv], c19Hosts[host]
						client := w.keys.get(kt, fmt.Sprint("client", ci))
						for _, a := range c19Offsets(c19ChallengeTTL) {
							for _, b := range c19Offsets(S.ttl) {
								idx++
								if idx%nshards != shard {
									continue
								}
								if time.Now().After(deadline) {
									r.Cap("deadline reached at flow %d", idx)
									return
								}
								name := fmt.Sprintf("%s/%s/c%d/s%d/h%d a=%s b=%s", flow, kt, ci, srv, host, c19Dur(a), c19Dur(b))
								rp := map[string]any{"part": "server-timed-flows", "flow": name}
								c19Bubble(t, 0, func() {
									hc := handshake.PeerIDAuthHandshakeClient{Hostname: hn, PrivKey: client.priv}
									authz := func() string { h := http.Header{}; hc.AddHeader(h); return h.Get("Authorization") }
									var r1 c19Out
									if flow == "ci" {
										hc.SetInitiateChallenge()
										hc.Run()
										r1 = S.serve(hn, []string{authz()}, false)
									} else {
										r1 = S.serve(hn, nil, false)
									}
									r.Executions++
									if r1.next != 0 {
										r.Violate("server-reported-unproven-peer/first-step", "Next called on the first step of "+name+" with peer "+w.keys.name(r1.peer), rp)
										return
									}
									if hc.ParseHeader(c19Hdr("WWW-Authenticate", r1.www)) != nil || hc.Run() != nil {
										r.Violate("baseline-handshake-failed", "honest client cannot process the server's first answer in "+name, rp)
										return
									}
									time.Sleep(a)
									r2 := S.serve(hn, []string{authz()}, true)
									r.Executions++
									ok2 := r2.next > 0
									if ok2 && r2.peer != client.id {
										r.Violate("server-reported-unproven-peer/other-peer", "Next called with "+w.keys.name(r2.peer)+" instead of the client in "+name, rp)
										return
									}
									switch {
									case a < c19ChallengeTTL && !ok2:
										r.Violate("baseline-rejected", fmt.Sprintf("challenge answered after %s (lifetime %s) was rejected with status %d in %s", c19Dur(a), c19ChallengeTTL, r2.status, name), rp)
										return
									case a > c19ChallengeTTL && ok2:
										r.Violate("server-reported-unproven-peer/expired-challenge", fmt.Sprintf("challenge answered %s after it was issued (lifetime %s) reached Next in %s", c19Dur(a), c19ChallengeTTL, name), rp)
										return
									}
									cls := fmt.Sprintf("challenge age %s: accepted=%v", c19AgeClass(a, c19ChallengeTTL), ok2)
									if !ok2 {
										r.Outcome(cls)
										distinct[fmt.Sprint(flow, kt, ci, srv, host, a)] = struct{}{}
										return
									}
									if hc.ParseHeader(c19Hdr("Authentication-Info", r2.info)) != nil || hc.Run() != nil || hc.BearerToken() == "" {
										r.Violate("baseline-handshake-failed", "honest client cannot process the server's second answer in "+name, rp)
										return
									}
									tok := hc.BearerToken()
									time.Sleep(b)
									r3 := S.serve(hn, []string{tok}, false)
									r.Executions++
									ok3 := r3.next > 0
									if ok3 && r3.peer != client.id {
										r.Violate("server-reported-unproven-peer/other-peer", "Next called with "+w.keys.name(r3.peer)+" instead of the client (bearer) in "+name, rp)
										return
									}
									switch {
									case b < S.ttl && !ok3:
										r.Violate("baseline-rejected", fmt.Sprintf("bearer token used %s after it was issued (TokenTTL %s) was rejected with status %d in %s", c19Dur(b), S.ttl, r3.status, name), rp)
										return
									case b > S.ttl && ok3:
										r.Violate("server-reported-unproven-peer/expired-token", fmt.Sprintf("bearer token used %s after it was issued (TokenTTL %s) reached Next in %s", c19Dur(b), S.ttl, name), rp)
										return
									}
									r.Outcome(cls + fmt.Sprintf("; token age %s: accepted=%v", c19AgeClass(b, S.ttl), ok3))
									distinct[fmt.Sprint(flow, kt, ci, srv, host, a, b)] = struct{}{}
									if a == c19ChallengeTTL-time.Second && b == S.ttl+time.Nanosecond && len(r.Samples) < 2 {
										r.Sample(map[string]any{"history": name, "step2": fmt.Sprintf("status %d next=%d", r2.status, r2.next), "step3": fmt.Sprintf("status %d next=%d", r3.status, r3.next)})
									}
								})
							}
						}
					}
				}
			}
		}
	}
}

func c19AgeClass(d, ttl time.Duration) string {
	switch {
	case d == 0:
		return "0"
	case d < ttl:
		return "<TTL"
	case d == ttl:
		return "=TTL"
	case d == ttl+time.Nanosecond:
		return "TTL+1ns"
	}
	return ">TTL"
}
