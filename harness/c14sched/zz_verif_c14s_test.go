//go:build verif

package connmgr

// C14, concurrent part. Engine E2: package connmgr instrumented; notifier / tagger / protector / trimmer
// threads race on a small population of peers past their grace period. Oracle at quiescence: connection count
// and every peer's tag total equal what the delivered notifications and the (commuting) tag operations imply;
// a peer that was protected before the trim began and never unprotected is not closed; a peer inside its grace
// period is never closed; nothing is closed when the count was at or below the low watermark for the whole
// trim; no deadlock (segment / protection lock order), no panic.

import (
	"context"
	"fmt"
	"os"
	"sort"
	"strings"
	"sync"
	"testing"
	"time"

	"github.com/libp2p/go-libp2p/core/connmgr"
	"github.com/libp2p/go-libp2p/core/network"
	"github.com/libp2p/go-libp2p/core/peer"
	"github.com/libp2p/go-libp2p/x/verif/vrep"
	vs "github.com/libp2p/go-libp2p/x/verif/vsched"
	ma "github.com/multiformats/go-multiaddr"
)

type c14sConn struct {
	network.Conn
	name     string
	p        peer.ID
	mu       sync.Mutex
	closedAt int64
	streams  int
	dir      network.Direction
}

func (c *c14sConn) RemotePeer() peer.ID { return c.p }
func (c *c14sConn) RemoteMultiaddr() ma.Multiaddr {
	return ma.StringCast("/ip4/1.2.3.4/tcp/" + fmt.Sprint(1000+int(c.name[len(c.name)-1])))
}
func (c *c14sConn) Close() error { return c.CloseWithError(0) }
func (c *c14sConn) CloseWithError(network.ConnErrorCode) error {
	vs.Yield()
	c.mu.Lock()
	if c.closedAt == 0 {
		c.closedAt = vs.Stamp()
	}
	c.mu.Unlock()
	return nil
}
func (c *c14sConn) IsClosed() bool { c.mu.Lock(); defer c.mu.Unlock(); return c.closedAt != 0 }
func (c *c14sConn) Stat() network.ConnStats {
	return network.ConnStats{Stats: network.Stats{Direction: c.dir}, NumStreams: c.streams}
}
func (c *c14sConn) GetStreams() []network.Stream { return make([]network.Stream, c.streams) }
func (c *c14sConn) String() string               { return "conn(" + c.name + ")" }

type c14sScn struct {
	Name    string
	Low, Hi int
	Peers   []string // connected and past grace before the race
	Tags    map[string]int
	Prot    []string // protected before the race
	Race    func(e *c14sEnv) []func()
	Bound   int // quick-tier deviation bound (default 1; scenarios without a trim are small enough for 3)
}

type c14sEnv struct {
	x             *vs.Exec
	cm            *BasicConnMgr
	conns         map[string]*c14sConn // by peer name (+suffix)
	nConn         int                  // Connected minus Disconnected delivered
	tags          map[string]map[string]int
	trims         [][2]int64 // [start,end] stamps of trims
	protAt        map[string]int64
	unprot        map[string]bool
	fresh         map[string]bool // peers connected during the race (inside grace)
	gone          map[string]bool // connections whose Disconnected was delivered by the scenario
	lowAllTheTime bool
	allowed       map[string][]int // peers whose tag operations do not commute: the totals some order produces
}

func c14sPeer(n string) peer.ID { return peer.ID("verif-peer-" + n) }

func (e *c14sEnv) connect(name, peerName string) *c14sConn {
	c := &c14sConn{name: name, p: c14sPeer(peerName), dir: network.DirInbound}
	vs.Locked(func() { e.conns[name] = c; e.nConn++ })
	e.cm.Notifee().Connected(nil, c)
	return c
}

func (e *c14sEnv) tag(p, tag string, v int) {
	e.cm.TagPeer(c14sPeer(p), tag, v)
	vs.Locked(func() {
		if e.tags[p] == nil {
			e.tags[p] = map[string]int{}
		}
		e.tags[p][tag] = v
	})
}

func (e *c14sEnv) trim() {
	st := vs.Stamp()
	e.cm.TrimOpenConns(context.Background())
	e.trims = append(e.trims, [2]int64{st, vs.Stamp()})
}

func c14sBody(sc c14sScn) func(x *vs.Exec) {
	return func(x *vs.Exec) {
		s := x.S
		cm, err := NewConnManager(sc.Low, sc.Hi, WithGracePeriod(10*time.Second), WithSilencePeriod(time.Hour))
		if err != nil {
			panic(err)
		}
		e := &c14sEnv{x: x, cm: cm, allowed: map[string][]int{}, conns: map[string]*c14sConn{}, tags: map[string]map[string]int{}, protAt: map[string]int64{}, unprot: map[string]bool{}, fresh: map[string]bool{}, gone: map[string]bool{}}
		s.Go("setup", func() {
			for _, p := range sc.Peers {
				e.connect(p+"1", p)
			}
			names := make([]string, 0, len(sc.Tags))
			for k := range sc.Tags {
				names = append(names, k)
			}
			sort.Strings(names)
			for _, p := range names {
				e.tag(p, "base", sc.Tags[p])
			}
			for _, p := range sc.Prot {
				cm.Protect(c14sPeer(p), "keep")
				e.protAt[p] = vs.Stamp()
			}
			vs.Sleep(11 * time.Second) // everybody is past the grace period
		})
		if !s.Run() && !s.Free {
			x.Fail("deadlock", "setup: %s", s.Deadlock)
			return
		}
		for i, f := range sc.Race(e) {
			s.Go(fmt.Sprintf("t%d", i), f)
		}
		ok := s.Run()
		if !ok && s.Deadlock != "" {
			x.Fail("deadlock", "threads blocked forever: %s", s.Deadlock)
		}
		if ok {
			c14sOracle(x, sc, e)
		}
		var closed []string
		for n, c := range e.conns {
			if c.closedAt != 0 {
				closed = append(closed, n)
			}
		}
		sort.Strings(closed)
		x.Outcome = "closed=" + strings.Join(closed, ",")
		s.Go("teardown", func() { cm.Close() })
		s.Drain()
	}
}

func c14sOracle(x *vs.Exec, sc c14sScn, e *c14sEnv) {
	if got := e.cm.GetInfo().ConnCount; got != e.nConn {
		x.Fail("conn-count-wrong", "GetInfo().ConnCount=%d, the notifications delivered imply %d", got, e.nConn)
		return
	}
	for p, tags := range e.tags {
		want := 0
		for _, v := range tags {
			want += v
		}
		ti := e.cm.GetTagInfo(c14sPeer(p))
		if ti == nil {
			if want != 0 {
				x.Fail("tag-total-wrong", "peer %s: no tag info, tag operations imply total %d", p, want)
				return
			}
			continue
		}
		if ti.Value != want {
			x.Fail("tag-total-wrong", "peer %s: tag total %d, tag operations imply %d (tags %v vs %v)", p, ti.Value, want, ti.Tags, tags)
			return
		}
	}
	// a peer with a connection whose Connected was delivered and whose Disconnected was not is known to the manager
	for name, c := range e.conns {
		if e.gone[name] {
			continue
		}
		if e.cm.GetTagInfo(c.p) == nil {
			x.Fail("connected-peer-unknown", "connection %s was announced (Connected) and never Disconnected, but the manager has no record of its peer (GetTagInfo is nil; a later Disconnected will be ignored and the connection count stay too high)", name)
			return
		}
	}
	// the cached total of every peer equals the sum of its tags (no decaying tags in these scenarios)
	for _, p := range []string{"A", "B", "C", "D"} {
		ti := e.cm.GetTagInfo(c14sPeer(p))
		if ti == nil {
			continue
		}
		sum := 0
		for _, v := range ti.Tags {
			sum += v
		}
		if ti.Value != sum {
			x.Fail("tag-total-differs-from-sum-of-tags", "peer %s: tag total %d, its tags %v sum to %d", p, ti.Value, ti.Tags, sum)
			return
		}
		if allowed, ok := e.allowed[p]; ok {
			okv := false
			for _, a := range allowed {
				if ti.Value == a {
					okv = true
				}
			}
			if !okv {
				x.Fail("tag-total-not-a-linearisation", "peer %s: tag total %d is not the result of any order of the concurrent tag operations (allowed %v)", p, ti.Value, allowed)
				return
			}
		}
	}
	for name, c := range e.conns {
		if c.closedAt == 0 {
			continue
		}
		p := name[:len(name)-1]
		// which trim closed it
		var tr *[2]int64
		for i := range e.trims {
			if c.closedAt > e.trims[i][0] && c.closedAt < e.trims[i][1] {
				tr = &e.trims[i]
			}
		}
		if at, ok := e.protAt[p]; ok && !e.unprot[p] && tr != nil && at < tr[0] {
			x.Fail("protected-peer-trimmed", "connection %s closed by a trim that began at %d, but peer %s was protected at %d and never unprotected", name, tr[0], p, at)
			return
		}
		if e.fresh[p] || e.fresh[name] { // (by peer, or by connection where an older connection of the peer existed)
			x.Fail("peer-in-grace-period-trimmed", "connection %s of peer %s closed although the peer connected during the race (inside its grace period)", name, p)
			return
		}
		if e.lowAllTheTime {
			x.Fail("trimmed-at-or-below-low-watermark", "connection %s closed although the connection count never exceeded the low watermark", name)
			return
		}
	}
}

func c14sScenarios(thorough bool) []c14sScn {
	scs := []c14sScn{
		{Name: "trim races protect, tag and a new connection", Low: 1, Hi: 2, Peers: []string{"A", "B", "C"}, Tags: map[string]int{"A": 10, "B": 5, "C": 1},
			Race: func(e *c14sEnv) []func() {
				return []func(){
					func() { e.trim() },
					func() {
						e.cm.Protect(c14sPeer("C"), "keep")
						e.protAt["C"] = vs.Stamp()
					},
					func() {
						e.tag("B", "extra", 20)
						e.cm.UpsertTag(c14sPeer("A"), "up", func(v int) int { return v + 3 })
						e.tags["A"]["up"] = 3
					},
					func() { e.fresh["D"] = true; e.connect("D1", "D") },
				}
			}},
		{Name: "two trims race with a protected lowest-value peer", Low: 1, Hi: 2, Peers: []string{"A", "B", "C"}, Tags: map[string]int{"A": 10, "B": 5, "C": 1}, Prot: []string{"C"},
			Race: func(e *c14sEnv) []func() {
				return []func(){
					func() { e.trim() },
					func() { e.trim() },
					func() { e.cm.UntagPeer(c14sPeer("B"), "base"); delete(e.tags["B"], "base") },
				}
			}},
		{Name: "disconnect and duplicate notifications race a trim", Low: 2, Hi: 3, Peers: []string{"A", "B", "C"}, Tags: map[string]int{"A": 3},
			Race: func(e *c14sEnv) []func() {
				return []func(){
					func() { e.trim() },
					func() {
						c := e.conns["A1"]
						e.connect("A2", "A") // the peer stays tracked through its second connection
						e.fresh["A"] = false
						e.cm.Notifee().Disconnected(nil, c)
						e.nConn--
						vs.Locked(func() { e.gone["A1"] = true })
						e.cm.Notifee().Disconnected(nil, c) // duplicate: must not count twice
						c2 := e.conns["C1"]
						e.cm.Notifee().Disconnected(nil, c2) // last connection of C: its record goes
						e.nConn--
						vs.Locked(func() { e.gone["C1"] = true })
						e.cm.Notifee().Disconnected(nil, c2) // duplicate for a peer that is no longer tracked
					},
					func() {
						e.cm.Notifee().Connected(nil, e.conns["B1"]) // duplicate: must not count twice
						e.connect("B2", "B")
					},
				}
			}},
		{Name: "a peer's last connection drops and the peer reconnects and is tagged while a trim runs", Low: 1, Hi: 2, Peers: []string{"A", "B", "C"}, Tags: map[string]int{"A": 10, "B": 5, "C": 1},
			Race: func(e *c14sEnv) []func() {
				return []func(){
					func() { e.trim() },
					func() {
						e.cm.Notifee().Disconnected(nil, e.conns["C1"]) // last connection of C: its record goes, its tags with it
						vs.Locked(func() { e.nConn--; delete(e.tags, "C"); e.fresh["C2"] = true; e.gone["C1"] = true })
						e.connect("C2", "C") // a new record, inside its grace period
						e.tag("C", "again", 7)
					},
				}
			}},
		{Name: "a peer that was tagged early (temporary record past the grace period) connects while a trim runs", Low: 1, Hi: 2, Peers: []string{"A", "B", "C"}, Tags: map[string]int{"A": 10, "B": 5, "C": 3, "D": 1},
			Race: func(e *c14sEnv) []func() {
				// the trim may prune the temporary record before the peer connects (its early tag goes with it, as in the
				// sequential model: "trim: early-tag entry pruned"), so D's tag total is only checked for consistency
				delete(e.tags, "D")
				return []func(){
					func() { e.trim() },
					func() {
						vs.Locked(func() { e.fresh["D1"] = true })
						e.connect("D1", "D") // the record stops being temporary: its grace period starts now
					},
				}
			}},
		{Name: "the periodic trim overlaps an explicit trim while an early-tagged peer (temporary record past the grace period) connects", Low: 1, Hi: 2, Peers: []string{"A", "B", "C"}, Tags: map[string]int{"A": 10, "B": 5, "C": 3, "D": 1},
			Race: func(e *c14sEnv) []func() {
				delete(e.tags, "D")          // its early tag may be pruned with the temporary record before it connects ...
				e.allowed["D"] = []int{7, 8} // ... or survive: both totals are what some order of the operations implies
				return []func(){
					func() { e.trim() },
					func() { e.cm.trim() }, // what the background ticker runs (it does not take the trim mutex)
					func() {
						vs.Locked(func() { e.fresh["D1"] = true })
						e.connect("D1", "D")
						e.cm.TagPeer(c14sPeer("D"), "again", 7)
					},
				}
			}},
		{Name: "a decaying tag is bumped and then closed", Bound: 3, Low: 3, Hi: 4, Peers: []string{"A", "B", "C"}, Tags: map[string]int{"A": 10, "B": 7},
			Race: func(e *c14sEnv) []func() {
				return []func(){
					func() {
						dec, ok := connmgr.SupportsDecay(e.cm)
						if !ok {
							panic("c14s: no decayer")
						}
						tag, err := dec.RegisterDecayingTag("verif-decaying", time.Hour, connmgr.DecayNone(), connmgr.BumpSumUnbounded())
						if err != nil {
							panic(err)
						}
						// one caller, one after the other: the bump is accepted, then the tag is closed; a closed tag contributes
						// nothing to any peer
						// (the first bump keeps the decayer busy, so that the second bump and the close are both queued when
						// it comes back to its select)
						if err := tag.Bump(c14sPeer("B"), 1); err != nil {
							panic(err)
						}
						if err := tag.Bump(c14sPeer("A"), 5); err != nil {
							panic(err)
						}
						if err := tag.Close(); err != nil {
							panic(err)
						}
					},
				}
			}},
		{Name: "a decaying tag is bumped and then removed from the peer", Bound: 3, Low: 3, Hi: 4, Peers: []string{"A", "B", "C"}, Tags: map[string]int{"A": 10, "B": 7},
			Race: func(e *c14sEnv) []func() {
				return []func(){
					func() {
						dec, ok := connmgr.SupportsDecay(e.cm)
						if !ok {
							panic("c14s: no decayer")
						}
						tag, err := dec.RegisterDecayingTag("verif-decaying", time.Hour, connmgr.DecayNone(), connmgr.BumpSumUnbounded())
						if err != nil {
							panic(err)
						}
						// one caller, one after the other (the first bump keeps the decayer busy): bump A, then remove the tag from A
						if err := tag.Bump(c14sPeer("B"), 1); err != nil {
							panic(err)
						}
						vs.Locked(func() { e.tags["B"]["verif-decaying"] = 1 })
						if err := tag.Bump(c14sPeer("A"), 5); err != nil {
							panic(err)
						}
						if err := tag.Remove(c14sPeer("A")); err != nil {
							panic(err)
						}
					},
				}
			}},
		{Name: "UpsertTag races TagPeer on one peer and one tag", Bound: 3, Low: 1, Hi: 2, Peers: []string{"A", "B", "C"}, Tags: map[string]int{"B": 50, "C": 60},
			Race: func(e *c14sEnv) []func() {
				delete(e.tags, "A")
				e.allowed["A"] = []int{10, 15}
				return []func(){
					func() { e.cm.UpsertTag(c14sPeer("A"), "x", func(v int) int { return v + 5 }) },
					func() { e.cm.TagPeer(c14sPeer("A"), "x", 10) },
				}
			}},
		{Name: "tag operations on one peer and one tag race each other and a trim", Low: 1, Hi: 2, Peers: []string{"A", "B", "C"}, Tags: map[string]int{"B": 50, "C": 60},
			Race: func(e *c14sEnv) []func() {
				// A starts without tags; x is touched by three threads. Orders: upsert(+5), tag(10), untag in any order
				delete(e.tags, "A")
				e.allowed["A"] = []int{0, 5, 10, 15}
				return []func(){
					func() { e.cm.UpsertTag(c14sPeer("A"), "x", func(v int) int { return v + 5 }) },
					func() { e.cm.TagPeer(c14sPeer("A"), "x", 10) },
					func() { e.cm.UntagPeer(c14sPeer("A"), "x") },
					func() { e.trim() },
				}
			}},
		{Name: "count at the low watermark: trim does nothing while tags and protections change", Low: 3, Hi: 4, Peers: []string{"A", "B", "C"},
			Race: func(e *c14sEnv) []func() {
				e.lowAllTheTime = true
				return []func(){
					func() { e.trim() },
					func() { e.tag("A", "x", 1); e.cm.Protect(c14sPeer("B"), "t"); e.cm.Unprotect(c14sPeer("B"), "t") },
				}
			}},
	}
	if thorough {
		scs = append(scs, c14sScn{Name: "forced trim races protect and unprotect with two tags", Low: 1, Hi: 2, Peers: []string{"A", "B", "C"}, Tags: map[string]int{"A": 10, "B": 5, "C": 1}, Prot: []string{"A"},
			Race: func(e *c14sEnv) []func() {
				return []func(){
					func() { e.trim() },
					func() {
						e.cm.Protect(c14sPeer("B"), "t1")
						e.cm.Protect(c14sPeer("B"), "t2")
						e.protAt["B"] = vs.Stamp()
						if !e.cm.Unprotect(c14sPeer("B"), "t1") {
							e.x.Fail("unprotect-reports-unprotected-with-tag-left", "Unprotect(t1) returned false while tag t2 still protects the peer")
						}
					},
					func() { e.trim() },
				}
			}})
	}
	return scs
}

func c14sScenario(sc c14sScn) *vs.Scenario {
	return &vs.Scenario{Name: sc.Name, Body: c14sBody(sc), LeakIsViolation: true,
		Opt: vs.Options{Horizon: 30 * time.Second, IdleStep: 997 * time.Millisecond, MaxSteps: 20000}}
}

func TestVerifC14Sched(t *testing.T) {
	scs := c14sScenarios(vrep.Thorough())
	if p := vrep.ReplayPath(); p != "" {
		rp, err := vs.LoadReplay(p)
		if err != nil {
			t.Skip("not a scheduler replay")
		}
		for _, sc := range c14sScenarios(true) {
			if sc.Name == rp.Scenario {
				x := vs.Replay(t, c14sScenario(sc), rp.Choices)
				fmt.Fprintf(os.Stdout, "REPLAY %s choices=%v\n%s\nverdict: key=%q %s\npanic=%s outcome=%s\n", sc.Name, rp.Choices, strings.Join(x.S.Log, "\n"), x.VioKey, x.VioDesc, x.Panic, x.Outcome)
				return
			}
		}
		return
	}
	if vs.FreeMode() {
		// free-running pass for the race detector (validates the data-race-freedom assumption of the scheduler)
		r := vrep.New("C14", "race-pass")
		dl := vrep.Deadline()
		n := 0
		for time.Now().Before(dl) {
			for _, sc := range scs {
				runs, _ := vs.FreeRun(t, c14sScenario(sc), 3, dl)
				n += runs
			}
		}
		r.Executions = int64(n)
		r.Note("free-running executions: %d", n)
		r.Flush()
		return
	}
	si, sn := vrep.Shard()
	// a trim takes every one of the 256 segment locks twice (~600 scheduling points), so the schedule space is
	// wide: deviation bound 1 in the quick tier, 2 in the thorough tier
	bound := 1
	if vrep.Thorough() {
		bound = 2
	}
	r := vrep.New("C14", "connmgr-schedules")
	r.Bounds["deviation_bound"] = bound
	r.Bounds["scenarios"] = len(scs)
	for i, sc := range scs {
		left := time.Until(vrep.Deadline())
		share := left / time.Duration(len(scs)-i)
		b := bound
		if sc.Bound > 0 {
			b = sc.Bound
			if vrep.Thorough() {
				b++
			}
		}
		vs.Explore(t, c14sScenario(sc), vs.Config{MaxBound: b, Deadline: time.Now().Add(share), ShardI: si, ShardN: sn, Property: "C14"}, r)
	}
	r.Flush()
}
