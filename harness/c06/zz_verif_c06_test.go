//go:build verif

package swarm

// C06: Connected/Disconnected notifications and connectedness events. Engine E2 over the instrumented swarm
// package with the fake network of harness/swarmfix. Every scenario is a small closed system of threads
// (opening, closing, closing from inside a handler, inbound stream, swarm shutdown); all schedules within the
// deviation bound are explored and the oracle below is evaluated at quiescence.

import (
	"context"
	"fmt"
	"os"
	"sort"
	"strings"
	"testing"
	"time"

	"github.com/libp2p/go-libp2p/core/event"
	"github.com/libp2p/go-libp2p/core/network"
	"github.com/libp2p/go-libp2p/core/peer"
	"github.com/libp2p/go-libp2p/core/peerstore"
	"github.com/libp2p/go-libp2p/p2p/host/eventbus"
	vs "github.com/libp2p/go-libp2p/x/verif/vsched"
	"github.com/libp2p/go-libp2p/x/verif/vrep"
	ma "github.com/multiformats/go-multiaddr"
)

type c06ConnSpec struct {
	Peer     string // remote identity name
	Limited  bool
	Outbound bool   // dialled through DialPeer (else inbound through addConn)
	Closer   string // "", "app" (Conn.Close as soon as Connected has started), "app-after" (after addConn returned), "remote" (transport conn dies), "in-connected" (closed from inside the Connected handler)
	Stream   bool   // the remote opens a stream as soon as Connected has started
}

type c06Scn struct {
	Name       string
	Conns      []c06ConnSpec
	SwarmClose bool // Swarm.Close() from its own thread
	TwoClosers bool // ... and a second, overlapping Swarm.Close() from another thread: EVERY Close call returns only after the callbacks
	Notifiees  int
}

type c06ConnRun struct {
	spec     c06ConnSpec
	fc       *fxConn
	c        *Conn
	err      error
	seen     chan struct{} // closed when Connected started for it
	admitted chan struct{} // closed when addConn / DialPeer returned
	closeReq bool
}

type c06Handler struct {
	conn  network.Conn
	start int64
}

func c06Body(sc c06Scn) func(x *vs.Exec) {
	return func(x *vs.Exec) {
		s := x.S
		env := fxNewEnv(0, 0)
		sub, err := env.Bus.Subscribe(new(event.EvtPeerConnectednessChanged), eventbus.BufSize(256))
		if err != nil {
			panic(err)
		}
		runs := make([]*c06ConnRun, len(sc.Conns))
		byFx := map[*fxConn]*c06ConnRun{}
		for i, cs := range sc.Conns {
			runs[i] = &c06ConnRun{spec: cs, seen: make(chan struct{}), admitted: make(chan struct{})}
		}
		find := func(c network.Conn) *c06ConnRun {
			sc, ok := c.(*Conn)
			if !ok {
				return nil
			}
			fc, ok := sc.conn.(*fxConn)
			if !ok {
				return nil
			}
			return byFx[fc]
		}
		notifiees := []*fxNotifiee{env.Note}
		for i := 1; i < sc.Notifiees; i++ {
			n := &fxNotifiee{}
			notifiees = append(notifiees, n)
			env.Swarm.Notify(n)
		}
		env.Note.onConn = func(_ network.Network, c network.Conn) {
			if s.Free {
				return
			}
			r := find(c)
			if r == nil {
				// outbound conns are created inside the transport: bind on first sight
				sc := c.(*Conn)
				fc := sc.conn.(*fxConn)
				for _, cand := range runs {
					if cand.spec.Outbound && cand.fc == nil && fxID(cand.spec.Peer).ID == fc.remote.ID {
						cand.fc = fc
						byFx[fc] = cand
						r = cand
						break
					}
				}
			}
			if r == nil {
				return
			}
			r.c = c.(*Conn)
			vs.Close(r.seen)
			if r.spec.Closer == "in-connected" {
				c.Close()
			}
		}
		var handlers []c06Handler
		env.Swarm.SetStreamHandler(func(st network.Stream) {
			h := c06Handler{conn: st.Conn(), start: vs.Stamp()}
			vs.Locked(func() { handlers = append(handlers, h) })
			st.Reset()
		})
		var closeStart, closeEnd int64

		// inbound transport connections exist before the swarm hears of them; the remote's stream threads are
		// created first (lowest ids) so that "the remote opens a stream early" is part of the default schedule
		for i, r := range runs {
			if !r.spec.Outbound {
				tp := env.TCP
				if r.spec.Limited {
					tp = env.Relay
				}
				tp.mu.Lock()
				tp.nconn++
				name := fmt.Sprintf("%s-in#%d", tp.name, tp.nconn)
				tp.mu.Unlock()
				r.fc = fxNewConn(name, tp, env.Local, fxID(r.spec.Peer), ma.StringCast(fmt.Sprintf("/ip4/1.2.3.%d/tcp/4001", 10+i)), tp.limited)
				byFx[r.fc] = r
			}
			if r.spec.Stream {
				s.Go(fmt.Sprintf("remote-stream%d", i), func() {
					if r.fc == nil {
						// outbound: the transport connection exists only once the dial completed
						_, _, stopped := vs.RecvOr(r.seen, r.admitted)
						if stopped && r.fc == nil {
							return
						}
					} else {
						vs.Yield() // inbound: the remote may open its stream at any time
					}
					if !r.fc.isClosed() {
						select {
						case r.fc.incoming <- &fxStream{conn: r.fc, id: 99, inbound: true, done: make(chan struct{})}:
						default:
						}
						vs.Yield()
					}
				})
			}
		}
		for i, r := range runs {
			id := fxID(r.spec.Peer)
			if r.spec.Outbound {
				addr := ma.StringCast(fmt.Sprintf("/ip4/1.2.3.%d/tcp/4001", 10+i))
				tp := env.TCP
				if r.spec.Limited {
					addr = ma.StringCast(fmt.Sprintf("/ip4/1.2.3.%d/tcp/4001/p2p/%s/p2p-circuit", 10+i, fxID("relay").ID))
					tp = env.Relay
				}
				env.PS.AddAddr(id.ID, addr, peerstore.PermanentAddrTTL)
				s.Go(fmt.Sprintf("dial%d", i), func() {
					ctx := context.Background()
					if r.spec.Limited {
						ctx = network.WithAllowLimitedConn(ctx, "verif")
					}
					c, err := env.Swarm.DialPeer(ctx, id.ID)
					r.err = err
					if err == nil {
						r.c = c.(*Conn)
						if fc, ok := r.c.conn.(*fxConn); ok && r.fc == nil {
							r.fc = fc
							byFx[fc] = r
						}
					}
					vs.Close(r.admitted)
				})
				s.Go(fmt.Sprintf("dial%d-completes", i), func() { tp.Complete(addr, fxOK) })
			} else {
				s.Go(fmt.Sprintf("inbound%d", i), func() {
					c, err := env.Swarm.addConn(r.fc, network.DirInbound)
					r.err = err
					if err == nil {
						r.c = c
					}
					vs.Close(r.admitted)
				})
			}
			switch r.spec.Closer {
			case "app":
				r.closeReq = true
				s.Go(fmt.Sprintf("app-close%d", i), func() {
					_, _, stopped := vs.RecvOr(r.seen, r.admitted)
					if stopped && r.c == nil {
						return // never admitted
					}
					r.c.Close()
				})
			case "app-after":
				r.closeReq = true
				s.Go(fmt.Sprintf("app-close-after%d", i), func() {
					vs.Recv(-9, r.admitted)
					if r.c != nil {
						r.c.Close()
					}
				})
			case "remote":
				r.closeReq = true
				s.Go(fmt.Sprintf("remote-close%d", i), func() {
					_, _, stopped := vs.RecvOr(r.seen, r.admitted)
					if stopped && r.fc == nil {
						return
					}
					r.fc.Close()
				})
			case "in-connected":
				r.closeReq = true
			}
		}
		if sc.SwarmClose {
			s.Go("swarm-close", func() {
				closeStart = vs.Stamp()
				env.Swarm.Close()
				closeEnd = vs.Stamp()
			})
		}
		var closeEnd2 int64
		if sc.SwarmClose && sc.TwoClosers {
			s.Go("swarm-close-2", func() {
				env.Swarm.Close()
				closeEnd2 = vs.Stamp()
			})
		}
		ok := s.Run()
		if !ok {
			if s.Deadlock != "" {
				x.Fail("deadlock", "threads blocked forever: %s", s.Deadlock)
			}
		} else {
			if closeEnd2 > 0 && closeEnd2 < closeEnd {
				closeEnd = closeEnd2 // the Close call that returned first is the one every callback must precede
			}
			c06Oracle(x, sc, env, runs, notifiees, handlers, sub, closeStart, closeEnd)
		}
		x.Outcome = c06Outcome(env, runs, notifiees[0], closeEnd)
		// tear down under the scheduler
		s.Go("teardown", func() {
			sub.Close()
			env.Close()
		})
		if !s.Drain() && s.Deadlock != "" {
			x.Fail("deadlock-in-close", "Swarm.Close did not finish: %s", s.Deadlock)
		}
	}
}

func c06Outcome(env *fxEnv, runs []*c06ConnRun, n *fxNotifiee, closeEnd int64) string {
	var sb strings.Builder
	for _, nt := range n.Notes() {
		idx := -1
		for i, r := range runs {
			if r.c != nil && network.Conn(r.c) == nt.Conn {
				idx = i
			}
		}
		fmt.Fprintf(&sb, "%s%d ", nt.Kind[:1], idx)
	}
	for i, r := range runs {
		if r.err != nil {
			fmt.Fprintf(&sb, "err%d ", i)
		}
	}
	return strings.TrimSpace(sb.String())
}

func c06Oracle(x *vs.Exec, sc c06Scn, env *fxEnv, runs []*c06ConnRun, notifiees []*fxNotifiee, handlers []c06Handler,
	sub event.Subscription, closeStart, closeEnd int64) {
	swarmClosed := sc.SwarmClose
	type cnt struct {
		conn, disc       int
		connEnd, discBeg int64
	}
	for ni, n := range notifiees {
		per := map[network.Conn]*cnt{}
		for _, nt := range n.Notes() {
			c := per[nt.Conn]
			if c == nil {
				c = &cnt{}
				per[nt.Conn] = c
			}
			if nt.End == 0 {
				x.Fail("callback-unfinished", "notifiee %d: %s callback for %v never returned although everything is quiescent", ni, nt.Kind, nt.Conn)
				return
			}
			if swarmClosed && closeEnd > 0 && (nt.Start > closeEnd || nt.End > closeEnd) {
				x.Fail("notification-after-swarm-close", "notifiee %d: %s for %v ran at [%d,%d] but Swarm.Close returned at %d", ni, nt.Kind, nt.Conn, nt.Start, nt.End, closeEnd)
				return
			}
			switch nt.Kind {
			case "connected":
				c.conn++
				c.connEnd = nt.End
			case "disconnected":
				c.disc++
				c.discBeg = nt.Start
			}
		}
		for i, r := range runs {
			admitted := r.err == nil && r.c != nil
			var c *cnt
			if r.c != nil {
				c = per[network.Conn(r.c)]
			}
			if c == nil {
				c = &cnt{}
			}
			if admitted && c.conn != 1 {
				x.Fail("connected-not-exactly-once", "notifiee %d: connection %d was admitted but Connected ran %d times", ni, i, c.conn)
				return
			}
			if c.conn > 1 || c.disc > 1 {
				x.Fail("notification-repeated", "notifiee %d: connection %d: Connected x%d, Disconnected x%d", ni, i, c.conn, c.disc)
				return
			}
			if c.disc == 1 && c.conn == 0 {
				x.Fail("disconnected-without-connected", "notifiee %d: connection %d: Disconnected without Connected", ni, i)
				return
			}
			if c.disc == 1 && c.discBeg < c.connEnd {
				x.Fail("disconnected-before-connected-returned", "notifiee %d: connection %d: Disconnected started at %d, Connected returned at %d", ni, i, c.discBeg, c.connEnd)
				return
			}
			closed := admitted && (r.fc.isClosed() || swarmClosed)
			if closed && c.disc != 1 {
				x.Fail("disconnected-missing", "notifiee %d: connection %d was admitted and is closed but Disconnected ran %d times", ni, i, c.disc)
				return
			}
			if admitted && !closed && c.disc != 0 {
				x.Fail("disconnected-for-open-conn", "notifiee %d: connection %d is still open but Disconnected ran", ni, i)
				return
			}
		}
		// no inbound stream before Connected returned
		for _, h := range handlers {
			c := per[h.conn]
			if c == nil || c.conn == 0 || h.start < c.connEnd {
				x.Fail("stream-before-connected", "notifiee %d: stream handler ran at %d for %v, Connected returned at %d", ni, h.start, h.conn, func() int64 {
					if c == nil {
						return -1
					}
					return c.connEnd
				}())
				return
			}
		}
	}
	// connectedness events
	last := map[peer.ID]network.Connectedness{}
	has := map[peer.ID]bool{}
	var evs []string
	for {
		v, ok, got := vs.TryRecv(sub.Out())
		if !got || !ok {
			break
		}
		ev := v.(event.EvtPeerConnectednessChanged)
		evs = append(evs, fmt.Sprintf("%s:%v", ev.Peer.String()[len(ev.Peer.String())-4:], ev.Connectedness))
		if has[ev.Peer] && last[ev.Peer] == ev.Connectedness && ev.Connectedness != network.NotConnected {
			x.Fail("connectedness-event-repeated", "peer %s: state %v published twice in a row (events %v)", ev.Peer, ev.Connectedness, evs)
			return
		}
		last[ev.Peer] = ev.Connectedness
		has[ev.Peer] = true
	}
	peers := map[peer.ID]bool{}
	for _, r := range runs {
		peers[fxID(r.spec.Peer).ID] = true
	}
	for p := range peers {
		actual := env.Swarm.Connectedness(p)
		if has[p] && last[p] != actual {
			x.Fail("last-event-differs-from-connectedness", "peer %s: last event %v, actual connectedness %v (events %v)", p, last[p], actual, evs)
			return
		}
		if !has[p] && actual != network.NotConnected {
			x.Fail("last-event-differs-from-connectedness", "peer %s: no event published, actual connectedness %v", p, actual)
			return
		}
		// the connections listed for the peer are exactly the admitted, still-open ones
		want := map[network.Conn]bool{}
		nDirect, nLimited := 0, 0
		for _, r := range runs {
			if fxID(r.spec.Peer).ID == p && r.err == nil && r.c != nil && !r.fc.isClosed() && !swarmClosed {
				want[network.Conn(r.c)] = true
				if r.spec.Limited {
					nLimited++
				} else {
					nDirect++
				}
			}
		}
		// "actual connectedness" is what the admitted, still-open connections imply - not what the swarm says:
		// Connected with at least one unlimited connection, Limited with limited ones only, NotConnected with none
		implied := network.NotConnected
		if nDirect > 0 {
			implied = network.Connected
		} else if nLimited > 0 {
			implied = network.Limited
		}
		if actual != implied {
			x.Fail("connectedness-differs-from-open-connections", "peer %s: Connectedness() says %v, the open connections (%d unlimited, %d limited) imply %v (events %v)", p, actual, nDirect, nLimited, implied, evs)
			return
		}
		got := env.Swarm.ConnsToPeer(p)
		var gs []string
		for _, c := range got {
			gs = append(gs, fmt.Sprint(c))
			if !want[c] {
				x.Fail("listed-conn-not-open", "peer %s: ConnsToPeer lists %v which is not an admitted open connection", p, c)
				return
			}
		}
		sort.Strings(gs)
		if len(got) != len(want) {
			x.Fail("open-conn-not-listed", "peer %s: ConnsToPeer lists %d connections %v, %d admitted ones are open", p, len(got), gs, len(want))
			return
		}
	}
}

func c06Scenarios(thorough bool) []c06Scn {
	in := func(p string, closer string, stream bool) c06ConnSpec {
		return c06ConnSpec{Peer: p, Closer: closer, Stream: stream}
	}
	scs := []c06Scn{
		{Name: "inbound + app-close as soon as visible", Conns: []c06ConnSpec{in("P", "app", false)}, Notifiees: 1},
		{Name: "inbound + remote stream + remote close", Conns: []c06ConnSpec{in("P", "remote", true)}, Notifiees: 1},
		{Name: "inbound closed from inside Connected", Conns: []c06ConnSpec{in("P", "in-connected", true)}, Notifiees: 2},
		{Name: "outbound dial + app-close as soon as visible", Conns: []c06ConnSpec{{Peer: "P", Outbound: true, Closer: "app"}}, Notifiees: 1},
		{Name: "inbound vs Swarm.Close", Conns: []c06ConnSpec{in("P", "", true)}, SwarmClose: true, Notifiees: 1},
		{Name: "inbound vs two overlapping Swarm.Close calls", Conns: []c06ConnSpec{in("P", "", false)}, SwarmClose: true, TwoClosers: true, Notifiees: 1},
		{Name: "direct + limited to one peer, both close", Conns: []c06ConnSpec{in("P", "app-after", false), {Peer: "P", Limited: true, Closer: "remote"}}, Notifiees: 1},
		{Name: "direct + limited to one peer, the direct one closes, the limited one stays", Conns: []c06ConnSpec{in("P", "app-after", false), {Peer: "P", Limited: true}}, Notifiees: 1},
		{Name: "direct then limited to one peer, both stay open", Conns: []c06ConnSpec{in("P", "", false), {Peer: "P", Limited: true}}, Notifiees: 1},
		{Name: "two inbound of one peer, both close", Conns: []c06ConnSpec{in("P", "app", false), in("P", "remote", false)}, Notifiees: 1},
	}
	if thorough {
		scs = append(scs,
			c06Scn{Name: "outbound dial vs Swarm.Close", Conns: []c06ConnSpec{{Peer: "P", Outbound: true}}, SwarmClose: true, Notifiees: 1},
			c06Scn{Name: "inbound app-close vs Swarm.Close", Conns: []c06ConnSpec{in("P", "app", false)}, SwarmClose: true, Notifiees: 1},
			c06Scn{Name: "limited then direct to one peer, both stay open", Conns: []c06ConnSpec{{Peer: "P", Limited: true}, in("P", "", false)}, Notifiees: 1},
			c06Scn{Name: "limited closes then direct opens", Conns: []c06ConnSpec{{Peer: "P", Limited: true, Closer: "app"}, in("P", "", false)}, Notifiees: 1},
			c06Scn{Name: "two peers open and close", Conns: []c06ConnSpec{in("P", "app", false), in("Q", "in-connected", false)}, Notifiees: 1},
		)
	}
	return scs
}

func c06Scenario(sc c06Scn) *vs.Scenario {
	return &vs.Scenario{Name: sc.Name, Body: c06Body(sc), LeakIsViolation: true,
		Opt: vs.Options{Horizon: 20 * time.Second, IdleStep: 5 * time.Second, MaxSteps: 6000}}
}

func TestVerifC06(t *testing.T) {
	fxID("P")
	fxID("Q")
	fxID("relay")
	fxID("mallory")
	scs := c06Scenarios(vrep.Thorough())
	if p := vrep.ReplayPath(); p != "" {
		rp, err := vs.LoadReplay(p)
		if err != nil {
			t.Fatal(err)
		}
		for _, sc := range c06Scenarios(true) {
			if sc.Name == rp.Scenario {
				x := vs.Replay(t, c06Scenario(sc), rp.Choices)
				fmt.Fprintf(os.Stdout, "REPLAY %s choices=%v\n%s\nverdict: key=%q %s\npanic=%s outcome=%s\n", sc.Name, rp.Choices, strings.Join(x.S.Log, "\n"), x.VioKey, x.VioDesc, x.Panic, x.Outcome)
				return
			}
		}
		t.Fatalf("scenario %q not found", rp.Scenario)
	}
	if vs.FreeMode() {
		// free-running pass for the race detector (validates the data-race-freedom assumption of the scheduler)
		r := vrep.New("C06", "race-pass")
		dl := vrep.Deadline()
		n := 0
		for time.Now().Before(dl) {
			for _, sc := range scs {
				runs, _ := vs.FreeRun(t, c06Scenario(sc), 3, dl)
				n += runs
			}
		}
		r.Executions = int64(n)
		r.Note("free-running executions: %d", n)
		r.Flush()
		return
	}
	si, sn := vrep.Shard()
	bound := 2
	if vrep.Thorough() {
		bound = 3
	}
	r := vrep.New("C06", "swarm-notifications")
	r.Bounds["deviation_bound"] = bound
	r.Bounds["scenarios"] = len(scs)
	for i, sc := range scs {
		left := time.Until(vrep.Deadline())
		share := left / time.Duration(len(scs)-i)
		vs.Explore(t, c06Scenario(sc), vs.Config{MaxBound: bound, Deadline: time.Now().Add(share), ShardI: si, ShardN: sn, Property: "C06"}, r)
	}
	r.Flush()
}
