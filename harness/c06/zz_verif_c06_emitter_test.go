//go:build verif

package swarm

// C06, emitter part. Engine E2 on the connectionEventsEmitter alone (the component that orders Connected /
// Disconnected and publishes connectedness events), driven the way the swarm drives it: a connection becomes
// visible in the (harness-owned) connection table, then AddConn; a close takes it out of the table, then
// RemoveConn - from another thread, from inside the Connected callback (asynchronously, as doClose does), or
// before AddConn has dispatched Connected (the parked removal). Fewer scheduling points per execution than the
// swarm-level scenarios, so 3-5 racing threads and a deeper deviation bound fit into the same time.
// Oracle, from the callbacks and published events only: Connected at most once per connection and exactly once
// if AddConn returned before Close began; Disconnected at most once, never without or before the end of Connected,
// exactly once for a connection whose AddConn and RemoveConn returned before Close began; nothing runs after Close returned;
// no connectedness state twice in a row for a peer (NotConnected excepted, as the statement does); with no Close
// racing, the last event of every peer equals its connectedness in the table (none = NotConnected).

import (
	"fmt"
	"os"
	"strings"
	"sync"
	"testing"
	"time"

	"github.com/libp2p/go-libp2p/core/event"
	"github.com/libp2p/go-libp2p/core/network"
	"github.com/libp2p/go-libp2p/core/peer"
	"github.com/libp2p/go-libp2p/x/verif/vrep"
	vs "github.com/libp2p/go-libp2p/x/verif/vsched"
	ma "github.com/multiformats/go-multiaddr"
)

type c06eConn struct {
	Peer    string
	Limited bool
	Closer  string // "" (stays open) | "thread" (another thread, as soon as the connection is visible) | "in-connected" (from inside Connected, removal dispatched asynchronously)
}

type c06eScn struct {
	Name  string
	Conns []c06eConn
	Close bool // emitter Close races everything
}

type c06eRec struct {
	connBeg, connEnd, discBeg, discEnd int64
	nConn, nDisc                       int
	addEntered, addReturned            int64
	rmEntered, rmReturned              int64
}

type c06eEmitter struct {
	mu  sync.Mutex
	evs []event.EvtPeerConnectednessChanged
	at  []int64
}

func (e *c06eEmitter) Emit(v interface{}) error {
	vs.Yield() // a subscriber may take a while: the run loop can be overtaken while publishing
	e.mu.Lock()
	e.evs = append(e.evs, v.(event.EvtPeerConnectednessChanged))
	e.at = append(e.at, vs.Stamp())
	e.mu.Unlock()
	return nil
}
func (e *c06eEmitter) Close() error { return nil }

func c06eBody(sc c06eScn) func(x *vs.Exec) {
	return func(x *vs.Exec) {
		s := x.S
		local := fxID("local")
		var tmu sync.Mutex
		table := map[*Conn]bool{}
		conns := make([]*Conn, len(sc.Conns))
		recs := make([]*c06eRec, len(sc.Conns))
		idx := map[*Conn]int{}
		visible := make([]chan struct{}, len(sc.Conns))
		for i, cs := range sc.Conns {
			tp := fxNewTransport("tcp", local, cs.Limited, ma.P_TCP)
			fc := fxNewConn(fmt.Sprintf("c%d", i), tp, local, fxID(cs.Peer), ma.StringCast(fmt.Sprintf("/ip4/1.2.3.%d/tcp/4001", 10+i)), cs.Limited)
			conns[i] = &Conn{conn: fc}
			conns[i].stat.Limited = cs.Limited
			recs[i] = &c06eRec{}
			idx[conns[i]] = i
			visible[i] = make(chan struct{})
		}
		connectedness := func(p peer.ID) network.Connectedness {
			tmu.Lock()
			defer tmu.Unlock()
			st := network.NotConnected
			for c := range table {
				if c.RemotePeer() != p {
					continue
				}
				if !c.stat.Limited {
					return network.Connected
				}
				st = network.Limited
			}
			return st
		}
		em := &c06eEmitter{}
		var closeEnd int64
		var ce *connectionEventsEmitter
		remove := func(i int) {
			tmu.Lock()
			delete(table, conns[i])
			tmu.Unlock()
			recs[i].rmEntered = vs.Stamp()
			ce.RemoveConn(conns[i])
			recs[i].rmReturned = vs.Stamp()
		}
		late := ""
		onConnected := func(c *Conn) {
			i := idx[c]
			r := recs[i]
			if s.Free {
				return
			}
			r.nConn++
			r.connBeg = vs.Stamp()
			if closeEnd != 0 {
				late = fmt.Sprintf("Connected for connection %d started at %d, Close returned at %d", i, r.connBeg, closeEnd)
			}
			if sc.Conns[i].Closer == "in-connected" {
				tmu.Lock()
				delete(table, c)
				tmu.Unlock()
				s.Go(fmt.Sprintf("async-remove%d", i), func() {
					recs[i].rmEntered = vs.Stamp()
					ce.RemoveConn(c)
					recs[i].rmReturned = vs.Stamp()
				})
			}
			vs.Yield()
			r.connEnd = vs.Stamp()
		}
		onDisconnected := func(c *Conn) {
			i := idx[c]
			r := recs[i]
			if s.Free {
				return
			}
			r.nDisc++
			r.discBeg = vs.Stamp()
			if closeEnd != 0 {
				late = fmt.Sprintf("Disconnected for connection %d started at %d, Close returned at %d", i, r.discBeg, closeEnd)
			}
			vs.Yield()
			r.discEnd = vs.Stamp()
		}
		s.Go("setup", func() { ce = newConnectionEventsEmitter(connectedness, em, onConnected, onDisconnected) })
		if !s.Run() && !s.Free {
			x.Fail("deadlock", "setup: %s", s.Deadlock)
			return
		}
		for i, cs := range sc.Conns {
			s.Go(fmt.Sprintf("open%d", i), func() {
				tmu.Lock()
				table[conns[i]] = true
				tmu.Unlock()
				vs.Close(visible[i])
				recs[i].addEntered = vs.Stamp()
				ce.AddConn(conns[i])
				recs[i].addReturned = vs.Stamp()
			})
			if cs.Closer == "thread" {
				s.GoPrio(fmt.Sprintf("close%d", i), 1, func() {
					vs.Recv(-9, visible[i])
					remove(i)
				})
			}
		}
		var closeBeg int64
		if sc.Close {
			s.GoPrio("Close", 2, func() {
				vs.Yield()
				closeBeg = vs.Stamp()
				ce.Close()
				closeEnd = vs.Stamp()
			})
		}
		ok := s.Run()
		if !ok && s.Deadlock != "" {
			x.Fail("deadlock", "threads blocked forever: %s", s.Deadlock)
		}
		if s.Free {
			s.Go("teardown", func() { ce.Close() })
			s.Drain()
			return
		}
		if ok && !sc.Close {
			s.Go("Close", func() { closeBeg = vs.Stamp(); ce.Close(); closeEnd = vs.Stamp() })
			if !s.Run() {
				ok = false
				if s.Deadlock != "" {
					x.Fail("deadlock-in-close", "Close did not finish: %s", s.Deadlock)
				}
			}
		}
		var outs []string
		if ok && x.VioKey == "" {
			if late != "" {
				x.Fail("notification-after-close", "%s", late)
			}
			for i, r := range recs {
				cs := sc.Conns[i]
				outs = append(outs, fmt.Sprintf("c%d:%d/%d", i, r.nConn, r.nDisc))
				beforeClose := func(at int64) bool { return at != 0 && (closeBeg == 0 || at < closeBeg) }
				switch {
				case r.nConn > 1 || r.nDisc > 1:
					x.Fail("notification-repeated", "connection %d: Connected x%d, Disconnected x%d", i, r.nConn, r.nDisc)
				case r.nDisc == 1 && r.nConn == 0:
					x.Fail("disconnected-without-connected", "connection %d: Disconnected without Connected", i)
				case r.nDisc == 1 && r.discBeg < r.connEnd:
					x.Fail("disconnected-before-connected-returned", "connection %d: Disconnected started at %d, Connected returned at %d", i, r.discBeg, r.connEnd)
				case beforeClose(r.addReturned) && r.nConn != 1:
					x.Fail("connected-not-exactly-once", "connection %d: AddConn returned (at %d) before Close began (%d) but Connected ran %d times", i, r.addReturned, closeBeg, r.nConn)
				case cs.Closer != "" && beforeClose(r.addReturned) && beforeClose(r.rmReturned) && r.nDisc != 1:
					x.Fail("disconnected-missing", "connection %d: AddConn (at %d) and RemoveConn (at %d) returned before Close began (%d) but Disconnected ran %d times", i, r.addReturned, r.rmReturned, closeBeg, r.nDisc)
				case cs.Closer == "" && r.nDisc != 0:
					x.Fail("disconnected-for-open-conn", "connection %d is still open but Disconnected ran", i)
				}
			}
			last, has := map[peer.ID]network.Connectedness{}, map[peer.ID]bool{}
			var evs []string
			for k, ev := range em.evs {
				evs = append(evs, fmt.Sprintf("%s:%v", ev.Peer.String()[len(ev.Peer.String())-4:], ev.Connectedness))
				if has[ev.Peer] && last[ev.Peer] == ev.Connectedness && ev.Connectedness != network.NotConnected {
					x.Fail("connectedness-event-repeated", "peer %s: state %v published twice in a row (events %v)", ev.Peer, ev.Connectedness, evs)
					break
				}
				if closeEnd != 0 && em.at[k] > closeEnd {
					x.Fail("notification-after-close", "event %s published at %d, Close returned at %d", evs[len(evs)-1], em.at[k], closeEnd)
					break
				}
				last[ev.Peer], has[ev.Peer] = ev.Connectedness, true
			}
			if !sc.Close && x.VioKey == "" {
				peers := map[peer.ID]bool{}
				for _, c := range conns {
					peers[c.RemotePeer()] = true
				}
				for p := range peers {
					actual := connectedness(p)
					if (has[p] && last[p] != actual) || (!has[p] && actual != network.NotConnected) {
						x.Fail("last-event-differs-from-connectedness", "peer %s: last event %v (published: %v), actual connectedness %v (events %v)", p, last[p], has[p], actual, evs)
					}
				}
			}
			outs = append(outs, fmt.Sprintf("events=%d", len(em.evs)))
		}
		x.Outcome = strings.Join(outs, " ")
		s.Drain()
	}
}

func c06eScenarios(thorough bool) []c06eScn {
	scs := []c06eScn{
		{Name: "emitter: one connection closed by another thread", Conns: []c06eConn{{Peer: "P", Closer: "thread"}}},
		{Name: "emitter: one connection closed from inside Connected", Conns: []c06eConn{{Peer: "P", Closer: "in-connected"}}},
		{Name: "emitter: direct and limited connection of one peer, both closed", Conns: []c06eConn{{Peer: "P", Closer: "thread"}, {Peer: "P", Limited: true, Closer: "thread"}}},
		{Name: "emitter: direct connection closes, limited one of the same peer stays", Conns: []c06eConn{{Peer: "P", Closer: "thread"}, {Peer: "P", Limited: true}}},
		{Name: "emitter: connection closed by another thread, Close racing", Conns: []c06eConn{{Peer: "P", Closer: "thread"}}, Close: true},
		{Name: "emitter: two peers, one closes inside Connected, one stays", Conns: []c06eConn{{Peer: "P", Closer: "in-connected"}, {Peer: "Q"}}},
	}
	if thorough {
		scs = append(scs,
			c06eScn{Name: "emitter: two direct connections of one peer, both closed, Close racing", Conns: []c06eConn{{Peer: "P", Closer: "thread"}, {Peer: "P", Closer: "thread"}}, Close: true},
			c06eScn{Name: "emitter: limited closes inside Connected while a direct one opens and closes", Conns: []c06eConn{{Peer: "P", Limited: true, Closer: "in-connected"}, {Peer: "P", Closer: "thread"}}},
			c06eScn{Name: "emitter: three connections of one peer (direct, limited, direct)", Conns: []c06eConn{{Peer: "P", Closer: "thread"}, {Peer: "P", Limited: true, Closer: "thread"}, {Peer: "P"}}},
		)
	}
	return scs
}

func c06eScenario(sc c06eScn) *vs.Scenario {
	return &vs.Scenario{Name: sc.Name, Body: c06eBody(sc), LeakIsViolation: true,
		Opt: vs.Options{Horizon: 20 * time.Second, IdleStep: 5 * time.Second, MaxSteps: 6000}}
}

func TestVerifC06Emitter(t *testing.T) {
	scs := c06eScenarios(vrep.Thorough())
	if p := vrep.ReplayPath(); p != "" {
		rp, err := vs.LoadReplay(p)
		if err != nil || rp.Scenario == "" || !strings.HasPrefix(rp.Scenario, "emitter:") {
			t.Skip("not a replay of this part")
		}
		for _, sc := range c06eScenarios(true) {
			if sc.Name == rp.Scenario {
				x := vs.Replay(t, c06eScenario(sc), rp.Choices)
				fmt.Fprintf(os.Stdout, "REPLAY %s choices=%v\n%s\nverdict: key=%q %s\npanic=%s outcome=%s\n", sc.Name, rp.Choices, strings.Join(x.S.Log, "\n"), x.VioKey, x.VioDesc, x.Panic, x.Outcome)
				return
			}
		}
		return
	}
	if vs.FreeMode() {
		r := vrep.New("C06", "emitter-race-pass")
		dl := vrep.Deadline()
		n := 0
		for time.Now().Before(dl) {
			for _, sc := range scs {
				runs, _ := vs.FreeRun(t, c06eScenario(sc), 3, dl)
				n += runs
			}
		}
		r.Executions = int64(n)
		r.Note("free-running executions: %d", n)
		r.Flush()
		return
	}
	si, sn := vrep.Shard()
	bound := 4
	if vrep.Thorough() {
		bound = 5
	}
	r := vrep.New("C06", "emitter-schedules")
	r.Bounds["deviation_bound"] = bound
	r.Bounds["scenarios"] = len(scs)
	for i, sc := range scs {
		left := time.Until(vrep.Deadline())
		share := left / time.Duration(len(scs)-i)
		vs.Explore(t, c06eScenario(sc), vs.Config{MaxBound: bound, Deadline: time.Now().Add(share), ShardI: si, ShardN: sn, Property: "C06"}, r)
	}
	r.Flush()
}
