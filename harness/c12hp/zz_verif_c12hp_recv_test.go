//go:build verif

package holepunch

// C12, hole-punching part: the receiver side (Service.handleNewStream / incomingHolePunch), invoked through the
// stream handler the service registered on the fake host, with crafted inbound coordination streams.

import (
	"encoding/json"
	"fmt"
	"os"
	"strings"
	"testing"
	"testing/synctest"
	"time"

	"github.com/libp2p/go-libp2p/core/network"
	"github.com/libp2p/go-libp2p/p2p/protocol/holepunch/pb"
	"github.com/libp2p/go-libp2p/x/verif/vrep"
	"github.com/libp2p/go-msgio/pbio"
	ma "github.com/multiformats/go-multiaddr"
)

const (
	c12hpRConnRelayedOut = iota // the only legitimate carrier: we dialled the peer through the relay, it calls back
	c12hpRConnRelayedIn
	c12hpRConnDirectOut
	c12hpRConnDirectIn
	c12hpNRConns
)

var c12hpRConnNames = []string{"relayed-outbound", "relayed-inbound", "direct-outbound", "direct-inbound"}

const (
	c12hpSecondSync = iota
	c12hpSecondConnect
	c12hpSecondGarbage
	c12hpSecondEOF
	c12hpSecondReset
	c12hpSecondStall
	c12hpNSecond
)

var c12hpSecondNames = []string{"SYNC", "CONNECT", "GARBAGE", "EOF", "RESET", "STALL"}

type c12hpRecvCase struct {
	Conn        int  `json:"conn"`
	First       int  `json:"first"`  // the initiator's first message (answer alphabet without NEWSTREAM-ERROR)
	Second      int  `json:"second"` // what it sends after our CONNECT
	Listen      int  `json:"listen"`
	Filter      int  `json:"filter"`
	ConnectOK   bool `json:"connect_ok"`
	OtherDirect bool `json:"other_direct_conn"`       // besides the stream's connection a direct connection to the peer exists
	LimFlags    int  `json:"limited_flags,omitempty"` // c12hpLim*: bit 0 relayed connections are NOT Limited, bit 1 direct connections report Limited
}

func (c *c12hpRecvCase) describe() string {
	return fmt.Sprintf("stream on a %s connection; Stat().Limited=[%s]; initiator sends %s then %s; listenAddrs=%s filter=%s connect=%v other-direct-conn=%v",
		c12hpRConnNames[c.Conn], c12hpLimNames[c.LimFlags&3], c12hpAnsNames[c.First], c12hpSecondNames[c.Second], c12hpListenNames[c.Listen], c12hpFilterNames[c.Filter], c.ConnectOK, c.OtherDirect)
}

func (c *c12hpRecvCase) honest() bool {
	return c.Conn == c12hpRConnRelayedOut && c12hpAnsUsable(c.First) && c.Second == c12hpSecondSync &&
		(c.Listen == c12hpListenPublic || c.Listen == c12hpListenMixed) &&
		(c.Filter == c12hpFilterNil || c.Filter == c12hpFilterIdentity || c.Filter == c12hpFilterTCPOnly)
}

type c12hpRecvObs struct {
	Calls       []c12hpCall `json:"calls"`
	Reset       bool        `json:"stream_reset"`
	Closed      bool        `json:"stream_closed"`
	Writes      int         `json:"writes_on_stream"`
	ReplyType   string      `json:"reply_type,omitempty"`
	ReplyAddrs  []string    `json:"reply_addrs,omitempty"`
	HandlerSeen bool        `json:"handler_registered"`
	ElapsedMs   int64       `json:"elapsed_ms"`
	Problem     string      `json:"problem,omitempty"`
}

func c12hpRunRecv(t *testing.T, w *c12hpWorld, c *c12hpRecvCase) (o c12hpRecvObs) {
	defer func() {
		if r := recover(); r != nil {
			o.Problem = fmt.Sprintf("panic outside the bubble body: %v", r)
		}
	}()
	synctest.Test(t, func(*testing.T) {
		h := c12hpNewHost(w)
		defer h.ps.Close()
		h.limFlags = c.LimFlags & 3
		var conn *c12hpConn
		switch c.Conn {
		case c12hpRConnRelayedOut:
			conn = h.addConn(true, network.DirOutbound)
		case c12hpRConnRelayedIn:
			conn = h.addConn(true, network.DirInbound)
		case c12hpRConnDirectOut:
			conn = h.addConn(false, network.DirOutbound)
		case c12hpRConnDirectIn:
			conn = h.addConn(false, network.DirInbound)
		}
		if c.OtherDirect {
			h.addConn(false, network.DirInbound)
		}
		h.directOK = c.ConnectOK
		h.punchOK = func(int) bool { return c.ConnectOK }
		listen := c12hpListen(w, c.Listen)
		s, problem := c12hpStartService(h, c.Filter, 0, &listen)
		if problem != "" {
			o.Problem = problem
			return
		}
		handler := h.handler(Protocol)
		o.HandlerSeen = handler != nil
		if handler == nil {
			handler = s.handleNewStream
		}
		local, remote := c12hpStreamPair(conn, "in0")
		h.wg.Add(1)
		go func() {
			defer h.wg.Done()
			defer func() {
				buf := make([]byte, 256)
				for {
					if _, err := remote.Read(buf); err != nil {
						return
					}
				}
			}()
			raw, _ := c12hpAnswerBytes(w, c.First)
			h.noteOffered(c12hpParse(raw))
			if !c12hpPlayRemote(w, remote, c.First) {
				return
			}
			rd := pbio.NewDelimitedReader(remote, 1<<16)
			var msg pb.HolePunch
			if err := rd.ReadMsg(&msg); err != nil {
				return
			}
			h.mu.Lock()
			o.ReplyType = msg.GetType().String()
			o.ReplyAddrs = c12hpStrs(c12hpParse(msg.ObsAddrs))
			h.mu.Unlock()
			time.Sleep(c12hpRTT)
			wr := pbio.NewDelimitedWriter(remote)
			switch c.Second {
			case c12hpSecondSync:
				wr.WriteMsg(&pb.HolePunch{Type: pb.HolePunch_SYNC.Enum()})
			case c12hpSecondConnect:
				h.noteOffered([]ma.Multiaddr{w.remPubTCP})
				wr.WriteMsg(&pb.HolePunch{Type: pb.HolePunch_CONNECT.Enum(), ObsAddrs: [][]byte{w.remPubTCP.Bytes()}})
			case c12hpSecondGarbage:
				remote.Write([]byte{0xff, 0xff, 0xff, 0xff, 0x7f, 0x01})
			case c12hpSecondEOF:
				remote.CloseWrite()
			case c12hpSecondReset:
				remote.Reset()
			}
		}()
		t0 := time.Now()
		func() {
			defer func() {
				if r := recover(); r != nil {
					o.Problem = fmt.Sprintf("panic in the code under test: %v", r)
				}
			}()
			handler(local)
		}()
		o.ElapsedMs = time.Since(t0).Milliseconds()
		// a handler that returned without closing or resetting would leave the far end waiting: end it
		rs, cl, wr := local.flags()
		if !rs && !cl {
			local.Reset()
		}
		s.Close()
		h.wg.Wait()
		o.Calls = h.snapshotCalls()
		o.Reset, o.Closed, o.Writes = rs, cl, wr
	})
	return o
}

func c12hpCheckRecv(w *c12hpWorld, c *c12hpRecvCase, o *c12hpRecvObs) (vs []c12hpViol) {
	vs = c12hpCheckCalls(w, o.Calls)
	nConnect := 0
	for _, cl := range o.Calls {
		if cl.Kind == "connect" {
			nConnect++
		}
	}
	// "coordinated only over a relayed connection": a coordination stream that does not ride a relayed
	// connection we dialled is refused - no reply on it, no dial because of it.
	if c.Conn != c12hpRConnRelayedOut {
		if nConnect > 0 {
			vs = append(vs, c12hpViol{"hole-punch-dial-for-stream-on-" + c12hpRConnNames[c.Conn] + "-connection",
				fmt.Sprintf("the handler called Connect %d time(s) for a coordination stream on a %s connection", nConnect, c12hpRConnNames[c.Conn])})
		}
		if o.Writes > 0 {
			vs = append(vs, c12hpViol{"coordination-answered-on-" + c12hpRConnNames[c.Conn] + "-connection",
				fmt.Sprintf("the handler answered (%s %v) on a coordination stream on a %s connection", o.ReplyType, o.ReplyAddrs, c12hpRConnNames[c.Conn])})
		}
	}
	if c.honest() && nConnect == 0 {
		vs = append(vs, c12hpViol{"baseline-honest-request-not-served", "honest CONNECT/SYNC over a relayed outbound connection, but the handler never called Connect"})
	}
	return vs
}

func c12hpRecvClass(c *c12hpRecvCase, o *c12hpRecvObs) (class, sig string) {
	var sb strings.Builder
	n := 0
	for _, cl := range o.Calls {
		if cl.Kind == "connect" {
			n++
			fmt.Fprintf(&sb, "C[%v%v%v n=%d %s]", cl.ForceDirect, cl.SimConnect, cl.IsClient, len(cl.PiAddrs), cl.Result)
		} else {
			fmt.Fprintf(&sb, "S[%s]", cl.Result)
		}
	}
	end := "left-open"
	if o.Reset {
		end = "reset"
	} else if o.Closed {
		end = "closed"
	}
	reply := "no-reply"
	if o.Writes > 0 {
		reply = "replied"
	}
	class = fmt.Sprintf("%s/%s/connects=%d", reply, end, n)
	sig = fmt.Sprintf("%s|%s|%s|%s|%d|%s", class, c12hpRConnNames[c.Conn], c12hpAnsNames[c.First], o.ReplyType, len(o.ReplyAddrs), sb.String())
	// the carrying connection is part of the signature; so is what it reports as Limited when that is not the natural value
	relayed := c.Conn == c12hpRConnRelayedOut || c.Conn == c12hpRConnRelayedIn
	if lim := c12hpLimitedFor(c.LimFlags, relayed); lim != relayed {
		sig += fmt.Sprintf("|carrier-limited=%v", lim)
	}
	return class, sig
}

func c12hpReceiver(t *testing.T) {
	w := c12hpGetWorld()
	r := vrep.New("C12", "holepunch-receiver")
	defer r.Flush()
	r.Bounds["stream_connection"] = strings.Join(c12hpRConnNames, " | ")
	r.Bounds["first_message"] = strings.Join(c12hpAnsNames[:c12hpAnsStreamErr], " | ")
	r.Bounds["second_message"] = strings.Join(c12hpSecondNames, " | ")
	r.Bounds["listen_addrs"] = strings.Join(c12hpListenNames, " | ")
	r.Bounds["addr_filter"] = strings.Join(c12hpFilterNames, " | ")
	r.Bounds["connect_outcome"] = "fails | succeeds"
	r.Bounds["other_direct_connection"] = "absent | present"
	if vrep.Thorough() {
		r.Bounds["stat_limited"] = strings.Join(c12hpLimNames, " | ") + " (full product)"
	} else {
		r.Bounds["stat_limited"] = strings.Join(c12hpLimNames, " | ") + " (natural: full product; the other three: filter=none)"
	}
	shard, nshards := vrep.Shard()
	deadline := vrep.Deadline()
	distinct := map[string]struct{}{}
	classes := map[string]bool{}
	idx := -1
	problems := 0
	for lf := 0; lf < c12hpNLimFlags; lf++ {
		for conn := 0; conn < c12hpNRConns; conn++ {
			for first := 0; first < c12hpAnsStreamErr; first++ {
				for second := 0; second < c12hpNSecond; second++ {
					for ls := 0; ls < c12hpNListen; ls++ {
						for f := 0; f < c12hpNFilters; f++ {
							if lf != 0 && f != c12hpFilterNil && !vrep.Thorough() {
								continue // quick: the other settings of Stat().Limited without address filters (they do not interact)
							}
							for _, cok := range []bool{false, true} {
								for _, od := range []bool{false, true} {
									idx++
									// split by (connection, first message), both part of the signature: per-worker distinct counts add up exactly
									if (conn*c12hpAnsStreamErr+first)%nshards != shard {
										continue
									}
									if r.Executions%512 == 0 && time.Now().After(deadline) {
										r.Cap("deadline reached at case #%d", idx)
										r.Distinct = int64(len(distinct))
										return
									}
									c := c12hpRecvCase{Conn: conn, First: first, Second: second, Listen: ls, Filter: f, ConnectOK: cok, OtherDirect: od, LimFlags: lf}
									o := c12hpRunRecv(t, w, &c)
									if o.Problem != "" {
										problems++
										if problems <= 3 {
											r.Cap("execution without verdict (%s): %s", o.Problem, c.describe())
										}
										if problems >= 50 {
											r.Distinct = int64(len(distinct))
											return
										}
										continue
									}
									r.Executions++
									class, sig := c12hpRecvClass(&c, &o)
									r.Outcome(class)
									distinct[sig] = struct{}{}
									if !classes[class] {
										classes[class] = true
										r.Sample(map[string]any{"case": c.describe(), "class": class, "observed": o})
									}
									for _, v := range c12hpCheckRecv(w, &c, &o) {
										r.Violate(v.key, v.desc+"\n  case: "+c.describe(), map[string]any{"side": "receiver", "case": c, "observed": o})
									}
								}
							}
						}
					}
				}
			}
		}
	}
	r.Distinct = int64(len(distinct))
	r.Note("cases enumerated (all shards): %d; outcome classes in this shard: %d", idx+1, len(classes))
}

// c12hpReplay re-executes the single case of a replay file written by check.py and prints what happened.
func c12hpReplay(t *testing.T, path string) {
	w := c12hpGetWorld()
	r := vrep.New("C12", "holepunch-replay")
	defer r.Flush()
	var f struct {
		Key    string `json:"key"`
		Replay struct {
			Side string          `json:"side"`
			Case json.RawMessage `json:"case"`
		} `json:"replay"`
	}
	b, err := os.ReadFile(path)
	if err == nil {
		err = json.Unmarshal(b, &f)
	}
	if err != nil {
		r.Cap("cannot read replay file %s: %v", path, err)
		return
	}
	var vs []c12hpViol
	var shown any
	switch f.Replay.Side {
	case "initiator":
		var c c12hpInitCase
		if err := json.Unmarshal(f.Replay.Case, &c); err != nil {
			r.Cap("bad initiator case: %v", err)
			return
		}
		o := c12hpRunInit(t, w, &c)
		fmt.Printf("replay (initiator): %s\n", c.describe(w))
		vs, shown = c12hpCheckInit(w, &c, &o), o
		r.Sample(map[string]any{"case": c.describe(w), "observed": o})
	case "receiver":
		var c c12hpRecvCase
		if err := json.Unmarshal(f.Replay.Case, &c); err != nil {
			r.Cap("bad receiver case: %v", err)
			return
		}
		o := c12hpRunRecv(t, w, &c)
		fmt.Printf("replay (receiver): %s\n", c.describe())
		vs, shown = c12hpCheckRecv(w, &c, &o), o
		r.Sample(map[string]any{"case": c.describe(), "observed": o})
	default:
		r.Cap("replay file %s has no side", path)
		return
	}
	r.Executions = 1
	out, _ := json.MarshalIndent(shown, "  ", " ")
	fmt.Printf("  observed: %s\n", out)
	for _, v := range vs {
		fmt.Printf("  VIOLATES %s: %s\n", v.key, v.desc)
		r.Violate(v.key, v.desc, map[string]any{"side": f.Replay.Side, "case": f.Replay.Case})
	}
	if len(vs) == 0 {
		fmt.Printf("  no violation in this execution\n")
	}
}

func TestVerifC12HP(t *testing.T) {
	if p := vrep.ReplayPath(); p != "" {
		if s, _ := vrep.Shard(); s == 0 {
			c12hpReplay(t, p)
		}
		return
	}
	c12hpReceiver(t)
	c12hpInitiator(t)
}
