//go:build verif

package holepunch

// C12, hole-punching part: the initiator side (holePuncher.directConnect / initiateHolePunch, reached through
// Service.DirectConnect or through the network notifiee), exhaustive enumeration, one bubble per execution.

import (
	"fmt"
	"strings"
	"testing"
	"testing/synctest"
	"time"

	"github.com/libp2p/go-libp2p/core/network"
	"github.com/libp2p/go-libp2p/core/peerstore"
	"github.com/libp2p/go-libp2p/p2p/protocol/holepunch/pb"
	"github.com/libp2p/go-libp2p/x/verif/vrep"
	"github.com/libp2p/go-msgio/pbio"
	ma "github.com/multiformats/go-multiaddr"
)

// ---------- the case ----------

type c12hpStep struct {
	Answer    int  `json:"answer"`     // index into the answer alphabet: what the remote does on this attempt's stream
	ConnectOK bool `json:"connect_ok"` // outcome of this attempt's hole-punch Connect
}

const (
	c12hpConnsRelayedIn = iota
	c12hpConnsRelayedOut
	c12hpConnsRelayedAndDirect
	c12hpConnsDirectOnly
	c12hpConnsNone
	c12hpConnsTwoRelayed
	c12hpNConns
)

var c12hpConnsNames = []string{"relayed-inbound", "relayed-outbound", "relayed-inbound+direct-outbound", "direct-inbound", "none", "relayed-inbound+relayed-outbound"}

type c12hpInitCase struct {
	Space      string      `json:"space"`
	PsMask     int         `json:"peerstore_mask"` // bit i: psAlphabet[i] is in the peerstore for the remote
	Conns      int         `json:"conns"`
	DirectOK   bool        `json:"direct_dial_ok"`
	Script     []c12hpStep `json:"script"`
	Listen     int         `json:"listen"`
	Filter     int         `json:"filter"`
	LateAt     int         `json:"late_inbound_direct_at,omitempty"`              // a direct connection appears during the k-th failed punch (1-based)
	LateDial   bool        `json:"late_direct_during_preliminary_dial,omitempty"` // ... during the preliminary direct dial, which fails
	LateCoord  int         `json:"late_direct_during_coordination,omitempty"`     // ... during the k-th coordination exchange (after our CONNECT arrived, before the answer)
	LateOut    bool        `json:"late_direct_is_outbound,omitempty"`             // the appearing connection is outbound (dialled by another subsystem) instead of inbound
	Startup    int         `json:"startup_empty_polls,omitempty"`                 // listenAddrs() is empty for the first n polls of waitForPublicAddr
	FailBlocks bool        `json:"failed_dial_blocks_until_deadline,omitempty"`
	Notify     int         `json:"notify_conn,omitempty"`   // 0: call Service.DirectConnect; 1..4: deliver Connected(conn of that kind) instead
	LimFlags   int         `json:"limited_flags,omitempty"` // c12hpLim*: bit 0 relayed connections are NOT Limited, bit 1 direct connections report Limited
}

var c12hpNotifyNames = []string{"", "relayed-inbound", "relayed-outbound", "direct-inbound", "direct-outbound"}

func (c *c12hpInitCase) describe(w *c12hpWorld) string {
	var ps []string
	for i, a := range w.psAlphabet {
		if c.PsMask&(1<<i) != 0 {
			ps = append(ps, a.String())
		}
	}
	var sc []string
	for _, s := range c.Script {
		sc = append(sc, fmt.Sprintf("%s/connect=%v", c12hpAnsNames[s.Answer], s.ConnectOK))
	}
	how := "Service.DirectConnect"
	if c.Notify != 0 {
		how = "Connected(" + c12hpNotifyNames[c.Notify] + ")"
	}
	return fmt.Sprintf("%s; peerstore=%v conns=%s Stat().Limited=[%s] directDial=%v remote-script=%v listenAddrs=%s filter=%s late-direct-conn=%s startup-empty-polls=%d failed-dial-blocks=%v",
		how, ps, c12hpConnsNames[c.Conns], c12hpLimNames[c.LimFlags&3], c.DirectOK, sc, c12hpListenNames[c.Listen], c12hpFilterNames[c.Filter], c.lateName(), c.Startup, c.FailBlocks)
}

// late: does the environment produce a direct connection at some point of this case's history?
func (c *c12hpInitCase) late() bool { return c.LateAt != 0 || c.LateDial || c.LateCoord != 0 }

func (c *c12hpInitCase) lateName() string {
	if !c.late() {
		return "never"
	}
	var at []string
	if c.LateDial {
		at = append(at, "during-the-preliminary-direct-dial")
	}
	if c.LateCoord != 0 {
		at = append(at, fmt.Sprintf("during-coordination-%d", c.LateCoord))
	}
	if c.LateAt != 0 {
		at = append(at, fmt.Sprintf("during-failed-punch-%d", c.LateAt))
	}
	dir := "inbound"
	if c.LateOut {
		dir = "outbound"
	}
	return dir + "@" + strings.Join(at, "+")
}

func (c *c12hpInitCase) onlyRelayed() bool {
	return c.Conns == c12hpConnsRelayedIn || c.Conns == c12hpConnsRelayedOut || c.Conns == c12hpConnsTwoRelayed
}

// honest: an honest, reachable-by-punching remote; every such case must end with DirectConnect == nil.
func (c *c12hpInitCase) honest() bool {
	if c.Notify != 0 || c.late() || len(c.Script) == 0 {
		return false
	}
	if !c.onlyRelayed() {
		return false
	}
	if c.Listen != c12hpListenPublic && c.Listen != c12hpListenMixed {
		return false
	}
	if c.Filter != c12hpFilterNil && c.Filter != c12hpFilterIdentity && c.Filter != c12hpFilterTCPOnly {
		return false
	}
	for _, s := range c.Script {
		if !c12hpAnsUsable(s.Answer) {
			return false
		}
	}
	return c.Script[len(c.Script)-1].ConnectOK
}

// ---------- one execution ----------

type c12hpInitObs struct {
	Returned       bool          `json:"returned"`
	Err            string        `json:"err"`
	DirectAtStart  bool          `json:"direct_at_start"`
	DirectAtReturn bool          `json:"direct_at_return"`
	Calls          []c12hpCall   `json:"calls"`
	Coords         []*c12hpCoord `json:"streams"`
	StreamFlags    []string      `json:"stream_flags,omitempty"`
	ElapsedMs      int64         `json:"elapsed_ms"`
	Problem        string        `json:"problem,omitempty"` // harness/infrastructure problem, not a verdict
}

func c12hpApplyConns(h *c12hpHost, conns int) {
	switch conns {
	case c12hpConnsRelayedIn:
		h.addConn(true, network.DirInbound)
	case c12hpConnsRelayedOut:
		h.addConn(true, network.DirOutbound)
	case c12hpConnsRelayedAndDirect:
		h.addConn(true, network.DirInbound)
		h.addConn(false, network.DirOutbound)
	case c12hpConnsDirectOnly:
		h.addConn(false, network.DirInbound)
	case c12hpConnsTwoRelayed:
		h.addConn(true, network.DirInbound)
		h.addConn(true, network.DirOutbound)
	}
}

// c12hpStartService builds the real Service over the fake host and waits until it has created its hole
// puncher. listen is the value listenAddrs() returns once the service is up; while it starts it returns a
// public address (after `startup` empty polls), because a service without any address never starts.
func c12hpStartService(h *c12hpHost, filter int, startup int, listen *[]ma.Multiaddr) (*Service, string) {
	w := h.w
	polls := 0
	up := false
	fn := func() []ma.Multiaddr {
		h.mu.Lock()
		defer h.mu.Unlock()
		if !up {
			polls++
			if polls <= startup {
				return nil
			}
			return []ma.Multiaddr{w.ownPubTCP}
		}
		return append([]ma.Multiaddr{}, (*listen)...) // fresh slice: the code compacts it in place
	}
	var opts []Option
	if filter != c12hpFilterNil {
		opts = append(opts, WithAddrFilter(&c12hpFilter{kind: filter}))
	}
	s, err := NewService(h, c12hpIDS{}, fn, opts...)
	if err != nil {
		return nil, "NewService: " + err.Error()
	}
	<-s.hasPublicAddrsChan
	h.mu.Lock()
	up = true
	h.mu.Unlock()
	return s, ""
}

func c12hpRunInit(t *testing.T, w *c12hpWorld, c *c12hpInitCase) (o c12hpInitObs) {
	defer func() {
		if r := recover(); r != nil {
			o.Problem = fmt.Sprintf("panic outside the bubble body: %v", r)
		}
	}()
	synctest.Test(t, func(*testing.T) {
		h := c12hpNewHost(w)
		defer h.ps.Close()
		var psAddrs []ma.Multiaddr
		for i, a := range w.psAlphabet {
			if c.PsMask&(1<<i) != 0 {
				psAddrs = append(psAddrs, a)
			}
		}
		h.ps.AddAddrs(w.remote, psAddrs, peerstore.ConnectedAddrTTL)
		h.limFlags = c.LimFlags & 3
		c12hpApplyConns(h, c.Conns)
		h.directOK = c.DirectOK
		step := func(k int) c12hpStep {
			if len(c.Script) == 0 {
				return c12hpStep{Answer: c12hpAnsStall}
			}
			if k < len(c.Script) {
				return c.Script[k]
			}
			return c12hpStep{Answer: c.Script[len(c.Script)-1].Answer}
		}
		h.punchOK = func(k int) bool { return step(k).ConnectOK }
		h.lateAt = c.LateAt
		h.lateDial = c.LateDial
		h.lateOut = c.LateOut
		h.failBlocks = c.FailBlocks
		h.streamError = func(k int) error {
			if step(k).Answer == c12hpAnsStreamErr {
				return fmt.Errorf("protocols not supported: [%s]", Protocol)
			}
			return nil
		}
		h.remoteEnd = func(k int, remote *c12hpStream, rec *c12hpCoord) {
			rd := pbio.NewDelimitedReader(remote, 1<<16)
			var msg pb.HolePunch
			if err := rd.ReadMsg(&msg); err != nil {
				return
			}
			rec.mu.Lock()
			rec.GotType = msg.GetType().String()
			rec.GotAddrs = c12hpStrs(c12hpParse(msg.ObsAddrs))
			rec.mu.Unlock()
			if c.LateCoord == k+1 {
				// our CONNECT has arrived over the relayed connection; meanwhile a direct connection comes into being
				h.addLate()
			}
			a := step(k).Answer
			time.Sleep(c12hpRTT)
			rec.mu.Lock()
			rec.Answered = c12hpAnsNames[a]
			rec.mu.Unlock()
			// remember every address the peer announces on this stream, whatever the message type
			raw, _ := c12hpAnswerBytes(w, a)
			h.noteOffered(c12hpParse(raw))
			if !c12hpPlayRemote(w, remote, a) {
				return
			}
			msg.Reset()
			if err := rd.ReadMsg(&msg); err == nil && msg.GetType() == pb.HolePunch_SYNC {
				rec.mu.Lock()
				rec.GotSync = true
				rec.mu.Unlock()
			}
		}

		listen := c12hpListen(w, c.Listen)
		s, problem := c12hpStartService(h, c.Filter, c.Startup, &listen)
		if problem != "" {
			o.Problem = problem
			return
		}
		o.DirectAtStart = h.hasDirect()
		t0 := time.Now()
		func() {
			defer func() {
				if r := recover(); r != nil {
					o.Problem = fmt.Sprintf("panic in the code under test: %v", r)
				}
			}()
			if c.Notify == 0 {
				err := s.DirectConnect(w.remote)
				// the moment DirectConnect reports: is there a direct connection?
				o.DirectAtReturn = h.hasDirect()
				o.Returned = true
				if err != nil {
					o.Err = err.Error()
				}
				return
			}
			// deliver a Connected notification for a new connection of the given kind instead
			var conn *c12hpConn
			switch c.Notify {
			case 1:
				conn = h.addConn(true, network.DirInbound)
			case 2:
				conn = h.addConn(true, network.DirOutbound)
			case 3:
				conn = h.addConn(false, network.DirInbound)
			case 4:
				conn = h.addConn(false, network.DirOutbound)
			}
			o.DirectAtStart = h.hasDirect()
			h.mu.Lock()
			nfs := append([]network.Notifiee{}, h.notifiees...)
			h.mu.Unlock()
			for _, nf := range nfs {
				nf.Connected(h.net, conn)
			}
			time.Sleep(10 * time.Minute) // virtual: longer than three timed-out attempts
			o.DirectAtReturn = h.hasDirect()
		}()
		o.ElapsedMs = time.Since(t0).Milliseconds()
		s.Close()
		h.wg.Wait()
		o.Calls = h.snapshotCalls()
		h.mu.Lock()
		o.Coords = h.coords
		for _, st := range h.streams {
			rs, cl, wr := st.flags()
			o.StreamFlags = append(o.StreamFlags, fmt.Sprintf("reset=%v closed=%v writes=%d", rs, cl, wr))
		}
		h.mu.Unlock()
	})
	return o
}

// ---------- oracle ----------

type c12hpViol struct{ key, desc string }

// c12hpCheckCalls: the clauses of the statement that are about HOW the hole-punch code uses the host.
//
//	"coordinated only over a relayed connection"  - every NewStream carries allow-limited AND no-dial
//	"dials only the peer's non-relay addresses"   - every Connect is force-direct, names the peer, passes only
//	                                                non-relay addresses the peer announced (or the peerstore
//	                                                holds), and there is no Connect at all when neither the
//	                                                peerstore nor the peer's CONNECT holds a non-relay address
func c12hpCheckCalls(w *c12hpWorld, calls []c12hpCall) (vs []c12hpViol) {
	for i, cl := range calls {
		switch cl.Kind {
		case "newstream":
			if !cl.AllowLimited {
				vs = append(vs, c12hpViol{"coordination-stream-without-allow-limited", fmt.Sprintf("call #%d: NewStream for the coordination stream does not carry WithAllowLimitedConn", i)})
			}
			if !cl.NoDial {
				vs = append(vs, c12hpViol{"coordination-stream-without-no-dial", fmt.Sprintf("call #%d: NewStream for the coordination stream does not carry WithNoDial (implicit dial: %v)", i, cl.ImplicitDial)})
			}
			if !cl.PeerOK {
				vs = append(vs, c12hpViol{"coordination-stream-to-wrong-peer", fmt.Sprintf("call #%d: NewStream to %s", i, cl.Peer)})
			}
		case "connect":
			if !cl.ForceDirect {
				vs = append(vs, c12hpViol{"connect-without-force-direct", fmt.Sprintf("call #%d: Connect(pi.Addrs=%v) does not carry WithForceDirectDial", i, cl.PiAddrs)})
			}
			if !cl.PeerOK {
				vs = append(vs, c12hpViol{"connect-to-wrong-peer", fmt.Sprintf("call #%d: Connect to %s", i, cl.Peer)})
			}
			known := map[string]bool{}
			nonRelayKnown := 0
			for _, lst := range [][]string{cl.PsAddrs, cl.Offered} {
				for _, s := range lst {
					if s == "" || known[s] {
						continue
					}
					known[s] = true
					if !strings.Contains(s, "/p2p-circuit") {
						nonRelayKnown++
					}
				}
			}
			for _, a := range cl.PiAddrs {
				if strings.Contains(a, "/p2p-circuit") {
					vs = append(vs, c12hpViol{"relay-address-passed-to-connect", fmt.Sprintf("call #%d: Connect is handed the relay address %s", i, a)})
				} else if !known[a] {
					vs = append(vs, c12hpViol{"connect-address-not-of-the-peer", fmt.Sprintf("call #%d: Connect is handed %q, which is neither in the peer's CONNECT %v nor in the peerstore %v", i, a, cl.Offered, cl.PsAddrs)})
				}
			}
			if nonRelayKnown == 0 {
				vs = append(vs, c12hpViol{"connect-without-any-non-relay-address", fmt.Sprintf("call #%d: Connect(pi.Addrs=%v) although the peer offered no non-relay address (CONNECT %v, peerstore %v)", i, cl.PiAddrs, cl.Offered, cl.PsAddrs)})
			}
		}
	}
	return vs
}

func c12hpCheckInit(w *c12hpWorld, c *c12hpInitCase, o *c12hpInitObs) (vs []c12hpViol) {
	vs = c12hpCheckCalls(w, o.Calls)
	nStreams := 0
	for _, cl := range o.Calls {
		if cl.Kind == "newstream" {
			nStreams++
		}
	}
	// "coordinated only over a relayed connection": with a direct connection in place there is nothing to coordinate
	if o.DirectAtStart && nStreams > 0 {
		vs = append(vs, c12hpViol{"coordination-despite-direct-connection", fmt.Sprintf("a direct connection existed, yet %d coordination stream(s) were opened", nStreams)})
	}
	// ... and a coordination stream never rides a direct connection, also not the one of a RETRY: a direct connection that
	// appeared while the previous attempt failed (the remote's punch landing a moment late) ends the exercise
	for i, cl := range o.Calls {
		if cl.Kind == "newstream" && strings.HasPrefix(cl.ConnKind, "direct") {
			vs = append(vs, c12hpViol{"coordination-stream-over-direct-connection", fmt.Sprintf("call #%d: the coordination stream was opened over a %s connection", i, cl.ConnKind)})
			break
		}
	}
	if c.Notify != 0 {
		return vs
	}
	// "reports success only when a direct connection exists"
	if o.Returned && o.Err == "" && !o.DirectAtReturn {
		vs = append(vs, c12hpViol{"success-without-direct-connection", "DirectConnect returned nil but the network holds no direct connection to the peer"})
	}
	// baselines (the run must not be vacuous)
	if o.Returned && o.DirectAtStart && o.Err != "" {
		vs = append(vs, c12hpViol{"baseline-existing-direct-connection-not-reported", "a direct connection existed but DirectConnect returned: " + o.Err})
	}
	if o.Returned && c.honest() && o.Err != "" {
		vs = append(vs, c12hpViol{"baseline-honest-punch-failed", "honest remote over a relayed connection, hole punch scripted to succeed, but DirectConnect returned: " + o.Err})
	}
	if o.Returned && c.DirectOK && c.PsMask&3 != 0 && c.onlyRelayed() && o.Err != "" {
		vs = append(vs, c12hpViol{"baseline-direct-dial-failed", "the peer has a public address and is directly reachable, but DirectConnect returned: " + o.Err})
	}
	return vs
}

// ---------- classes ----------

func c12hpErrClass(e string) string {
	switch {
	case e == "":
		return "ok"
	case strings.Contains(e, "no usable connection"):
		return "err:no-conn"
	case strings.Contains(e, "limited connection"):
		return "err:limited-conn"
	case strings.Contains(e, "failed to open hole-punching stream"):
		return "err:newstream"
	case strings.Contains(e, "no public address"):
		return "err:no-own-public-address"
	case strings.Contains(e, "failed to read CONNECT"):
		return "err:read-CONNECT"
	case strings.Contains(e, "expect CONNECT"):
		return "err:not-a-CONNECT"
	case strings.Contains(e, "didn't receive any public addresses"):
		return "err:no-usable-address-in-CONNECT"
	case strings.Contains(e, "all retries"):
		return "err:all-retries-failed"
	case strings.Contains(e, "active"):
		return "err:active"
	}
	return "err:other"
}

func c12hpInitClass(c *c12hpInitCase, o *c12hpInitObs) (class, sig string) {
	nStreams, nPunch, nDirect := 0, 0, 0
	overDirect := false
	var sb strings.Builder
	for _, cl := range o.Calls {
		switch cl.Kind {
		case "newstream":
			nStreams++
			if strings.HasPrefix(cl.ConnKind, "direct") {
				overDirect = true
			}
			fmt.Fprintf(&sb, "S[%v%v %s %s]", cl.AllowLimited, cl.NoDial, cl.ConnKind, cl.Result)
		case "connect":
			if cl.SimConnect {
				nPunch++
			} else {
				nDirect++
			}
			fmt.Fprintf(&sb, "C[%v%v%v n=%d ps=%d %s]", cl.ForceDirect, cl.SimConnect, cl.IsClient, len(cl.PiAddrs), len(cl.PsAddrs), cl.Result)
		}
	}
	path := "no-call"
	switch {
	case nStreams > 0 && nDirect > 0:
		path = "direct-dial+punch"
	case nStreams > 0:
		path = "punch"
	case nDirect > 0:
		path = "direct-dial"
	}
	if overDirect {
		path += "(stream-over-direct-conn)"
	}
	res := "notify"
	if c.Notify == 0 {
		res = c12hpErrClass(o.Err)
		if !o.Returned {
			res = "no-return"
		}
	}
	class = fmt.Sprintf("%s/attempts=%d/%s", path, nPunch, res)
	for _, co := range o.Coords {
		fmt.Fprintf(&sb, "R[%s %d %v %s]", co.GotType, len(co.GotAddrs), co.GotSync, co.Answered)
	}
	sig = fmt.Sprintf("ps=%d|", c.PsMask) + class + "|" + sb.String() + fmt.Sprintf("|d=%v>%v", o.DirectAtStart, o.DirectAtReturn)
	return class, sig
}

// ---------- enumeration ----------

// c12hpScripts enumerates the remote's behaviour over the (at most three) attempts. constant=true: the same
// answer on every attempt; otherwise every sequence. A script stops after an answer the initiator cannot use
// and after a successful Connect (later attempts are unreachable).
func c12hpScripts(constant bool) [][]c12hpStep {
	var out [][]c12hpStep
	var rec func(prefix []c12hpStep)
	rec = func(prefix []c12hpStep) {
		for a := 0; a < c12hpNAnswers; a++ {
			if constant && len(prefix) > 0 && prefix[0].Answer != a {
				continue
			}
			if !c12hpAnsUsable(a) {
				out = append(out, append(append([]c12hpStep{}, prefix...), c12hpStep{Answer: a}))
				continue
			}
			out = append(out, append(append([]c12hpStep{}, prefix...), c12hpStep{Answer: a, ConnectOK: true}))
			next := append(append([]c12hpStep{}, prefix...), c12hpStep{Answer: a})
			if len(next) == maxRetries {
				out = append(out, next)
			} else {
				rec(next)
			}
		}
	}
	rec(nil)
	return out
}

func c12hpConstant(sc []c12hpStep) bool {
	for _, st := range sc {
		if st.Answer != sc[0].Answer {
			return false
		}
	}
	return true
}

func c12hpInitCases(thorough bool, yield func(c c12hpInitCase) bool) {
	scripts := c12hpScripts(!thorough)
	all := c12hpScripts(false)
	flavours := []bool{false}
	if thorough {
		flavours = []bool{false, true}
	}
	// main space: the full product
	for ps := 0; ps < 32; ps++ {
		for conns := 0; conns < c12hpNConns; conns++ {
			for _, dok := range []bool{false, true} {
				for _, sc := range scripts {
					for ls := 0; ls < c12hpNListen; ls++ {
						for f := 0; f < c12hpNFilters; f++ {
							for _, fb := range flavours {
								if !yield(c12hpInitCase{Space: "main", PsMask: ps, Conns: conns, DirectOK: dok, Script: sc, Listen: ls, Filter: f, FailBlocks: fb}) {
									return
								}
							}
						}
					}
				}
			}
		}
	}
	if !thorough {
		// quick tier: every SEQUENCE of remote behaviours too, for public listen addresses and no filter,
		// and the blocking flavour of a failed dial with the constant scripts
		for ps := 0; ps < 32; ps++ {
			for conns := 0; conns < c12hpNConns; conns++ {
				for _, dok := range []bool{false, true} {
					for _, sc := range all {
						if c12hpConstant(sc) {
							continue // already in the main space
						}
						if !yield(c12hpInitCase{Space: "all-scripts", PsMask: ps, Conns: conns, DirectOK: dok, Script: sc, Listen: c12hpListenPublic, Filter: c12hpFilterNil}) {
							return
						}
					}
					for _, sc := range scripts {
						if !yield(c12hpInitCase{Space: "blocking-dial", PsMask: ps, Conns: conns, DirectOK: dok, Script: sc, Listen: c12hpListenPublic, Filter: c12hpFilterNil, FailBlocks: true}) {
							return
						}
					}
				}
			}
		}
	}
	// what Stat().Limited reports is a dimension of its own (relay without limits: relayed but not Limited; a
	// direct connection that reports Limited), over every peerstore subset and every connection set. quick: the
	// constant scripts for listen=public, filter=none; thorough: every sequence x every listen set. (The flags do
	// not interact with the address lists, which is what listen set and filter vary.)
	lfScripts, lfListen := scripts, []int{c12hpListenPublic}
	if thorough {
		lfScripts, lfListen = all, []int{c12hpListenPublic, c12hpListenRelayOnly, c12hpListenEmpty, c12hpListenMixed}
	}
	for lf := 1; lf < c12hpNLimFlags; lf++ {
		for ps := 0; ps < 32; ps++ {
			for conns := 0; conns < c12hpNConns; conns++ {
				for _, dok := range []bool{false, true} {
					for _, sc := range lfScripts {
						for _, ls := range lfListen {
							if !yield(c12hpInitCase{Space: "limited-flags", PsMask: ps, Conns: conns, DirectOK: dok, Script: sc, Listen: ls, Filter: c12hpFilterNil, LimFlags: lf}) {
								return
							}
						}
					}
				}
			}
		}
	}
	// a direct connection appears at every point of the directConnect history at which the environment has the floor:
	// during the preliminary direct dial (which then fails - the peerstore must hold a public non-relay address for
	// that dial to be made at all), during the k-th coordination exchange, during the k-th failed punch (= before the
	// next attempt's stream is opened); inbound (the remote's own dial landing) or outbound (another subsystem dialled).
	// (Before the call: the connection sets with a direct connection of the main space.)
	type latePoint struct {
		dial         bool
		coord, punch int
	}
	latePoints := []latePoint{{dial: true}, {coord: 1}, {punch: 1}, {coord: 2}, {punch: 2}, {coord: 3}, {punch: 3}}
	for lf := 0; lf < c12hpNLimFlags; lf++ {
		lateScripts := all
		if lf != 0 && !thorough {
			lateScripts = scripts
		}
		for _, out := range []bool{false, true} {
			for _, lp := range latePoints {
				for _, ps := range []int{0, 1, 2, 16, 31} {
					if lp.dial && ps&3 == 0 {
						continue // no public address in the peerstore: no preliminary dial, the point does not exist
					}
					for _, conns := range []int{c12hpConnsRelayedIn, c12hpConnsRelayedOut, c12hpConnsTwoRelayed} {
						for _, sc := range lateScripts {
							if len(sc) < max(lp.coord, lp.punch) {
								continue
							}
							fbs := []bool{false}
							if lp.dial {
								if !c12hpConstant(sc) && !thorough {
									continue // the script is reached only if the code goes on after the dial: constant scripts suffice in the quick tier
								}
								fbs = []bool{false, true} // both flavours of the failed dial
							}
							for _, fb := range fbs {
								if !yield(c12hpInitCase{Space: "late-direct", PsMask: ps, Conns: conns, Script: sc, Listen: c12hpListenPublic, LateAt: lp.punch, LateDial: lp.dial, LateCoord: lp.coord, LateOut: out, FailBlocks: fb, LimFlags: lf}) {
									return
								}
							}
						}
					}
				}
			}
		}
	}
	// the service starts only once listenAddrs() returns something (250 ms poll with back-off)
	for _, st := range []int{1, 3, 7} {
		for ls := 0; ls < c12hpNListen; ls++ {
			for _, sc := range scripts {
				for _, ps := range []int{0, 1} {
					if !yield(c12hpInitCase{Space: "startup-poll", PsMask: ps, Conns: c12hpConnsRelayedIn, Script: sc, Listen: ls, Startup: st}) {
						return
					}
				}
			}
		}
	}
	// the automatic trigger: Connected notifications for every kind of new connection
	for lf := 0; lf < c12hpNLimFlags; lf++ {
		for nk := 1; nk <= 4; nk++ {
			for _, ps := range []int{0, 1, 16, 31} {
				for _, pre := range []int{c12hpConnsNone, c12hpConnsRelayedOut, c12hpConnsDirectOnly} {
					for _, dok := range []bool{false, true} {
						for _, sc := range scripts {
							if !yield(c12hpInitCase{Space: "notify", PsMask: ps, Conns: pre, DirectOK: dok, Script: sc, Listen: c12hpListenPublic, Notify: nk, LimFlags: lf}) {
								return
							}
						}
					}
				}
			}
		}
	}
}

func c12hpInitiator(t *testing.T) {
	w := c12hpGetWorld()
	r := vrep.New("C12", "holepunch-initiator")
	defer r.Flush()
	thorough := vrep.Thorough()
	r.Bounds["peerstore"] = "all 32 subsets of {public tcp, public quic, private tcp, relay addr (private relay IP), relay addr (public relay IP)}"
	r.Bounds["connections"] = strings.Join(c12hpConnsNames, " | ")
	r.Bounds["stat_limited"] = strings.Join(c12hpLimNames, " | ") + " (applies to every connection of the execution, also those a dial creates)"
	r.Bounds["direct_dial"] = "fails | succeeds"
	r.Bounds["attempts"] = fmt.Sprintf("maxRetries=%d; Connect outcome per attempt fail|succeed", maxRetries)
	r.Bounds["remote_answers"] = strings.Join(c12hpAnsNames, " | ")
	if thorough {
		r.Bounds["remote_script"] = fmt.Sprintf("every sequence of answers over the attempts (%d scripts)", len(c12hpScripts(false)))
		r.Bounds["failed_dial"] = "fails after 300 ms | blocks until the context deadline (full product)"
	} else {
		r.Bounds["remote_script"] = fmt.Sprintf("main space: the same answer on every attempt (%d scripts); every sequence (%d scripts) for listen=public, filter=none and in the late-direct sub-space", len(c12hpScripts(true)), len(c12hpScripts(false)))
		r.Bounds["failed_dial"] = "fails after 300 ms; blocks until the context deadline for listen=public, filter=none"
	}
	r.Bounds["listen_addrs"] = strings.Join(c12hpListenNames, " | ")
	r.Bounds["addr_filter"] = strings.Join(c12hpFilterNames, " | ")
	r.Bounds["sub_spaces"] = "main (full product, natural Limited flags) | quick only: all-scripts, blocking-dial (listen=public, filter=none) | limited-flags (the 3 other settings of Stat().Limited x all peerstore subsets x all connection sets x direct dial; quick: constant scripts, listen=public, filter=none; thorough: every sequence x every listen set, filter=none) | late-direct (a direct connection - inbound or outbound - appears during the failed preliminary direct dial, during coordination exchange 1..3 or during failed punch 1..3; peerstore subsets {none, public tcp, public quic, relay only, all} x {relayed-in, relayed-out, two relayed}; all 4 Limited settings) | startup-poll (1,3,7 empty polls) | notify (Connected for 4 kinds of connection x 3 prior connection sets x 4 Limited settings)"
	shard, nshards := vrep.Shard()
	deadline := vrep.Deadline()
	distinct := map[string]struct{}{}
	classes := map[string]bool{}
	idx := -1
	problems := 0
	slow := 0
	overDirect := 0
	c12hpInitCases(thorough, func(c c12hpInitCase) bool {
		idx++
		// work is split by peerstore subset, which is part of the signature: per-worker distinct counts add up exactly
		if c.PsMask%nshards != shard {
			return true
		}
		if r.Executions%512 == 0 && time.Now().After(deadline) {
			r.Cap("deadline reached at case #%d", idx)
			return false
		}
		t0 := time.Now()
		o := c12hpRunInit(t, w, &c)
		if d := time.Since(t0); d > 2*time.Second && slow < 3 {
			slow++
			r.Note("slow execution (%.1fs of real time, infrastructure note): %s", d.Seconds(), c.describe(w))
		}
		if o.Problem != "" {
			problems++
			if problems <= 3 {
				r.Cap("execution without verdict (%s): %s", o.Problem, c.describe(w))
			}
			return problems < 50
		}
		r.Executions++
		class, sig := c12hpInitClass(&c, &o)
		if strings.Contains(class, "stream-over-direct-conn") {
			overDirect++
		}
		r.Outcome(class)
		distinct[sig] = struct{}{}
		if !classes[class] {
			classes[class] = true
			if len(classes)%5 == 1 {
				r.Sample(map[string]any{"case": c.describe(w), "class": class, "observed": o})
			}
		}
		for _, v := range c12hpCheckInit(w, &c, &o) {
			r.Violate(v.key, v.desc+"\n  case: "+c.describe(w)+fmt.Sprintf("\n  returned=%v err=%q direct connection before/after=%v/%v", o.Returned, o.Err, o.DirectAtStart, o.DirectAtReturn),
				map[string]any{"side": "initiator", "case": c, "observed": o})
		}
		return true
	})
	r.Distinct = int64(len(distinct))
	r.Note("cases enumerated (all shards): %d; outcome classes in this shard: %d", idx+1, len(classes))
	r.Note("executions of this shard in which a coordination stream rode a direct connection (a violation since the repair of DESIGN.md section 9, row 37): %d", overDirect)
}
