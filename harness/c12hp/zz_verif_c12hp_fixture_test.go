//go:build verif

package holepunch

// C12, hole-punching part: fixture.
//
// A hand-written fake host.Host / network.Network / network.Conn / network.Stream, just enough for the
// hole-punch service. Nothing here dials or listens: the "network" is a scripted list of connections to one
// remote peer, host.Connect / host.NewStream RECORD how they were called (context options, addresses) and
// answer the way BasicHost + Swarm would for that connection list (see Connect / NewStream below), and the far
// end of every coordination stream is a goroutine of the harness that speaks delimited pb.HolePunch messages
// according to a script. Everything runs inside a testing/synctest bubble, so RTT waits, StreamTimeout,
// directDialTimeout and the public-address poll run on virtual time.

import (
	"context"
	"errors"
	"fmt"
	"io"
	mrand "math/rand"
	"os"
	"sort"
	"sync"
	"time"

	"github.com/libp2p/go-libp2p/core/connmgr"
	ic "github.com/libp2p/go-libp2p/core/crypto"
	"github.com/libp2p/go-libp2p/core/event"
	"github.com/libp2p/go-libp2p/core/host"
	"github.com/libp2p/go-libp2p/core/network"
	"github.com/libp2p/go-libp2p/core/peer"
	"github.com/libp2p/go-libp2p/core/peerstore"
	"github.com/libp2p/go-libp2p/core/protocol"
	"github.com/libp2p/go-libp2p/p2p/host/peerstore/pstoremem"
	"github.com/libp2p/go-libp2p/p2p/protocol/holepunch/pb"
	"github.com/libp2p/go-libp2p/p2p/protocol/identify"
	"github.com/libp2p/go-libp2p/x/verif/vrep"
	"github.com/libp2p/go-msgio/pbio"
	ma "github.com/multiformats/go-multiaddr"
)

// ---------- identities and the address alphabet ----------

type c12hpWorld struct {
	self, remote, relay peer.ID

	// addresses of the REMOTE peer (peerstore alphabet, index = bit in c12hpInitCase.PsAddrs)
	remPubTCP, remPubQUIC, remPrivTCP, remRelayPriv, remRelayPub ma.Multiaddr
	remRelayFull                                                 ma.Multiaddr // relay address with the /p2p/<remote> suffix
	psAlphabet                                                   []ma.Multiaddr

	// our own addresses
	ownPubTCP, ownPubQUIC, ownRelay ma.Multiaddr

	// connection endpoints
	relayedRemote, relayedLocal, directRemote, directLocal ma.Multiaddr
}

var (
	c12hpW     *c12hpWorld
	c12hpWOnce sync.Once
)

func c12hpGetWorld() *c12hpWorld {
	c12hpWOnce.Do(func() {
		rd := mrand.New(mrand.NewSource(vrep.Seed()*7919 + 1212))
		mk := func() peer.ID {
			_, pub, err := ic.GenerateEd25519Key(rd)
			if err != nil {
				panic(err)
			}
			id, err := peer.IDFromPublicKey(pub)
			if err != nil {
				panic(err)
			}
			return id
		}
		w := &c12hpWorld{self: mk(), remote: mk(), relay: mk()}
		w.remPubTCP = ma.StringCast("/ip4/1.2.3.4/tcp/4001")
		w.remPubQUIC = ma.StringCast("/ip4/1.2.3.4/udp/4001/quic-v1")
		w.remPrivTCP = ma.StringCast("/ip4/192.168.1.7/tcp/4001")
		w.remRelayPriv = ma.StringCast("/ip4/10.9.9.9/tcp/4001/p2p/" + w.relay.String() + "/p2p-circuit")
		w.remRelayPub = ma.StringCast("/ip4/5.6.7.8/tcp/4001/p2p/" + w.relay.String() + "/p2p-circuit")
		w.remRelayFull = ma.StringCast("/ip4/5.6.7.8/tcp/4001/p2p/" + w.relay.String() + "/p2p-circuit/p2p/" + w.remote.String())
		w.psAlphabet = []ma.Multiaddr{w.remPubTCP, w.remPubQUIC, w.remPrivTCP, w.remRelayPriv, w.remRelayPub}
		w.ownPubTCP = ma.StringCast("/ip4/9.8.7.6/tcp/4001")
		w.ownPubQUIC = ma.StringCast("/ip4/9.8.7.6/udp/4001/quic-v1")
		w.ownRelay = ma.StringCast("/ip4/5.6.7.8/tcp/4001/p2p/" + w.relay.String() + "/p2p-circuit")
		w.relayedRemote = ma.StringCast("/ip4/5.6.7.8/tcp/4001/p2p/" + w.relay.String() + "/p2p-circuit")
		w.relayedLocal = ma.StringCast("/ip4/192.168.0.2/tcp/50001") // as circuitv2/client.Conn: local address of the hop to the relay
		w.directRemote = ma.StringCast("/ip4/1.2.3.4/tcp/4001")
		w.directLocal = ma.StringCast("/ip4/192.168.0.2/tcp/50002")
		c12hpW = w
	})
	return c12hpW
}

// c12hpIsRelay is the harness's own notion of "relay address" (deliberately NOT the package's isRelayAddress,
// which is code under test): the address contains a /p2p-circuit component.
func c12hpIsRelay(a ma.Multiaddr) bool {
	for i := range a {
		if a[i].Code() == ma.P_CIRCUIT {
			return true
		}
	}
	return false
}

func c12hpStrs(as []ma.Multiaddr) []string {
	out := make([]string, 0, len(as))
	for _, a := range as {
		out = append(out, a.String())
	}
	return out
}

func c12hpSorted(s []string) []string {
	out := append([]string{}, s...)
	sort.Strings(out)
	return out
}

// ---------- connections ----------

type c12hpConn struct {
	id            string
	local, remote peer.ID
	laddr, raddr  ma.Multiaddr
	dir           network.Direction
	isRelayed     bool // ground truth: made through a relay (its remote multiaddr is a /p2p-circuit address)
	limited       bool // what Stat().Limited reports; an independent dimension (c12hpLim*)
	mu            sync.Mutex
	closed        bool
}

var _ network.Conn = (*c12hpConn)(nil)

func (c *c12hpConn) Close() error                               { c.mu.Lock(); c.closed = true; c.mu.Unlock(); return nil }
func (c *c12hpConn) CloseWithError(network.ConnErrorCode) error { return c.Close() }
func (c *c12hpConn) LocalPeer() peer.ID                         { return c.local }
func (c *c12hpConn) RemotePeer() peer.ID                        { return c.remote }
func (c *c12hpConn) RemotePublicKey() ic.PubKey                 { return nil }
func (c *c12hpConn) ConnState() network.ConnectionState         { return network.ConnectionState{} }
func (c *c12hpConn) LocalMultiaddr() ma.Multiaddr               { return c.laddr }
func (c *c12hpConn) RemoteMultiaddr() ma.Multiaddr              { return c.raddr }
func (c *c12hpConn) Scope() network.ConnScope                   { return &network.NullScope{} }
func (c *c12hpConn) ID() string                                 { return c.id }
func (c *c12hpConn) GetStreams() []network.Stream               { return nil }
func (c *c12hpConn) IsClosed() bool                             { c.mu.Lock(); defer c.mu.Unlock(); return c.closed }
func (c *c12hpConn) As(any) bool                                { return false }
func (c *c12hpConn) NewStream(context.Context) (network.Stream, error) {
	return nil, errors.New("c12hp: Conn.NewStream is not scripted")
}
func (c *c12hpConn) Stat() network.ConnStats {
	return network.ConnStats{Stats: network.Stats{Direction: c.dir, Limited: c.limited}}
}

// relayed is the fixture's ground truth (how the connection was made), independent of what the code under
// test reads from the multiaddrs or from Stat().
func (c *c12hpConn) relayed() bool { return c.isRelayed }

func (c *c12hpConn) kind() string {
	k := "direct"
	if c.relayed() {
		k = "relayed"
		if !c.limited {
			k = "relayed-unlimited"
		}
	} else if c.limited {
		k = "direct-limited"
	}
	if c.dir == network.DirInbound {
		return k + "-inbound"
	}
	return k + "-outbound"
}

// What Stat().Limited says, as a dimension of its own: a relayed connection is limited only if the relay imposes
// limits (relayv2.WithInfiniteLimits gives Limited == false on a /p2p-circuit connection), and nothing in the
// types keeps a transport from reporting Limited on a connection that is not relayed. The flags apply to every
// connection of an execution: the scripted ones, those a dial creates and the late inbound one.
const (
	c12hpLimNatural          = 0 // relayed => Limited, direct => not Limited
	c12hpLimRelayedUnlimited = 1 // bit 0: relayed connections report Limited == false
	c12hpLimDirectLimited    = 2 // bit 1: direct connections report Limited == true
	c12hpNLimFlags           = 4 // 3 = both
)

var c12hpLimNames = []string{"relayed:limited,direct:unlimited", "relayed:UNLIMITED,direct:unlimited", "relayed:limited,direct:LIMITED", "relayed:UNLIMITED,direct:LIMITED"}

func c12hpLimitedFor(limFlags int, relayed bool) bool {
	if relayed {
		return limFlags&c12hpLimRelayedUnlimited == 0
	}
	return limFlags&c12hpLimDirectLimited != 0
}

func c12hpNewConn(w *c12hpWorld, seq int, relayed, limited bool, dir network.Direction) *c12hpConn {
	c := &c12hpConn{id: fmt.Sprintf("c%d", seq), local: w.self, remote: w.remote, dir: dir, isRelayed: relayed, limited: limited}
	if relayed {
		c.laddr, c.raddr = w.relayedLocal, w.relayedRemote
	} else {
		c.laddr, c.raddr = w.directLocal, w.directRemote
	}
	return c
}

// ---------- streams: two buffered byte queues ----------

type c12hpQueue struct {
	mu     sync.Mutex
	buf    []byte
	closed bool // writer closed: EOF once drained
	reset  bool
	wake   chan struct{}
}

func c12hpNewQueue() *c12hpQueue { return &c12hpQueue{wake: make(chan struct{})} }

// signal wakes every blocked reader; q.mu must be held.
func (q *c12hpQueue) signal() { close(q.wake); q.wake = make(chan struct{}) }

type c12hpStream struct {
	conn    *c12hpConn
	in, out *c12hpQueue
	name    string
	proto   protocol.ID

	mu          sync.Mutex
	rdl         time.Time
	wasReset    bool // this end called Reset
	wasClosed   bool // this end called Close
	nWrites     int
	setDeadline bool
}

var _ network.Stream = (*c12hpStream)(nil)

// c12hpStreamPair returns the two ends of a stream that rides conn; a is the end handed to the code under test.
func c12hpStreamPair(conn *c12hpConn, name string) (a, b *c12hpStream) {
	q1, q2 := c12hpNewQueue(), c12hpNewQueue()
	a = &c12hpStream{conn: conn, in: q1, out: q2, name: name + "/local", proto: Protocol}
	b = &c12hpStream{conn: conn, in: q2, out: q1, name: name + "/remote", proto: Protocol}
	return a, b
}

func (s *c12hpStream) Read(p []byte) (int, error) {
	for {
		s.mu.Lock()
		dl := s.rdl
		closedLocally := s.wasClosed
		s.mu.Unlock()
		q := s.in
		q.mu.Lock()
		switch {
		case q.reset:
			q.mu.Unlock()
			return 0, network.ErrReset
		case closedLocally:
			q.mu.Unlock()
			return 0, errors.New("c12hp: read on closed stream")
		case len(q.buf) > 0:
			n := copy(p, q.buf)
			q.buf = q.buf[n:]
			q.mu.Unlock()
			return n, nil
		case q.closed:
			q.mu.Unlock()
			return 0, io.EOF
		}
		wake := q.wake
		q.mu.Unlock()
		var tc <-chan time.Time
		var tm *time.Timer
		if !dl.IsZero() {
			d := time.Until(dl)
			if d <= 0 {
				return 0, os.ErrDeadlineExceeded
			}
			tm = time.NewTimer(d)
			tc = tm.C
		}
		select {
		case <-wake:
			if tm != nil {
				tm.Stop()
			}
		case <-tc:
			return 0, os.ErrDeadlineExceeded
		}
	}
}

func (s *c12hpStream) Write(p []byte) (int, error) {
	s.mu.Lock()
	closedLocally := s.wasClosed
	s.nWrites++
	s.mu.Unlock()
	q := s.out
	q.mu.Lock()
	defer q.mu.Unlock()
	if q.reset {
		return 0, network.ErrReset
	}
	if closedLocally || q.closed {
		return 0, errors.New("c12hp: write on closed stream")
	}
	q.buf = append(q.buf, p...)
	q.signal()
	return len(p), nil
}

func (s *c12hpStream) CloseWrite() error {
	s.out.mu.Lock()
	if !s.out.closed {
		s.out.closed = true
		s.out.signal()
	}
	s.out.mu.Unlock()
	return nil
}

func (s *c12hpStream) CloseRead() error { return nil }

func (s *c12hpStream) Close() error {
	s.mu.Lock()
	s.wasClosed = true
	s.mu.Unlock()
	s.CloseWrite()
	// wake our own blocked readers
	s.in.mu.Lock()
	s.in.signal()
	s.in.mu.Unlock()
	return nil
}

func (s *c12hpStream) Reset() error {
	s.mu.Lock()
	s.wasReset = true
	s.mu.Unlock()
	for _, q := range []*c12hpQueue{s.in, s.out} {
		q.mu.Lock()
		if !q.reset {
			q.reset = true
			q.signal()
		}
		q.mu.Unlock()
	}
	return nil
}

func (s *c12hpStream) ResetWithError(network.StreamErrorCode) error { return s.Reset() }
func (s *c12hpStream) SetDeadline(t time.Time) error {
	s.mu.Lock()
	s.rdl = t
	s.setDeadline = true
	s.mu.Unlock()
	return nil
}
func (s *c12hpStream) SetReadDeadline(t time.Time) error  { return s.SetDeadline(t) }
func (s *c12hpStream) SetWriteDeadline(t time.Time) error { return nil }
func (s *c12hpStream) ID() string                         { return s.name }
func (s *c12hpStream) Protocol() protocol.ID              { return s.proto }
func (s *c12hpStream) SetProtocol(id protocol.ID) error   { s.proto = id; return nil }
func (s *c12hpStream) Stat() network.Stats                { return network.Stats{Direction: network.DirOutbound} }
func (s *c12hpStream) Conn() network.Conn                 { return s.conn }
func (s *c12hpStream) Scope() network.StreamScope         { return &network.NullScope{} }

func (s *c12hpStream) flags() (reset, closed bool, writes int) {
	s.mu.Lock()
	defer s.mu.Unlock()
	return s.wasReset, s.wasClosed, s.nWrites
}

// ---------- network ----------

type c12hpNet struct {
	network.Network // unimplemented methods panic (nil interface): none of them is reached by the package
	h               *c12hpHost
}

func (n *c12hpNet) Peerstore() peerstore.Peerstore { return n.h.ps }
func (n *c12hpNet) LocalPeer() peer.ID             { return n.h.id }
func (n *c12hpNet) Close() error                   { return nil }
func (n *c12hpNet) ConnsToPeer(p peer.ID) []network.Conn {
	n.h.mu.Lock()
	defer n.h.mu.Unlock()
	var out []network.Conn
	for _, c := range n.h.conns {
		if c.remote == p && !c.IsClosed() {
			out = append(out, c)
		}
	}
	return out
}
func (n *c12hpNet) Conns() []network.Conn { return n.ConnsToPeer(n.h.w.remote) }
func (n *c12hpNet) Peers() []peer.ID {
	if len(n.ConnsToPeer(n.h.w.remote)) > 0 {
		return []peer.ID{n.h.w.remote}
	}
	return nil
}
func (n *c12hpNet) Connectedness(p peer.ID) network.Connectedness {
	cs := n.ConnsToPeer(p)
	if len(cs) == 0 {
		return network.NotConnected
	}
	for _, c := range cs {
		if !c.Stat().Limited {
			return network.Connected
		}
	}
	return network.Limited
}
func (n *c12hpNet) Notify(nf network.Notifiee) {
	n.h.mu.Lock()
	n.h.notifiees = append(n.h.notifiees, nf)
	n.h.mu.Unlock()
}
func (n *c12hpNet) StopNotify(nf network.Notifiee) {
	n.h.mu.Lock()
	defer n.h.mu.Unlock()
	for i, x := range n.h.notifiees {
		if x == nf {
			n.h.notifiees = append(n.h.notifiees[:i], n.h.notifiees[i+1:]...)
			return
		}
	}
}
func (n *c12hpNet) CanDial(peer.ID, ma.Multiaddr) bool       { return true }
func (n *c12hpNet) ResourceManager() network.ResourceManager { return &network.NullResourceManager{} }
func (n *c12hpNet) ListenAddresses() []ma.Multiaddr          { return nil }
func (n *c12hpNet) SetStreamHandler(network.StreamHandler)   {}
func (n *c12hpNet) StopListen()                              {}

// ---------- recorded calls ----------

// c12hpCall is one host.Connect or host.NewStream issued by the code under test.
type c12hpCall struct {
	Kind string `json:"kind"` // "connect" | "newstream"
	AtMs int64  `json:"at_ms"`

	// connect
	ForceDirect bool     `json:"force_direct,omitempty"`
	SimConnect  bool     `json:"sim_connect,omitempty"`
	IsClient    bool     `json:"is_client,omitempty"`
	Deadline    bool     `json:"ctx_deadline,omitempty"`
	Peer        string   `json:"peer,omitempty"`
	PeerOK      bool     `json:"peer_ok"`
	PiAddrs     []string `json:"pi_addrs,omitempty"`
	PsAddrs     []string `json:"peerstore_addrs,omitempty"` // addresses in the peerstore for the peer when the call was made
	Dialled     []string `json:"dialled,omitempty"`         // what the modelled swarm would dial
	Offered     []string `json:"offered,omitempty"`         // addresses the remote announced on the current coordination stream (as parsed by the harness)

	// newstream
	AllowLimited bool   `json:"allow_limited,omitempty"`
	NoDial       bool   `json:"no_dial,omitempty"`
	Proto        string `json:"proto,omitempty"`
	ConnKind     string `json:"conn,omitempty"`
	ImplicitDial bool   `json:"implicit_dial,omitempty"` // no connection and no NoDial: a real host would dial here

	Result string `json:"result"`
}

// ---------- host ----------

type c12hpHost struct {
	host.Host // unimplemented methods panic (nil interface): none of them is reached by the package
	w         *c12hpWorld
	id        peer.ID
	ps        peerstore.Peerstore
	net       *c12hpNet
	start     time.Time

	mu        sync.Mutex
	conns     []*c12hpConn
	connSeq   int
	notifiees []network.Notifiee
	handlers  map[protocol.ID]network.StreamHandler
	calls     []c12hpCall
	streams   []*c12hpStream // local ends handed out by NewStream
	wg        sync.WaitGroup // remote-end driver goroutines

	// script
	limFlags    int                                               // c12hpLim*: what Stat().Limited reports for relayed / direct connections
	directOK    bool                                              // outcome of a force-direct dial that is not a simultaneous-connect attempt
	punchOK     func(k int) bool                                  // outcome of the k-th (0-based) simultaneous-connect dial
	failBlocks  bool                                              // a failing dial blocks until the context deadline instead of failing after 300 ms
	lateAt      int                                               // a direct connection appears during the lateAt-th failed punch (1-based, 0 = never): the remote's own dial landing
	lateDial    bool                                              // a direct connection appears during the preliminary direct dial (the one that is no simultaneous connect), which fails
	lateOut     bool                                              // the appearing direct connection is an OUTBOUND one (dialled by another subsystem of this host) instead of an inbound one
	remoteEnd   func(k int, remote *c12hpStream, rec *c12hpCoord) // drives the far end of the k-th coordination stream
	streamError func(k int) error                                 // NewStream fails (e.g. protocol negotiation) for the k-th stream
	nPunch      int
	nStream     int
	coords      []*c12hpCoord
	lastOffered []ma.Multiaddr
}

// c12hpCoord is what the far end of one coordination stream saw and did.
type c12hpCoord struct {
	mu         sync.Mutex
	GotType    string   `json:"got_type,omitempty"` // first message received from the code under test
	GotAddrs   []string `json:"got_addrs,omitempty"`
	GotSync    bool     `json:"got_sync,omitempty"`
	Answered   string   `json:"answered,omitempty"`
	ConnKind   string   `json:"conn,omitempty"`
	offered    []ma.Multiaddr
	offeredSet bool
}

func c12hpNewHost(w *c12hpWorld) *c12hpHost {
	ps, err := pstoremem.NewPeerstore()
	if err != nil {
		panic(err)
	}
	h := &c12hpHost{w: w, id: w.self, ps: ps, handlers: map[protocol.ID]network.StreamHandler{}, start: time.Now()}
	h.net = &c12hpNet{h: h}
	h.punchOK = func(int) bool { return false }
	return h
}

func (h *c12hpHost) addConn(relayed bool, dir network.Direction) *c12hpConn {
	h.mu.Lock()
	defer h.mu.Unlock()
	h.connSeq++
	c := c12hpNewConn(h.w, h.connSeq, relayed, c12hpLimitedFor(h.limFlags, relayed), dir)
	h.conns = append(h.conns, c)
	return c
}

// addLate: the environment produces a direct connection to the peer while the code under test is busy with
// something else (the remote's dial getting through, or another subsystem of this host dialling the peer).
func (h *c12hpHost) addLate() *c12hpConn {
	dir := network.DirInbound
	if h.lateOut {
		dir = network.DirOutbound
	}
	return h.addConn(false, dir)
}

func (h *c12hpHost) hasDirect() bool {
	h.mu.Lock()
	defer h.mu.Unlock()
	for _, c := range h.conns {
		if !c.relayed() && !c.IsClosed() {
			return true
		}
	}
	return false
}

// bestConn is the swarm's bestConnToPeer over the scripted connections: a connection that is not Limited beats a
// Limited one, then a direct one beats a relayed one (isBetterConn); ties keep the earlier connection.
func (h *c12hpHost) bestConn(p peer.ID) *c12hpConn {
	h.mu.Lock()
	defer h.mu.Unlock()
	var best *c12hpConn
	for _, c := range h.conns {
		if c.remote != p || c.IsClosed() {
			continue
		}
		switch {
		case best == nil:
			best = c
		case c.limited != best.limited:
			if !c.limited {
				best = c
			}
		case c.relayed() != best.relayed():
			if !c.relayed() {
				best = c
			}
		}
	}
	return best
}

func (h *c12hpHost) ID() peer.ID                      { return h.id }
func (h *c12hpHost) Peerstore() peerstore.Peerstore   { return h.ps }
func (h *c12hpHost) Addrs() []ma.Multiaddr            { return nil }
func (h *c12hpHost) Network() network.Network         { return h.net }
func (h *c12hpHost) Mux() protocol.Switch             { return nil }
func (h *c12hpHost) ConnManager() connmgr.ConnManager { return &connmgr.NullConnMgr{} }
func (h *c12hpHost) EventBus() event.Bus              { return nil }
func (h *c12hpHost) Close() error                     { return nil }
func (h *c12hpHost) SetStreamHandlerMatch(protocol.ID, func(protocol.ID) bool, network.StreamHandler) {
}
func (h *c12hpHost) SetStreamHandler(p protocol.ID, f network.StreamHandler) {
	h.mu.Lock()
	h.handlers[p] = f
	h.mu.Unlock()
}
func (h *c12hpHost) RemoveStreamHandler(p protocol.ID) {
	h.mu.Lock()
	delete(h.handlers, p)
	h.mu.Unlock()
}
func (h *c12hpHost) handler(p protocol.ID) network.StreamHandler {
	h.mu.Lock()
	defer h.mu.Unlock()
	return h.handlers[p]
}

func (h *c12hpHost) record(c c12hpCall) int {
	h.mu.Lock()
	defer h.mu.Unlock()
	c.AtMs = time.Since(h.start).Milliseconds()
	h.calls = append(h.calls, c)
	return len(h.calls) - 1
}

func (h *c12hpHost) setResult(i int, res string, dialled []ma.Multiaddr) {
	h.mu.Lock()
	h.calls[i].Result = res
	h.calls[i].Dialled = c12hpStrs(dialled)
	h.mu.Unlock()
}

// Connect records the call and then behaves like BasicHost.Connect over a Swarm holding h.conns:
//   - pi.Addrs are absorbed into the peerstore;
//   - without force-direct, ANY existing connection (also a limited one) satisfies the call: Swarm.dialPeer
//     returns bestAcceptableConnToPeer, which only rejects a limited connection under force-direct;
//   - with force-direct the call is satisfied by the best existing connection if that one is not relayed
//     (bestAcceptableConnToPeer: isDirectConn = the transport is no proxy; Stat().Limited plays no part);
//     otherwise the peerstore addresses are dialled, relay addresses filtered out under force-direct; nothing
//     to dial => error;
//   - the scripted outcome decides the dial; success adds a connection of the kind that was dialled.
func (h *c12hpHost) Connect(ctx context.Context, pi peer.AddrInfo) error {
	force, _ := network.GetForceDirectDial(ctx)
	sim, isClient, _ := network.GetSimultaneousConnect(ctx)
	_, hasDL := ctx.Deadline()
	h.mu.Lock()
	offered := c12hpStrs(h.lastOffered)
	h.mu.Unlock()
	idx := h.record(c12hpCall{Kind: "connect", ForceDirect: force, SimConnect: sim, IsClient: isClient, Deadline: hasDL,
		Peer: pi.ID.String(), PeerOK: pi.ID == h.w.remote, PiAddrs: c12hpStrs(pi.Addrs),
		PsAddrs: c12hpSorted(c12hpStrs(h.ps.Addrs(pi.ID))), Offered: offered})
	h.ps.AddAddrs(pi.ID, pi.Addrs, peerstore.TempAddrTTL)

	conns := h.net.ConnsToPeer(pi.ID)
	if !force && len(conns) > 0 {
		h.setResult(idx, "ok:existing-connection-accepted-without-force-direct", nil)
		return nil
	}
	if best := h.bestConn(pi.ID); force && best != nil && !best.relayed() {
		h.setResult(idx, "ok:existing-direct-connection", nil)
		return nil
	}
	var dial []ma.Multiaddr
	anyDirect := false
	for _, a := range h.ps.Addrs(pi.ID) {
		if len(a) == 0 {
			continue
		}
		if c12hpIsRelay(a) {
			if force {
				continue
			}
		} else {
			anyDirect = true
		}
		dial = append(dial, a)
	}
	if len(dial) == 0 {
		h.setResult(idx, "err:no-good-addresses", nil)
		return errors.New("c12hp: no good addresses")
	}
	ok := h.directOK
	late := false
	if sim {
		h.mu.Lock()
		k := h.nPunch
		h.nPunch++
		late = h.lateAt != 0 && h.lateAt == k+1
		h.mu.Unlock()
		ok = h.punchOK(k)
	} else {
		late = h.lateDial
	}
	// a dial takes (virtual) time
	select {
	case <-time.After(300 * time.Millisecond):
	case <-ctx.Done():
		h.setResult(idx, "err:context", dial)
		return ctx.Err()
	}
	if !ok && h.failBlocks && hasDL {
		// the other flavour of a failed dial: nothing answers until the caller's deadline
		<-ctx.Done()
		if late {
			h.addLate()
		}
		h.setResult(idx, "err:context-deadline", dial)
		return ctx.Err()
	}
	if !ok {
		if late {
			// our dial failed but a direct connection appears meanwhile (the remote's dial got through, or somebody else's did)
			h.addLate()
		}
		h.setResult(idx, "err:dial-failed", dial)
		return errors.New("c12hp: all dials failed")
	}
	h.addConn(!anyDirect, network.DirOutbound)
	h.setResult(idx, "ok:dialled", dial)
	return nil
}

// NewStream records the call and then behaves like BasicHost.NewStream over a Swarm holding h.conns: no
// connection => ErrNoConn under no-dial (otherwise a real host would dial: recorded as ImplicitDial and failed);
// the best connection is one that is not Limited if there is any, then a direct one (bestConn); a connection
// that reports Limited is used only with allow-limited (the real swarm would wait for a direct connection; the
// fixture fails at once with ErrLimitedConn). What counts here is Stat().Limited, as in Swarm.NewStream: a
// relayed connection of a relay without limits carries any stream.
func (h *c12hpHost) NewStream(ctx context.Context, p peer.ID, protos ...protocol.ID) (network.Stream, error) {
	allow, _ := network.GetAllowLimitedConn(ctx)
	nodial, _ := network.GetNoDial(ctx)
	call := c12hpCall{Kind: "newstream", AllowLimited: allow, NoDial: nodial, Peer: p.String(), PeerOK: p == h.w.remote}
	if len(protos) > 0 {
		call.Proto = string(protos[0])
	}
	best := h.bestConn(p)
	h.mu.Lock()
	k := h.nStream
	h.nStream++
	h.lastOffered = nil // a new coordination round: nothing offered yet
	h.mu.Unlock()
	if best == nil {
		if nodial {
			call.Result = "err:no-conn"
			h.record(call)
			return nil, network.ErrNoConn
		}
		call.ImplicitDial = true
		call.Result = "err:dial-failed"
		h.record(call)
		return nil, errors.New("c12hp: implicit dial failed")
	}
	call.ConnKind = best.kind()
	if best.limited && !allow {
		call.Result = "err:limited-conn"
		h.record(call)
		return nil, network.ErrLimitedConn
	}
	if h.streamError != nil {
		if err := h.streamError(k); err != nil {
			call.Result = "err:" + err.Error()
			h.record(call)
			return nil, err
		}
	}
	call.Result = "ok"
	h.record(call)
	local, remote := c12hpStreamPair(best, fmt.Sprintf("s%d", k))
	rec := &c12hpCoord{ConnKind: best.kind()}
	h.mu.Lock()
	h.streams = append(h.streams, local)
	h.coords = append(h.coords, rec)
	h.mu.Unlock()
	h.wg.Add(1)
	go func() {
		defer h.wg.Done()
		if h.remoteEnd != nil {
			h.remoteEnd(k, remote, rec)
		}
		// drain until the local end closes or resets, so that the goroutine always ends with the stream
		buf := make([]byte, 256)
		for {
			if _, err := remote.Read(buf); err != nil {
				return
			}
		}
	}()
	return local, nil
}

// noteOffered remembers the addresses the remote announced on the current coordination stream (parsed by the
// harness, not by the code under test; in any message type) so that Connect calls can be compared with them.
func (h *c12hpHost) noteOffered(as []ma.Multiaddr) {
	h.mu.Lock()
	h.lastOffered = append(h.lastOffered, as...)
	h.mu.Unlock()
}

func (h *c12hpHost) snapshotCalls() []c12hpCall {
	h.mu.Lock()
	defer h.mu.Unlock()
	return append([]c12hpCall{}, h.calls...)
}

// ---------- identify ----------

type c12hpIDS struct{ identify.IDService }

var c12hpClosedCh = func() chan struct{} { c := make(chan struct{}); close(c); return c }()

func (c12hpIDS) IdentifyConn(network.Conn)                 {}
func (c12hpIDS) IdentifyWait(network.Conn) <-chan struct{} { return c12hpClosedCh }
func (c12hpIDS) Start()                                    {}
func (c12hpIDS) Close() error                              { return nil }

// ---------- address filters ----------

type c12hpFilter struct{ kind int }

const (
	c12hpFilterNil = iota
	c12hpFilterIdentity
	c12hpFilterTCPOnly    // both directions: keep only TCP addresses
	c12hpFilterDropRemote // discard everything the remote announced
	c12hpFilterDropLocal  // announce nothing
	c12hpNFilters
)

var c12hpFilterNames = []string{"none", "identity", "tcp-only", "drop-remote", "drop-local"}

func c12hpTCPOnly(as []ma.Multiaddr) []ma.Multiaddr {
	var out []ma.Multiaddr
	for _, a := range as {
		if _, err := a.ValueForProtocol(ma.P_TCP); err == nil {
			out = append(out, a)
		}
	}
	return out
}

func (f *c12hpFilter) FilterLocal(_ peer.ID, as []ma.Multiaddr) []ma.Multiaddr {
	switch f.kind {
	case c12hpFilterTCPOnly:
		return c12hpTCPOnly(as)
	case c12hpFilterDropLocal:
		return nil
	}
	return as
}

func (f *c12hpFilter) FilterRemote(_ peer.ID, as []ma.Multiaddr) []ma.Multiaddr {
	switch f.kind {
	case c12hpFilterTCPOnly:
		return c12hpTCPOnly(as)
	case c12hpFilterDropRemote:
		return nil
	}
	return as
}

// ---------- our own listen addresses ----------

const (
	c12hpListenPublic = iota // public tcp + quic
	c12hpListenRelayOnly
	c12hpListenEmpty
	c12hpListenMixed // relay + public tcp
	c12hpNListen
)

var c12hpListenNames = []string{"public", "relay-only", "empty", "relay+public"}

func c12hpListen(w *c12hpWorld, kind int) []ma.Multiaddr {
	switch kind {
	case c12hpListenPublic:
		return []ma.Multiaddr{w.ownPubTCP, w.ownPubQUIC}
	case c12hpListenRelayOnly:
		return []ma.Multiaddr{w.ownRelay}
	case c12hpListenMixed:
		return []ma.Multiaddr{w.ownRelay, w.ownPubTCP}
	}
	return nil
}

// ---------- the remote's messages ----------

// Answer alphabet: what the far end does on a coordination stream after it has read our first message
// (initiator side), and what an initiator sends as its first message (receiver side).
const (
	c12hpAnsPublic       = iota // CONNECT [public tcp]
	c12hpAnsMulti               // CONNECT [public tcp, public quic, private tcp]
	c12hpAnsMixed               // CONNECT [relay, public tcp, relay-with-/p2p-suffix]
	c12hpAnsRelayOnly           // CONNECT [relay (public relay IP), relay (private relay IP), relay-with-/p2p-suffix]
	c12hpAnsEmpty               // CONNECT []
	c12hpAnsMalformed           // CONNECT [0xff 0xff, empty, truncated address]
	c12hpAnsMalformedRel        // CONNECT [garbage, relay]
	c12hpAnsSync                // SYNC (carrying a public address) where CONNECT is expected
	c12hpAnsEOF                 // closes the stream without answering
	c12hpAnsReset               // resets the stream
	c12hpAnsStall               // says nothing until the other side gives up
	c12hpAnsGarbage             // bytes that are no delimited protobuf (oversized length prefix)
	c12hpAnsStreamErr           // initiator side only: NewStream itself fails (protocol negotiation)
	c12hpNAnswers
)

var c12hpAnsNames = []string{"CONNECT[public]", "CONNECT[public x2,private]", "CONNECT[relay,public,relay]", "CONNECT[relay only]",
	"CONNECT[]", "CONNECT[malformed]", "CONNECT[malformed,relay]", "SYNC-for-CONNECT", "EOF", "RESET", "STALL", "GARBAGE", "NEWSTREAM-ERROR"}

// c12hpAnsUsable: the harness's expectation that an honest initiator can go on after this answer (used only to
// prune unreachable tails of the script enumeration and to pick the baselines, never as an oracle).
func c12hpAnsUsable(a int) bool {
	return a == c12hpAnsPublic || a == c12hpAnsMulti || a == c12hpAnsMixed
}

// c12hpAnswerBytes returns the ObsAddrs of a CONNECT answer and the addresses a correct parser gets from them.
func c12hpAnswerBytes(w *c12hpWorld, a int) (raw [][]byte, parsed []ma.Multiaddr) {
	add := func(m ma.Multiaddr) { raw = append(raw, m.Bytes()); parsed = append(parsed, m) }
	switch a {
	case c12hpAnsPublic, c12hpAnsSync:
		add(w.remPubTCP)
	case c12hpAnsMulti:
		add(w.remPubTCP)
		add(w.remPubQUIC)
		add(w.remPrivTCP)
	case c12hpAnsMixed:
		add(w.remRelayPub)
		add(w.remPubTCP)
		add(w.remRelayFull)
	case c12hpAnsRelayOnly:
		add(w.remRelayPub)
		add(w.remRelayPriv)
		add(w.remRelayFull)
	case c12hpAnsMalformed:
		raw = append(raw, []byte{0xff, 0xff}, []byte{}, w.remPubTCP.Bytes()[:3])
	case c12hpAnsMalformedRel:
		raw = append(raw, []byte{0x00, 0x01, 0x02})
		add(w.remRelayPub)
	}
	return raw, parsed
}

// c12hpParse parses ObsAddrs the way the specification asks (drop what does not parse); harness-side.
func c12hpParse(raw [][]byte) []ma.Multiaddr {
	var out []ma.Multiaddr
	for _, b := range raw {
		if a, err := ma.NewMultiaddrBytes(b); err == nil && len(a) > 0 {
			out = append(out, a)
		}
	}
	return out
}

func c12hpNonRelay(as []ma.Multiaddr) []ma.Multiaddr {
	var out []ma.Multiaddr
	for _, a := range as {
		if len(a) > 0 && !c12hpIsRelay(a) {
			out = append(out, a)
		}
	}
	return out
}

const c12hpRTT = 40 * time.Millisecond

// c12hpPlayRemote sends the scripted message `a` on the far end of a stream (after the delay that models the
// round trip). It returns false when the script ends the conversation (EOF/RESET/STALL/GARBAGE).
func c12hpPlayRemote(w *c12hpWorld, remote *c12hpStream, a int) bool {
	wr := pbio.NewDelimitedWriter(remote)
	switch a {
	case c12hpAnsEOF:
		remote.CloseWrite()
		return false
	case c12hpAnsReset:
		remote.Reset()
		return false
	case c12hpAnsStall, c12hpAnsStreamErr:
		return false
	case c12hpAnsGarbage:
		remote.Write([]byte{0xff, 0xff, 0xff, 0xff, 0x7f, 0x01, 0x02, 0x03})
		return false
	case c12hpAnsSync:
		raw, _ := c12hpAnswerBytes(w, a)
		wr.WriteMsg(&pb.HolePunch{Type: pb.HolePunch_SYNC.Enum(), ObsAddrs: raw})
		return true
	}
	raw, _ := c12hpAnswerBytes(w, a)
	wr.WriteMsg(&pb.HolePunch{Type: pb.HolePunch_CONNECT.Enum(), ObsAddrs: raw})
	return true
}
