//go:build verif

package observedaddrs

// C17 universe: local addresses, fake connections, observed-address classes and the scenarios that are each
// explored to closure. Everything the oracle needs to know about an address (its local thin waist, whether it
// is a listen address, which observer group a remote belongs to, whether a report is eligible) is attached
// here BY CONSTRUCTION as a label - the oracle never calls the manager's own classification helpers
// (thinWaistForm, getObserver, shouldRecordObservation, hasConsistentTransport).

import (
	"fmt"
	"net/netip"

	ma "github.com/multiformats/go-multiaddr"
)

// c17Local is an address a connection can arrive at / leave from on our side.
type c17Local struct {
	name   string
	ipv    int    // 4 | 6
	ip     string // may be unspecified (UDP transports report the unspecified address as the local one)
	proto  string // tcp | udp
	port   int
	suffix string // transport part an identify-observed address on such a connection carries ("" | /quic-v1 | ...)
	tail   string // extra components of the listen address after the transport (certhash)
	addr   ma.Multiaddr
	tw     string // canonical string of the local thin waist (/ipX/../tcp|udp/port)
	rest   string // canonical string of everything after the thin waist ("" when nothing)
}

func c17MustAddr(s string) ma.Multiaddr {
	a, err := ma.NewMultiaddr(s)
	if err != nil {
		panic(fmt.Sprintf("c17 harness: bad multiaddr %q: %v", s, err))
	}
	return a
}

// c17Canon returns the canonical string of a multiaddr given as text ("" stays "").
func c17Canon(s string) string {
	if s == "" {
		return ""
	}
	return c17MustAddr(s).String()
}

func c17TWString(ipv int, ip, proto string, port int) string {
	return c17Canon(fmt.Sprintf("/ip%d/%s/%s/%d", ipv, ip, proto, port))
}

func c17NewLocal(name string, ipv int, ip, proto string, port int, suffix, tail string) *c17Local {
	l := &c17Local{name: name, ipv: ipv, ip: ip, proto: proto, port: port, suffix: suffix, tail: tail}
	l.tw = c17TWString(ipv, ip, proto, port)
	l.addr = c17MustAddr(l.tw + suffix + tail)
	full := l.addr.String()
	if len(full) < len(l.tw) || full[:len(l.tw)] != l.tw {
		panic("c17 harness: thin waist is not a textual prefix of " + full)
	}
	l.rest = full[len(l.tw):]
	return l
}

const c17CertHash = "/certhash/uEgNmb28"

// All local addresses used by the scenarios.
func c17Locals() map[string]*c17Local {
	ls := []*c17Local{
		c17NewLocal("tcp4", 4, "192.168.1.10", "tcp", 4001, "", ""),
		c17NewLocal("tcp4any", 4, "0.0.0.0", "tcp", 4001, "", ""), // unresolved listen address; no connection ever has it as local address
		c17NewLocal("quic4", 4, "0.0.0.0", "udp", 4001, "/quic-v1", ""),
		c17NewLocal("wt4", 4, "0.0.0.0", "udp", 4001, "/quic-v1/webtransport", c17CertHash),
		c17NewLocal("tcp6", 6, "2001:db8:1::10", "tcp", 4001, "", ""),
		c17NewLocal("quic6", 6, "::", "udp", 4001, "/quic-v1", ""),
		c17NewLocal("wt6", 6, "::", "udp", 4001, "/quic-v1/webtransport", c17CertHash),
		c17NewLocal("tcp4b", 4, "192.168.1.10", "tcp", 4002, "", ""),     // second TCP listener, other port
		c17NewLocal("eph4", 4, "192.168.1.10", "tcp", 55001, "", ""),     // outbound connection from an ephemeral port
		c17NewLocal("otherip4", 4, "10.0.0.5", "tcp", 4001, "", ""),      // listen port, but an interface we do not listen on
		c17NewLocal("ephq4", 4, "0.0.0.0", "udp", 55002, "/quic-v1", ""), // QUIC connection from a non-listening socket
		c17NewLocal("eph6", 6, "2001:db8:1::10", "tcp", 55001, "", ""),   // outbound IPv6 connection
		c17NewLocal("ephwt4", 4, "0.0.0.0", "udp", 55002, "/quic-v1/webtransport", ""),
	}
	m := map[string]*c17Local{}
	for _, l := range ls {
		m[l.name] = l
	}
	return m
}

// c17Ext is an external (observed) endpoint; its thin waist for a given IP version and protocol is
// /ipV/<ip>/<proto>/<port>.
type c17Ext struct {
	name     string
	ip4, ip6 string
	port     int
}

// Externals: a plain public endpoint, the same port on another IP, another port on the same IP, and the
// (private) address of the TCP listener itself (what a LAN peer behind no NAT reports).
var c17Exts = []c17Ext{
	{"X1", "8.8.8.1", "2001:db8:ffff::1", 1001},
	{"X2", "8.8.8.2", "2001:db8:ffff::2", 1001},
	{"X3", "8.8.8.1", "2001:db8:ffff::1", 1002},
	{"X4", "192.168.1.10", "2001:db8:1::10", 4001},
}

func (e c17Ext) tw(ipv int, proto string) string {
	ip := e.ip4
	if ipv == 6 {
		ip = e.ip6
	}
	return c17TWString(ipv, ip, proto, e.port)
}

// Observation classes. Indices 0..k-1 are the external endpoints (class "ext"); the rest are the classes the
// statement says never count, plus nil (no observed address in the identify message).
const (
	c17ObsLoopback   = "loopback"
	c17ObsNAT64      = "nat64"
	c17ObsRelay      = "relayed"
	c17ObsRelayFull  = "relayed(full circuit address)"
	c17ObsWrongProto = "wrong-transport(tcp<->udp)"
	c17ObsWrongIP    = "wrong-transport(ip4<->ip6)"
	c17ObsNoTW       = "no-thin-waist(dns)"
	c17ObsNil        = "nil"
)

var c17IneligibleClasses = []string{c17ObsLoopback, c17ObsNAT64, c17ObsRelay, c17ObsRelayFull, c17ObsWrongProto, c17ObsWrongIP, c17ObsNoTW, c17ObsNil}

func c17Other(proto string) (string, string) {
	if proto == "tcp" {
		return "udp", "/quic-v1"
	}
	return "tcp", ""
}

// c17ObservedFor builds the concrete observed multiaddr of class cls (or external ext >= 0) as a remote peer
// would report it on a connection whose local address is l.
func c17ObservedFor(l *c17Local, ext int, cls string) ma.Multiaddr {
	if ext >= 0 {
		return c17MustAddr(c17Exts[ext].tw(l.ipv, l.proto) + l.suffix)
	}
	x := c17Exts[0]
	switch cls {
	case c17ObsLoopback:
		ip := "127.0.0.1"
		if l.ipv == 6 {
			ip = "::1"
		}
		return c17MustAddr(c17TWString(l.ipv, ip, l.proto, x.port) + l.suffix)
	case c17ObsNAT64:
		// 64:ff9b::/96 carrying 8.8.8.1; on an IPv6 local address this is ineligible ONLY because it is NAT64
		return c17MustAddr(c17TWString(6, "64:ff9b::808:801", l.proto, x.port) + l.suffix)
	case c17ObsRelay:
		return c17MustAddr(x.tw(l.ipv, l.proto) + l.suffix + "/p2p-circuit")
	case c17ObsRelayFull:
		// the whole circuit address as other implementations write it: <relay>/p2p/<relay id>/p2p-circuit/p2p/<target>
		return c17MustAddr(x.tw(l.ipv, l.proto) + l.suffix + "/p2p/" + c17RelayID + "/p2p-circuit/p2p/" + c17RelayID)
	case c17ObsWrongProto:
		op, os := c17Other(l.proto)
		return c17MustAddr(x.tw(l.ipv, op) + os)
	case c17ObsWrongIP:
		return c17MustAddr(x.tw(10-l.ipv, l.proto) + l.suffix)
	case c17ObsNoTW:
		return c17MustAddr(fmt.Sprintf("/dns4/example.com/%s/%d", l.proto, x.port) + l.suffix)
	case c17ObsNil:
		return nil
	}
	panic("c17 harness: unknown class " + cls)
}

// c17ConnDef describes one fake connection.
type c17ConnDef struct {
	name  string
	local string // name of the local address
	rip   string // remote IP
	rport int
	// relayed: the connection is a circuit through a relay at rip:rport (remote multiaddr <relay>/p2p/<relay id>/p2p-circuit);
	// its local address is that of the connection to the relay, which may well be a listen address (port reuse), but the
	// connection does not ARRIVE at a listen address and the relay's IP is not the IP of the peer that reports
	relayed bool
}

const c17RelayID = "12D3KooWNTYmL3W4uJR7mFcXubT4FDYULyZn73PZaJFVMvtPdFa8"

// c17Group is the observer group of a remote IP per the statement: the IPv4 address itself, or the IPv6 /56.
// Computed with net/netip (the manager uses net.IP.Mask) so the two are independent.
func c17Group(rip string) string {
	a, err := netip.ParseAddr(rip)
	if err != nil {
		panic("c17 harness: bad remote ip " + rip)
	}
	if a.Is4() {
		return "ip4:" + a.String()
	}
	p, err := a.Prefix(56)
	if err != nil {
		panic(err)
	}
	return "ip6/56:" + p.Masked().String()
}

type c17Scenario struct {
	name   string
	listen []string // names of the listen addresses, in listenAddrs() order
	conns  []c17ConnDef
	k      int // number of external endpoints in the alphabet
	// ineligible observation classes in the alphabet of this scenario; nil = all of c17IneligibleClasses
	classes []string
	// ActivationThresh values this scenario is searched with; nil = the tier's default list
	threshs []int
}

// IPv6 remotes: A1/A2 share a /56 but not a /64; B is in the adjacent /56 (differs in bit 56 only, so it shares
// the /55 and /48); C is another /56; D has the same 4th hextet as A1 but another /48.
const (
	c17A1 = "2001:db8:0:aa00::1"
	c17A2 = "2001:db8:0:aaff::1"
	c17A3 = "2001:db8:0:aa00::2"
	c17B  = "2001:db8:0:ab00::1"
	c17C  = "2001:db8:0:ac00::1"
	c17D  = "2001:db8:1:aa00::1"
)

func c17Scenarios(thorough bool) []c17Scenario {
	if !thorough {
		return []c17Scenario{
			{
				// observer grouping on IPv4 (same IP, different ports), a connection that does not arrive at a
				// listen address, four externals (truncation to three, ordering)
				name: "v4-tcp", listen: []string{"tcp4", "tcp4any", "quic4", "wt4"}, k: 4,
				conns: []c17ConnDef{
					{"a", "tcp4", "1.1.1.1", 1000, false}, {"b", "tcp4", "1.1.1.1", 2000, false}, {"c", "tcp4", "2.2.2.2", 1000, false},
					{"d", "eph4", "3.3.3.3", 1000, false}, {"e", "tcp4", "4.4.4.4", 1000, false},
				},
			},
			{
				// IPv6 /56 grouping; NAT64 is ineligible for that reason alone; one connection on the QUIC waist
				name: "v6-tcp", listen: []string{"tcp6", "quic6", "wt6"}, k: 3,
				conns: []c17ConnDef{
					{"a", "tcp6", c17A1, 1000, false}, {"b", "tcp6", c17A2, 1000, false}, {"c", "tcp6", c17B, 1000, false}, {"q", "quic6", c17A3, 1000, false},
				},
			},
			{
				// QUIC and WebTransport share one local thin waist; TCP on the same port number does not
				name: "v4-udp-shared-waist", listen: []string{"tcp4", "quic4", "wt4"}, k: 3,
				conns: []c17ConnDef{
					{"q1", "quic4", "1.1.1.1", 1000, false}, {"w1", "wt4", "1.1.1.1", 2000, false}, {"w2", "wt4", "2.2.2.2", 1000, false},
					{"q3", "ephq4", "3.3.3.3", 1000, false}, {"t2", "tcp4", "2.2.2.2", 1000, false},
				},
			},
			{
				// five observer groups, four externals: every ranking situation of the "at most three, most-observed
				// first" clause (3+ candidates with different counts, a fourth one with more observers than the third).
				// The ineligible classes are exercised by the other scenarios; here only nil is kept.
				// Searched with ActivationThresh 1 only: Addrs(2..4) rank the same states for the higher thresholds.
				name: "v4-tcp-ranking", listen: []string{"tcp4"}, k: 4, classes: []string{c17ObsNil}, threshs: []int{1},
				conns: []c17ConnDef{
					{"a", "tcp4", "1.1.1.1", 1000, false}, {"b", "tcp4", "2.2.2.2", 1000, false}, {"c", "tcp4", "3.3.3.3", 1000, false},
					{"d", "tcp4", "4.4.4.4", 1000, false}, {"e", "tcp4", "5.5.5.5", 1000, false},
				},
			},
			{
				// two listeners of the same transport: reports count per local listen address
				name: "v4-two-tcp-ports", listen: []string{"tcp4", "tcp4b"}, k: 2,
				conns: []c17ConnDef{
					{"a", "tcp4", "1.1.1.1", 1000, false}, {"b", "tcp4b", "2.2.2.2", 1000, false}, {"c", "tcp4", "3.3.3.3", 1000, false}, {"d", "tcp4b", "3.3.3.3", 2000, false},
				},
			},
			{
				// connections that reach us THROUGH relays (their local address is the listen address the relay connection
				// happens to use): whatever is reported on them never counts
				name: "v4-relayed-conns", listen: []string{"tcp4"}, k: 2, classes: []string{c17ObsNil}, threshs: []int{1, 2},
				conns: []c17ConnDef{
					{name: "a", local: "tcp4", rip: "1.1.1.1", rport: 1000},
					{name: "r1", local: "tcp4", rip: "9.9.9.1", rport: 4001, relayed: true}, {name: "r2", local: "tcp4", rip: "9.9.9.2", rport: 4001, relayed: true},
				},
			},
		}
	}
	return []c17Scenario{
		{
			// four observer groups on one waist (threshold 4 reachable), two non-listen locals, truncation + ordering
			name: "v4-tcp", listen: []string{"tcp4", "tcp4any", "quic4", "wt4"}, k: 4,
			conns: []c17ConnDef{
				{"a", "tcp4", "1.1.1.1", 1000, false}, {"b", "tcp4", "1.1.1.1", 2000, false}, {"c", "tcp4", "2.2.2.2", 1000, false},
				{"d", "eph4", "3.3.3.3", 1000, false}, {"e", "tcp4", "4.4.4.4", 1000, false}, {"f", "tcp4", "3.3.3.3", 2000, false},
				{"g", "otherip4", "5.5.5.5", 1000, false},
			},
		},
		{
			name: "v6-tcp", listen: []string{"tcp6", "quic6", "wt6"}, k: 3,
			conns: []c17ConnDef{
				{"a", "tcp6", c17A1, 1000, false}, {"b", "tcp6", c17A2, 1000, false}, {"c", "tcp6", c17B, 1000, false}, {"d", "tcp6", c17C, 1000, false},
				{"e", "tcp6", c17D, 1000, false}, {"q", "quic6", c17A3, 1000, false}, {"x", "eph6", c17C, 2000, false},
			},
		},
		{
			name: "v4-udp-shared-waist", listen: []string{"tcp4", "quic4", "wt4"}, k: 3,
			conns: []c17ConnDef{
				{"q1", "quic4", "1.1.1.1", 1000, false}, {"w1", "wt4", "1.1.1.1", 2000, false}, {"w2", "wt4", "2.2.2.2", 1000, false},
				{"q3", "ephq4", "3.3.3.3", 1000, false}, {"t2", "tcp4", "2.2.2.2", 1000, false}, {"q4", "quic4", "4.4.4.4", 1000, false},
				{"w5", "ephwt4", "5.5.5.5", 1000, false},
			},
		},
		{
			name: "v4-two-tcp-ports", listen: []string{"tcp4", "tcp4b"}, k: 3,
			conns: []c17ConnDef{
				{"a", "tcp4", "1.1.1.1", 1000, false}, {"b", "tcp4b", "2.2.2.2", 1000, false}, {"c", "tcp4", "3.3.3.3", 1000, false},
				{"d", "tcp4b", "3.3.3.3", 2000, false}, {"e", "tcp4b", "1.1.1.1", 2000, false}, {"f", "tcp4", "2.2.2.2", 2000, false},
			},
		},
		{
			// connections that reach us through relays (see the quick tier), here next to two direct observers
			name: "v4-relayed-conns", listen: []string{"tcp4"}, k: 2, classes: []string{c17ObsNil}, threshs: []int{1, 2, 3},
			conns: []c17ConnDef{
				{name: "a", local: "tcp4", rip: "1.1.1.1", rport: 1000}, {name: "b", local: "tcp4", rip: "2.2.2.2", rport: 1000},
				{name: "r1", local: "tcp4", rip: "9.9.9.1", rport: 4001, relayed: true}, {name: "r2", local: "tcp4", rip: "9.9.9.2", rport: 4001, relayed: true},
				{name: "r3", local: "tcp4", rip: "1.1.1.1", rport: 4001, relayed: true},
			},
		},
		{
			// dual stack: IPv4 and IPv6 listeners side by side, IPv4 and IPv6 observers
			name: "dual-stack-tcp", listen: []string{"tcp4", "tcp6"}, k: 2,
			conns: []c17ConnDef{
				{"a", "tcp4", "1.1.1.1", 1000, false}, {"b", "tcp4", "1.1.1.1", 2000, false}, {"c", "tcp4", "2.2.2.2", 1000, false},
				{"u", "tcp6", c17A1, 1000, false}, {"v", "tcp6", c17A2, 1000, false}, {"w", "tcp6", c17B, 1000, false},
			},
		},
	}
}
