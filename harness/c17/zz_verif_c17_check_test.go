//go:build verif

package observedaddrs

// C17: observed addresses are advertised only with enough independent observers. Engine E1 (seqmc), to closure.
//
// The REAL Manager (newManagerWithListenAddrs; Start is never called, so no goroutine, ticker or event bus is
// involved) is driven through its synchronous core - maybeRecordObservation (what the worker goroutine calls
// for every identify event) and removeConn (what the Disconnected notification calls) - over every history of
//   obs(conn, observed address)   and   close(conn)
// of a small universe (zz_verif_c17_universe_test.go). After EVERY operation the public getters are read
// (AddrsFor for every listen address and for every local address any connection uses; Addrs(0); Addrs(1..4))
// and compared with what the STATEMENT allows, recomputed from the history by a label-based tracker:
//
//   credit[c]  = the external thin waist of the last ELIGIBLE report on c while c was open (none after close)
//   vouch(L,X) = number of distinct observer groups among open connections c with local thin waist L, credit X
//
//   eligible report = non-nil, external endpoint (not loopback / NAT64 / relayed), carrying the IP version and
//   tcp|udp of the connection's local address, on an open connection whose local thin waist is the thin waist of
//   a listen address. All of that is a LABEL of the universe, not a call into the code under test.
//
// Oracles (implications, see the report / checks/C17.json for the mapping to the statement):
//   foreign-address            a returned address is not <external thin waist of the alphabet><rest of the queried local address>
//   below-threshold            a returned address has vouch < threshold
//   more-than-three            more than three addresses for one local address
//   not-most-observed-first    vouch increases along the returned list (ties may come in any order)
//   displaced-more-observed    three are returned while a strictly more-vouched address than the last one is left out
// Not demanded (statement says "only while"): that every address at or above the threshold IS returned. The
// tracker still measures it (outcome class "info:under-reported"), it is never a violation.

import (
	"crypto/sha256"
	"fmt"
	"sort"
	"strings"
	"sync"
	"testing"

	"github.com/libp2p/go-libp2p/x/verif/seqmc"
	"github.com/libp2p/go-libp2p/x/verif/vrep"
	ma "github.com/multiformats/go-multiaddr"
)

// ---------- fake connection: exactly the interface the manager uses (connMultiaddrs) ----------

type c17FakeConn struct {
	name          string
	local, remote ma.Multiaddr
	closed        bool
}

func (c *c17FakeConn) LocalMultiaddr() ma.Multiaddr  { return c.local }
func (c *c17FakeConn) RemoteMultiaddr() ma.Multiaddr { return c.remote }
func (c *c17FakeConn) IsClosed() bool                { return c.closed }

var _ connMultiaddrs = (*c17FakeConn)(nil)

// ---------- compiled scenario ----------

type c17Conn struct {
	def      c17ConnDef
	local    *c17Local
	remote   ma.Multiaddr
	group    string
	atListen bool // local thin waist is the thin waist of a listen address
}

type c17ObsT struct {
	ext  int    // >= 0: external endpoint index
	cls  string // "ext" or an ineligible class
	name string
}

type c17Compiled struct {
	sc      c17Scenario
	listen  []*c17Local
	queries []*c17Local // every listen address + every local address a connection uses (AddrsFor is asked for each)
	conns   []c17Conn
	obs     []c17ObsT
	obsAddr [][]ma.Multiaddr // [conn][obs] concrete observed multiaddr
	// expected[query][address string] = external index: the only addresses AddrsFor(query) may ever return
	expected []map[string]int
	// attr[address string] = indices (into queries) of the LISTEN addresses that can account for it in Addrs(m)
	attr       map[string][]int
	extIdx     map[string]int // address string -> external index (same for every attribution)
	groups     [][]int        // attribution groups: indices (into queries) of listen addresses sharing IP version, tcp|udp and rest
	groupOf    map[string]int // address string -> attribution group
	modelSpace int64          // product of the per-connection state counts (what closure must reach on a correct tree)
	opsAll     []c17Op
}

type c17Op struct {
	close bool
	conn  int
	obs   int
}

func c17Compile(sc c17Scenario) *c17Compiled {
	locals := c17Locals()
	c := &c17Compiled{sc: sc, attr: map[string][]int{}, extIdx: map[string]int{}}
	listenTW := map[string]bool{}
	seenQ := map[string]bool{}
	for _, n := range sc.listen {
		l := locals[n]
		if l == nil {
			panic("c17 harness: unknown local " + n)
		}
		c.listen = append(c.listen, l)
		listenTW[l.tw] = true
		if !seenQ[n] {
			seenQ[n] = true
			c.queries = append(c.queries, l)
		}
	}
	for _, d := range sc.conns {
		l := locals[d.local]
		if l == nil {
			panic("c17 harness: unknown local " + d.local)
		}
		rs := fmt.Sprintf("/ip4/%s/%s/%d%s", d.rip, l.proto, d.rport, l.suffix)
		if strings.Contains(d.rip, ":") {
			rs = fmt.Sprintf("/ip6/%s/%s/%d%s", d.rip, l.proto, d.rport, l.suffix)
			if l.ipv != 6 {
				panic("c17 harness: IPv6 remote on IPv4 local in " + sc.name)
			}
		} else if l.ipv != 4 {
			panic("c17 harness: IPv4 remote on IPv6 local in " + sc.name)
		}
		c.conns = append(c.conns, c17Conn{def: d, local: l, remote: c17MustAddr(rs), group: c17Group(d.rip), atListen: listenTW[l.tw]})
		if !seenQ[d.local] {
			seenQ[d.local] = true
			c.queries = append(c.queries, l)
		}
	}
	for i := 0; i < sc.k; i++ {
		c.obs = append(c.obs, c17ObsT{ext: i, cls: "ext", name: c17Exts[i].name})
	}
	for _, cls := range c17IneligibleClasses {
		c.obs = append(c.obs, c17ObsT{ext: -1, cls: cls, name: cls})
	}
	for _, cn := range c.conns {
		var row []ma.Multiaddr
		for _, o := range c.obs {
			row = append(row, c17ObservedFor(cn.local, o.ext, o.cls))
		}
		c.obsAddr = append(c.obsAddr, row)
	}
	isListen := map[string]bool{}
	for _, l := range c.listen {
		isListen[l.name] = true
	}
	for qi, q := range c.queries {
		m := map[string]int{}
		for i := 0; i < sc.k; i++ {
			s := c17Canon(c17Exts[i].tw(q.ipv, q.proto) + q.rest)
			m[s] = i
			if isListen[q.name] {
				c.attr[s] = append(c.attr[s], qi)
				if old, ok := c.extIdx[s]; ok && old != i {
					panic("c17 harness: ambiguous external index for " + s)
				}
				c.extIdx[s] = i
			}
		}
		c.expected = append(c.expected, m)
	}
	c.groupOf = map[string]int{}
	gid := map[string]int{}
	for qi, q := range c.queries {
		if !isListen[q.name] {
			continue
		}
		gk := fmt.Sprintf("%d/%s/%s", q.ipv, q.proto, q.rest)
		g, ok := gid[gk]
		if !ok {
			g = len(c.groups)
			gid[gk] = g
			c.groups = append(c.groups, nil)
		}
		c.groups[g] = append(c.groups[g], qi)
		for s := range c.expected[qi] {
			if old, ok := c.groupOf[s]; ok && old != g {
				panic("c17 harness: address " + s + " belongs to two attribution groups")
			}
			c.groupOf[s] = g
		}
	}
	c.modelSpace = 1
	for _, cn := range c.conns {
		if cn.atListen {
			c.modelSpace *= int64(sc.k + 2) // closed | open uncredited | open credited with one of k
		} else {
			c.modelSpace *= 2 // closed | open (never credited)
		}
	}
	for ci := range c.conns {
		for oi := range c.obs {
			c.opsAll = append(c.opsAll, c17Op{conn: ci, obs: oi})
		}
	}
	for ci := range c.conns {
		c.opsAll = append(c.opsAll, c17Op{close: true, conn: ci})
	}
	return c
}

func (c *c17Compiled) show(o c17Op) string {
	cn := c.conns[o.conn]
	id := fmt.Sprintf("%s[%s:%d->%s]", cn.def.name, cn.def.rip, cn.def.rport, cn.local.name)
	if o.close {
		return "close(" + id + ")"
	}
	a := c.obsAddr[o.conn][o.obs]
	as := "nil"
	if a != nil {
		as = a.String()
	}
	return fmt.Sprintf("obs(%s, %s=%s)", id, c.obs[o.obs].name, as)
}

// ---------- instance = real manager + tracker ----------

type c17Inst struct {
	c      *c17Compiled
	m      *Manager
	conns  []*c17FakeConn
	credit []int // external index of the report currently credited to the connection per the statement, -1 none
	closed []bool
	hist   []string
	// bookkeeping of the LAST applied operation (flushed into the global statistics by Close, i.e. once per
	// transition, not once per replayed prefix step)
	last     []string
	lastObs  string
	reported map[string]bool // "query|address" returned by AddrsFor after the previous operation
	anyOut   bool            // some getter returned a non-empty answer after the last operation
	note     *c17Info
}

type c17Info struct {
	class string
	hist  []string
	desc  string
}

func c17New(c *c17Compiled) *c17Inst {
	listen := make([]ma.Multiaddr, len(c.listen))
	for i, l := range c.listen {
		listen[i] = l.addr
	}
	// shouldRecordObservation overwrites elements of the slice listenAddrs() returns: hand out a fresh copy each time
	m, err := newManagerWithListenAddrs(nil, func() []ma.Multiaddr { return append([]ma.Multiaddr(nil), listen...) })
	if err != nil {
		panic("c17 harness: " + err.Error())
	}
	in := &c17Inst{c: c, m: m, reported: map[string]bool{}}
	for _, cn := range c.conns {
		in.conns = append(in.conns, &c17FakeConn{name: cn.def.name, local: cn.local.addr, remote: cn.remote})
		in.credit = append(in.credit, -1)
		in.closed = append(in.closed, false)
	}
	return in
}

// vouch returns the number of distinct observer groups currently vouching for external x at local thin waist ltw.
func (in *c17Inst) vouch(ltw string, x int) (int, []string) {
	var groups, via []string
	for i, cn := range in.c.conns {
		if in.closed[i] || in.credit[i] != x || cn.local.tw != ltw {
			continue
		}
		via = append(via, cn.def.name)
		dup := false
		for _, g := range groups {
			if g == cn.group {
				dup = true
			}
		}
		if !dup {
			groups = append(groups, cn.group)
		}
	}
	return len(groups), via
}

func (in *c17Inst) explain(ltw string, x int) string {
	n, via := in.vouch(ltw, x)
	return fmt.Sprintf("%s at %s is vouched for by %d observer group(s) via open connection(s) %v", c17Exts[x].name, ltw, n, via)
}

func (in *c17Inst) modelString() string {
	var sb strings.Builder
	for i, cn := range in.c.conns {
		switch {
		case in.closed[i]:
			fmt.Fprintf(&sb, "%s:closed ", cn.def.name)
		case in.credit[i] < 0:
			fmt.Fprintf(&sb, "%s:- ", cn.def.name)
		default:
			fmt.Fprintf(&sb, "%s:%s ", cn.def.name, c17Exts[in.credit[i]].name)
		}
	}
	return sb.String()
}

// white-box snapshot of the manager, canonical (maps sorted; connections by universe name). The per-observerSet
// cachedMultiaddrs memo is left out: it memoises the pure function (ObservedTWAddr, rest) -> Join and is never
// read for a decision.
func (in *c17Inst) implString() string {
	o := in.m
	o.mu.RLock()
	defer o.mu.RUnlock()
	var sb strings.Builder
	var lks []string
	for lk := range o.externalAddrs {
		lks = append(lks, lk)
	}
	sort.Strings(lks)
	for _, lk := range lks {
		fmt.Fprintf(&sb, "L%x{", lk)
		var xks []string
		for xk := range o.externalAddrs[lk] {
			xks = append(xks, xk)
		}
		sort.Strings(xks)
		for _, xk := range xks {
			s := o.externalAddrs[lk][xk]
			fmt.Fprintf(&sb, "X%x=%s[", xk, s.ObservedTWAddr)
			var obs []string
			for ob, n := range s.ObservedBy {
				obs = append(obs, fmt.Sprintf("%s*%d", ob, n))
			}
			sort.Strings(obs)
			sb.WriteString(strings.Join(obs, ","))
			sb.WriteString("]")
		}
		sb.WriteString("}")
	}
	sb.WriteString("|")
	known := 0
	for i, fc := range in.conns {
		if a, ok := o.connObservedTWAddrs[fc]; ok {
			known++
			fmt.Fprintf(&sb, "%d=%s,", i, a)
		}
	}
	fmt.Fprintf(&sb, "|extra=%d|", len(o.connObservedTWAddrs)-known)
	for _, fc := range in.conns {
		if fc.closed {
			sb.WriteByte('c')
		} else {
			sb.WriteByte('o')
		}
	}
	return sb.String()
}

// ---------- apply one operation and check every getter ----------

func (in *c17Inst) apply(op c17Op) error {
	c := in.c
	cn := c.conns[op.conn]
	fc := in.conns[op.conn]
	in.hist = append(in.hist, c.show(op))
	in.last = in.last[:0]
	in.note = nil
	prevCredit := in.credit[op.conn]
	if op.close {
		// the swarm marks the connection closed, then delivers Disconnected
		fc.closed = true
		in.m.removeConn(fc)
		in.closed[op.conn] = true
		in.credit[op.conn] = -1
		if prevCredit >= 0 {
			in.last = append(in.last, "op:close/credited")
		} else {
			in.last = append(in.last, "op:close/uncredited")
		}
	} else {
		o := c.obs[op.obs]
		in.m.maybeRecordObservation(fc, c.obsAddr[op.conn][op.obs])
		switch {
		case in.closed[op.conn]:
			in.last = append(in.last, "op:obs/"+o.cls+"/on-closed-connection")
		case o.ext >= 0 && !cn.atListen:
			in.last = append(in.last, "op:obs/ext/not-at-listen-address")
		case o.ext >= 0:
			switch {
			case prevCredit < 0:
				in.last = append(in.last, "op:obs/ext/first")
			case prevCredit == o.ext:
				in.last = append(in.last, "op:obs/ext/same-again")
			default:
				in.last = append(in.last, "op:obs/ext/replaces")
			}
			in.credit[op.conn] = o.ext
		default:
			if prevCredit >= 0 {
				in.last = append(in.last, "op:obs/"+o.cls+"/on-credited-connection")
			} else {
				in.last = append(in.last, "op:obs/"+o.cls+"/on-uncredited-connection")
			}
		}
	}
	return in.checkGetters(op, prevCredit)
}

// ranked checks one per-local-address list (external indices in returned order) against the statement.
func (in *c17Inst) ranked(getter string, q *c17Local, thresh int, idx []int, raw []ma.Multiaddr) error {
	for i, x := range idx {
		if n, _ := in.vouch(q.tw, x); n < thresh {
			return seqmc.Violation(getter+":below-threshold", "%s for %s returned %v; #%d: %s; threshold %d. tracker: %s",
				getter, q.addr, raw, i, in.explain(q.tw, x), thresh, in.modelString())
		}
	}
	if len(idx) > 3 {
		return seqmc.Violation(getter+":more-than-three", "%s for %s returned %d addresses: %v", getter, q.addr, len(idx), raw)
	}
	for i := 1; i < len(idx); i++ {
		a, _ := in.vouch(q.tw, idx[i-1])
		b, _ := in.vouch(q.tw, idx[i])
		if b > a {
			return seqmc.Violation(getter+":not-most-observed-first", "%s for %s returned %v: #%d has %d observer groups, #%d has %d. tracker: %s",
				getter, q.addr, raw, i-1, a, i, b, in.modelString())
		}
	}
	qualifying := 0
	counts := map[int]int{}
	for x := 0; x < in.c.sc.k; x++ {
		n, _ := in.vouch(q.tw, x)
		counts[x] = n
		if n >= thresh {
			qualifying++
		}
	}
	if len(idx) == 3 {
		lastN := counts[idx[2]]
		for x := 0; x < in.c.sc.k; x++ {
			if x != idx[0] && x != idx[1] && x != idx[2] && counts[x] > lastN {
				return seqmc.Violation(getter+":displaced-more-observed", "%s for %s returned %v (last has %d observer groups) but left out %s with %d. tracker: %s",
					getter, q.addr, raw, lastN, c17Exts[x].name, counts[x], in.modelString())
			}
		}
	}
	// measured, not demanded
	if want := min(3, qualifying); len(idx) < want {
		in.last = append(in.last, "info:under-reported")
		if in.note == nil {
			in.note = &c17Info{class: "info:under-reported", desc: fmt.Sprintf("%s for %s returned %v although %d addresses have >= %d observer groups; tracker: %s", getter, q.addr, raw, qualifying, thresh, in.modelString())}
		}
	}
	if len(idx) > 0 {
		in.last = append(in.last, fmt.Sprintf("seen:%s/n=%d", getter, len(idx)))
		if qualifying > 3 {
			in.last = append(in.last, "seen:"+getter+"/truncated-to-three")
		}
		if counts[idx[0]] != counts[idx[len(idx)-1]] {
			in.last = append(in.last, "seen:"+getter+"/order-decided-by-count")
		}
	}
	return nil
}

func (in *c17Inst) checkGetters(op c17Op, prevCredit int) error {
	c := in.c
	T := ActivationThresh
	var obsKey strings.Builder
	nowReported := map[string]bool{}
	in.anyOut = false
	for qi, q := range c.queries {
		got := in.m.AddrsFor(q.addr)
		in.anyOut = in.anyOut || len(got) > 0
		idx := make([]int, 0, len(got))
		for _, a := range got {
			s := a.String()
			x, ok := c.expected[qi][s]
			if !ok {
				return seqmc.Violation("AddrsFor:foreign-address", "AddrsFor(%s) returned %s, which is not an eligible observed thin waist of the alphabet followed by %q (all returned: %v). tracker: %s",
					q.addr, s, q.rest, got, in.modelString())
			}
			idx = append(idx, x)
			nowReported[q.name+"|"+s] = true
		}
		if err := in.ranked("AddrsFor", q, T, idx, got); err != nil {
			return err
		}
		fmt.Fprintf(&obsKey, "%s=%v;", q.name, idx)
		// "repeated reports from one observer group never count": a case where it mattered
		for x := 0; x < c.sc.k; x++ {
			n, via := in.vouch(q.tw, x)
			if n < T && len(via) >= T {
				in.last = append(in.last, "seen:same-group-repeats-kept-below-threshold")
			}
		}
	}
	for _, m := range []int{0, 1, 2, 3, 4} {
		getter, thresh := "Addrs(0)", T
		if m > 0 {
			getter, thresh = "Addrs(min)", m
		}
		got := in.m.Addrs(m)
		in.anyOut = in.anyOut || len(got) > 0
		// Split the flat answer by the listen addresses that can account for each address (same IP version, tcp|udp and
		// suffix after the thin waist). Listen addresses that share all three form one attribution group.
		lists := make([][]int, len(c.groups))
		raws := make([][]ma.Multiaddr, len(c.groups))
		for _, a := range got {
			s := a.String()
			g, ok := c.groupOf[s]
			if !ok {
				return seqmc.Violation(getter+":foreign-address", "Addrs(%d) returned %s, which is not an eligible observed thin waist of the alphabet followed by the rest of a listen address (all returned: %v). tracker: %s",
					m, s, got, in.modelString())
			}
			lists[g] = append(lists[g], c.extIdx[s])
			raws[g] = append(raws[g], a)
		}
		for g, members := range c.groups {
			// listen addresses of the group at which anything at all reaches the threshold
			var active []int
			for _, qi := range members {
				for x := 0; x < c.sc.k; x++ {
					if n, _ := in.vouch(c.queries[qi].tw, x); n >= thresh {
						active = append(active, qi)
						break
					}
				}
			}
			switch {
			case len(active) <= 1:
				// at most one listen address of the group may contribute: the whole list is its list
				q := c.queries[members[0]]
				if len(active) == 1 {
					q = c.queries[active[0]]
				}
				if err := in.ranked(getter, q, thresh, lists[g], raws[g]); err != nil {
					return err
				}
			default:
				// several listen addresses contribute and the flat answer does not say which address belongs to which:
				// every occurrence of an address needs its own listen address at which it reaches the threshold, and
				// there are at most three per contributing listen address. (Order is checked per address by AddrsFor.)
				occ := map[int]int{}
				for _, x := range lists[g] {
					occ[x]++
				}
				for x, n := range occ {
					can := 0
					for _, qi := range active {
						if v, _ := in.vouch(c.queries[qi].tw, x); v >= thresh {
							can++
						}
					}
					if n > can {
						return seqmc.Violation(getter+":below-threshold", "Addrs(%d) returned %s %d time(s) (all: %v) but it has %d observer groups at only %d listen address(es). tracker: %s",
							m, c17Exts[x].name, n, got, thresh, can, in.modelString())
					}
				}
				if len(lists[g]) > 3*len(active) {
					return seqmc.Violation(getter+":more-than-three", "Addrs(%d) returned %d addresses for %d contributing listen addresses: %v", m, len(lists[g]), len(active), got)
				}
				if len(lists[g]) > 0 {
					in.last = append(in.last, "seen:"+getter+"/two-listen-addresses-contribute")
				}
			}
		}
		fmt.Fprintf(&obsKey, "A%d=%v;", m, got)
	}
	// informational classes about withdrawal (what the previous AddrsFor answers contained and the new ones do not)
	withdrawn := false
	for k := range in.reported {
		if !nowReported[k] {
			withdrawn = true
		}
	}
	if withdrawn {
		if op.close {
			in.last = append(in.last, "seen:close-withdrew-an-advertised-address")
		} else {
			in.last = append(in.last, "seen:changed-report-withdrew-an-advertised-address")
		}
	}
	for k := range nowReported {
		if !in.reported[k] {
			in.last = append(in.last, "seen:address-became-advertised")
			break
		}
	}
	// Reading question recorded for the report (NOT a violation, see checks/C17.json): an ineligible, non-nil report on
	// an open connection leaves that connection's earlier eligible report credited. Under the reading "a report is
	// withdrawn when it changes - to anything" the address would have to disappear when the credit was decisive.
	if !op.close && c.obs[op.obs].ext < 0 && c.obs[op.obs].cls != c17ObsNil && !in.closed[op.conn] && prevCredit >= 0 {
		cn := c.conns[op.conn]
		n, _ := in.vouch(cn.local.tw, prevCredit)
		save := in.credit[op.conn]
		in.credit[op.conn] = -1
		without, _ := in.vouch(cn.local.tw, prevCredit)
		in.credit[op.conn] = save
		if n >= T && without < T {
			for qi, q := range c.queries {
				if q.tw != cn.local.tw {
					continue
				}
				for s, x := range c.expected[qi] {
					if x == prevCredit && nowReported[q.name+"|"+s] {
						in.last = append(in.last, "info:ineligible-report-left-decisive-earlier-report-credited")
						if in.note == nil {
							in.note = &c17Info{class: "info:ineligible-report-left-decisive-earlier-report-credited",
								desc: fmt.Sprintf("after an ineligible (%s) report on %s its earlier report of %s still counts and %s stays advertised for %s with exactly %d observer groups", c.obs[op.obs].cls, cn.def.name, c17Exts[prevCredit].name, s, q.addr, n)}
						}
					}
				}
			}
		}
	}
	in.reported = nowReported
	in.lastObs = obsKey.String()
	return nil
}

// ---------- global statistics (one entry per TRANSITION: recorded from Spec.Close) ----------

type c17Stats struct {
	mu       sync.Mutex
	outcomes map[string]int64
	distinct map[[16]byte]struct{}
	notes    map[string]*c17Info // per info class: the shortest (then lexicographically smallest) witness
	nonEmpty int64
}

func (s *c17Stats) flush(search string, in *c17Inst) {
	s.mu.Lock()
	defer s.mu.Unlock()
	seen := map[string]bool{}
	for _, k := range in.last {
		if !seen[k] {
			seen[k] = true
			s.outcomes[k]++
		}
	}
	if in.anyOut {
		s.nonEmpty++
		// distinct non-trivial case = distinct (search, tracker state, answers of all getters) with a non-empty answer
		h := sha256.Sum256([]byte(search + "|" + in.modelString() + "|" + in.lastObs))
		var k [16]byte
		copy(k[:], h[:16])
		s.distinct[k] = struct{}{}
	}
	if in.note != nil {
		n := *in.note
		n.hist = append([]string(nil), in.hist...)
		old := s.notes[n.class]
		if old == nil || len(n.hist) < len(old.hist) || (len(n.hist) == len(old.hist) && strings.Join(n.hist, ";") < strings.Join(old.hist, ";")) {
			s.notes[n.class] = &n
		}
	}
}

// ---------- the test ----------

func TestVerifC17(t *testing.T) {
	thorough := vrep.Thorough()
	threshs := []int{1, 2}
	if thorough {
		threshs = []int{1, 2, 4}
	}
	// harness self-checks (a failure here is an infrastructure problem, never a verdict)
	if c17Group(c17A1) != c17Group(c17A2) || c17Group(c17A1) != c17Group(c17A3) || c17Group(c17A1) == c17Group(c17B) ||
		c17Group(c17A1) == c17Group(c17C) || c17Group(c17A1) == c17Group(c17D) || c17Group("1.1.1.1") == c17Group("2.2.2.2") {
		t.Fatalf("c17 harness: observer-group labels are wrong")
	}

	r := vrep.New("C17", "manager")
	r.Bounds["depth"] = "closure (finite state space: per connection closed | open uncredited | open credited with one of k externals)"
	r.Bounds["ActivationThresh"] = fmt.Sprint(threshs)
	r.Bounds["Addrs(minObservers)"] = "0 (= ActivationThresh), 1, 2, 3, 4 read after every operation"
	r.Bounds["observation classes per connection"] = "k externals (X1 plain, X2 other IP same port, X3 same IP other port, X4 = own private listen endpoint) + " + strings.Join(c17IneligibleClasses, ", ")
	stats := &c17Stats{outcomes: map[string]int64{}, distinct: map[[16]byte]struct{}{}, notes: map[string]*c17Info{}}
	saved := ActivationThresh
	defer func() { ActivationThresh = saved }()

	var scDesc []string
	for _, sc := range c17Scenarios(thorough) {
		c := c17Compile(sc)
		var cs []string
		for _, cn := range c.conns {
			cs = append(cs, fmt.Sprintf("%s=%s:%d->%s(%s,listen=%v)", cn.def.name, cn.def.rip, cn.def.rport, cn.local.name, cn.group, cn.atListen))
		}
		scDesc = append(scDesc, fmt.Sprintf("%s: listen=%v k=%d conns=[%s] model-states=%d ops/state<=%d", sc.name, sc.listen, sc.k, strings.Join(cs, " "), c.modelSpace, len(c.opsAll)))
		for _, th := range threshs {
			ActivationThresh = th // package variable: set between searches only, the workers of one search just read it
			name := fmt.Sprintf("%s T=%d", sc.name, th)
			before := stats.nonEmpty
			sp := &seqmc.Spec[*c17Inst, c17Op]{
				Name: name,
				New:  func() *c17Inst { return c17New(c) },
				Close: func(in *c17Inst) {
					stats.flush(name, in)
					in.m.Close() // Start was never called: cancels the context, nothing to wait for
				},
				Ops: func(in *c17Inst) []c17Op {
					// a closed connection cannot be closed again (Disconnected is delivered once); observations that
					// were queued before the close can still arrive afterwards
					ops := make([]c17Op, 0, len(c.opsAll))
					for _, o := range c.opsAll {
						if o.close && in.closed[o.conn] {
							continue
						}
						ops = append(ops, o)
					}
					return ops
				},
				Apply:     func(in *c17Inst, op c17Op) error { return in.apply(op) },
				Key:       func(in *c17Inst) string { return in.implString() + "||" + in.modelString() },
				Show:      c.show,
				Depth:     1 << 20, // to closure
				T:         t,
				Deadline:  vrep.Deadline(),
				MaxStates: int(4*c.modelSpace) + 1000, // a correct tree closes at exactly modelSpace states; a broken one may not close at all
			}
			st := seqmc.Run(sp)
			seqmc.Fill(r, name, st)
			if st.Closed && st.NViolations == 0 && st.States != c.modelSpace {
				// the implementation state is not a function of the tracker state (or the reverse): worth a note, not a verdict
				r.Note("%s: closed at %d states, tracker space is %d", name, st.States, c.modelSpace)
			}
			if st.Closed && st.NViolations == 0 && stats.nonEmpty == before {
				r.Flush()
				t.Fatalf("c17 harness: search %s never saw an advertised address - vacuous", name)
			}
		}
	}
	r.Bounds["scenarios"] = scDesc
	stats.mu.Lock()
	r.Distinct = int64(len(stats.distinct))
	for k, v := range stats.outcomes {
		r.Outcomes[k] += v
	}
	var classes []string
	for k := range stats.notes {
		classes = append(classes, k)
	}
	sort.Strings(classes)
	for _, k := range classes {
		n := stats.notes[k]
		r.Note("%s: %d transitions; shortest witness %v: %s", k, stats.outcomes[k], n.hist, n.desc)
	}
	if stats.outcomes["info:under-reported"] == 0 {
		r.Note("measured, not demanded: in every transition each getter returned exactly min(3, #addresses at or above the threshold) addresses")
	}
	stats.mu.Unlock()
	r.Flush()
}
