//go:build verif

package observedaddrs

// C17: observed addresses are advertised only with enough independent observers. Engine E1 (seqmc), to closure.
//
// The REAL Manager (newManagerWithListenAddrs; Start is never called, so no goroutine, ticker or event bus is
// involved) is driven through its synchronous core - maybeRecordObservation (what the worker goroutine calls
// for every identify event) and removeConn (what the Disconnected notification calls) - over every history of
//   obs(conn, observed address)   and   close(conn)
// of a small universe (zz_verif_c17_universe_test.go). After the last operation of EVERY explored history (that is,
// on every transition of the search) the public getters are read - AddrsFor for every listen address and for
// every local address any connection uses; Addrs(0); Addrs(1..4) - and compared with what the STATEMENT allows,
// recomputed from the history by a label-based tracker:
//
//   credit[c]  = the external thin waist of the last ELIGIBLE report on c while c was open (none after close)
//   vouch(L,X) = number of distinct observer groups among open connections c with local thin waist L, credit X
//
//   eligible report = non-nil, external endpoint (not loopback / NAT64 / relayed), carrying the IP version and
//   tcp|udp of the connection's local address, on an open connection whose local thin waist is the thin waist of
//   a listen address. All of that is a LABEL of the universe, not a call into the code under test.
//
// Oracles (implications; checks/C17.json maps them to the statement):
//   foreign-address            a returned address is not <external thin waist of the alphabet><rest of the queried local address>
//   below-threshold            a returned address has vouch < threshold
//   more-than-three            more than three addresses for one local address
//   not-most-observed-first    vouch increases along the returned list (ties may come in any order)
//   displaced-more-observed    three are returned while a strictly more-vouched address than the last one is left out
// Not demanded (statement says "only while"): that every address at or above the threshold IS returned. The
// tracker still measures it (outcome class "info:under-reported"), it is never a violation.
//
// Cost: seqmc reaches a state by replaying its history on a fresh manager. The getters are read and checked only
// after the LAST operation of an execution: the prefix is a history that was itself checked as a transition one
// level earlier and the manager is deterministic. The search is level-synchronous, so "last operation" is
// "position >= the deepest position seen so far in this search" (never skips a last operation; may re-check a
// few prefix steps when a new level starts).

import (
	"crypto/sha256"
	"fmt"
	"math/bits"
	"runtime/debug"
	"sort"
	"strings"
	"sync"
	"sync/atomic"
	"testing"

	"github.com/libp2p/go-libp2p/x/verif/seqmc"
	"github.com/libp2p/go-libp2p/x/verif/vrep"
	ma "github.com/multiformats/go-multiaddr"
)

// ---------- fake connection: exactly the interface the manager uses (connMultiaddrs) ----------

type c17FakeConn struct {
	name          string
	local, remote ma.Multiaddr
	closed        bool
}

func (c *c17FakeConn) LocalMultiaddr() ma.Multiaddr  { return c.local }
func (c *c17FakeConn) RemoteMultiaddr() ma.Multiaddr { return c.remote }
func (c *c17FakeConn) IsClosed() bool                { return c.closed }

var _ connMultiaddrs = (*c17FakeConn)(nil)

// ---------- compiled scenario ----------

type c17Conn struct {
	def      c17ConnDef
	local    *c17Local
	remote   ma.Multiaddr
	group    string
	groupIdx int
	twIdx    int  // index of the local thin waist in c17Compiled.tws
	atListen bool // local thin waist is the thin waist of a listen address
}

type c17ObsT struct {
	ext  int    // >= 0: external endpoint index
	cls  string // "ext" or an ineligible class
	name string
}

type c17Op struct {
	close bool
	conn  int
	obs   int
}

const c17MaxK = 4

type c17Compiled struct {
	sc       c17Scenario
	listen   []*c17Local
	queries  []*c17Local // every listen address + every local address a connection uses (AddrsFor is asked for each)
	qListen  []bool
	qTW      []int    // thin-waist index of each query
	tws      []string // distinct local thin waists
	conns    []c17Conn
	obs      []c17ObsT
	obsAddr  [][]ma.Multiaddr // [conn][obs] concrete observed multiaddr
	obsShow  [][]string
	clsShow  []string
	expected []map[string]int // [query][string(address bytes)] = external index: the only addresses AddrsFor(query) may return
	extIdx   map[string]int   // string(address bytes) -> external index, for addresses a LISTEN address can account for
	groups   [][]int          // attribution groups: query indices of listen addresses sharing IP version, tcp|udp and rest
	groupOf  map[string]int   // string(address bytes) -> attribution group
	// product of the per-connection state counts (what closure must reach on a correct tree)
	modelSpace int64
	opsAll     []c17Op
}

func c17Compile(sc c17Scenario) *c17Compiled {
	if sc.k > c17MaxK || sc.k > len(c17Exts) {
		panic("c17 harness: too many externals")
	}
	locals := c17Locals()
	c := &c17Compiled{sc: sc, extIdx: map[string]int{}, groupOf: map[string]int{}}
	listenTW := map[string]bool{}
	seenQ := map[string]bool{}
	twIdx := map[string]int{}
	tw := func(l *c17Local) int {
		if i, ok := twIdx[l.tw]; ok {
			return i
		}
		twIdx[l.tw] = len(c.tws)
		c.tws = append(c.tws, l.tw)
		return len(c.tws) - 1
	}
	addQuery := func(l *c17Local, listen bool) {
		if seenQ[l.name] {
			return
		}
		seenQ[l.name] = true
		c.queries = append(c.queries, l)
		c.qListen = append(c.qListen, listen)
		c.qTW = append(c.qTW, tw(l))
	}
	for _, n := range sc.listen {
		l := locals[n]
		if l == nil {
			panic("c17 harness: unknown local " + n)
		}
		c.listen = append(c.listen, l)
		listenTW[l.tw] = true
		addQuery(l, true)
	}
	groupIdx := map[string]int{}
	for _, d := range sc.conns {
		l := locals[d.local]
		if l == nil {
			panic("c17 harness: unknown local " + d.local)
		}
		rs := fmt.Sprintf("/ip4/%s/%s/%d%s", d.rip, l.proto, d.rport, l.suffix)
		if strings.Contains(d.rip, ":") {
			rs = fmt.Sprintf("/ip6/%s/%s/%d%s", d.rip, l.proto, d.rport, l.suffix)
			if l.ipv != 6 {
				panic("c17 harness: IPv6 remote on IPv4 local in " + sc.name)
			}
		} else if l.ipv != 4 {
			panic("c17 harness: IPv4 remote on IPv6 local in " + sc.name)
		}
		if d.relayed {
			rs += "/p2p/" + c17RelayID + "/p2p-circuit"
		}
		g := c17Group(d.rip)
		if _, ok := groupIdx[g]; !ok {
			groupIdx[g] = len(groupIdx)
		}
		addQuery(l, false)
		c.conns = append(c.conns, c17Conn{def: d, local: l, remote: c17MustAddr(rs), group: g, groupIdx: groupIdx[g], twIdx: tw(l), atListen: listenTW[l.tw] && !d.relayed})
	}
	if len(c.conns) > 16 || len(groupIdx) > 16 || len(c.queries)*c17MaxK > 64 {
		panic("c17 harness: scenario too large for the bit sets")
	}
	for i := 0; i < sc.k; i++ {
		c.obs = append(c.obs, c17ObsT{ext: i, cls: "ext", name: c17Exts[i].name})
	}
	classes := sc.classes
	if classes == nil {
		classes = c17IneligibleClasses
	}
	for _, cls := range classes {
		c.obs = append(c.obs, c17ObsT{ext: -1, cls: cls, name: cls})
	}
	for _, cn := range c.conns {
		id := fmt.Sprintf("%s[%s:%d->%s]", cn.def.name, cn.def.rip, cn.def.rport, cn.local.name)
		var row []ma.Multiaddr
		var srow []string
		for _, o := range c.obs {
			a := c17ObservedFor(cn.local, o.ext, o.cls)
			row = append(row, a)
			as := "nil"
			if a != nil {
				as = a.String()
			}
			srow = append(srow, fmt.Sprintf("obs(%s, %s=%s)", id, o.name, as))
		}
		c.obsAddr = append(c.obsAddr, row)
		c.obsShow = append(c.obsShow, srow)
		c.clsShow = append(c.clsShow, "close("+id+")")
	}
	gid := map[string]int{}
	for qi, q := range c.queries {
		m := map[string]int{}
		for i := 0; i < sc.k; i++ {
			m[string(c17MustAddr(c17Exts[i].tw(q.ipv, q.proto)+q.rest).Bytes())] = i
		}
		c.expected = append(c.expected, m)
		if !c.qListen[qi] {
			continue
		}
		gk := fmt.Sprintf("%d/%s/%s", q.ipv, q.proto, q.rest)
		g, ok := gid[gk]
		if !ok {
			g = len(c.groups)
			gid[gk] = g
			c.groups = append(c.groups, nil)
		}
		c.groups[g] = append(c.groups[g], qi)
		for s, x := range m {
			if old, ok := c.groupOf[s]; ok && (old != g || c.extIdx[s] != x) {
				panic("c17 harness: ambiguous attribution of an address")
			}
			c.groupOf[s] = g
			c.extIdx[s] = x
		}
	}
	c.modelSpace = 1
	for _, cn := range c.conns {
		if cn.atListen {
			c.modelSpace *= int64(sc.k + 2) // closed | open uncredited | open credited with one of k
		} else {
			c.modelSpace *= 2 // closed | open (never credited)
		}
	}
	for ci := range c.conns {
		for oi := range c.obs {
			c.opsAll = append(c.opsAll, c17Op{conn: ci, obs: oi})
		}
	}
	for ci := range c.conns {
		c.opsAll = append(c.opsAll, c17Op{close: true, conn: ci})
	}
	return c
}

func (c *c17Compiled) show(o c17Op) string {
	if o.close {
		return c.clsShow[o.conn]
	}
	return c.obsShow[o.conn][o.obs]
}

// ---------- one search = scenario x ActivationThresh ----------

type c17Search struct {
	c     *c17Compiled
	name  string
	level atomic.Int64 // deepest operation position applied so far (the search is level-synchronous)
	stats *c17Stats
}

// ---------- instance = real manager + tracker ----------

type c17Inst struct {
	s      *c17Search
	c      *c17Compiled
	m      *Manager
	conns  []*c17FakeConn
	credit []int // external index of the report currently credited to the connection per the statement, -1 none
	closed []bool
	ops    []c17Op
	// vouch tables of the current tracker state, filled by tally(): bit set of observer groups / number of connections
	grp [][c17MaxK]uint16
	via [][c17MaxK]uint8
	// bookkeeping of the LAST applied operation (flushed into the statistics by Spec.Close: once per transition)
	last    []string
	lastObs []byte
	anyOut  bool // some getter returned a non-empty answer
	note    *c17Info
}

type c17Info struct {
	class string
	hist  []string
	desc  string
}

func c17New(s *c17Search) *c17Inst {
	c := s.c
	listen := make([]ma.Multiaddr, len(c.listen))
	for i, l := range c.listen {
		listen[i] = l.addr
	}
	// shouldRecordObservation overwrites elements of the slice listenAddrs() returns: hand out a fresh copy each time
	m, err := newManagerWithListenAddrs(nil, func() []ma.Multiaddr { return append([]ma.Multiaddr(nil), listen...) })
	if err != nil {
		panic("c17 harness: " + err.Error())
	}
	in := &c17Inst{s: s, c: c, m: m, grp: make([][c17MaxK]uint16, len(c.tws)), via: make([][c17MaxK]uint8, len(c.tws))}
	in.conns = make([]*c17FakeConn, len(c.conns))
	in.credit = make([]int, len(c.conns))
	in.closed = make([]bool, len(c.conns))
	for i, cn := range c.conns {
		in.conns[i] = &c17FakeConn{name: cn.def.name, local: cn.local.addr, remote: cn.remote}
		in.credit[i] = -1
	}
	return in
}

// tally recomputes the vouch tables from the tracker state.
func (in *c17Inst) tally() {
	for i := range in.grp {
		in.grp[i] = [c17MaxK]uint16{}
		in.via[i] = [c17MaxK]uint8{}
	}
	for i := range in.c.conns {
		if in.closed[i] || in.credit[i] < 0 {
			continue
		}
		cn := &in.c.conns[i]
		in.grp[cn.twIdx][in.credit[i]] |= 1 << uint(cn.groupIdx)
		in.via[cn.twIdx][in.credit[i]]++
	}
}

// vouch = number of distinct observer groups vouching for external x at local thin waist tw (after tally()).
func (in *c17Inst) vouch(tw, x int) int { return bits.OnesCount16(in.grp[tw][x]) }

func (in *c17Inst) explain(tw, x int) string {
	var via []string
	for i, cn := range in.c.conns {
		if !in.closed[i] && in.credit[i] == x && cn.twIdx == tw {
			via = append(via, cn.def.name+"("+cn.group+")")
		}
	}
	return fmt.Sprintf("%s at %s is vouched for by %d observer group(s) via open connection(s) %v", c17Exts[x].name, in.c.tws[tw], in.vouch(tw, x), via)
}

func (in *c17Inst) modelString() string {
	var sb strings.Builder
	for i, cn := range in.c.conns {
		sb.WriteString(cn.def.name)
		switch {
		case in.closed[i]:
			sb.WriteString(":closed ")
		case in.credit[i] < 0:
			sb.WriteString(":- ")
		default:
			sb.WriteString(":" + c17Exts[in.credit[i]].name + " ")
		}
	}
	return sb.String()
}

func (in *c17Inst) history() []string {
	out := make([]string, len(in.ops))
	for i, o := range in.ops {
		out[i] = in.c.show(o)
	}
	return out
}

// white-box snapshot of the manager, canonical (maps sorted; connections by universe index). The per-observerSet
// cachedMultiaddrs memo is left out: it memoises the pure function (ObservedTWAddr, rest) -> Join and is never
// read for a decision.
func (in *c17Inst) implString() string {
	o := in.m
	o.mu.RLock()
	defer o.mu.RUnlock()
	var sb strings.Builder
	// fields of the manager this harness does not know (added by a later change) join the key as they are
	sb.WriteString(seqmc.ExtraFields(o, "listenAddrs", "wch", "eventbus", "wg", "ctx", "ctxCancel", "stopNotify", "mu", "externalAddrs", "connObservedTWAddrs"))
	lks := make([]string, 0, len(o.externalAddrs))
	for lk := range o.externalAddrs {
		lks = append(lks, lk)
	}
	sort.Strings(lks)
	for _, lk := range lks {
		fmt.Fprintf(&sb, "L%x{", lk)
		xks := make([]string, 0, len(o.externalAddrs[lk]))
		for xk := range o.externalAddrs[lk] {
			xks = append(xks, xk)
		}
		sort.Strings(xks)
		for _, xk := range xks {
			s := o.externalAddrs[lk][xk]
			fmt.Fprintf(&sb, "X%x=%x[", xk, s.ObservedTWAddr.Bytes())
			obs := make([]string, 0, len(s.ObservedBy))
			for ob, n := range s.ObservedBy {
				obs = append(obs, fmt.Sprintf("%s*%d", ob, n))
			}
			sort.Strings(obs)
			sb.WriteString(strings.Join(obs, ","))
			sb.WriteString("]")
		}
		sb.WriteString("}")
	}
	sb.WriteString("|")
	known := 0
	for i, fc := range in.conns {
		if a, ok := o.connObservedTWAddrs[fc]; ok {
			known++
			fmt.Fprintf(&sb, "%d=%x,", i, a.Bytes())
		}
	}
	fmt.Fprintf(&sb, "|extra=%d|", len(o.connObservedTWAddrs)-known)
	for _, fc := range in.conns {
		if fc.closed {
			sb.WriteByte('c')
		} else {
			sb.WriteByte('o')
		}
	}
	return sb.String()
}

// advertised returns the bit set {query*MaxK + external} of what AddrsFor currently returns (addresses outside the
// alphabet are ignored here; the oracle reports them).
func (in *c17Inst) advertised() uint64 {
	var set uint64
	for qi, q := range in.c.queries {
		for _, a := range in.m.AddrsFor(q.addr) {
			if x, ok := in.c.expected[qi][string(a.Bytes())]; ok {
				set |= 1 << uint(qi*c17MaxK+x)
			}
		}
	}
	return set
}

// ---------- apply one operation; on the last operation of an execution check every getter ----------

func (in *c17Inst) apply(op c17Op) error {
	c := in.c
	cn := &c.conns[op.conn]
	fc := in.conns[op.conn]
	pos := int64(len(in.ops))
	final := pos >= in.s.level.Load()
	for {
		l := in.s.level.Load()
		if pos <= l || in.s.level.CompareAndSwap(l, pos) {
			break
		}
	}
	in.ops = append(in.ops, op)
	in.last = in.last[:0]
	in.note = nil
	var before uint64
	if final {
		before = in.advertised()
	}
	prevCredit := in.credit[op.conn]
	if op.close {
		// the swarm marks the connection closed, then delivers Disconnected
		fc.closed = true
		in.m.removeConn(fc)
		in.closed[op.conn] = true
		in.credit[op.conn] = -1
		if prevCredit >= 0 {
			in.last = append(in.last, "op:close/credited")
		} else {
			in.last = append(in.last, "op:close/uncredited")
		}
	} else {
		o := c.obs[op.obs]
		in.m.maybeRecordObservation(fc, c.obsAddr[op.conn][op.obs])
		switch {
		case in.closed[op.conn] && o.ext >= 0:
			in.last = append(in.last, "op:obs/ext/on-closed-connection")
		case in.closed[op.conn]:
			in.last = append(in.last, "op:obs/ineligible/on-closed-connection")
		case o.ext >= 0 && !cn.atListen:
			in.last = append(in.last, "op:obs/ext/not-at-listen-address")
		case o.ext >= 0:
			switch {
			case prevCredit < 0:
				in.last = append(in.last, "op:obs/ext/first")
			case prevCredit == o.ext:
				in.last = append(in.last, "op:obs/ext/same-again")
			default:
				in.last = append(in.last, "op:obs/ext/replaces")
			}
			in.credit[op.conn] = o.ext
		default:
			if prevCredit >= 0 {
				in.last = append(in.last, "op:obs/"+o.cls+"/on-credited-connection")
			} else {
				in.last = append(in.last, "op:obs/"+o.cls+"/on-uncredited-connection")
			}
		}
	}
	if !final {
		return nil
	}
	return in.checkGetters(op, prevCredit, before)
}

var c17NTag = map[string][]string{
	"AddrsFor":   {"", "seen:AddrsFor/n=1", "seen:AddrsFor/n=2", "seen:AddrsFor/n=3"},
	"Addrs(0)":   {"", "seen:Addrs(0)/n=1", "seen:Addrs(0)/n=2", "seen:Addrs(0)/n=3"},
	"Addrs(min)": {"", "seen:Addrs(min)/n=1", "seen:Addrs(min)/n=2", "seen:Addrs(min)/n=3"},
}

// ranked checks one per-local-address list (external indices in returned order) against the statement.
func (in *c17Inst) ranked(getter string, q *c17Local, tw, thresh int, idx []int, raw []ma.Multiaddr) error {
	for i, x := range idx {
		if in.vouch(tw, x) < thresh {
			return seqmc.Violation(getter+":below-threshold", "%s for %s returned %v; #%d: %s; threshold %d. tracker: %s",
				getter, q.addr, raw, i, in.explain(tw, x), thresh, in.modelString())
		}
	}
	if len(idx) > 3 {
		return seqmc.Violation(getter+":more-than-three", "%s for %s returned %d addresses: %v", getter, q.addr, len(idx), raw)
	}
	for i := 1; i < len(idx); i++ {
		if a, b := in.vouch(tw, idx[i-1]), in.vouch(tw, idx[i]); b > a {
			return seqmc.Violation(getter+":not-most-observed-first", "%s for %s returned %v: #%d has %d observer groups, #%d has %d. tracker: %s",
				getter, q.addr, raw, i-1, a, i, b, in.modelString())
		}
	}
	qualifying := 0
	for x := 0; x < in.c.sc.k; x++ {
		if in.vouch(tw, x) >= thresh {
			qualifying++
		}
	}
	if len(idx) == 3 {
		lastN := in.vouch(tw, idx[2])
		for x := 0; x < in.c.sc.k; x++ {
			if x != idx[0] && x != idx[1] && x != idx[2] && in.vouch(tw, x) > lastN {
				return seqmc.Violation(getter+":displaced-more-observed", "%s for %s returned %v (last has %d observer groups) but left out %s with %d. tracker: %s",
					getter, q.addr, raw, lastN, c17Exts[x].name, in.vouch(tw, x), in.modelString())
			}
		}
	}
	// measured, not demanded
	if want := min(3, qualifying); len(idx) < want {
		in.last = append(in.last, "info:under-reported")
		if in.note == nil {
			in.note = &c17Info{class: "info:under-reported", desc: fmt.Sprintf("%s for %s returned %v although %d addresses have >= %d observer groups; tracker: %s", getter, q.addr, raw, qualifying, thresh, in.modelString())}
		}
	}
	if len(idx) > 0 {
		in.last = append(in.last, c17NTag[getter][len(idx)])
		if qualifying > 3 {
			in.last = append(in.last, "seen:"+getter+"/truncated-to-three")
		}
		if in.vouch(tw, idx[0]) != in.vouch(tw, idx[len(idx)-1]) {
			in.last = append(in.last, "seen:"+getter+"/order-decided-by-count")
		}
	}
	return nil
}

func (in *c17Inst) checkGetters(op c17Op, prevCredit int, before uint64) error {
	c := in.c
	T := ActivationThresh
	in.tally()
	in.lastObs = in.lastObs[:0]
	in.anyOut = false
	var now uint64
	idx := make([]int, 0, 8)
	for qi, q := range c.queries {
		got := in.m.AddrsFor(q.addr)
		in.anyOut = in.anyOut || len(got) > 0
		idx = idx[:0]
		for _, a := range got {
			x, ok := c.expected[qi][string(a.Bytes())]
			if !ok {
				return seqmc.Violation("AddrsFor:foreign-address", "AddrsFor(%s) returned %s, which is not an eligible observed thin waist of the alphabet followed by %q (all returned: %v). tracker: %s",
					q.addr, a, q.rest, got, in.modelString())
			}
			idx = append(idx, x)
			now |= 1 << uint(qi*c17MaxK+x)
			in.lastObs = append(in.lastObs, byte('0'+x))
		}
		in.lastObs = append(in.lastObs, ';')
		if err := in.ranked("AddrsFor", q, c.qTW[qi], T, idx, got); err != nil {
			return err
		}
		// "repeated reports from one observer group never count": a case where it mattered
		for x := 0; x < c.sc.k; x++ {
			if in.vouch(c.qTW[qi], x) < T && int(in.via[c.qTW[qi]][x]) >= T {
				in.last = append(in.last, "seen:same-group-repeats-kept-below-threshold")
			}
		}
	}
	lists := make([][]int, len(c.groups))
	raws := make([][]ma.Multiaddr, len(c.groups))
	for _, m := range []int{0, 1, 2, 3, 4} {
		getter, thresh := "Addrs(0)", T
		if m > 0 {
			getter, thresh = "Addrs(min)", m
		}
		got := in.m.Addrs(m)
		in.anyOut = in.anyOut || len(got) > 0
		// Split the flat answer by the listen addresses that can account for each address (same IP version, tcp|udp and
		// suffix after the thin waist). Listen addresses that share all three form one attribution group.
		for g := range lists {
			lists[g], raws[g] = lists[g][:0], raws[g][:0]
		}
		in.lastObs = append(in.lastObs, 'A')
		for _, a := range got {
			s := string(a.Bytes())
			g, ok := c.groupOf[s]
			if !ok {
				return seqmc.Violation(getter+":foreign-address", "Addrs(%d) returned %s, which is not an eligible observed thin waist of the alphabet followed by the rest of a listen address (all returned: %v). tracker: %s",
					m, a, got, in.modelString())
			}
			lists[g] = append(lists[g], c.extIdx[s])
			raws[g] = append(raws[g], a)
			in.lastObs = append(in.lastObs, byte('a'+g), byte('0'+c.extIdx[s]))
		}
		for g, members := range c.groups {
			// listen addresses of the group at which anything at all reaches the threshold
			var active []int
			for _, qi := range members {
				for x := 0; x < c.sc.k; x++ {
					if in.vouch(c.qTW[qi], x) >= thresh {
						active = append(active, qi)
						break
					}
				}
			}
			switch {
			case len(active) <= 1:
				// at most one listen address of the group may contribute: the whole list is its list
				qi := members[0]
				if len(active) == 1 {
					qi = active[0]
				}
				if err := in.ranked(getter, c.queries[qi], c.qTW[qi], thresh, lists[g], raws[g]); err != nil {
					return err
				}
			default:
				// several listen addresses contribute and the flat answer does not say which address belongs to which:
				// every occurrence of an address needs its own listen address at which it reaches the threshold, and
				// there are at most three per contributing listen address. (Order is checked per address by AddrsFor.)
				var occ [c17MaxK]int
				for _, x := range lists[g] {
					occ[x]++
				}
				for x, n := range occ {
					can := 0
					for _, qi := range active {
						if in.vouch(c.qTW[qi], x) >= thresh {
							can++
						}
					}
					if n > can {
						return seqmc.Violation(getter+":below-threshold", "Addrs(%d) returned %s %d time(s) (all: %v) but it has %d observer groups at only %d listen address(es). tracker: %s",
							m, c17Exts[x].name, n, got, thresh, can, in.modelString())
					}
				}
				if len(lists[g]) > 3*len(active) {
					return seqmc.Violation(getter+":more-than-three", "Addrs(%d) returned %d addresses for %d contributing listen addresses: %v", m, len(lists[g]), len(active), got)
				}
				if len(lists[g]) > 0 {
					in.last = append(in.last, "seen:"+getter+"/two-listen-addresses-contribute")
				}
			}
		}
	}
	// informational classes about withdrawal (what AddrsFor returned before the operation and does not return now)
	if before&^now != 0 {
		if op.close {
			in.last = append(in.last, "seen:close-withdrew-an-advertised-address")
		} else {
			in.last = append(in.last, "seen:changed-report-withdrew-an-advertised-address")
		}
	}
	if now&^before != 0 {
		in.last = append(in.last, "seen:address-became-advertised")
	}
	// Reading question recorded for the report (NOT a violation, see checks/C17.json): an ineligible, non-nil report on
	// an open connection leaves that connection's earlier eligible report credited. Under the reading "a report is
	// withdrawn when it changes - to anything" the address would have to disappear when the credit was decisive.
	if !op.close && c.obs[op.obs].ext < 0 && c.obs[op.obs].cls != c17ObsNil && !in.closed[op.conn] && prevCredit >= 0 {
		cn := &c.conns[op.conn]
		n := in.vouch(cn.twIdx, prevCredit)
		others := 0
		for i := range c.conns {
			o := &c.conns[i]
			if i != op.conn && !in.closed[i] && in.credit[i] == prevCredit && o.twIdx == cn.twIdx && o.groupIdx == cn.groupIdx {
				others++
			}
		}
		if n >= T && others == 0 && n-1 < T {
			for qi, q := range c.queries {
				if c.qTW[qi] == cn.twIdx && now&(1<<uint(qi*c17MaxK+prevCredit)) != 0 {
					in.last = append(in.last, "info:ineligible-report-left-decisive-earlier-report-credited")
					if in.note == nil {
						in.note = &c17Info{class: "info:ineligible-report-left-decisive-earlier-report-credited",
							desc: fmt.Sprintf("after an ineligible (%s) report on %s its earlier report of %s still counts and that address stays advertised for %s with exactly %d observer group(s) = the threshold", c.obs[op.obs].cls, cn.def.name, c17Exts[prevCredit].name, q.addr, n)}
					}
				}
			}
		}
	}
	return nil
}

// ---------- statistics (one entry per TRANSITION: recorded from Spec.Close) ----------

type c17Stats struct {
	mu       sync.Mutex
	outcomes map[string]int64
	distinct map[[16]byte]struct{}
	notes    map[string]*c17Info // per info class: the shortest (then lexicographically smallest) witness
	nonEmpty int64
}

func (s *c17Stats) flush(search string, in *c17Inst) {
	var dk [16]byte
	if in.anyOut {
		// distinct non-trivial case = distinct (search, tracker state, answers of all getters) with a non-empty answer
		h := sha256.Sum256([]byte(search + "|" + in.modelString() + "|" + string(in.lastObs)))
		copy(dk[:], h[:16])
	}
	s.mu.Lock()
	defer s.mu.Unlock()
	for i, k := range in.last {
		dup := false
		for _, p := range in.last[:i] {
			if p == k {
				dup = true
				break
			}
		}
		if !dup {
			s.outcomes[k]++
		}
	}
	if in.anyOut {
		s.nonEmpty++
		s.distinct[dk] = struct{}{}
	}
	if in.note != nil {
		n := *in.note
		n.hist = in.history()
		old := s.notes[n.class]
		if old == nil || len(n.hist) < len(old.hist) || (len(n.hist) == len(old.hist) && strings.Join(n.hist, ";") < strings.Join(old.hist, ";")) {
			s.notes[n.class] = &n
		}
	}
}

// ---------- the test ----------

func TestVerifC17(t *testing.T) {
	thorough := vrep.Thorough()
	threshs := []int{1, 2}
	if thorough {
		threshs = []int{1, 2, 4}
	}
	// harness self-checks (a failure here is an infrastructure problem, never a verdict)
	if c17Group(c17A1) != c17Group(c17A2) || c17Group(c17A1) != c17Group(c17A3) || c17Group(c17A1) == c17Group(c17B) ||
		c17Group(c17A1) == c17Group(c17C) || c17Group(c17A1) == c17Group(c17D) || c17Group("1.1.1.1") == c17Group("2.2.2.2") {
		t.Fatalf("c17 harness: observer-group labels are wrong")
	}

	r := vrep.New("C17", "manager")
	r.Bounds["depth"] = "closure (finite state space: per connection closed | open uncredited | open credited with one of k externals)"
	r.Bounds["ActivationThresh"] = fmt.Sprint(threshs)
	r.Bounds["Addrs(minObservers)"] = "0 (= ActivationThresh), 1, 2, 3, 4 read on every transition"
	r.Bounds["observation classes per connection"] = "k externals (X1 plain, X2 other IP same port, X3 same IP other port, X4 = own private listen endpoint) + " + strings.Join(c17IneligibleClasses, ", ")
	stats := &c17Stats{outcomes: map[string]int64{}, distinct: map[[16]byte]struct{}{}, notes: map[string]*c17Info{}}
	saved := ActivationThresh
	defer func() { ActivationThresh = saved }()
	// every transition builds a fresh manager and throws it away: the live heap is tiny, collect less often
	defer debug.SetGCPercent(debug.SetGCPercent(800))

	var scDesc []string
	for _, sc := range c17Scenarios(thorough) {
		c := c17Compile(sc)
		var cs []string
		for _, cn := range c.conns {
			cs = append(cs, fmt.Sprintf("%s=%s:%d->%s(%s,listen=%v)", cn.def.name, cn.def.rip, cn.def.rport, cn.local.name, cn.group, cn.atListen))
		}
		inel := "all"
		if sc.classes != nil {
			inel = fmt.Sprint(sc.classes)
		}
		scDesc = append(scDesc, fmt.Sprintf("%s: listen=%v k=%d ineligible-classes=%s conns=[%s] tracker-states=%d ops/state<=%d", sc.name, sc.listen, sc.k, inel, strings.Join(cs, " "), c.modelSpace, len(c.opsAll))+func() string {
			if sc.threshs != nil {
				return fmt.Sprintf(" ActivationThresh=%v only", sc.threshs)
			}
			return ""
		}())
		scThreshs := threshs
		if sc.threshs != nil {
			scThreshs = sc.threshs
		}
		for _, th := range scThreshs {
			ActivationThresh = th // package variable: set between searches only, the workers of one search just read it
			s := &c17Search{c: c, name: fmt.Sprintf("%s T=%d", sc.name, th), stats: stats}
			before := stats.nonEmpty
			sp := &seqmc.Spec[*c17Inst, c17Op]{
				Name: s.name,
				New:  func() *c17Inst { return c17New(s) },
				Close: func(in *c17Inst) {
					stats.flush(s.name, in)
					in.m.Close() // Start was never called: cancels the context, nothing to wait for
				},
				Ops: func(in *c17Inst) []c17Op {
					// a closed connection cannot be closed again (Disconnected is delivered once); observations that
					// were queued before the close can still arrive afterwards
					ops := make([]c17Op, 0, len(c.opsAll))
					for _, o := range c.opsAll {
						if o.close && in.closed[o.conn] {
							continue
						}
						ops = append(ops, o)
					}
					return ops
				},
				Apply:     func(in *c17Inst, op c17Op) error { return in.apply(op) },
				Key:       func(in *c17Inst) string { return in.implString() + "||" + in.modelString() },
				Show:      c.show,
				Depth:     1 << 20, // to closure
				T:         t,
				Deadline:  vrep.Deadline(),
				MaxStates: int(4*c.modelSpace) + 1000, // a correct tree closes at exactly modelSpace states; a broken one may not close at all
			}
			st := seqmc.Run(sp)
			seqmc.Fill(r, s.name, st)
			if st.Closed && st.NViolations == 0 && st.States != c.modelSpace {
				// the implementation state is not a function of the tracker state (or the reverse): worth a note, not a verdict
				r.Note("%s: closed at %d states, tracker space is %d", s.name, st.States, c.modelSpace)
			}
			if st.Closed && st.NViolations == 0 && stats.nonEmpty == before {
				r.Flush()
				t.Fatalf("c17 harness: search %s never saw a getter return an address - vacuous", s.name)
			}
		}
	}
	r.Bounds["scenarios"] = scDesc
	stats.mu.Lock()
	r.Distinct = int64(len(stats.distinct))
	for k, v := range stats.outcomes {
		r.Outcomes[k] += v
	}
	classes := make([]string, 0, len(stats.notes))
	for k := range stats.notes {
		classes = append(classes, k)
	}
	sort.Strings(classes)
	for _, k := range classes {
		n := stats.notes[k]
		r.Note("%s: %d transitions; shortest witness %v: %s", k, stats.outcomes[k], n.hist, n.desc)
	}
	if stats.outcomes["info:under-reported"] == 0 && r.NViolations == 0 {
		r.Note("measured, not demanded: on every transition each getter returned exactly min(3, #addresses at or above the threshold) addresses per local address")
	}
	stats.mu.Unlock()
	r.Flush()
}
