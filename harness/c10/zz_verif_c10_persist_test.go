//go:build verif

package conngater

// C10 part "persist": the real BasicConnectionGater over a crash-injecting datastore (engine package crashds).
//
// Space: every history of <= depth calls over the alphabet {Block, Unblock} x 7 rule targets + Restart, and for
// each history every datastore-write position (counted by a fault-free dry run) x {stop before the write, stop
// after the write, write error}. After every call that returned the LIVE gater is audited; after the stop (and
// at the end of every fault-free run) a NEW gater is opened on a copy of the surviving datastore content and
// audited. A stop inside an earlier call of a history is the same execution as the stop at the last call of the
// corresponding prefix, so it is executed once, there.

import (
	"encoding/json"
	"fmt"
	"log/slog"
	"net"
	"os"
	"strings"
	"testing"
	"time"

	logging "github.com/libp2p/go-libp2p/gologshim"
	"github.com/libp2p/go-libp2p/x/verif/crashds"
	"github.com/libp2p/go-libp2p/x/verif/vrep"
)

type c10Op struct {
	Restart bool
	Block   bool
	Target  int
}

func (o c10Op) show(u []c10Target) string {
	if o.Restart {
		return "Restart"
	}
	if o.Block {
		return "Block " + u[o.Target].Name
	}
	return "Unblock " + u[o.Target].Name
}

func c10Alphabet(u []c10Target) []c10Op {
	var ops []c10Op
	for i := range u {
		ops = append(ops, c10Op{Block: true, Target: i}, c10Op{Block: false, Target: i})
	}
	return append(ops, c10Op{Restart: true})
}

// c10Call performs one Block*/Unblock* call on the real gater.
func c10Call(cg *BasicConnectionGater, t c10Target, block bool) error {
	switch t.Kind {
	case c10KPeer:
		if block {
			return cg.BlockPeer(t.Peer)
		}
		return cg.UnblockPeer(t.Peer)
	case c10KAddr:
		ip := append(net.IP{}, t.IP...) // the caller may reuse its slice afterwards
		if block {
			return cg.BlockAddr(ip)
		}
		return cg.UnblockAddr(ip)
	default:
		n := &net.IPNet{IP: append(net.IP{}, t.Net.IP...), Mask: append(net.IPMask{}, t.Net.Mask...)}
		if block {
			return cg.BlockSubnet(n)
		}
		return cg.UnblockSubnet(n)
	}
}

type c10Case struct {
	History []string `json:"history"`
	FaultAt int      `json:"fault_at_write"` // 1-based index of the datastore write (0: fault-free)
	Fault   string   `json:"fault"`
}

type c10Run struct {
	writes     int  // datastore mutating calls seen
	cum        []int // writes seen after each op of the history
	stoppedAt  int  // index of the op in flight when the process stopped (-1: none)
	faultOp    int  // index of the op that hit the fault (-1: none)
	findings   []c10Finding
	endKeys    string
	endModel   string
	syncs      int
	infra      string
	reopenErrs int
}

// c10Execute runs one history under one fault plan on a fresh gater over a fresh store.
func c10Execute(u []c10Target, au *c10Audit, hist []c10Op, at int, f crashds.Fault, count func(string)) (res c10Run) {
	res.stoppedAt, res.faultOp = -1, -1
	store := crashds.New()
	done := 0 // writes of stores already closed by Restart
	arm := func() {
		if at > done {
			store.Arm(at-done, f)
		}
	}
	arm()
	model := c10NewModel()
	cg, err := NewBasicConnectionGater(store)
	if err != nil {
		res.infra = "NewBasicConnectionGater on an empty store: " + err.Error()
		return
	}
	audit := func(cg *BasicConnectionGater, when string) {
		res.findings = append(res.findings, au.Check(cg, model, when, count)...)
	}
	for i, op := range hist {
		if op.Restart {
			done += store.Mutations()
			res.syncs += store.Syncs()
			store = store.Reopen()
			model.Restarted()
			arm()
			cg, err = NewBasicConnectionGater(store)
			if err != nil {
				res.reopenErrs++
				res.findings = append(res.findings, c10Finding{"reopen-failed", fmt.Sprintf("after %s: NewBasicConnectionGater on the datastore the gater wrote itself: %v", c10Show(u, hist[:i]), err)})
				return
			}
			audit(cg, fmt.Sprintf("live gater after clean restart (op %d)", i+1))
			res.cum = append(res.cum, done)
			continue
		}
		before := store.Mutations()
		var callErr error
		stop := crashds.Run(func() { callErr = c10Call(cg, u[op.Target], op.Block) })
		if at > 0 && res.faultOp < 0 && done+before < at && done+store.Mutations() >= at {
			res.faultOp = i
		}
		res.cum = append(res.cum, done+store.Mutations())
		if stop != nil {
			res.stoppedAt = i
			model.NotReturned(u[op.Target], op.Block, false)
			count("stopped/" + stop.Fault.String())
			break
		}
		if callErr != nil {
			model.NotReturned(u[op.Target], op.Block, true)
			count("call-returned-error")
		} else {
			model.Returned(u[op.Target], op.Block)
		}
		audit(cg, fmt.Sprintf("live gater after op %d (%s)", i+1, op.show(u)))
	}
	res.writes = done + store.Mutations()
	res.syncs += store.Syncs()
	// restart on the surviving content: the old gater object is gone
	cg = nil
	model.Restarted()
	re := store.Reopen()
	res.endKeys = strings.Join(re.Keys(), ",")
	res.endModel = model.String()
	cg2, err := NewBasicConnectionGater(re)
	if err != nil {
		res.reopenErrs++
		res.findings = append(res.findings, c10Finding{"reopen-failed", fmt.Sprintf("NewBasicConnectionGater on the surviving datastore content {%s}: %v", res.endKeys, err)})
		return
	}
	when := "reopened gater after the full history"
	if res.stoppedAt >= 0 {
		when = fmt.Sprintf("reopened gater after the process stopped inside op %d (%s, %s)", res.stoppedAt+1, hist[res.stoppedAt].show(u), f)
	}
	audit(cg2, when)
	return
}

// c10Varied: a history worth showing as a sample (all targets different, blocks and unblocks mixed).
func c10Varied(h []c10Op) bool {
	seen := map[int]bool{}
	nb := 0
	for _, o := range h {
		if o.Restart || seen[o.Target] {
			return false
		}
		seen[o.Target] = true
		if o.Block {
			nb++
		}
	}
	return nb > 0 && nb < len(h)
}

func c10Show(u []c10Target, h []c10Op) []string {
	out := make([]string, 0, len(h))
	for _, o := range h {
		out = append(out, o.show(u))
	}
	return out
}

func c10Quiet() {
	logging.SetDefaultHandler(slog.DiscardHandler)
}

func TestVerifC10Persist(t *testing.T) {
	c10Quiet()
	u := c10Universe()
	au := c10NewAudit()
	alpha := c10Alphabet(u)
	depth := 3
	if vrep.Thorough() {
		depth = 4
	}
	r := vrep.New("C10", "persist")
	defer r.Flush()
	r.Bounds["history_depth"] = depth
	r.Bounds["alphabet"] = c10Show(u, alpha)
	r.Bounds["faults"] = "every datastore write of the history x {stop-before-write, stop-after-write, write-error}; at most one fault per execution"
	r.Bounds["probes"] = len(au.probes)
	r.Bounds["hooks"] = "InterceptAddrDial, InterceptAccept per probe; InterceptPeerDial, InterceptSecured(in/out) per peer P,Q,R; List*"

	if p := vrep.ReplayPath(); p != "" {
		if s, _ := vrep.Shard(); s == 0 {
			c10ReplayPersist(t, r, u, au, p)
		}
		return
	}

	shard, nshards := vrep.Shard()
	deadline := vrep.Deadline().Add(-5 * time.Second)
	distinct := map[string]struct{}{}
	count := r.Outcome
	var nhist, nskip int64
	faults := []crashds.Fault{crashds.FaultStopBefore, crashds.FaultStopAfter, crashds.FaultError}

	report := func(hist []c10Op, at int, f crashds.Fault, res c10Run) {
		cs := c10Case{History: c10Show(u, hist), FaultAt: at, Fault: f.String()}
		if res.infra != "" {
			r.Cap("infrastructure: %s (case %v)", res.infra, cs)
			return
		}
		r.Executions++
		distinct[fmt.Sprintf("%s|%s|%s|%d", res.endKeys, res.endModel, f, res.stoppedAt)] = struct{}{}
		if len(res.findings) == 0 {
			if at > 0 && len(hist) == depth && c10Varied(hist) && (r.Executions%7 == 0) && len(r.Samples) < 1 && shard < 2 {
				r.Sample(map[string]any{"case": cs, "surviving_keys": res.endKeys, "model": res.endModel, "verdict": "ok"})
			}
		}
		seen := map[string]bool{}
		for _, fd := range res.findings {
			if seen[fd.Key] {
				continue
			}
			seen[fd.Key] = true
			r.Violate(fd.Key, fmt.Sprintf("history %v, fault %s at write #%d: %s", cs.History, cs.Fault, at, fd.Desc), cs)
		}
	}

	// enumerate histories by increasing length (so the first counterexample of a class is a shortest one), within a
	// length in lexicographic order of the alphabet
	idx := int64(0)
	visit := func(hist []c10Op) bool {
		idx++
		if int(idx%int64(nshards)) != shard {
			return true
		}
		if time.Now().After(deadline) {
			r.Cap("deadline reached after %d histories of this shard", nhist)
			return false
		}
		nhist++
		// fault-free dry run: counts the writes and is itself checked (live audits + clean reopen)
		dry := c10Execute(u, au, hist, 0, crashds.FaultNone, count)
		report(hist, 0, crashds.FaultNone, dry)
		if dry.syncs > 0 {
			count("gater-called-Sync")
		}
		// writes issued before the last op (stops inside earlier ops are executed with the prefix history)
		prefixWrites := 0
		if len(hist) > 1 && len(dry.cum) == len(hist) {
			prefixWrites = dry.cum[len(hist)-2]
		}
		for k := 1; k <= dry.writes; k++ {
			for _, f := range faults {
				if f != crashds.FaultError && k <= prefixWrites {
					nskip++
					continue
				}
				res := c10Execute(u, au, hist, k, f, count)
				report(hist, k, f, res)
			}
		}
		return true
	}
	var rec func(hist []c10Op, length int) bool
	rec = func(hist []c10Op, length int) bool {
		if len(hist) == length {
			return visit(hist)
		}
		for _, op := range alpha {
			if op.Restart && (len(hist) == 0 || hist[len(hist)-1].Restart) {
				continue // Restart first or twice in a row adds nothing
			}
			if !rec(append(hist[:len(hist):len(hist)], op), length) {
				return false
			}
		}
		return true
	}
	for length := 1; length <= depth; length++ {
		if !rec(nil, length) {
			break
		}
	}
	r.Distinct = int64(len(distinct))
	r.States = int64(len(distinct))
	r.Transitions = r.Executions
	r.Bounds["histories_this_shard"] = nhist
	r.Note("stop faults inside a non-final call are executed once, as the stop at the last call of the prefix history (%d duplicates not re-run)", nskip)
	r.Note("durability model: a Put/Delete that returned is durable; the gater issues no Sync call (datastores with write-back buffering are outside this check)")
	if r.Executions == 0 {
		r.Cap("no execution ran")
	}
}

func c10ReplayPersist(t *testing.T, r *vrep.Result, u []c10Target, au *c10Audit, path string) {
	b, err := os.ReadFile(path)
	if err != nil {
		r.Cap("replay file: %v", err)
		return
	}
	var rf struct {
		Part   string  `json:"part"`
		Replay c10Case `json:"replay"`
	}
	if err := json.Unmarshal(b, &rf); err != nil || rf.Part != "persist" {
		return
	}
	alpha := c10Alphabet(u)
	var hist []c10Op
	for _, s := range rf.Replay.History {
		for _, o := range alpha {
			if o.show(u) == s {
				hist = append(hist, o)
			}
		}
	}
	f := crashds.FaultNone
	for _, c := range []crashds.Fault{crashds.FaultStopBefore, crashds.FaultStopAfter, crashds.FaultError} {
		if c.String() == rf.Replay.Fault {
			f = c
		}
	}
	res := c10Execute(u, au, hist, rf.Replay.FaultAt, f, r.Outcome)
	r.Executions++
	fmt.Printf("replay: history=%v fault=%s at write #%d\n  surviving keys: %s\n  model: %s\n", rf.Replay.History, f, rf.Replay.FaultAt, res.endKeys, res.endModel)
	for _, fd := range res.findings {
		fmt.Printf("  FINDING %s: %s\n", fd.Key, fd.Desc)
		r.Violate(fd.Key, fd.Desc, rf.Replay)
	}
}
