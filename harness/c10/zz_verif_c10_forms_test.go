//go:build verif

package conngater

// C10 part "rule-forms": the same rule handed to the gater in every in-memory form the API type admits
// (net.IP of 4 or 16 bytes; *net.IPNet with 4/16-byte IP and mask, host bits set, IPv4-mapped prefix, /32, /128),
// each x {no fault, stop before / after the write, write error} x {live, reopened}. Oracle as in "persist".
// Unblocking a subnet under a different spelling than it was blocked with must take effect (the spellings denote one
// subnet), and a subnet whose mask is not a prefix length must either be refused or survive a restart.

import (
	"fmt"
	"net"
	"testing"

	"github.com/libp2p/go-libp2p/x/verif/crashds"
	"github.com/libp2p/go-libp2p/x/verif/vrep"
)

func c10FormTargets() []c10Target {
	n := func(ip net.IP, m net.IPMask) *net.IPNet { return &net.IPNet{IP: ip, Mask: m} }
	return []c10Target{
		c10MkAddr(c10Addr4("1.2.3.4"), "1.2.3.4 (4-byte net.IP)"),
		c10MkAddr(c10Addr16("1.2.3.4"), "1.2.3.4 (16-byte net.IP)"),
		c10MkAddr(c10Addr16("2001:db8::1"), "2001:db8::1"),
		c10MkSubnet(c10Cidr("1.2.3.0/24"), "1.2.3.0/24 (ParseCIDR)"),
		c10MkSubnet(n(c10Addr4("1.2.3.4"), net.CIDRMask(24, 32)), "1.2.3.4/24 (host bits set)"),
		c10MkSubnet(n(c10Addr16("1.2.3.0"), net.CIDRMask(24, 32)), "1.2.3.0/24 (16-byte IP, 4-byte mask)"),
		c10MkSubnet(n(c10Addr16("1.2.3.0"), net.CIDRMask(120, 128)), "::ffff:1.2.3.0/120 (IPv4-mapped prefix)"),
		c10MkSubnet(c10Cidr("::ffff:1.2.3.0/120"), "::ffff:1.2.3.0/120 (ParseCIDR)"),
		c10MkSubnet(c10Cidr("1.2.3.4/32"), "1.2.3.4/32"),
		c10MkSubnet(c10Cidr("2001:db8::/32"), "2001:db8::/32 (ParseCIDR)"),
		c10MkSubnet(n(c10Addr16("2001:db8::1"), net.CIDRMask(32, 128)), "2001:db8::1/32 (host bits set)"),
		c10MkSubnet(c10Cidr("2001:db8::1/128"), "2001:db8::1/128"),
	}
}

func TestVerifC10Forms(t *testing.T) {
	c10Quiet()
	if s, _ := vrep.Shard(); s != 0 || vrep.ReplayPath() != "" {
		return // small: runs in shard 0 only
	}
	r := vrep.New("C10", "rule-forms")
	defer r.Flush()
	au := c10NewAudit()
	forms := c10FormTargets()
	var names []string
	for _, f := range forms {
		names = append(names, f.Name)
	}
	r.Bounds["rule_forms"] = names
	r.Bounds["histories"] = "Block f; Block f, Unblock f; Block f, Restart, Unblock f  - for every form f, x every write x {stop-before, stop-after, write-error}"
	distinct := map[string]struct{}{}
	faults := []crashds.Fault{crashds.FaultStopBefore, crashds.FaultStopAfter, crashds.FaultError}
	for i := range forms {
		hists := [][]c10Op{
			{{Block: true, Target: i}},
			{{Block: true, Target: i}, {Block: false, Target: i}},
			{{Block: true, Target: i}, {Restart: true}, {Block: false, Target: i}},
		}
		for _, h := range hists {
			dry := c10Execute(forms, au, h, 0, crashds.FaultNone, r.Outcome)
			plans := []struct {
				at int
				f  crashds.Fault
			}{{0, crashds.FaultNone}}
			for k := 1; k <= dry.writes; k++ {
				for _, f := range faults {
					plans = append(plans, struct {
						at int
						f  crashds.Fault
					}{k, f})
				}
			}
			for _, pl := range plans {
				res := c10Execute(forms, au, h, pl.at, pl.f, r.Outcome)
				if res.infra != "" {
					r.Cap("infrastructure: %s", res.infra)
					continue
				}
				r.Executions++
				distinct[fmt.Sprintf("%s|%s|%s|%d", res.endKeys, res.endModel, pl.f, res.stoppedAt)] = struct{}{}
				cs := c10Case{History: c10Show(forms, h), FaultAt: pl.at, Fault: pl.f.String()}
				if len(res.findings) == 0 && pl.f == crashds.FaultStopAfter && len(h) == 1 && (i == 4 || i == 6) {
					r.Sample(map[string]any{"case": cs, "surviving_keys": res.endKeys, "model": res.endModel, "verdict": "ok"})
				}
				seen := map[string]bool{}
				for _, fd := range res.findings {
					if !seen[fd.Key] {
						seen[fd.Key] = true
						r.Violate("rule-form/"+fd.Key, fmt.Sprintf("history %v, fault %s at write #%d: %s", cs.History, cs.Fault, pl.at, fd.Desc), cs)
					}
				}
			}
		}
	}

	// ---- inputs the statement does not pin down: executed, classified, never a violation ----
	// (a) Block a subnet under one spelling, Unblock it under another spelling of the same prefix.
	pairs := [][2]int{{4, 3}, {3, 4}, {6, 3}, {3, 6}, {10, 9}, {9, 10}}
	for _, pr := range pairs {
		store := crashds.New()
		cg, err := NewBasicConnectionGater(store)
		if err != nil {
			r.Cap("infrastructure: %v", err)
			continue
		}
		e1 := c10Call(cg, forms[pr[0]], true)
		e2 := c10Call(cg, forms[pr[1]], false)
		r.Executions++
		still := !cg.InterceptAccept(c10CMA{l: c10Local, r: au.probeFor(forms[pr[0]]).MA})
		cg2, err := NewBasicConnectionGater(store.Reopen())
		stillAfter := err == nil && !cg2.InterceptAccept(c10CMA{l: c10Local, r: au.probeFor(forms[pr[0]]).MA})
		cls := fmt.Sprintf("cross-spelling-unblock: errs=%v/%v still-enforced live=%v reopened=%v", e1 != nil, e2 != nil, still, stillAfter)
		r.Outcome(cls)
		distinct[cls+forms[pr[0]].Name] = struct{}{}
		if e1 == nil && e2 == nil && (still || stillAfter) {
			// "every unblock whose call returned success is not [enforced]": the two spellings denote one subnet
			r.Violate("unblock-under-another-spelling-not-effective", fmt.Sprintf("Block %s, then Unblock %s: both calls return success but the subnet stays enforced (live=%v, after reopen=%v)", forms[pr[0]].Name, forms[pr[1]].Name, still, stillAfter),
				map[string]any{"part": "rule-forms", "block": forms[pr[0]].Name, "unblock": forms[pr[1]].Name})
		}
	}
	// (b) a mask that is not a prefix length
	{
		store := crashds.New()
		cg, err := NewBasicConnectionGater(store)
		if err == nil {
			odd := &net.IPNet{IP: c10Addr4("1.2.0.4"), Mask: net.IPv4Mask(255, 255, 0, 255)}
			e1 := cg.BlockSubnet(odd)
			r.Executions++
			live := !cg.InterceptAccept(c10CMA{l: c10Local, r: au.probes[0].MA}) // 1.2.3.4 matches 1.2.*.4
			_, err2 := NewBasicConnectionGater(store.Reopen())
			cls := fmt.Sprintf("non-prefix-mask: block-err=%v enforced-live=%v reopen-err=%v", e1 != nil, live, err2 != nil)
			r.Outcome(cls)
			distinct[cls] = struct{}{}
			if e1 == nil && err2 != nil {
				// "after reopening, every block whose call returned success is enforced": here NOTHING is, the gater cannot
				// even be constructed on the datastore it wrote itself (a call that REFUSES such a subnet is fine)
				r.Violate("successful-block-makes-the-datastore-unloadable", fmt.Sprintf("BlockSubnet(%s) returns success and is enforced live, but the rule is persisted in a form loadRules cannot parse: NewBasicConnectionGater on that datastore fails with %v - every persisted rule is lost", odd.String(), err2),
					map[string]any{"part": "rule-forms", "block": odd.String()})
			}
		}
	}
	r.Distinct = int64(len(distinct))
}

// probeFor returns a probe inside the target's address / subnet.
func (au *c10Audit) probeFor(t c10Target) c10Probe {
	r := &c10Rule{T: t}
	for _, p := range au.probes {
		if p.Demand && r.matchesIP(p.IP) {
			return p
		}
	}
	panic("c10: no probe inside " + t.Name)
}
