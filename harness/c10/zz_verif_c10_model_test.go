//go:build verif

package conngater

// C10, shared pieces of the "persist" part: the rule universe, the probe set (remote address forms), the
// reference model of the statement and the audit of a live gater against it.
//
// The model is deliberately written with net/netip (Unmap, Prefix.Contains) while the gater uses net.IP /
// net.IPNet: an IPv4-mapped IPv6 address is the same address as the IPv4 one ("every textual form of the
// address"), a subnet is a netip.Prefix.

import (
	"fmt"
	"net"
	"net/netip"
	"sort"
	"strings"

	"github.com/libp2p/go-libp2p/core/network"
	"github.com/libp2p/go-libp2p/core/peer"
	ma "github.com/multiformats/go-multiaddr"
)

// ---------- rule universe ----------

const (
	c10KPeer = iota
	c10KAddr
	c10KSubnet
)

type c10Target struct {
	Kind  int
	Name  string // printable
	Canon string // canonical rule identity: two textual forms of the same address share it
	Peer  peer.ID
	IP    net.IP     // as handed to BlockAddr (4-byte or 16-byte form)
	Net   *net.IPNet // as handed to BlockSubnet
	addr  netip.Addr
	pfx   netip.Prefix
}

func c10PeerID(name string) peer.ID {
	// identity multihash over a fixed 32-byte ed25519-looking key is overkill here: the gater treats peer IDs
	// as opaque strings, but p.String() must work, so use a valid sha256 multihash.
	b := make([]byte, 34)
	b[0], b[1] = 0x12, 0x20
	copy(b[2:], []byte("verif-c10-peer-"+name))
	return peer.ID(b)
}

func c10Addr4(s string) net.IP  { return net.ParseIP(s).To4() }
func c10Addr16(s string) net.IP { return net.ParseIP(s).To16() }

func c10Unmap(ip net.IP) netip.Addr {
	a, ok := netip.AddrFromSlice(ip)
	if !ok {
		return netip.Addr{}
	}
	return a.Unmap()
}

func c10Cidr(s string) *net.IPNet {
	_, n, err := net.ParseCIDR(s)
	if err != nil {
		panic(err)
	}
	return n
}

// c10CanonNet: canonical prefix of a *net.IPNet (ok=false for masks that are not a prefix length).
func c10CanonNet(n *net.IPNet) (netip.Prefix, bool) {
	if n == nil {
		return netip.Prefix{}, false
	}
	ones, bits := n.Mask.Size()
	if bits == 0 {
		return netip.Prefix{}, false
	}
	a := c10Unmap(n.IP)
	if !a.IsValid() {
		return netip.Prefix{}, false
	}
	if a.Is4() && bits == 128 {
		ones -= 96
		if ones < 0 {
			return netip.Prefix{}, false
		}
	}
	if a.Is6() && bits == 32 {
		return netip.Prefix{}, false
	}
	p, err := a.Prefix(ones)
	if err != nil {
		return netip.Prefix{}, false
	}
	return p, true
}

func c10MkPeer(name string) c10Target {
	p := c10PeerID(name)
	return c10Target{Kind: c10KPeer, Name: "Peer " + name, Canon: "peer:" + name, Peer: p}
}

func c10MkAddr(ip net.IP, label string) c10Target {
	a := c10Unmap(ip)
	return c10Target{Kind: c10KAddr, Name: "Addr " + label, Canon: "addr:" + a.String(), IP: ip, addr: a}
}

func c10MkSubnet(n *net.IPNet, label string) c10Target {
	p, ok := c10CanonNet(n)
	if !ok {
		panic("c10: subnet without canonical prefix: " + label)
	}
	return c10Target{Kind: c10KSubnet, Name: "Subnet " + label, Canon: "subnet:" + p.String(), Net: n, pfx: p}
}

// The eight rule targets of the history alphabet.
func c10Universe() []c10Target {
	return []c10Target{
		c10MkPeer("P"),
		c10MkAddr(c10Addr4("1.2.3.4"), "1.2.3.4"),
		c10MkAddr(c10Addr16("2001:db8::1"), "2001:db8::1"),
		c10MkSubnet(c10Cidr("1.2.3.0/24"), "1.2.3.0/24"),
		c10MkSubnet(c10Cidr("2001:db8::/32"), "2001:db8::/32"),
		c10MkAddr(c10Addr16("1.2.3.4"), "::ffff:1.2.3.4"), // 16-byte IPv4-mapped form of the same address
		c10MkPeer("Q"),
		c10MkSubnet(c10Cidr("1.2.3.0/28"), "1.2.3.0/28"), // nested in 1.2.3.0/24: rules that cover one another are independent rules
	}
}

// ---------- probes: remote address forms ----------

type c10Probe struct {
	Desc   string
	MA     ma.Multiaddr
	IP     netip.Addr // the remote's IP by construction (invalid: no IP component)
	Class  string     // form class for the outcome histogram
	Demand bool       // false: the statement does not clearly cover this form (outcome class only)
}

type c10CMA struct{ l, r ma.Multiaddr }

func (c c10CMA) LocalMultiaddr() ma.Multiaddr  { return c.l }
func (c c10CMA) RemoteMultiaddr() ma.Multiaddr { return c.r }

var _ network.ConnMultiaddrs = c10CMA{}

var c10Local = ma.StringCast("/ip4/10.9.8.7/tcp/4001")

func c10Probes() []c10Probe {
	var out []c10Probe
	add := func(s, ip, class string, demand bool) {
		m, err := ma.NewMultiaddr(s)
		if err != nil {
			panic(fmt.Sprintf("c10: bad probe %q: %v", s, err))
		}
		p := c10Probe{Desc: s, MA: m, Class: class, Demand: demand}
		if ip != "" {
			p.IP = netip.MustParseAddr(ip)
		}
		out = append(out, p)
	}
	// IPv4 addresses: the blocked one, a neighbour, first / last / just-outside of 1.2.3.0/24 - each as /ip4 and as
	// IPv4-mapped /ip6.
	for _, e := range []struct{ ip, class string }{
		{"1.2.3.4", "target"}, {"1.2.3.5", "neighbour"}, {"1.2.3.0", "subnet-first"}, {"1.2.3.255", "subnet-last"},
		{"1.2.2.255", "subnet-below"}, {"1.2.4.0", "subnet-above"},
	} {
		add("/ip4/"+e.ip+"/tcp/4001", e.ip, "ip4/"+e.class, true)
		add("/ip6/::ffff:"+e.ip+"/tcp/4001", e.ip, "ip4-mapped/"+e.class, true)
	}
	// other textual spellings of the mapped address and the other transports' address shapes
	add("/ip6/::ffff:102:304/tcp/4001", "1.2.3.4", "ip4-mapped-hex/target", true)
	add("/ip6/0:0:0:0:0:ffff:1.2.3.4/tcp/4001", "1.2.3.4", "ip4-mapped-long/target", true)
	add("/ip4/1.2.3.4/udp/4001/quic-v1", "1.2.3.4", "ip4/quic", true)
	add("/ip6/::ffff:1.2.3.4/udp/4001/quic-v1", "1.2.3.4", "ip4-mapped/quic", true)
	add("/ip4/1.2.3.4/udp/4001/quic-v1/webtransport", "1.2.3.4", "ip4/webtransport", true)
	add("/ip4/1.2.3.4/udp/4001/webrtc-direct", "1.2.3.4", "ip4/webrtc-direct", true)
	add("/ip4/1.2.3.4/tcp/4001/ws", "1.2.3.4", "ip4/ws", true)
	add("/ip4/1.2.3.4/tcp/443/tls/sni/example.com/ws", "1.2.3.4", "ip4/wss", true)
	// IPv6
	for _, e := range []struct{ ip, class string }{
		{"2001:db8::1", "target"}, {"2001:db8::2", "neighbour"}, {"2001:db8::", "subnet-first"},
		{"2001:db8:ffff:ffff:ffff:ffff:ffff:ffff", "subnet-last"}, {"2001:db7:ffff:ffff:ffff:ffff:ffff:ffff", "subnet-below"},
		{"2001:db9::", "subnet-above"},
	} {
		add("/ip6/"+e.ip+"/tcp/4001", e.ip, "ip6/"+e.class, true)
	}
	add("/ip6/2001:0db8:0000:0000:0000:0000:0000:0001/tcp/4001", "2001:db8::1", "ip6-expanded/target", true)
	add("/ip6/2001:DB8::1/udp/4001/quic-v1", "2001:db8::1", "ip6/quic", true)
	add("/ip6zone/eth0/ip6/2001:db8::1/tcp/4001", "2001:db8::1", "ip6zone/target", true)
	// no IP component: nothing can match an address/subnet rule
	add("/dns4/example.com/tcp/4001", "", "no-ip/dns4", true)
	add("/dns6/example.com/tcp/4001", "", "no-ip/dns6", true)
	add("/dns/example.com/udp/4001/quic-v1", "", "no-ip/dns", true)
	add("/dnsaddr/example.com", "", "no-ip/dnsaddr", true)
	add("/p2p-circuit", "", "no-ip/circuit", true)
	// relayed address whose RELAY sits on the blocked IP: the remote peer is not "at" that address; the relay hop is
	// gated when the relay itself is dialled. Outcome class only.
	add("/ip4/1.2.3.4/tcp/4001/p2p/"+c10PeerID("relay").String()+"/p2p-circuit", "1.2.3.4", "relay-via/target", false)
	return out
}

// ---------- the reference model of the statement ----------

const (
	c10Never     = iota // no successful call on the rule yet: the statement says nothing
	c10Blocked          // last successful call was Block*: must be enforced and listed
	c10Unblocked        // last successful call was Unblock*: must not be enforced, must not be listed
)

type c10Rule struct {
	T         c10Target
	Last      int
	Uncertain bool // a call on the rule failed / was in flight when the process stopped: may have gone either way
	// LiveBlocked: an Unblock call on a definitely blocked rule RETURNED AN ERROR. No successful unblock has ended the
	// block, so in this process the rule stays in force ("while ... is blocked"); what the datastore holds is uncertain
	// (Uncertain is set as well). Cleared by the next successful call on the rule and by a restart.
	LiveBlocked bool
}

type c10Model struct {
	rules map[string]*c10Rule // by Canon
}

func c10NewModel() *c10Model { return &c10Model{rules: map[string]*c10Rule{}} }

func (m *c10Model) rule(t c10Target) *c10Rule {
	r, ok := m.rules[t.Canon]
	if !ok {
		r = &c10Rule{T: t}
		m.rules[t.Canon] = r
	}
	return r
}

// Returned: the call returned success.
func (m *c10Model) Returned(t c10Target, block bool) {
	r := m.rule(t)
	r.Uncertain, r.LiveBlocked = false, false
	if block {
		r.Last = c10Blocked
	} else {
		r.Last = c10Unblocked
	}
}

// Restarted: a new process knows nothing about calls that failed in the old one.
func (m *c10Model) Restarted() {
	for _, r := range m.rules {
		r.LiveBlocked = false
	}
}

// NotReturned: the call returned an error (returnedError) or the process stopped inside it.
func (m *c10Model) NotReturned(t c10Target, block bool, returnedError bool) {
	r := m.rule(t)
	if r.Uncertain {
		return
	}
	if returnedError && !block && r.Last == c10Blocked {
		r.LiveBlocked = true
	}
	switch {
	case block && r.Last == c10Blocked: // blocked either way
	case !block && r.Last != c10Blocked: // not blocked either way
	default:
		r.Uncertain = true
	}
}

func (m *c10Model) sorted() []*c10Rule {
	var out []*c10Rule
	for _, r := range m.rules {
		out = append(out, r)
	}
	sort.Slice(out, func(i, j int) bool { return out[i].T.Canon < out[j].T.Canon })
	return out
}

func (m *c10Model) String() string {
	var sb strings.Builder
	for _, r := range m.sorted() {
		st := []string{"never", "BLOCKED", "unblocked"}[r.Last]
		if r.Uncertain {
			st += "?"
		}
		fmt.Fprintf(&sb, "%s=%s ", r.T.Canon, st)
	}
	return strings.TrimSpace(sb.String())
}

func (r *c10Rule) matchesIP(a netip.Addr) bool {
	if !a.IsValid() {
		return false
	}
	switch r.T.Kind {
	case c10KAddr:
		return r.T.addr == a.Unmap()
	case c10KSubnet:
		return r.T.pfx.Contains(a.Unmap())
	}
	return false
}

// verdict for a remote IP: must (some definitely blocked rule matches), mustNot (a successfully unblocked rule
// matches and no blocked or uncertain rule does), else free.
func (m *c10Model) ipVerdict(a netip.Addr) (must *c10Rule, mustNot *c10Rule) {
	var excuse bool
	for _, r := range m.sorted() {
		if !r.matchesIP(a) {
			continue
		}
		switch {
		case (r.Last == c10Blocked && !r.Uncertain) || r.LiveBlocked:
			if must == nil {
				must = r
			}
		case r.Uncertain || r.Last == c10Blocked:
			excuse = true
		case r.Last == c10Unblocked:
			if mustNot == nil {
				mustNot = r
			}
		}
	}
	if must != nil || excuse {
		mustNot = nil
	}
	return
}

func (m *c10Model) peerVerdict(p peer.ID) (must *c10Rule, mustNot *c10Rule) {
	for _, r := range m.sorted() {
		if r.T.Kind != c10KPeer || r.T.Peer != p || (r.Uncertain && !r.LiveBlocked) {
			continue
		}
		if r.LiveBlocked {
			must = r
			continue
		}
		switch r.Last {
		case c10Blocked:
			must = r
		case c10Unblocked:
			mustNot = r
		}
	}
	return
}

// ---------- audit of a live gater against the model ----------

type c10Finding struct{ Key, Desc string }

type c10Audit struct {
	probes []c10Probe
	peers  []peer.ID // P, Q and a peer no rule ever mentions
	names  []string
}

func c10NewAudit() *c10Audit {
	return &c10Audit{probes: c10Probes(), peers: []peer.ID{c10PeerID("P"), c10PeerID("Q"), c10PeerID("R")}, names: []string{"P", "Q", "R"}}
}

// Check evaluates every hook for every probe and the rule lists; count receives outcome classes.
func (au *c10Audit) Check(cg *BasicConnectionGater, m *c10Model, when string, count func(string)) []c10Finding {
	var out []c10Finding
	bad := func(key, f string, a ...any) {
		out = append(out, c10Finding{Key: key, Desc: when + ": " + fmt.Sprintf(f, a...) + " [model: " + m.String() + "]"})
	}
	anyPeer := au.peers[2]
	for _, pr := range au.probes {
		family := strings.SplitN(pr.Class, "/", 2)[0] // ip4, ip4-mapped, ip6, no-ip, ... (keeps violation keys few and stable)
		must, mustNot := m.ipVerdict(pr.IP)
		hooks := []struct {
			name  string
			allow bool
		}{
			{"InterceptAddrDial", cg.InterceptAddrDial(anyPeer, pr.MA)},
			{"InterceptAccept", cg.InterceptAccept(c10CMA{l: c10Local, r: pr.MA})},
		}
		for _, h := range hooks {
			switch {
			case must != nil && h.allow && pr.Demand:
				bad("blocked-"+[]string{"peer", "addr", "subnet"}[must.T.Kind]+"-not-refused/"+h.name+"/"+family,
					"%s allowed %s although %s is blocked (call returned success)", h.name, pr.Desc, must.T.Name)
			case must != nil && h.allow:
				count("undemanded-form-allowed/" + pr.Class)
			case must != nil:
				count("blocked-refused/" + h.name)
			case mustNot != nil && !h.allow && pr.Demand:
				bad("unblocked-rule-still-enforced/"+h.name+"/"+family,
					"%s refused %s although %s was unblocked (call returned success) and no blocked or in-flight rule matches", h.name, pr.Desc, mustNot.T.Name)
			case mustNot != nil && h.allow:
				count("unblocked-allowed/" + h.name)
			case h.allow:
				count("free-allowed/" + h.name)
			default:
				count("free-refused/" + h.name) // in-flight rule that went through, or a never-blocked address refused
				if !pr.IP.IsValid() {
					count("no-ip-refused/" + h.name)
				}
			}
		}
	}
	for i, p := range au.peers {
		must, mustNot := m.peerVerdict(p)
		remote := c10CMA{l: c10Local, r: ma.StringCast("/ip4/9.9.9.9/tcp/4001")}
		hooks := []struct {
			name   string
			allow  bool
			demand bool
		}{
			{"InterceptPeerDial", cg.InterceptPeerDial(p), true},
			{"InterceptSecured(inbound)", cg.InterceptSecured(network.DirInbound, p, remote), true},
			// outbound peers are gated in InterceptPeerDial; the statement does not ask InterceptSecured to repeat it
			{"InterceptSecured(outbound)", cg.InterceptSecured(network.DirOutbound, p, remote), false},
		}
		for _, h := range hooks {
			switch {
			case must != nil && h.allow && h.demand:
				bad("blocked-peer-not-refused/"+h.name, "%s allowed peer %s although it is blocked (call returned success)", h.name, au.names[i])
			case must != nil && h.allow:
				count("undemanded-hook-allowed/" + h.name)
			case must != nil:
				count("blocked-refused/" + h.name)
			case mustNot != nil && !h.allow:
				bad("unblocked-rule-still-enforced/"+h.name, "%s refused peer %s although it was unblocked (call returned success)", h.name, au.names[i])
			case mustNot != nil:
				count("unblocked-allowed/" + h.name)
			case h.allow:
				count("free-allowed/" + h.name)
			default:
				count("free-refused/" + h.name)
			}
		}
	}
	if allow, _ := cg.InterceptUpgraded(nil); !allow {
		count("upgraded-refused")
	}

	// rule lists
	lp := map[peer.ID]bool{}
	for _, p := range cg.ListBlockedPeers() {
		lp[p] = true
	}
	la := map[netip.Addr]bool{}
	for _, ip := range cg.ListBlockedAddrs() {
		la[c10Unmap(ip)] = true
	}
	ls := map[netip.Prefix]bool{}
	for _, n := range cg.ListBlockedSubnets() {
		if p, ok := c10CanonNet(n); ok {
			ls[p] = true
		}
	}
	for _, r := range m.sorted() {
		var listed bool
		switch r.T.Kind {
		case c10KPeer:
			listed = lp[r.T.Peer]
		case c10KAddr:
			listed = la[r.T.addr]
		case c10KSubnet:
			listed = ls[r.T.pfx]
		}
		switch {
		case r.LiveBlocked && !listed:
			bad("blocked-rule-not-listed/"+[]string{"peer", "addr", "subnet"}[r.T.Kind], "%s is blocked (call returned success) and the only unblock since returned an error, but ListBlocked* does not contain it", r.T.Name)
		case r.Uncertain:
			count(fmt.Sprintf("in-flight-listed=%v", listed))
		case r.Last == c10Blocked && !listed:
			bad("blocked-rule-not-listed/"+[]string{"peer", "addr", "subnet"}[r.T.Kind], "%s is blocked (call returned success) but ListBlocked* does not contain it", r.T.Name)
		case r.Last == c10Unblocked && listed:
			bad("unblocked-rule-listed/"+[]string{"peer", "addr", "subnet"}[r.T.Kind], "%s was unblocked (call returned success) but ListBlocked* still contains it", r.T.Name)
		case r.Last == c10Never && listed:
			count("never-blocked-listed")
		}
	}
	return out
}
