//go:build verif

package upgrader_test

// C10 part "inbound": the real upgrader listener (UpgradeListener = gatedMaListener + listener.handleIncoming +
// upgrade) with the real BasicConnectionGater, fed by an in-memory manet.Listener whose connections carry a chosen
// remote multiaddr; a real client upgrader (Noise / TLS / plaintext, yamux) on the other end of an in-memory
// buffered duplex pipe. Every case runs in its own testing/synctest bubble: synctest.Wait gives a true quiescent
// point, so "Accept never yields the connection" is decided, not timed out.
//
// Oracle:
//   "inbound connections are closed at accept (address/subnet)": remote IP matches a blocked address/subnet =>
//       the raw connection is closed, not one byte was read from or written to it, no security handshake started;
//   "or right after the security handshake (peer)": remote peer blocked (address not) => the raw connection is
//       closed, the server-side handshake completed exactly once, nothing was read from / written to the secured
//       connection afterwards (no multistream muxer negotiation) and Multiplexer.NewConn was never called;
//   "no connection ... is ever admitted": Accept() yields no connection whose peer or address matches a rule,
//       neither at quiescence nor after the accept timeout has passed in virtual time.
// Baseline (not a demand of the statement, asserted for non-vacuity in rule state "none"): the connection is
// accepted with the right remote peer and remote multiaddr.

import (
	"context"
	"crypto/ed25519"
	"encoding/json"
	"errors"
	"fmt"
	"io"
	"net"
	"net/netip"
	"os"
	"strings"
	"sync"
	"testing"
	"testing/synctest"
	"time"

	"github.com/libp2p/go-libp2p/core/connmgr"
	"github.com/libp2p/go-libp2p/core/control"
	ic "github.com/libp2p/go-libp2p/core/crypto"
	"github.com/libp2p/go-libp2p/core/network"
	"github.com/libp2p/go-libp2p/core/peer"
	"github.com/libp2p/go-libp2p/core/sec"
	"github.com/libp2p/go-libp2p/core/transport"
	"github.com/libp2p/go-libp2p/p2p/muxer/yamux"
	"github.com/libp2p/go-libp2p/p2p/net/conngater"
	"github.com/libp2p/go-libp2p/p2p/net/upgrader"
	"github.com/libp2p/go-libp2p/p2p/security/insecure"
	"github.com/libp2p/go-libp2p/p2p/security/noise"
	libp2ptls "github.com/libp2p/go-libp2p/p2p/security/tls"
	"github.com/libp2p/go-libp2p/x/verif/vrep"
	ma "github.com/multiformats/go-multiaddr"
	manet "github.com/multiformats/go-multiaddr/net"
)

// ---------- identities ----------

type c10Ident struct {
	ID   peer.ID
	Priv ic.PrivKey
}

func c10ID(name string) c10Ident {
	seed := make([]byte, ed25519.SeedSize)
	copy(seed, []byte("verif-c10-inbound-"+name))
	priv, err := ic.UnmarshalEd25519PrivateKey(ed25519.NewKeyFromSeed(seed))
	if err != nil {
		panic(err)
	}
	id, err := peer.IDFromPrivateKey(priv)
	if err != nil {
		panic(err)
	}
	return c10Ident{ID: id, Priv: priv}
}

// ---------- in-memory buffered duplex connection ----------

type c10Pipe struct {
	mu   sync.Mutex
	cond *sync.Cond
}

type c10Conn struct {
	p            *c10Pipe
	peer         *c10Conn
	name         string
	laddr, raddr ma.Multiaddr
	buf          []byte // bytes written by the other end, not yet read
	closed       bool
	rdl, wdl     time.Time
	// observations
	nRead, nWritten int // bytes
	readCalls       int
	closeCalls      int
}

func c10NewPipe(a, b string, aLocal, aRemote, bLocal, bRemote ma.Multiaddr) (*c10Conn, *c10Conn) {
	p := &c10Pipe{}
	p.cond = sync.NewCond(&p.mu)
	x := &c10Conn{p: p, name: a, laddr: aLocal, raddr: aRemote}
	y := &c10Conn{p: p, name: b, laddr: bLocal, raddr: bRemote}
	x.peer, y.peer = y, x
	return x, y
}

func (c *c10Conn) wakeAt(t time.Time) {
	if t.IsZero() {
		return
	}
	d := time.Until(t)
	if d < 0 {
		d = 0
	}
	time.AfterFunc(d, func() {
		c.p.mu.Lock()
		c.p.cond.Broadcast()
		c.p.mu.Unlock()
	})
}

func (c *c10Conn) Read(b []byte) (int, error) {
	c.p.mu.Lock()
	defer c.p.mu.Unlock()
	c.readCalls++
	for {
		if c.closed {
			return 0, net.ErrClosed
		}
		if len(c.buf) > 0 {
			n := copy(b, c.buf)
			c.buf = c.buf[n:]
			c.nRead += n
			return n, nil
		}
		if c.peer.closed {
			return 0, io.EOF
		}
		if !c.rdl.IsZero() && !time.Now().Before(c.rdl) {
			return 0, os.ErrDeadlineExceeded
		}
		if len(b) == 0 {
			return 0, nil
		}
		c.p.cond.Wait()
	}
}

func (c *c10Conn) Write(b []byte) (int, error) {
	c.p.mu.Lock()
	defer c.p.mu.Unlock()
	if c.closed {
		return 0, net.ErrClosed
	}
	if c.peer.closed {
		return 0, io.ErrClosedPipe
	}
	if !c.wdl.IsZero() && !time.Now().Before(c.wdl) {
		return 0, os.ErrDeadlineExceeded
	}
	c.peer.buf = append(c.peer.buf, b...)
	c.nWritten += len(b)
	c.p.cond.Broadcast()
	return len(b), nil
}

func (c *c10Conn) Close() error {
	c.p.mu.Lock()
	defer c.p.mu.Unlock()
	c.closeCalls++
	if c.closed {
		return net.ErrClosed
	}
	c.closed = true
	c.p.cond.Broadcast()
	return nil
}

type c10NetAddr string

func (a c10NetAddr) Network() string { return "c10mem" }
func (a c10NetAddr) String() string  { return string(a) }

func (c *c10Conn) LocalAddr() net.Addr           { return c10NetAddr(c.laddr.String()) }
func (c *c10Conn) RemoteAddr() net.Addr          { return c10NetAddr(c.raddr.String()) }
func (c *c10Conn) LocalMultiaddr() ma.Multiaddr  { return c.laddr }
func (c *c10Conn) RemoteMultiaddr() ma.Multiaddr { return c.raddr }
func (c *c10Conn) SetDeadline(t time.Time) error {
	c.p.mu.Lock()
	c.rdl, c.wdl = t, t
	c.p.cond.Broadcast()
	c.p.mu.Unlock()
	c.wakeAt(t)
	return nil
}
func (c *c10Conn) SetReadDeadline(t time.Time) error {
	c.p.mu.Lock()
	c.rdl = t
	c.p.cond.Broadcast()
	c.p.mu.Unlock()
	c.wakeAt(t)
	return nil
}
func (c *c10Conn) SetWriteDeadline(t time.Time) error {
	c.p.mu.Lock()
	c.wdl = t
	c.p.mu.Unlock()
	return nil
}

type c10ConnObs struct {
	Closed             bool
	BytesRead, Written int
	ReadCalls          int
}

func (c *c10Conn) obs() c10ConnObs {
	c.p.mu.Lock()
	defer c.p.mu.Unlock()
	return c10ConnObs{Closed: c.closed, BytesRead: c.nRead, Written: c.nWritten, ReadCalls: c.readCalls}
}

var _ manet.Conn = (*c10Conn)(nil)

// ---------- in-memory manet.Listener ----------

type c10Listener struct {
	addr   ma.Multiaddr
	q      chan manet.Conn
	closed chan struct{}
	once   sync.Once
}

func c10NewListener(addr ma.Multiaddr) *c10Listener {
	return &c10Listener{addr: addr, q: make(chan manet.Conn, 8), closed: make(chan struct{})}
}
func (l *c10Listener) Accept() (manet.Conn, error) {
	select {
	case c := <-l.q:
		return c, nil
	case <-l.closed:
		return nil, errors.New("c10: use of closed network connection")
	}
}
func (l *c10Listener) Close() error            { l.once.Do(func() { close(l.closed) }); return nil }
func (l *c10Listener) Multiaddr() ma.Multiaddr { return l.addr }
func (l *c10Listener) Addr() net.Addr          { return c10NetAddr(l.addr.String()) }

var _ manet.Listener = (*c10Listener)(nil)

// ---------- recording wrappers: gater, security transport, muxer ----------

type c10RecGater struct {
	inner connmgr.ConnectionGater
	mu    sync.Mutex
	log   []string
}

func (g *c10RecGater) add(s string, allow bool) bool {
	g.mu.Lock()
	g.log = append(g.log, fmt.Sprintf("%s=%v", s, allow))
	g.mu.Unlock()
	return allow
}
func (g *c10RecGater) InterceptPeerDial(p peer.ID) bool {
	return g.add("InterceptPeerDial", g.inner.InterceptPeerDial(p))
}
func (g *c10RecGater) InterceptAddrDial(p peer.ID, a ma.Multiaddr) bool {
	return g.add("InterceptAddrDial", g.inner.InterceptAddrDial(p, a))
}
func (g *c10RecGater) InterceptAccept(c network.ConnMultiaddrs) bool {
	return g.add("InterceptAccept", g.inner.InterceptAccept(c))
}
func (g *c10RecGater) InterceptSecured(d network.Direction, p peer.ID, c network.ConnMultiaddrs) bool {
	return g.add("InterceptSecured", g.inner.InterceptSecured(d, p, c))
}
func (g *c10RecGater) InterceptUpgraded(c network.Conn) (bool, control.DisconnectReason) {
	ok, r := g.inner.InterceptUpgraded(c)
	g.add("InterceptUpgraded", ok)
	return ok, r
}
func (g *c10RecGater) Log() string {
	g.mu.Lock()
	defer g.mu.Unlock()
	return strings.Join(g.log, ",")
}

type c10RecSec struct {
	sec.SecureTransport
	mu        sync.Mutex
	started   int
	completed int
	conns     []*c10RecSConn
}

type c10RecSConn struct {
	sec.SecureConn
	mu           sync.Mutex
	reads, write int // calls after the handshake
}

func (c *c10RecSConn) Read(b []byte) (int, error) {
	c.mu.Lock()
	c.reads++
	c.mu.Unlock()
	return c.SecureConn.Read(b)
}
func (c *c10RecSConn) Write(b []byte) (int, error) {
	c.mu.Lock()
	c.write++
	c.mu.Unlock()
	return c.SecureConn.Write(b)
}

func (s *c10RecSec) SecureInbound(ctx context.Context, insecure net.Conn, p peer.ID) (sec.SecureConn, error) {
	s.mu.Lock()
	s.started++
	s.mu.Unlock()
	sc, err := s.SecureTransport.SecureInbound(ctx, insecure, p)
	if err != nil {
		return nil, err
	}
	w := &c10RecSConn{SecureConn: sc}
	s.mu.Lock()
	s.completed++
	s.conns = append(s.conns, w)
	s.mu.Unlock()
	return w, nil
}

func (s *c10RecSec) obs() (started, completed, postReads, postWrites int) {
	s.mu.Lock()
	defer s.mu.Unlock()
	for _, c := range s.conns {
		c.mu.Lock()
		postReads += c.reads
		postWrites += c.write
		c.mu.Unlock()
	}
	return s.started, s.completed, postReads, postWrites
}

type c10RecMuxer struct {
	inner network.Multiplexer
	mu    sync.Mutex
	calls int
}

func (m *c10RecMuxer) NewConn(c net.Conn, isServer bool, scope network.PeerScope) (network.MuxedConn, error) {
	m.mu.Lock()
	m.calls++
	m.mu.Unlock()
	return m.inner.NewConn(c, isServer, scope)
}
func (m *c10RecMuxer) Calls() int { m.mu.Lock(); defer m.mu.Unlock(); return m.calls }

// ---------- rules (same universe as the other parts) ----------

type c10Rule struct {
	Name  string
	Peer  string
	Addr  netip.Addr
	Pfx   netip.Prefix
	apply func(cg *conngater.BasicConnectionGater) error
}

func c10Rules() []c10Rule {
	cidr := func(s string) *net.IPNet {
		_, n, err := net.ParseCIDR(s)
		if err != nil {
			panic(err)
		}
		return n
	}
	return []c10Rule{
		{Name: "BlockPeer(P)", Peer: "P", apply: func(cg *conngater.BasicConnectionGater) error { return cg.BlockPeer(c10ID("P").ID) }},
		{Name: "BlockAddr(1.2.3.4)", Addr: netip.MustParseAddr("1.2.3.4"), apply: func(cg *conngater.BasicConnectionGater) error { return cg.BlockAddr(net.ParseIP("1.2.3.4").To4()) }},
		{Name: "BlockAddr(::ffff:1.2.3.4 16-byte)", Addr: netip.MustParseAddr("1.2.3.4"), apply: func(cg *conngater.BasicConnectionGater) error { return cg.BlockAddr(net.ParseIP("1.2.3.4").To16()) }},
		{Name: "BlockAddr(2001:db8::1)", Addr: netip.MustParseAddr("2001:db8::1"), apply: func(cg *conngater.BasicConnectionGater) error { return cg.BlockAddr(net.ParseIP("2001:db8::1")) }},
		{Name: "BlockSubnet(1.2.3.0/24)", Pfx: netip.MustParsePrefix("1.2.3.0/24"), apply: func(cg *conngater.BasicConnectionGater) error { return cg.BlockSubnet(cidr("1.2.3.0/24")) }},
		{Name: "BlockSubnet(2001:db8::/32)", Pfx: netip.MustParsePrefix("2001:db8::/32"), apply: func(cg *conngater.BasicConnectionGater) error { return cg.BlockSubnet(cidr("2001:db8::/32")) }},
		{Name: "BlockPeer(Q)", Peer: "Q", apply: func(cg *conngater.BasicConnectionGater) error { return cg.BlockPeer(c10ID("Q").ID) }},
	}
}

type c10State struct {
	Name  string
	Rules []c10Rule
}

func (st c10State) peerBlocked(name string) bool {
	for _, r := range st.Rules {
		if r.Peer == name {
			return true
		}
	}
	return false
}

func (st c10State) ipBlocked(a netip.Addr) bool {
	if !a.IsValid() {
		return false
	}
	a = a.Unmap()
	for _, r := range st.Rules {
		if (r.Addr.IsValid() && r.Addr == a) || (r.Pfx.IsValid() && r.Pfx.Contains(a)) {
			return true
		}
	}
	return false
}

// c10States: every subset of the rules with at most 2 members (all: every subset).
func c10States(all bool) []c10State {
	rules := c10Rules()
	max := 2
	if all {
		max = len(rules)
	}
	var out []c10State
	for size := 0; size <= max; size++ {
		for mask := 0; mask < 1<<len(rules); mask++ {
			var rs []c10Rule
			var names []string
			for i, r := range rules {
				if mask&(1<<i) != 0 {
					rs = append(rs, r)
					names = append(names, r.Name)
				}
			}
			if len(rs) != size {
				continue
			}
			name := "no rule"
			if len(names) > 0 {
				name = strings.Join(names, " + ")
			}
			out = append(out, c10State{Name: name, Rules: rs})
		}
	}
	return out
}

type c10Form struct {
	Class string
	Addr  string
	IP    netip.Addr
}

func c10Forms() []c10Form {
	mk := func(class, addr, ip string) c10Form {
		f := c10Form{Class: class, Addr: addr}
		if ip != "" {
			f.IP = netip.MustParseAddr(ip)
		}
		return f
	}
	relay := c10ID("relay").ID.String()
	return []c10Form{
		mk("ip4/tcp", "/ip4/1.2.3.4/tcp/50001", "1.2.3.4"),
		mk("ip4-mapped/tcp", "/ip6/::ffff:1.2.3.4/tcp/50001", "1.2.3.4"),
		mk("ip4/ws", "/ip4/1.2.3.4/tcp/50001/ws", "1.2.3.4"),
		mk("ip4/neighbour", "/ip4/1.2.3.5/tcp/50001", "1.2.3.5"),
		mk("ip4/subnet-first", "/ip4/1.2.3.0/tcp/50001", "1.2.3.0"),
		mk("ip4/subnet-last", "/ip4/1.2.3.255/tcp/50001", "1.2.3.255"),
		mk("ip4-mapped/subnet-last", "/ip6/::ffff:1.2.3.255/tcp/50001", "1.2.3.255"),
		mk("ip4/subnet-below", "/ip4/1.2.2.255/tcp/50001", "1.2.2.255"),
		mk("ip4/subnet-above", "/ip4/1.2.4.0/tcp/50001", "1.2.4.0"),
		mk("ip6/tcp", "/ip6/2001:db8::1/tcp/50001", "2001:db8::1"),
		mk("ip6zone/tcp", "/ip6zone/eth0/ip6/2001:db8::1/tcp/50001", "2001:db8::1"),
		mk("ip6/subnet-first", "/ip6/2001:db8::/tcp/50001", "2001:db8::"),
		mk("ip6/subnet-last", "/ip6/2001:db8:ffff:ffff:ffff:ffff:ffff:ffff/tcp/50001", "2001:db8:ffff:ffff:ffff:ffff:ffff:ffff"),
		mk("ip6/subnet-below", "/ip6/2001:db7:ffff:ffff:ffff:ffff:ffff:ffff/tcp/50001", "2001:db7:ffff:ffff:ffff:ffff:ffff:ffff"),
		mk("ip6/subnet-above", "/ip6/2001:db9::/tcp/50001", "2001:db9::"),
		mk("no-ip/circuit", "/p2p/"+relay+"/p2p-circuit", ""),
		mk("no-ip/dns4", "/dns4/client.example/tcp/50001", ""),
	}
}

// ---------- one case ----------

func c10Sec(kind string, id c10Ident, muxers []upgrader.StreamMuxer) (sec.SecureTransport, error) {
	switch kind {
	case "noise":
		return noise.New(noise.ID, id.Priv, muxers)
	case "tls":
		return libp2ptls.New(libp2ptls.ID, id.Priv, muxers)
	default:
		return insecure.NewWithIdentity(insecure.ID, id.ID, id.Priv), nil
	}
}

type c10InCase struct {
	State  string `json:"rule_state"`
	Form   string `json:"remote_address_form"`
	Addr   string `json:"remote_address"`
	Client string `json:"remote_peer"`
	Sec    string `json:"security"`
}

type c10InObs struct {
	Raw                           c10ConnObs
	HsStarted, HsDone             int
	PostReads, PostWrites, MuxNew int
	Accepted                      bool
	AcceptedPeer                  peer.ID
	AcceptedAddr                  string
	AcceptedLate                  bool // only after the accept timeout passed
	Hooks                         string
	ClientErr                     string
	Infra                         string
	Findings                      [][2]string
}

func c10RunInbound(t *testing.T, st c10State, f c10Form, client, kind string) (o c10InObs) {
	defer func() {
		if r := recover(); r != nil {
			o.Infra = fmt.Sprint("panic: ", r)
		}
	}()
	synctest.Test(t, func(t *testing.T) {
		S, C := c10ID("server"), c10ID(client)
		cg, err := conngater.NewBasicConnectionGater(nil)
		if err != nil {
			o.Infra = err.Error()
			return
		}
		for _, r := range st.Rules {
			if err := r.apply(cg); err != nil {
				o.Infra = err.Error()
				return
			}
		}
		rec := &c10RecGater{inner: cg}
		smux := &c10RecMuxer{inner: yamux.DefaultTransport}
		smuxers := []upgrader.StreamMuxer{{ID: yamux.ID, Muxer: smux}}
		cmuxers := []upgrader.StreamMuxer{{ID: yamux.ID, Muxer: yamux.DefaultTransport}}
		ssecInner, err := c10Sec(kind, S, smuxers)
		if err != nil {
			o.Infra = err.Error()
			return
		}
		ssec := &c10RecSec{SecureTransport: ssecInner}
		csec, err := c10Sec(kind, C, cmuxers)
		if err != nil {
			o.Infra = err.Error()
			return
		}
		su, err := upgrader.New([]sec.SecureTransport{ssec}, smuxers, nil, nil, rec)
		if err != nil {
			o.Infra = err.Error()
			return
		}
		cu, err := upgrader.New([]sec.SecureTransport{csec}, cmuxers, nil, nil, nil)
		if err != nil {
			o.Infra = err.Error()
			return
		}
		laddr := ma.StringCast("/ip4/10.9.8.7/tcp/4001")
		raddr := ma.StringCast(f.Addr)
		ml := c10NewListener(laddr)
		ln := su.UpgradeListener(nil, ml)

		cEnd, sEnd := c10NewPipe("client", "server", raddr, laddr, laddr, raddr)
		ml.q <- sEnd

		type acc struct {
			c   transport.CapableConn
			err error
		}
		accCh := make(chan acc, 1)
		go func() {
			c, err := ln.Accept()
			accCh <- acc{c, err}
		}()
		type cres struct {
			c   transport.CapableConn
			err error
		}
		cliCh := make(chan cres, 1)
		ctx, cancel := context.WithTimeout(context.Background(), 10*time.Second)
		defer cancel()
		go func() {
			c, err := cu.Upgrade(ctx, nil, cEnd, network.DirOutbound, S.ID, &network.NullScope{})
			cliCh <- cres{c, err}
		}()

		synctest.Wait()
		var accepted transport.CapableConn
		poll := func(late bool) {
			select {
			case a := <-accCh:
				if a.err == nil && a.c != nil {
					accepted = a.c
					o.Accepted, o.AcceptedLate = true, late
					o.AcceptedPeer, o.AcceptedAddr = a.c.RemotePeer(), a.c.RemoteMultiaddr().String()
				}
			default:
			}
		}
		poll(false)
		o.Raw = sEnd.obs()
		o.HsStarted, o.HsDone, o.PostReads, o.PostWrites = ssec.obs()
		o.MuxNew = smux.Calls()
		o.Hooks = rec.Log()
		if !o.Accepted {
			// let the accept timeout (15 s) and the client's context pass in virtual time: still nothing may come out
			time.Sleep(20 * time.Second)
			synctest.Wait()
			poll(true)
		}

		// ---- teardown ----
		ln.Close()
		cEnd.Close()
		sEnd.Close()
		if accepted != nil {
			accepted.Close()
		}
		synctest.Wait()
		select {
		case a := <-accCh:
			if a.c != nil {
				a.c.Close()
			}
		default:
		}
		select {
		case c := <-cliCh:
			if c.err != nil {
				o.ClientErr = "client upgrade failed"
			}
			if c.c != nil {
				c.c.Close()
			}
		default:
			o.ClientErr = "client upgrade still running"
		}
		synctest.Wait()
	})
	return
}

func c10Judge(st c10State, f c10Form, client string, o *c10InObs) (class string) {
	bad := func(key, s string, a ...any) { o.Findings = append(o.Findings, [2]string{key, fmt.Sprintf(s, a...)}) }
	addrBlocked := st.ipBlocked(f.IP)
	peerBlocked := st.peerBlocked(client)
	switch {
	case addrBlocked:
		if !o.Raw.Closed {
			bad("blocked-address-not-closed-at-accept/"+f.Class, "remote %s matches a blocked address/subnet but the raw connection was not closed", f.Addr)
		}
		if o.Raw.BytesRead != 0 || o.Raw.Written != 0 || o.Raw.ReadCalls != 0 || o.HsStarted != 0 {
			bad("blocked-address-handshake-started/"+f.Class, "remote %s matches a blocked address/subnet but the listener touched the connection before closing it: read %d bytes in %d calls, wrote %d bytes, security handshakes started %d",
				f.Addr, o.Raw.BytesRead, o.Raw.ReadCalls, o.Raw.Written, o.HsStarted)
		}
		class = "address-blocked: closed-at-accept"
	case peerBlocked:
		if !o.Raw.Closed {
			bad("blocked-peer-not-closed-after-handshake", "remote peer %s is blocked but the raw connection was not closed", client)
		}
		if o.PostReads != 0 || o.PostWrites != 0 || o.MuxNew != 0 {
			bad("blocked-peer-muxer-negotiated", "remote peer %s is blocked but the upgrade went on after the security handshake: reads=%d writes=%d on the secured connection, Multiplexer.NewConn calls=%d",
				client, o.PostReads, o.PostWrites, o.MuxNew)
		}
		class = fmt.Sprintf("peer-blocked: closed-after-handshake (handshakes done=%d)", o.HsDone)
	default:
		class = "not-blocked"
	}
	if o.Accepted && (addrBlocked || peerBlocked) {
		bad("blocked-remote-accepted", "Accept() yielded a connection from peer %s at %s (late=%v) although it matches a rule", client, f.Addr, o.AcceptedLate)
	}
	if o.Accepted {
		class += " -> accepted"
	} else {
		class += " -> not accepted"
	}
	return class
}

func TestVerifC10Inbound(t *testing.T) {
	r := vrep.New("C10", "inbound")
	defer r.Flush()
	var replay *c10InCase
	if p := vrep.ReplayPath(); p != "" {
		var rf struct {
			Part   string    `json:"part"`
			Replay c10InCase `json:"replay"`
		}
		b, err := os.ReadFile(p)
		if err != nil || json.Unmarshal(b, &rf) != nil || rf.Part != "inbound" {
			return
		}
		if s, _ := vrep.Shard(); s != 0 {
			return
		}
		replay = &rf.Replay
	}
	states := c10States(vrep.Thorough() || replay != nil)
	forms := c10Forms()
	secs := []string{"noise", "tls", "plaintext"}
	clients := []string{"P", "Q"}
	r.Bounds["rule_states"] = len(states)
	r.Bounds["remote_address_forms"] = len(forms)
	r.Bounds["security"] = secs
	r.Bounds["remote_peers"] = clients
	r.Bounds["muxer"] = "yamux (early negotiation inside Noise/TLS, multistream after plaintext)"
	deadline := vrep.Deadline().Add(-5 * time.Second)
	shard, nshards := vrep.Shard()
	distinct := map[string]struct{}{}
	idx, nsamples := 0, 0
loop:
	for _, st := range states {
		for _, f := range forms {
			for _, cl := range clients {
				for _, kind := range secs {
					idx++
					cs := c10InCase{State: st.Name, Form: f.Class, Addr: f.Addr, Client: cl, Sec: kind}
					if replay != nil {
						if cs != *replay {
							continue
						}
					} else if idx%nshards != shard {
						continue
					}
					if time.Now().After(deadline) {
						r.Cap("deadline reached after %d cases", r.Executions)
						break loop
					}
					o := c10RunInbound(t, st, f, cl, kind)
					if replay != nil {
						fmt.Printf("replay %+v\n  observed: %+v\n", cs, o)
					}
					if o.Infra != "" {
						r.Cap("infrastructure (no verdict): %s in %+v", o.Infra, cs)
						continue
					}
					r.Executions++
					class := c10Judge(st, f, cl, &o)
					r.Outcome(class)
					r.Outcome("server-hooks: " + o.Hooks)
					distinct[class+"|"+f.Class+"|"+kind] = struct{}{}
					if len(st.Rules) == 0 {
						if !o.Accepted || o.AcceptedPeer != c10ID(cl).ID || o.AcceptedAddr != f.Addr || o.AcceptedLate {
							r.Cap("baseline broken (no verdict): without rules the connection from %s at %s over %s was not accepted as expected: %+v", cl, f.Addr, kind, o)
						} else {
							r.Outcome("baseline-no-rule-accepted")
						}
					}
					if len(o.Findings) == 0 && len(st.Rules) > 0 && (st.ipBlocked(f.IP) || st.peerBlocked(cl)) && nsamples < 3 && shard == 0 && idx%29 == 0 {
						nsamples++
						r.Sample(map[string]any{"case": cs, "raw_conn": o.Raw, "handshakes_done": o.HsDone, "muxer_newconn": o.MuxNew, "hooks": o.Hooks, "accepted": o.Accepted, "verdict": "ok"})
					}
					seen := map[string]bool{}
					for _, fd := range o.Findings {
						if !seen[fd[0]] {
							seen[fd[0]] = true
							r.Violate(fd[0], fmt.Sprintf("%+v: %s [raw=%+v hs=%d/%d post=%d/%d mux=%d hooks=%s]", cs, fd[1], o.Raw, o.HsStarted, o.HsDone, o.PostReads, o.PostWrites, o.MuxNew, o.Hooks), cs)
						}
					}
				}
			}
		}
	}
	r.Distinct = int64(len(distinct))
}
