//go:build verif

package swarm

// C10 part "outbound": a real Swarm with the real BasicConnectionGater (behind a call-recording wrapper) on the
// scripted fake transports of harness/swarmfix (tcp, quic, relay). Sequential: every case runs in its own
// testing/synctest bubble (virtual time for the dial ranker's delays and the dial timeouts), no scheduler.
//
// Space: rule state (every set of at most 2 of the 7 rules; thorough: every subset) x remote address form under test x
// companion addresses {none, an unblocked tcp address, an unblocked quic address} x outcome scripted for every
// transport dial {ok, fail} x entry point {DialPeer, NewStream}.
// Oracle ("outbound dials are refused before any transport dial to a blocked peer or address"; "no connection to
// ... a matching remote is ever admitted to the swarm"):
//   * no transport's Dial is ever invoked with a blocked peer, or with an address whose IP (labelled by
//     construction, also for DNS names resolved by the swarm) matches a blocked address / subnet;
//   * (outcome class only, never a violation) whether every transport Dial was preceded by InterceptPeerDial(p)=allow
//     and InterceptAddrDial(p, that address)=allow;
//   * blocked peer, or every address blocked: the call fails, ConnsToPeer is empty, no Connected notification,
//     Connectedness is not Connected; in general no connection of the swarm has a blocked remote address.
// Not demanded: that unblocked things are dialled (asserted only as the non-vacuity baseline in rule state "none").

import (
	"context"
	"encoding/json"
	"fmt"
	"os"
	"net"
	"net/netip"
	"sort"
	"strings"
	"sync"
	"testing"
	"testing/synctest"
	"time"

	"github.com/libp2p/go-libp2p/core/connmgr"
	"github.com/libp2p/go-libp2p/core/control"
	"github.com/libp2p/go-libp2p/core/network"
	"github.com/libp2p/go-libp2p/core/peer"
	"github.com/libp2p/go-libp2p/core/peerstore"
	"github.com/libp2p/go-libp2p/p2p/net/conngater"
	"github.com/libp2p/go-libp2p/x/verif/vrep"
	ma "github.com/multiformats/go-multiaddr"
)

// ---------- recording wrapper around the real gater ----------

type c10Hook struct {
	Name  string
	Peer  peer.ID
	Addr  string
	Allow bool
}

type c10RecGater struct {
	inner connmgr.ConnectionGater
	mu    sync.Mutex
	log   []c10Hook
}

func (g *c10RecGater) add(h c10Hook) bool {
	g.mu.Lock()
	g.log = append(g.log, h)
	g.mu.Unlock()
	return h.Allow
}
func (g *c10RecGater) InterceptPeerDial(p peer.ID) bool {
	return g.add(c10Hook{"InterceptPeerDial", p, "", g.inner.InterceptPeerDial(p)})
}
func (g *c10RecGater) InterceptAddrDial(p peer.ID, a ma.Multiaddr) bool {
	return g.add(c10Hook{"InterceptAddrDial", p, a.String(), g.inner.InterceptAddrDial(p, a)})
}
func (g *c10RecGater) InterceptAccept(c network.ConnMultiaddrs) bool {
	return g.add(c10Hook{"InterceptAccept", "", c.RemoteMultiaddr().String(), g.inner.InterceptAccept(c)})
}
func (g *c10RecGater) InterceptSecured(d network.Direction, p peer.ID, c network.ConnMultiaddrs) bool {
	return g.add(c10Hook{"InterceptSecured", p, c.RemoteMultiaddr().String(), g.inner.InterceptSecured(d, p, c)})
}
func (g *c10RecGater) InterceptUpgraded(c network.Conn) (bool, control.DisconnectReason) {
	ok, r := g.inner.InterceptUpgraded(c)
	g.add(c10Hook{"InterceptUpgraded", c.RemotePeer(), c.RemoteMultiaddr().String(), ok})
	return ok, r
}
func (g *c10RecGater) Log() []c10Hook {
	g.mu.Lock()
	defer g.mu.Unlock()
	return append([]c10Hook{}, g.log...)
}
func (g *c10RecGater) names() string {
	set := map[string]bool{}
	for _, h := range g.Log() {
		set[h.Name] = true
	}
	var l []string
	for k := range set {
		l = append(l, k)
	}
	sort.Strings(l)
	return strings.Join(l, "+")
}

// ---------- rules ----------

type c10Rule struct {
	Name  string
	Peer  string // name of the blocked peer ("" if none)
	Addr  netip.Addr
	Pfx   netip.Prefix
	apply func(cg *conngater.BasicConnectionGater) error
}

func c10Rules() []c10Rule {
	cidr := func(s string) *net.IPNet {
		_, n, err := net.ParseCIDR(s)
		if err != nil {
			panic(err)
		}
		return n
	}
	return []c10Rule{
		{Name: "BlockPeer(P)", Peer: "P", apply: func(cg *conngater.BasicConnectionGater) error { return cg.BlockPeer(fxID("P").ID) }},
		{Name: "BlockAddr(1.2.3.4)", Addr: netip.MustParseAddr("1.2.3.4"), apply: func(cg *conngater.BasicConnectionGater) error { return cg.BlockAddr(net.ParseIP("1.2.3.4").To4()) }},
		{Name: "BlockAddr(::ffff:1.2.3.4 16-byte)", Addr: netip.MustParseAddr("1.2.3.4"), apply: func(cg *conngater.BasicConnectionGater) error { return cg.BlockAddr(net.ParseIP("1.2.3.4").To16()) }},
		{Name: "BlockAddr(2001:db8::1)", Addr: netip.MustParseAddr("2001:db8::1"), apply: func(cg *conngater.BasicConnectionGater) error { return cg.BlockAddr(net.ParseIP("2001:db8::1")) }},
		{Name: "BlockSubnet(1.2.3.0/24)", Pfx: netip.MustParsePrefix("1.2.3.0/24"), apply: func(cg *conngater.BasicConnectionGater) error { return cg.BlockSubnet(cidr("1.2.3.0/24")) }},
		{Name: "BlockSubnet(2001:db8::/32)", Pfx: netip.MustParsePrefix("2001:db8::/32"), apply: func(cg *conngater.BasicConnectionGater) error { return cg.BlockSubnet(cidr("2001:db8::/32")) }},
		{Name: "BlockPeer(Q)", Peer: "Q", apply: func(cg *conngater.BasicConnectionGater) error { return cg.BlockPeer(fxID("Q").ID) }},
	}
}

type c10State struct {
	Name  string
	Rules []c10Rule
}

func (st c10State) peerBlocked(p peer.ID) bool {
	for _, r := range st.Rules {
		if r.Peer != "" && fxID(r.Peer).ID == p {
			return true
		}
	}
	return false
}

func (st c10State) ipBlocked(a netip.Addr) bool {
	if !a.IsValid() {
		return false
	}
	a = a.Unmap()
	for _, r := range st.Rules {
		if r.Addr.IsValid() && r.Addr == a {
			return true
		}
		if r.Pfx.IsValid() && r.Pfx.Contains(a) {
			return true
		}
	}
	return false
}

// c10States: every subset of the rules with at most maxRules members (0 = all subsets).
func c10States(all bool) []c10State {
	rules := c10Rules()
	max := 2
	if all {
		max = len(rules)
	}
	var out []c10State
	for size := 0; size <= max; size++ {
		for mask := 0; mask < 1<<len(rules); mask++ {
			var rs []c10Rule
			var names []string
			for i, r := range rules {
				if mask&(1<<i) != 0 {
					rs = append(rs, r)
					names = append(names, r.Name)
				}
			}
			if len(rs) != size {
				continue
			}
			name := "no rule"
			if len(names) > 0 {
				name = strings.Join(names, " + ")
			}
			out = append(out, c10State{Name: name, Rules: rs})
		}
	}
	return out
}

// ---------- remote address forms ----------

type c10Form struct {
	Class  string
	Addr   string     // what the peerstore holds
	Dialed string     // what reaches the transport (differs for DNS names resolved by the swarm)
	IP     netip.Addr // the IP of Dialed, by construction (invalid: none)
	Demand bool
	// Unresolved: the swarm cannot turn Addr into something dialable (its resolver fails); no baseline dial is expected
	Unresolved bool
}

func c10RelayID() peer.ID { return fxID("relay").ID }

func c10Forms() []c10Form {
	var out []c10Form
	add := func(class, addr, dialed, ip string, demand bool) {
		f := c10Form{Class: class, Addr: addr, Dialed: dialed, Demand: demand}
		if dialed == "" {
			f.Dialed = addr
		}
		if ip != "" {
			f.IP = netip.MustParseAddr(ip)
		}
		out = append(out, f)
	}
	add("ip4/tcp", "/ip4/1.2.3.4/tcp/4001", "", "1.2.3.4", true)
	add("ip4-mapped/tcp", "/ip6/::ffff:1.2.3.4/tcp/4001", "", "1.2.3.4", true)
	add("ip4/quic", "/ip4/1.2.3.4/udp/4001/quic-v1", "", "1.2.3.4", true)
	add("ip4-mapped/quic", "/ip6/::ffff:1.2.3.4/udp/4001/quic-v1", "", "1.2.3.4", true)
	add("ip4/subnet-first", "/ip4/1.2.3.0/tcp/4001", "", "1.2.3.0", true)
	add("ip4/subnet-last", "/ip4/1.2.3.255/tcp/4001", "", "1.2.3.255", true)
	add("ip4-mapped/subnet-last", "/ip6/::ffff:1.2.3.255/udp/4001/quic-v1", "", "1.2.3.255", true)
	add("ip4/subnet-below", "/ip4/1.2.2.255/tcp/4001", "", "1.2.2.255", true)
	add("ip4/subnet-above", "/ip4/1.2.4.0/udp/4001/quic-v1", "", "1.2.4.0", true)
	add("ip6/tcp", "/ip6/2001:db8::1/tcp/4001", "", "2001:db8::1", true)
	add("ip6/quic", "/ip6/2001:db8::1/udp/4001/quic-v1", "", "2001:db8::1", true)
	add("ip6/subnet-first", "/ip6/2001:db8::/tcp/4001", "", "2001:db8::", true)
	add("ip6/subnet-last", "/ip6/2001:db8:ffff:ffff:ffff:ffff:ffff:ffff/udp/4001/quic-v1", "", "2001:db8:ffff:ffff:ffff:ffff:ffff:ffff", true)
	add("ip6/subnet-below", "/ip6/2001:db7:ffff:ffff:ffff:ffff:ffff:ffff/tcp/4001", "", "2001:db7:ffff:ffff:ffff:ffff:ffff:ffff", true)
	add("ip6/subnet-above", "/ip6/2001:db9::/tcp/4001", "", "2001:db9::", true)
	// DNS names are resolved by the swarm (scripted resolver) BEFORE the gater sees the address
	add("dns4->blocked-ip4/tcp", "/dns4/blocked.example/tcp/4001", "/ip4/1.2.3.4/tcp/4001", "1.2.3.4", true)
	add("dns6->blocked-ip6/quic", "/dns6/blocked6.example/udp/4001/quic-v1", "/ip6/2001:db8::1/udp/4001/quic-v1", "2001:db8::1", true)
	add("dns4->other/tcp", "/dns4/other.example/tcp/4001", "/ip4/7.7.7.7/tcp/4001", "7.7.7.7", true)
	// a name the swarm's resolver cannot resolve (NXDOMAIN / resolver fault) but that a transport which resolves names
	// itself (websocket does) would find on the blocked IP: if the swarm hands the unresolved name to a transport, that
	// is a transport dial to a blocked address which no gater hook could have matched
	add("dns4-unresolved-by-swarm->blocked-ip4/tcp", "/dns4/late.example/tcp/4001", "", "1.2.3.4", true)
	add("dns6-unresolved-by-swarm->blocked-ip6/quic", "/dns6/late6.example/udp/4001/quic-v1", "", "2001:db8::1", true)
	out[len(out)-1].Unresolved, out[len(out)-2].Unresolved = true, true
	// no IP component at all
	add("no-ip/circuit", "/p2p/"+c10RelayID().String()+"/p2p-circuit", "", "", true)
	// relayed address whose relay hop sits on the blocked IP (the relay itself is gated when it is dialled): outcome only
	add("relay-via-blocked-ip", "/ip4/1.2.3.4/tcp/4001/p2p/"+c10RelayID().String()+"/p2p-circuit", "", "1.2.3.4", false)
	return out
}

var c10Companions = []struct {
	Name  string
	Addrs []string
}{
	{"alone", nil},
	{"+tcp 5.6.7.8", []string{"/ip4/5.6.7.8/tcp/4001"}},
	{"+quic 5.6.7.8", []string{"/ip4/5.6.7.8/udp/4001/quic-v1"}},
	{"+tcp+quic 5.6.7.8", []string{"/ip4/5.6.7.8/tcp/4001", "/ip4/5.6.7.8/udp/4001/quic-v1"}},
}

type c10Resolver struct{}

func (c10Resolver) ResolveDNSAddr(context.Context, peer.ID, ma.Multiaddr, int, int) ([]ma.Multiaddr, error) {
	return nil, fmt.Errorf("c10: no dnsaddr records")
}
func (c10Resolver) ResolveDNSComponent(_ context.Context, m ma.Multiaddr, _ int) ([]ma.Multiaddr, error) {
	s := m.String()
	for _, e := range [][2]string{
		{"/dns4/blocked.example", "/ip4/1.2.3.4"}, {"/dns6/blocked6.example", "/ip6/2001:db8::1"}, {"/dns4/other.example", "/ip4/7.7.7.7"},
	} {
		if strings.HasPrefix(s, e[0]) {
			return []ma.Multiaddr{ma.StringCast(e[1] + strings.TrimPrefix(s, e[0]))}, nil
		}
	}
	return nil, fmt.Errorf("c10: NXDOMAIN %s", s)
}

// ---------- one case ----------

type c10OutCase struct {
	State     string `json:"rule_state"`
	Form      string `json:"address_form"`
	Addr      string `json:"address"`
	Companion string `json:"companions"`
	Outcome   string `json:"scripted_dial_outcome"`
	Entry     string `json:"entry"`
}

type c10OutObs struct {
	Err       string
	Dials     []string
	Conns     []string
	Connected int
	Hooks     string
	Findings  [][2]string
	Unhooked  []string
	Infra     string
}

func c10IPOf(forms []c10Form, dialed string) (netip.Addr, bool) {
	for _, f := range forms {
		if f.Dialed == dialed {
			return f.IP, f.Demand
		}
	}
	if strings.HasPrefix(dialed, "/ip4/5.6.7.8/") {
		return netip.MustParseAddr("5.6.7.8"), true
	}
	return netip.Addr{}, false
}

func c10RunOutbound(t *testing.T, st c10State, forms []c10Form, f c10Form, comp []string, outcome, entry string) (obs c10OutObs) {
	defer func() {
		if r := recover(); r != nil {
			obs.Infra = fmt.Sprint("panic: ", r)
		}
	}()
	synctest.Test(t, func(t *testing.T) {
		P := fxID("P")
		fxID("Q")
		fxID("relay")
		cg, err := conngater.NewBasicConnectionGater(nil)
		if err != nil {
			obs.Infra = err.Error()
			return
		}
		for _, r := range st.Rules {
			if err := r.apply(cg); err != nil {
				obs.Infra = err.Error()
				return
			}
		}
		rec := &c10RecGater{inner: cg}
		e := fxNewEnv(0, 0, WithConnectionGater(rec), WithMultiaddrResolver(c10Resolver{}))
		defer e.Close()
		addrs := []ma.Multiaddr{ma.StringCast(f.Addr)}
		dialable := []string{f.Dialed}
		for _, c := range comp {
			addrs = append(addrs, ma.StringCast(c))
			dialable = append(dialable, c)
		}
		e.PS.AddAddrs(P.ID, addrs, peerstore.PermanentAddrTTL)
		for _, d := range dialable {
			a := ma.StringCast(d)
			e.TransportFor(a).Complete(a, outcome)
		}
		ctx, cancel := context.WithTimeout(network.WithAllowLimitedConn(context.Background(), "c10"), 90*time.Second)
		defer cancel()
		switch entry {
		case "DialPeer":
			_, err = e.Swarm.DialPeer(ctx, P.ID)
		default:
			var s network.Stream
			s, err = e.Swarm.NewStream(ctx, P.ID)
			if err == nil {
				defer s.Reset()
			}
		}
		synctest.Wait()
		if err != nil {
			obs.Err = err.Error()
		}
		bad := func(key, f string, a ...any) { obs.Findings = append(obs.Findings, [2]string{key, fmt.Sprintf(f, a...)}) }
		hooks := rec.Log()
		obs.Hooks = rec.names()
		// 1. transport dials
		for _, d := range e.AllDials() {
			obs.Dials = append(obs.Dials, d.Addr)
			ip, demand := c10IPOf(forms, d.Addr)
			if st.peerBlocked(d.Peer) {
				bad("transport-dial-to-blocked-peer", "transport Dial(%s) invoked for blocked peer P", d.Addr)
			}
			if demand && st.ipBlocked(ip) {
				bad("transport-dial-to-blocked-address/"+f.Class, "transport Dial invoked with %s (IP %s) although it matches a blocked address/subnet", d.Addr, ip)
			}
			// the gater must have allowed this peer and this very address (the hook log is complete at this point; a
			// dial is only started after filterKnownUndialables returned)
			okPeer, okAddr := false, false
			for _, h := range hooks {
				if h.Name == "InterceptPeerDial" && h.Peer == d.Peer && h.Allow {
					okPeer = true
				}
				if h.Name == "InterceptAddrDial" && h.Peer == d.Peer && h.Addr == d.Addr && h.Allow {
					okAddr = true
				}
			}
			// not a demand of the statement (it only forbids dials to BLOCKED remotes): recorded as an outcome class
			if !okPeer {
				obs.Unhooked = append(obs.Unhooked, "transport-dial-not-preceded-by-allowing-InterceptPeerDial")
			}
			if !okAddr {
				obs.Unhooked = append(obs.Unhooked, "transport-dial-not-preceded-by-allowing-InterceptAddrDial")
			}
		}
		// 2. admitted connections
		conns := e.Swarm.ConnsToPeer(P.ID)
		for _, c := range conns {
			ra := c.RemoteMultiaddr().String()
			obs.Conns = append(obs.Conns, ra)
			if ip, demand := c10IPOf(forms, ra); demand && st.ipBlocked(ip) {
				bad("connection-to-blocked-address-admitted/"+f.Class, "ConnsToPeer contains a connection to %s", ra)
			}
		}
		for _, n := range e.Note.Notes() {
			if n.Kind == "connected" {
				obs.Connected++
			}
		}
		if st.peerBlocked(P.ID) {
			if err == nil {
				bad("dial-to-blocked-peer-succeeded", "%s to blocked peer P returned no error", entry)
			}
			if len(conns) > 0 || obs.Connected > 0 || e.Swarm.Connectedness(P.ID) == network.Connected {
				bad("connection-to-blocked-peer-admitted", "blocked peer P: conns=%v connected-notifications=%d connectedness=%v", obs.Conns, obs.Connected, e.Swarm.Connectedness(P.ID))
			}
		}
		sort.Strings(obs.Dials)
	})
	return
}

func c10OutClass(st c10State, f c10Form, comp []string, o c10OutObs) string {
	blockedAddr := st.ipBlocked(f.IP)
	res := "dial-failed"
	if o.Err == "" {
		res = "connected"
	}
	return fmt.Sprintf("peerBlocked=%v addrBlocked=%v companions=%d -> %s transport-dials=%d", st.peerBlocked(fxID("P").ID), blockedAddr, len(comp), res, len(o.Dials))
}

func TestVerifC10Outbound(t *testing.T) {
	r := vrep.New("C10", "outbound")
	defer r.Flush()
	var replay *c10OutCase
	if p := vrep.ReplayPath(); p != "" {
		var rf struct {
			Part   string     `json:"part"`
			Replay c10OutCase `json:"replay"`
		}
		b, err := os.ReadFile(p)
		if err != nil || json.Unmarshal(b, &rf) != nil || rf.Part != "outbound" {
			return
		}
		if s, _ := vrep.Shard(); s != 0 {
			return
		}
		replay = &rf.Replay
	}
	forms := c10Forms()
	states := c10States(vrep.Thorough() || replay != nil)
	r.Bounds["rule_states"] = len(states)
	r.Bounds["address_forms"] = len(forms)
	r.Bounds["companions"] = len(c10Companions)
	r.Bounds["scripted_outcomes"] = []string{fxOK, fxFail}
	r.Bounds["entries"] = []string{"DialPeer", "NewStream"}
	r.Bounds["transports"] = "fake tcp (DialUpdater), quic, relay(proxy) registered in the real swarm"
	deadline := vrep.Deadline().Add(-5 * time.Second)
	distinct := map[string]struct{}{}
	shard, nshards := vrep.Shard()
	idx, nsamples := 0, 0
loop:
	for _, st := range states {
		for _, f := range forms {
			for _, comp := range c10Companions {
				for _, outcome := range []string{fxOK, fxFail} {
					for _, entry := range []string{"DialPeer", "NewStream"} {
						idx++
						cs := c10OutCase{State: st.Name, Form: f.Class, Addr: f.Addr, Companion: comp.Name, Outcome: outcome, Entry: entry}
						if replay != nil {
							if cs != *replay {
								continue
							}
						} else if idx%nshards != shard {
							continue
						}
						if time.Now().After(deadline) {
							r.Cap("deadline reached after %d cases", r.Executions)
							break loop
						}
						o := c10RunOutbound(t, st, forms, f, comp.Addrs, outcome, entry)
						if replay != nil {
							fmt.Printf("replay %+v\n  err=%q\n  transport dials=%v\n  conns=%v connected-notifications=%d hooks=%s\n  findings=%v\n", cs, o.Err, o.Dials, o.Conns, o.Connected, o.Hooks, o.Findings)
						}
						if o.Infra != "" {
							r.Cap("infrastructure (no verdict): %s in %+v", o.Infra, cs)
							continue
						}
						r.Executions++
						cl := c10OutClass(st, f, comp.Addrs, o)
						r.Outcome(cl)
						r.Outcome("hooks-called-by-swarm-on-dial: " + o.Hooks)
						for _, uh := range o.Unhooked {
							r.Outcome(uh)
						}
						distinct[cl+"|"+f.Class+"|"+entry] = struct{}{}
						if len(st.Rules) == 0 && len(comp.Addrs) == 0 && outcome == fxOK && !f.Unresolved {
							// non-vacuity baseline: without rules the address under test is dialled and the connection admitted
							if o.Err != "" || len(o.Dials) == 0 || len(o.Conns) == 0 {
								r.Cap("baseline broken (no verdict): without rules %s to %s gave err=%q dials=%v conns=%v", entry, f.Addr, o.Err, o.Dials, o.Conns)
							} else {
								r.Outcome("baseline-no-rule-connected")
							}
						}
						if len(o.Findings) == 0 && len(st.Rules) > 0 && st.ipBlocked(f.IP) && len(comp.Addrs) > 0 && outcome == fxFail && nsamples < 3 && shard == 0 && idx%37 == 0 {
							nsamples++
							r.Sample(map[string]any{"case": cs, "transport_dials": o.Dials, "error": o.Err, "verdict": "ok"})
						}
						seen := map[string]bool{}
						for _, fd := range o.Findings {
							if !seen[fd[0]] {
								seen[fd[0]] = true
								r.Violate(fd[0], fmt.Sprintf("%+v: %s (dials=%v err=%q)", cs, fd[1], o.Dials, o.Err), cs)
							}
						}
					}
				}
			}
		}
	}
	r.Distinct = int64(len(distinct))
	if replay != nil || shard != 0 {
		return
	}
	c10SwarmInbound(t)
}

// ---------- inbound at swarm level: which hooks are the swarm's own ----------
//
// addConn of an inbound connection consults InterceptUpgraded only (allow-all in BasicConnectionGater). Closing at
// accept (InterceptAccept) and after the handshake (InterceptSecured) is the job of the transport / upgrader: see
// part "inbound". This sub-part records that division of labour; it raises no violation.
func c10SwarmInbound(t *testing.T) {
	r := vrep.New("C10", "swarm-addconn")
	defer r.Flush()
	states := c10States(false)
	states = states[:1+len(c10Rules())] // no rule + the single rules
	raddrs := []string{"/ip4/1.2.3.4/tcp/4001", "/ip6/::ffff:1.2.3.4/tcp/4001", "/ip6/2001:db8::1/udp/4001/quic-v1", "/ip4/9.9.9.9/tcp/4001"}
	distinct := map[string]struct{}{}
	for _, st := range states {
		for _, ra := range raddrs {
			for _, dir := range []network.Direction{network.DirInbound, network.DirOutbound} {
				var cls, infra string
				func() {
					defer func() {
						if p := recover(); p != nil {
							infra = fmt.Sprint("panic: ", p)
						}
					}()
					synctest.Test(t, func(t *testing.T) {
						P := fxID("P")
						cg, _ := conngater.NewBasicConnectionGater(nil)
						for _, rl := range st.Rules {
							rl.apply(cg)
						}
						rec := &c10RecGater{inner: cg}
						e := fxNewEnv(0, 0, WithConnectionGater(rec))
						defer e.Close()
						fc := fxNewConn("in", e.TCP, e.Local, P, ma.StringCast(ra), false)
						_, err := e.Swarm.addConn(fc, dir)
						synctest.Wait()
						ip, _ := netip.ParseAddr(strings.Split(ra, "/")[2])
						cls = fmt.Sprintf("addConn(%v) remote-matches-rule=%v -> admitted=%v hooks=[%s]", dir, st.peerBlocked(P.ID) || st.ipBlocked(ip), err == nil, rec.names())
					})
				}()
				if infra != "" {
					r.Cap("infrastructure (no verdict): %s", infra)
					continue
				}
				r.Executions++
				r.Outcome(cls)
				distinct[cls] = struct{}{}
			}
		}
	}
	r.Distinct = int64(len(distinct))
	r.Note("the swarm's addConn consults InterceptUpgraded only; a connection handed to addConn from a blocked remote is admitted - gating at accept / after the handshake is done by the upgrader (part inbound) and by the QUIC/WebTransport/WebRTC listeners (not explored)")
}
