//go:build verif

package swarm

// C04, concurrent part ("a close racing with any of these ... for Close() issued at each point of an in-flight
// accept, dial or stream open"). Engine E2: package swarm instrumented, scripted transports / connections /
// streams of harness/swarmfix, and a REAL resource manager (uninstrumented: its locks are never held across a
// scheduling point). Transport connections carry a real connection scope opened the way the upgrader does and
// released by the transport connection's Close, so "the underlying network connection is closed" and "every
// scope opened for it is closed" are observed on the same object.
// Scenarios: an outbound stream open, an inbound stream, a stream close / reset, a dial completing or an inbound
// connection being admitted, each racing Conn.Close, the death of the transport connection, or Swarm.Close.
// Oracle at quiescence: (1) once the connection has been closed (swarm still open), system / transient / peer
// usage is back to what it was before the connection existed; (2) after Swarm.Close every scope reads zero,
// every transport connection ever created is closed, every muxed stream ever opened is closed or reset; no
// goroutine of the execution is left (bubble), no deadlock, no panic.

import (
	"context"
	"fmt"
	"os"
	"reflect"
	"strings"
	"testing"
	"time"

	"github.com/libp2p/go-libp2p/core/network"
	"github.com/libp2p/go-libp2p/core/peer"
	"github.com/libp2p/go-libp2p/core/peerstore"
	rcmgr "github.com/libp2p/go-libp2p/p2p/host/resource-manager"
	"github.com/libp2p/go-libp2p/x/rate"
	"github.com/libp2p/go-libp2p/x/verif/vrep"
	vs "github.com/libp2p/go-libp2p/x/verif/vsched"
	ma "github.com/multiformats/go-multiaddr"
)

const c04sAddr = "/ip4/1.2.3.4/tcp/4001"

type c04sScn struct {
	Name     string
	Inbound  bool     // the connection is inbound (admitted through addConn), else dialled
	PreOpen  int      // streams opened (outbound) before the race
	Race     []string // one thread each, see c04sBody
	ConnEnds bool     // the scenario closes the connection itself (audit (1) applies)
	Hang     bool     // the dial never completes; the transport holds the connection scope from the start of the dial (as tcp does)
}

type c04sUsage struct {
	sys, trans, peer network.ScopeStat
}

func (u c04sUsage) String() string {
	f := func(s network.ScopeStat) string {
		return fmt.Sprintf("{conns in/out %d/%d fd %d streams in/out %d/%d mem %d}", s.NumConnsInbound, s.NumConnsOutbound, s.NumFD, s.NumStreamsInbound, s.NumStreamsOutbound, s.Memory)
	}
	return "system" + f(u.sys) + " transient" + f(u.trans) + " peer" + f(u.peer)
}

func c04sRead(rm network.ResourceManager, p peer.ID) (u c04sUsage) {
	rm.ViewSystem(func(s network.ResourceScope) error { u.sys = s.Stat(); return nil })
	rm.ViewTransient(func(s network.ResourceScope) error { u.trans = s.Stat(); return nil })
	rm.ViewPeer(p, func(s network.PeerScope) error { u.peer = s.Stat(); return nil })
	return
}

func c04sBody(sc c04sScn) func(x *vs.Exec) {
	return func(x *vs.Exec) {
		s := x.S
		rm, err := rcmgr.NewResourceManager(rcmgr.NewFixedLimiter(rcmgr.InfiniteLimits), rcmgr.WithMetricsDisabled(), rcmgr.WithConnRateLimiters(&rate.Limiter{}))
		if err != nil {
			panic(err)
		}
		env := fxNewEnv(0, 0, WithResourceManager(rm))
		for _, t := range []*fxTransport{env.TCP, env.QUIC, env.Relay} {
			t.rm = rm
			t.scopeEarly = sc.Hang
		}
		P := fxID("P")
		env.PS.AddAddr(P.ID, ma.StringCast(c04sAddr), peerstore.PermanentAddrTTL)
		env.Swarm.SetStreamHandler(func(st network.Stream) { st.Reset() })
		before := c04sRead(rm, P.ID)
		var conn *Conn
		var inFx *fxConn
		var pre []network.Stream
		newInbound := func() *fxConn {
			fc := fxNewConn("tcp-in#1", env.TCP, env.Local, P, ma.StringCast("/ip4/1.2.3.9/tcp/5001"), false)
			cs, err := rm.OpenConnection(network.DirInbound, true, fc.raddr)
			if err != nil {
				panic(err)
			}
			if err := cs.SetPeer(P.ID); err != nil {
				panic(err)
			}
			fc.scope = cs
			return fc
		}
		dialInFlight := false
		for _, r := range sc.Race {
			if r == "dial" || r == "admit" {
				dialInFlight = true
			}
		}
		fail := ""
		if !dialInFlight {
			if !sc.Inbound {
				s.GoPrio("remote-answers", 1, func() { vs.Send(-9, env.TCP.outcomeCh(c04sAddr), fxOK) })
			}
			s.Go("setup", func() {
				if sc.Inbound {
					inFx = newInbound()
					c, err := env.Swarm.addConn(inFx, network.DirInbound)
					if err != nil {
						fail = "addConn: " + err.Error()
						return
					}
					conn = c
				} else {
					c, err := env.Swarm.DialPeer(context.Background(), P.ID)
					if err != nil {
						fail = "DialPeer: " + err.Error()
						return
					}
					conn = c.(*Conn)
				}
				for i := 0; i < sc.PreOpen; i++ {
					st, err := conn.NewStream(context.Background())
					if err != nil {
						fail = "NewStream: " + err.Error()
						return
					}
					pre = append(pre, st)
				}
			})
			if !s.Run() && !s.Free {
				x.Fail("deadlock", "setup: %s", s.Deadlock)
				return
			}
			if fail != "" {
				x.Outcome = "infrastructure: " + fail
				return
			}
		}
		// ----- the race -----
		var out [8]string
		swarmClosed := false
		var atClose c04sUsage
		atCloseSet := false
		for i, r := range sc.Race {
			switch r {
			case "newstream":
				s.Go("NewStream", func() {
					st, err := conn.NewStream(context.Background())
					if err != nil {
						out[i] = "NewStream=err"
						return
					}
					out[i] = "NewStream=ok"
					vs.Yield()
					st.Close()
				})
			case "newstream-keep":
				s.Go("NewStream(kept)", func() {
					_, err := conn.NewStream(context.Background())
					out[i] = fmt.Sprintf("NewStream(kept)=%v", err == nil)
				})
			case "remote-stream":
				s.Go("remote opens stream", func() {
					fc := conn.conn.(*fxConn)
					if fc.isClosed() {
						out[i] = "remote-stream=conn-gone"
						return
					}
					// the muxer hands the stream to AcceptStream or drops it with the connection
					st := &fxStream{conn: fc, id: 100, inbound: true, done: make(chan struct{})}
					fc.mu.Lock()
					fc.opened = append(fc.opened, st)
					fc.mu.Unlock()
					if j, _, _ := fxSelect(reflect.SelectCase{Dir: reflect.SelectSend, Chan: reflect.ValueOf(fc.incoming), Send: reflect.ValueOf(st)}, fxRecvCase(fc.closed)); j == 1 {
						st.Reset() // the muxer resets streams that die with the connection
						out[i] = "remote-stream=dropped"
						return
					}
					out[i] = "remote-stream=delivered"
				})
			case "stream-close":
				s.Go("Stream.Close", func() { pre[0].Close(); out[i] = "Stream.Close" })
			case "stream-reset":
				s.Go("Stream.Reset", func() { pre[len(pre)-1].Reset(); out[i] = "Stream.Reset" })
			case "conn-close":
				s.GoPrio("Conn.Close", 1, func() { vs.Yield(); conn.Close(); out[i] = "Conn.Close" })
			case "transport-dies":
				s.GoPrio("transport connection dies", 1, func() { vs.Yield(); conn.conn.(*fxConn).Close(); out[i] = "transport-dies" })
			case "swarm-close":
				swarmClosed = true
				s.GoPrio("Swarm.Close", 1, func() {
					vs.Yield()
					env.Swarm.Close()
					out[i] = "Swarm.Close"
					// everything that is still runnable finishes, but no time passes: what is held now is held "after the
					// swarm has been closed" for as long as some timeout takes
					vs.SyncWait()
					atClose, atCloseSet = c04sRead(rm, P.ID), true
				})
			case "dial":
				if !sc.Hang {
					s.GoPrio("remote-answers", 1, func() { vs.Send(-9, env.TCP.outcomeCh(c04sAddr), fxOK) })
				}
				s.Go("DialPeer", func() {
					c, err := env.Swarm.DialPeer(context.Background(), P.ID)
					if err == nil {
						conn = c.(*Conn)
					}
					out[i] = fmt.Sprintf("DialPeer=%v", err == nil)
				})
			case "admit":
				s.Go("addConn(inbound)", func() {
					inFx = newInbound()
					c, err := env.Swarm.addConn(inFx, network.DirInbound)
					if err == nil {
						conn = c
					}
					out[i] = fmt.Sprintf("addConn=%v", err == nil)
				})
			default:
				panic("c04s: unknown race thread " + r)
			}
		}
		ok := s.Run()
		if !ok && s.Deadlock != "" {
			x.Fail("deadlock", "threads blocked forever: %s", s.Deadlock)
		}
		var outs []string
		for _, o := range out {
			if o != "" {
				outs = append(outs, o)
			}
		}
		x.Outcome = strings.Join(outs, " ")
		if s.Free {
			s.Go("teardown", func() { env.Close(); rm.Close() })
			s.Drain()
			return
		}
		if ok && x.VioKey == "" && atCloseSet && atClose != (c04sUsage{}) {
			x.Fail("usage-not-zero-when-swarm-close-returned", "Swarm.Close has returned and everything that could still run has run (no time has passed); usage is %s (%s)", atClose, x.Outcome)
		}
		if ok && x.VioKey == "" && sc.ConnEnds && !swarmClosed {
			if u := c04sRead(rm, P.ID); u != before {
				x.Fail("usage-not-restored-after-connection-closed", "the connection has been closed and everything is quiescent; usage is %s, before the connection existed it was %s (%s)", u, before, x.Outcome)
			}
		}
		if ok && x.VioKey == "" {
			s.Go("swarm-close", func() { env.Swarm.Close() })
			if !s.Run() {
				ok = false
				if s.Deadlock != "" {
					x.Fail("deadlock", "Swarm.Close: %s", s.Deadlock)
				}
			}
		}
		if ok && x.VioKey == "" {
			if u := c04sRead(rm, P.ID); u != (c04sUsage{}) {
				x.Fail("usage-not-zero-after-swarm-close", "Swarm.Close has returned and everything is quiescent; usage is %s (%s)", u, x.Outcome)
			}
			var fcs []*fxConn
			for _, d := range env.AllDials() {
				if d.Conn != nil {
					fcs = append(fcs, d.Conn)
				}
			}
			if inFx != nil {
				fcs = append(fcs, inFx)
			}
			for _, fc := range fcs {
				if !fc.isClosed() {
					x.Fail("transport-connection-left-open", "Swarm.Close has returned; transport connection %s was never closed (%s)", fc.name, x.Outcome)
				}
				// a stream still waiting in the muxer's accept backlog was never handed to the swarm; a muxer resets
				// those when the connection dies
			backlog:
				for {
					select {
					case st := <-fc.incoming:
						st.Reset()
					default:
						break backlog
					}
				}
				fc.mu.Lock()
				for _, st := range fc.opened {
					st.mu.Lock()
					open := !st.closed && !st.reset
					st.mu.Unlock()
					if open {
						x.Fail("muxed-stream-left-open", "Swarm.Close has returned; muxed stream #%d of %s was neither closed nor reset (%s)", st.id, fc.name, x.Outcome)
					}
				}
				fc.mu.Unlock()
			}
		}
		s.Go("teardown", func() { env.Close(); rm.Close() })
		s.Drain()
	}
}

func c04sScenarios(thorough bool) []c04sScn {
	scs := []c04sScn{
		{Name: "outbound stream open racing Conn.Close", Race: []string{"newstream", "conn-close"}, ConnEnds: true},
		{Name: "inbound stream racing Conn.Close", Race: []string{"remote-stream", "conn-close"}, ConnEnds: true},
		{Name: "outbound stream open racing Swarm.Close", Race: []string{"newstream-keep", "swarm-close"}},
		{Name: "dial completing racing Swarm.Close", Race: []string{"dial", "swarm-close"}},
		{Name: "Swarm.Close while an outbound dial hangs", Race: []string{"dial", "swarm-close"}, Hang: true},
		{Name: "inbound connection admitted racing Swarm.Close", Race: []string{"admit", "swarm-close"}},
		{Name: "Stream.Reset racing Conn.Close", PreOpen: 1, Race: []string{"stream-reset", "conn-close"}, ConnEnds: true},
		{Name: "outbound stream open racing the death of the transport connection", Race: []string{"newstream", "transport-dies"}, ConnEnds: true},
	}
	if thorough {
		scs = append(scs,
			c04sScn{Name: "two outbound stream opens racing Conn.Close", Race: []string{"newstream", "newstream-keep", "conn-close"}, ConnEnds: true},
			c04sScn{Name: "Stream.Close and Stream.Reset racing Conn.Close", PreOpen: 2, Race: []string{"stream-close", "stream-reset", "conn-close"}, ConnEnds: true},
			c04sScn{Name: "inbound stream racing Swarm.Close", Race: []string{"remote-stream", "swarm-close"}},
			c04sScn{Name: "inbound connection: outbound stream open racing Conn.Close", Inbound: true, Race: []string{"newstream", "conn-close"}, ConnEnds: true},
			c04sScn{Name: "inbound stream racing the death of the transport connection", Race: []string{"remote-stream", "transport-dies"}, ConnEnds: true},
		)
	}
	return scs
}

func c04sScenario(sc c04sScn) *vs.Scenario {
	return &vs.Scenario{Name: sc.Name, Body: c04sBody(sc), LeakIsViolation: true, LeakKey: "goroutine-left-running",
		Opt: vs.Options{Horizon: 40 * time.Second, IdleStep: 5 * time.Second, MaxSteps: 8000}}
}

func TestVerifC04Sched(t *testing.T) {
	scs := c04sScenarios(vrep.Thorough())
	if p := vrep.ReplayPath(); p != "" {
		rp, err := vs.LoadReplay(p)
		if err != nil || rp.Scenario == "" {
			t.Skip("not a scheduler replay")
		}
		for _, sc := range c04sScenarios(true) {
			if sc.Name == rp.Scenario {
				x := vs.Replay(t, c04sScenario(sc), rp.Choices)
				fmt.Fprintf(os.Stdout, "REPLAY %s choices=%v\n%s\nverdict: key=%q %s\npanic=%s outcome=%s\n", sc.Name, rp.Choices, strings.Join(x.S.Log, "\n"), x.VioKey, x.VioDesc, x.Panic, x.Outcome)
				return
			}
		}
		return
	}
	if vs.FreeMode() {
		r := vrep.New("C04", "race-pass")
		dl := vrep.Deadline()
		n := 0
		for time.Now().Before(dl) {
			for _, sc := range scs {
				runs, _ := vs.FreeRun(t, c04sScenario(sc), 3, dl)
				n += runs
			}
		}
		r.Executions = int64(n)
		r.Note("free-running executions: %d", n)
		r.Flush()
		return
	}
	si, sn := vrep.Shard()
	bound := 2
	if vrep.Thorough() {
		bound = 3
	}
	r := vrep.New("C04", "swarm-schedules")
	r.Bounds["deviation_bound"] = bound
	r.Bounds["scenarios"] = len(scs)
	for i, sc := range scs {
		left := time.Until(vrep.Deadline())
		share := left / time.Duration(len(scs)-i)
		vs.Explore(t, c04sScenario(sc), vs.Config{MaxBound: bound, Deadline: time.Now().Add(share), ShardI: si, ShardN: sn, Property: "C04"}, r)
	}
	r.Flush()
}
