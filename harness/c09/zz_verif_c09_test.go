//go:build verif

package pstoreds

// C09: address book TTL / expiry / GC semantics, identical in both stores. Engine E1 (seqmc): depth-bounded BFS
// over operation histories applied to BOTH real books (pstoremem + pstoreds on an in-memory datastore) that
// share one harness clock; every transition is checked against the eager reference model
// (zz_verif_c09_model_test.go) and the two books against each other.
//
// Oracles (each tied to a phrase of the statement) - see c09Check.

import (
	"encoding/json"
	"fmt"
	"os"
	"strings"
	"sync/atomic"
	"testing"
	"testing/synctest"
	"time"

	"github.com/libp2p/go-libp2p/core/record"
	"github.com/libp2p/go-libp2p/x/verif/seqmc"
	"github.com/libp2p/go-libp2p/x/verif/vrep"
)

// ---------- operations ----------

const (
	c09Add = iota
	c09Set
	c09Update
	c09Clear
	c09Consume
	c09ConsumeBad
	c09Advance
	c09GC
	c09Reopen
	c09ReadAddrs // Addrs(p) on the real books (perturbs the datastore book: clean + cache + flush)
	c09ReadRec   // GetPeerRecord(p) on the real books (perturbs the datastore book: clean of the cached copy)
)

type c09Op struct {
	kind int
	p    int
	set  int // address-set index (add/set), record-set index (consume)
	ttl  int // TTL index; old TTL for update
	ttl2 int // new TTL for update
	seq  int // consume
	d    int // advance index
}

func c09Show(o c09Op) string {
	p := fmt.Sprintf("p%d", o.p+1)
	switch o.kind {
	case c09Add:
		return fmt.Sprintf("AddAddrs(%s,%s,%s)", p, c09SetName(o.set), c09TTLNames[o.ttl])
	case c09Set:
		return fmt.Sprintf("SetAddrs(%s,%s,%s)", p, c09SetName(o.set), c09TTLNames[o.ttl])
	case c09Update:
		return fmt.Sprintf("UpdateAddrs(%s,%s->%s)", p, c09TTLNames[o.ttl], c09TTLNames[o.ttl2])
	case c09Clear:
		return fmt.Sprintf("ClearAddrs(%s)", p)
	case c09Consume:
		return fmt.Sprintf("ConsumePeerRecord(%s,seq=%d,%s,%s)", p, o.seq, c09RecSetName(o.set), c09TTLNames[o.ttl])
	case c09ConsumeBad:
		return "ConsumePeerRecord(record naming p1 signed by p2)"
	case c09Advance:
		return fmt.Sprintf("Advance(%s)", c09Advances[o.d])
	case c09GC:
		return "GC"
	case c09Reopen:
		return "Reopen(ds)"
	case c09ReadAddrs:
		return fmt.Sprintf("Addrs(%s)", p)
	case c09ReadRec:
		return fmt.Sprintf("GetPeerRecord(%s)", p)
	}
	return "?"
}

// opkind names used in violation keys
func c09OpClass(o c09Op) string {
	switch o.kind {
	case c09Add:
		return "addaddrs"
	case c09Set:
		if c09TTLs[o.ttl] <= 0 {
			return "setaddrs-delete"
		}
		return "setaddrs"
	case c09Update:
		return "updateaddrs"
	case c09Clear:
		return "clearaddrs"
	case c09Consume, c09ConsumeBad:
		return "consume"
	case c09Advance:
		return "advance"
	case c09GC:
		return "gc"
	case c09Reopen:
		return "reopen"
	}
	return "read"
}

// c09Alphabet: simplest operations first, deterministic order.
func c09Alphabet(cfg c09Cfg) []c09Op {
	var ops []c09Op
	full := cfg.alphabet == "full"
	sets := []int{0, 1, 2, 5, 7} // core: {a1} {a2} {a3} {a1,a2} {a1,a3}
	addT := []int{c09TTemp, c09TConn}
	setT := []int{c09TZero, c09TTemp, c09TRC, c09TConn}
	type pr struct{ o, n int }
	// (old == new is a refresh: the class keeps its name, every address in it gets a new expiry)
	upd := []pr{{c09TConn, c09TRC}, {c09TConn, c09TTemp}, {c09TTemp, c09TZero}, {c09TTemp, c09TConn}, {c09TRC, c09TConn}, {c09TRC, c09TTemp}, {c09TTemp, c09TTemp}}
	recSets := []int{0, 2}
	recT := []int{c09TTemp, c09TConn}
	adv := []int{0, 1, 2}       // 1 m (half a Temp lifetime: refresh-before-expiry histories), 2 m, 15 m
	if cfg.alphabet == "mini" { // for the deepest 2-peer searches
		sets = []int{0, 5}
		setT = []int{c09TZero, c09TTemp, c09TConn}
		upd = []pr{{c09TConn, c09TTemp}, {c09TTemp, c09TZero}, {c09TTemp, c09TConn}, {c09TTemp, c09TTemp}}
		recT = []int{c09TTemp}
	}
	if cfg.alphabet == "frac" { // fractional clock: the advances that matter, few operations
		sets = []int{0, 5}
		addT = []int{c09TTemp}
		setT = []int{c09TZero, c09TTemp}
		upd = []pr{{c09TTemp, c09TTemp}}
		recSets = []int{0}
		recT = []int{c09TTemp}
		adv = []int{0, 4} // 1 m, 1 m 59.5 s
	}
	if full {
		sets = []int{0, 1, 2, 3, 4, 5, 6, 7, 8, 9}
		addT = []int{c09TNeg, c09TZero, c09TTemp, c09TRC, c09TConn, c09TPerm}
		setT = []int{c09TNeg, c09TZero, c09TTemp, c09TRC, c09TConn, c09TPerm}
		upd = nil
		for _, o := range []int{c09TNeg, c09TTemp, c09TRC, c09TConn, c09TPerm} {
			for n := range c09TTLs {
				upd = append(upd, pr{o, n})
			}
		}
		recSets = []int{0, 1, 2, 3, 4, 5}
		recT = []int{c09TZero, c09TTemp, c09TRC, c09TConn}
		adv = []int{0, 1, 2, 3}
	}
	for p := 0; p < cfg.peers; p++ {
		for _, s := range sets {
			for _, t := range addT {
				if c09TTLs[t] <= 0 && s != 0 && s != 5 { // AddAddrs with ttl <= 0 is a no-op: two representatives
					continue
				}
				ops = append(ops, c09Op{kind: c09Add, p: p, set: s, ttl: t})
			}
		}
		for _, s := range sets {
			for _, t := range setT {
				ops = append(ops, c09Op{kind: c09Set, p: p, set: s, ttl: t})
			}
		}
		for _, u := range upd {
			ops = append(ops, c09Op{kind: c09Update, p: p, ttl: u.o, ttl2: u.n})
		}
		ops = append(ops, c09Op{kind: c09Clear, p: p})
		for seq := 1; seq <= c09NSeq; seq++ {
			for _, s := range recSets {
				for _, t := range recT {
					ops = append(ops, c09Op{kind: c09Consume, p: p, seq: seq, set: s, ttl: t})
				}
			}
		}
		ops = append(ops, c09Op{kind: c09ReadAddrs, p: p}, c09Op{kind: c09ReadRec, p: p})
	}
	if full {
		ops = append(ops, c09Op{kind: c09ConsumeBad})
	}
	for _, d := range adv {
		ops = append(ops, c09Op{kind: c09Advance, d: d})
	}
	ops = append(ops, c09Op{kind: c09GC}, c09Op{kind: c09Reopen})
	return ops
}

// ---------- outcome classes (prove the run is not vacuous) ----------

var c09OutcomeNames = []string{
	"add: no-op (ttl<=0 or foreign /p2p suffix)", "add: inserted", "add: extended existing", "add: existing unchanged", "insert: evicted for per-peer cap",
	"set: overrode existing", "set: inserted", "set: deleted", "set: nothing to delete",
	"update: moved >=1 address", "update: removed >=1 address", "update: no address in class",
	"update: connected -> finite class", "update: finite -> connected class",
	"clear: had addresses", "clear: empty",
	"consume: accepted first record", "consume: accepted same seq", "consume: accepted higher seq", "consume: rejected lower seq",
	"consume: evicted superseded address", "consume: kept superseded connected address", "consume: bad signer refused",
	"advance: >=1 address expired", "advance: record dropped with last address", "advance: nothing expired",
	"gc: collected >=1 entry (mem)", "gc: collected >=1 entry (ds)", "gc: nothing to collect",
	"reopen: with addresses", "reopen: empty", "read: datastore book state changed", "read: pure",
	"eviction tie resolved by observation", "eviction tie not resolvable by observation: branch not extended",
}

var c09Outcomes [64]atomic.Int64

func c09Out(name string) {
	for i, n := range c09OutcomeNames {
		if n == name {
			c09Outcomes[i].Add(1)
			return
		}
	}
	c09Outcomes[len(c09Outcomes)-1].Add(1) // unknown class (harness slip): counted, never fatal
}

// ---------- apply + check ----------

var c09StoreName = [2]string{"mem", "ds"}

// pick the legal successor model that matches what the book shows (observation-resolved nondeterminism: eviction
// victims on expiry ties). Returns false when no legal successor matches.
func c09Pick(cands []c09Model, p int, seen uint8) (m c09Model, ok, ambiguous bool) {
	for _, c := range cands {
		if c.live(p) == seen {
			if ok && c != m {
				// two legal successors show the same addresses but differ inside (TTL class of a re-inserted
				// address): the observation cannot tell which one the book took
				ambiguous = true
			}
			if !ok {
				m, ok = c, true
			}
		}
	}
	if !ok {
		m = cands[0]
	}
	return
}

// c09Apply applies one operation to both books and to the models. full=false is used while a history PREFIX is
// replayed (every prefix step was fully checked when it was the last step of a shorter history - seqmc is
// level-synchronous BFS): the books and models are advanced, observations are made only where the model needs
// them (eviction ties), and nothing is checked.
func c09Apply(in *c09Inst, op c09Op, full bool) error {
	if in.dead != "" || in.ambig {
		return nil
	}
	u := c09U
	now := in.clk.now
	cfg := in.cfg
	id := u.peers[op.p]
	class := c09OpClass(op)
	if full && !in.fresh && (op.kind == c09ReadAddrs || op.kind == c09ReadRec || op.kind == c09Reopen) {
		in.observe() // these operations compare with the answers before them
	}
	before := in.m      // models before the operation
	obsBefore := in.obs // observations before the operation (meaningful only when fresh)
	var cands [2][]c09Model
	for s := range cands {
		cands[s] = []c09Model{in.m[s]}
	}
	var dsBefore string
	var msBefore c09MemStats
	var dsStBefore c09DSStats
	var ghost [2]bool
	if full {
		if op.kind == c09GC || op.kind == c09ReadAddrs || op.kind == c09ReadRec {
			_, msBefore = in.memSnap()
			dsBefore, dsStBefore = in.dsSnap()
		}
		for s := range ghost {
			ghost[s] = in.uncollected(s, op.p)
		}
	}
	var vio error
	fail := func(key, f string, a ...any) {
		if vio == nil && full {
			vio = seqmc.Violation(key, f, a...)
		}
	}
	var evicting [2]bool
	in.n++
	in.fresh = false

	switch op.kind {
	case c09Add:
		as := u.addrs(op.p, op.set)
		ttl := c09TTLs[op.ttl]
		in.mem.AddAddrs(id, as, ttl)
		in.dsb.AddAddrs(id, as, ttl)
		for s := range cands {
			cands[s] = in.m[s].add(op.p, c09Resolve(c09AddrSets[op.set]), ttl, now, cfg.cap, &evicting[s])
		}
	case c09Set:
		as := u.addrs(op.p, op.set)
		ttl := c09TTLs[op.ttl]
		in.mem.SetAddrs(id, as, ttl)
		in.dsb.SetAddrs(id, as, ttl)
		for s := range cands {
			cands[s] = in.m[s].set(op.p, c09Resolve(c09AddrSets[op.set]), ttl, now, cfg.cap, &evicting[s])
		}
	case c09Update:
		in.mem.UpdateAddrs(id, c09TTLs[op.ttl], c09TTLs[op.ttl2])
		in.dsb.UpdateAddrs(id, c09TTLs[op.ttl], c09TTLs[op.ttl2])
		for s := range cands {
			cands[s] = []c09Model{in.m[s].update(op.p, c09TTLs[op.ttl], c09TTLs[op.ttl2], now)}
		}
	case c09Clear:
		in.mem.ClearAddrs(id)
		in.dsb.ClearAddrs(id)
		for s := range cands {
			cands[s] = []c09Model{in.m[s].clear(op.p)}
		}
	case c09Consume, c09ConsumeBad:
		var env *record.Envelope
		if op.kind == c09Consume {
			env = u.envs[op.p][op.seq-1][op.set]
		} else {
			env = u.badEnv
		}
		var acc [2]bool
		var errs [2]error
		acc[0], errs[0] = in.mem.ConsumePeerRecord(env, c09TTLs[op.ttl])
		acc[1], errs[1] = in.dsb.ConsumePeerRecord(env, c09TTLs[op.ttl])
		for s := range cands {
			if op.kind == c09ConsumeBad {
				// the statement is silent on foreign signers; only the cross-store comparison below applies
				continue
			}
			m := in.m[s]
			if errs[s] != nil {
				fail(c09StoreName[s]+"-consume-error", "ConsumePeerRecord of a valid record returned error %v", errs[s])
				continue
			}
			if !acc[s] {
				// "accepted only if ...": refusing is never forbidden by that clause; the model follows the book
				continue
			}
			// "A signed peer record is accepted only if its sequence number is not lower than the stored one"
			if m.rec[op.p].ok && op.seq < m.rec[op.p].seq {
				fail(c09StoreName[s]+"-consume-accepted-lower-seq", "record with seq %d accepted although the stored record has seq %d", op.seq, m.rec[op.p].seq)
			}
			cands[s] = m.consume(op.p, op.seq, op.set, c09TTLs[op.ttl], now, cfg.cap, &evicting[s])
		}
		// "The in-memory and the datastore-backed books give the same answers" (comparable only while the two books
		// have not legally diverged on an eviction tie, i.e. while their models agree)
		if before[0] == before[1] && (acc[0] != acc[1] || (errs[0] != nil) != (errs[1] != nil)) {
			fail("xstore-consume-answer-differs"+c09GhostSuffix(ghost[0] || ghost[1]), "ConsumePeerRecord: mem=(%v,%v) ds=(%v,%v); stored record per model: mem %s, ds %s",
				acc[0], errs[0], acc[1], errs[1], c09EnvName(before[0].recCode(op.p)), c09EnvName(before[1].recCode(op.p)))
		}
		if full {
			if op.kind == c09ConsumeBad {
				if !acc[0] && !acc[1] {
					c09Out("consume: bad signer refused")
				}
			} else {
				m := before[1]
				switch {
				case !acc[1] && m.rec[op.p].ok && op.seq < m.rec[op.p].seq:
					c09Out("consume: rejected lower seq")
				case acc[1] && !m.rec[op.p].ok:
					c09Out("consume: accepted first record")
				case acc[1] && m.rec[op.p].seq == op.seq:
					c09Out("consume: accepted same seq")
				case acc[1]:
					c09Out("consume: accepted higher seq")
				}
			}
		}
	case c09Advance:
		in.clk.now = in.clk.now.Add(c09Advances[op.d])
	case c09GC:
		in.mem.VerifGC()
		in.dsGC()
	case c09Reopen:
		if err := in.reopen(); err != nil {
			in.dead = "reopen: " + err.Error()
			return nil
		}
	case c09ReadAddrs:
		// harness self-check: the real books answer what the (cloned / pure) observation predicted
		m, _, _ := c09AddrSet(in.mem.Addrs(id))
		d, _, _ := c09AddrSet(in.dsb.Addrs(id))
		if full && (m != obsBefore[0].addrs[op.p] || d != obsBefore[1].addrs[op.p]) {
			in.dead = fmt.Sprintf("harness self-check: Addrs on the real books %s/%s differs from the non-perturbing observation %s/%s",
				c09SetStr(m), c09SetStr(d), c09SetStr(obsBefore[0].addrs[op.p]), c09SetStr(obsBefore[1].addrs[op.p]))
			return nil
		}
	case c09ReadRec:
		m := c09EnvCode(in.mem.GetPeerRecord(id))
		d := c09EnvCode(in.dsb.GetPeerRecord(id))
		if full && (m != obsBefore[0].rec[op.p] || d != obsBefore[1].rec[op.p]) {
			in.dead = fmt.Sprintf("harness self-check: GetPeerRecord on the real books %s/%s differs from the non-perturbing observation %s/%s",
				c09EnvName(m), c09EnvName(d), c09EnvName(obsBefore[0].rec[op.p]), c09EnvName(obsBefore[1].rec[op.p]))
			return nil
		}
	}

	now = in.clk.now
	if !full {
		// prefix replay: advance the models; look at the books only to resolve a set-valued step
		var seen [2]uint8
		if len(cands[0]) > 1 || len(cands[1]) > 1 {
			seen[0], seen[1] = in.observeAddrs(op.p)
		}
		for s := range in.m {
			m, _, amb := c09Pick(cands[s], op.p, seen[s])
			in.ambig = in.ambig || amb
			m.expire(now)
			in.m[s] = m
		}
		return nil
	}

	in.observe()
	if in.dead != "" {
		return nil
	}

	// follow the books where the specification is set-valued, then drop what has expired
	for s := range in.m {
		m, ok, amb := c09Pick(cands[s], op.p, in.obs[s].addrs[op.p])
		if len(cands[s]) > 1 && ok {
			c09Out("eviction tie resolved by observation")
		}
		if amb {
			// this step is still checked (all matching successors show the same answers now); the branch below
			// it is not followed, because the model could be following the wrong successor
			in.ambig = true
			c09Out("eviction tie not resolvable by observation: branch not extended")
		}
		m.expire(now)
		in.m[s] = m
	}
	c09Classify(in, op, before, msBefore, dsStBefore, dsBefore)

	for s := range in.m {
		if err := c09Check(in, s, op, class, before[s], evicting[s], ghost[s]); err != nil && vio == nil {
			vio = err
		}
	}
	if vio != nil {
		return vio
	}

	// ---- cross-store and reopen oracles ----
	// "The in-memory and the datastore-backed books give the same answers on every operation history": with both
	// books equal to their (identical) model this is implied for Addrs and GetPeerRecord; it is asserted
	// explicitly so that it also covers whatever a per-store oracle left open. PeersWithAddrs is NOT compared
	// across the stores: between GCs the statement lets a store keep listing a peer whose addresses have all
	// expired, and when that stops depends on each store's GC mechanics.
	if in.m[0] == in.m[1] {
		for p := 0; p < cfg.peers; p++ {
			if in.obs[0].addrs[p] != in.obs[1].addrs[p] {
				return seqmc.Violation("xstore-"+class+"-addrs-differ", "Addrs(p%d): mem=%s ds=%s", p+1, c09SetStr(in.obs[0].addrs[p]), c09SetStr(in.obs[1].addrs[p]))
			}
			if in.obs[0].rec[p] != in.obs[1].rec[p] {
				return seqmc.Violation("xstore-"+class+"-record-differs", "GetPeerRecord(p%d): mem=%s ds=%s", p+1, c09EnvName(in.obs[0].rec[p]), c09EnvName(in.obs[1].rec[p]))
			}
		}
	}
	// "the datastore-backed book gives the same answers after being closed and reopened on the same datastore"
	if op.kind == c09Reopen && in.obs[1] != obsBefore[1] {
		return seqmc.Violation("ds-reopen-changes-answers"+c09GhostSuffix(ghost[1]), "before reopen: %s; after: %s", obsBefore[1], in.obs[1])
	}
	return nil
}

func c09GhostSuffix(g bool) string {
	if g {
		return "-with-uncollected-expired-state"
	}
	return ""
}

// c09Check: per-store oracles after one operation (s = 0 memory book, 1 datastore book).
func c09Check(in *c09Inst, s int, op c09Op, class string, before c09Model, evicting, ghost bool) error {
	name := c09StoreName[s]
	sfx := c09GhostSuffix(ghost)
	m := &in.m[s]
	o := &in.obs[s]
	for p := 0; p < in.cfg.peers; p++ {
		// "For each peer the address book returns exactly the addresses whose most recently assigned expiry lies in
		// the future" (+ adding never shortens / setting overrides / non-positive TTL removes exactly the named /
		// class update moves exactly the class / expired addresses are never returned: all are equalities on Addrs)
		if o.odd[p] != "" {
			return seqmc.Violation(name+"-"+class+"-wrong-set", "Addrs(p%d) returned an address nobody stored:%s", p+1, o.odd[p])
		}
		if want := m.live(p); o.addrs[p] != want {
			extra := o.addrs[p] &^ want
			why := ""
			if exp := extra & before.live(p); extra != 0 && exp == extra && op.kind == c09Advance {
				why = " (expired addresses returned)"
			}
			clause := "-wrong-set"
			if p == op.p && (evicting || (in.cfg.cap > 0 && (op.kind == c09Add || op.kind == c09Set) && c09TTLs[op.ttl] > 0 && before.live(p)&^o.addrs[p] != 0)) {
				// a per-peer cap eviction is involved: the victim must be AN unconnected address with the nearest expiry
				clause = "-cap-wrong-victim"
				if o.addrs[p]&want == want {
					clause = "-cap-not-enforced" // nothing was evicted where the other store / the documented rule evicts
				}
			}
			return seqmc.Violation(name+"-"+class+clause+sfx, "Addrs(p%d)=%s, the statement requires %s%s; model before the operation: %s",
				p+1, c09SetStr(o.addrs[p]), c09SetStr(want), why, before.key(in.clk.now))
		}
		if o.dup[p] {
			return seqmc.Violation(name+"-"+class+"-duplicate-address", "Addrs(p%d) names the same address twice (set %s)", p+1, c09SetStr(o.addrs[p]))
		}
		// "stays retrievable as long as the peer continuously has live addresses, and is never returned once all of
		// the peer's addresses have expired or been cleared"; the stored record is the last accepted one
		if want := m.recCode(p); o.rec[p] != want {
			switch {
			case want == -1 && m.live(p) == 0:
				return seqmc.Violation(name+"-"+class+"-record-returned-without-live-address"+sfx, "GetPeerRecord(p%d)=%s although p%d has no live address", p+1, c09EnvName(o.rec[p]), p+1)
			case want == -1:
				return seqmc.Violation(name+"-"+class+"-record-returned-after-all-expired-or-cleared"+sfx, "GetPeerRecord(p%d)=%s: that record was dropped when all of p%d's addresses had expired / were cleared (or was never accepted); live now %s", p+1, c09EnvName(o.rec[p]), p+1, c09SetStr(m.live(p)))
			case o.rec[p] == -1:
				return seqmc.Violation(name+"-"+class+"-record-lost"+sfx, "GetPeerRecord(p%d)=none, but %s was accepted and p%d has had live addresses ever since (live %s)", p+1, c09EnvName(want), p+1, c09SetStr(m.live(p)))
			default:
				return seqmc.Violation(name+"-"+class+"-record-wrong"+sfx, "GetPeerRecord(p%d)=%s, last accepted record is %s", p+1, c09EnvName(o.rec[p]), c09EnvName(want))
			}
		}
	}
	// "a peer with no live address stops being listed" only after GC; a peer WITH a live address is always listed
	if o.podd != "" {
		return seqmc.Violation(name+"-"+class+"-peers-odd", "PeersWithAddrs:%s", o.podd)
	}
	if lp := m.livePeers(); o.peers&lp != lp {
		return seqmc.Violation(name+"-"+class+"-peer-not-listed", "PeersWithAddrs=%s does not contain every peer with a live address %s", c09PeerSetStr(o.peers), c09PeerSetStr(lp))
	}
	if op.kind == c09GC {
		// "expired addresses ... are removed by garbage collection so that a peer with no live address stops being
		// listed and memory stays bounded": right after a GC, listed peers = peers with a live address and stored
		// entries = live entries.
		entries, finite, peers, _ := m.counts()
		if lp := m.livePeers(); o.peers != lp {
			return seqmc.Violation(name+"-not-collected-after-gc", "after GC PeersWithAddrs=%s but only %s have a live address", c09PeerSetStr(o.peers), c09PeerSetStr(lp))
		}
		if s == 0 {
			snap, st := in.memSnap()
			if st.entries != entries || st.peers != peers || st.heap != finite || st.recs > peers {
				why := ""
				if st.entries == entries && st.heap < finite {
					why = " - an entry with a finite expiry is not in the expiry heap, gc() will never collect it"
				}
				return seqmc.Violation("mem-not-collected-after-gc", "after GC the book stores %d entries for %d peers, expiry heap %d, %d records; live: %d entries (%d with finite TTL) for %d peers%s. state: %s",
					st.entries, st.peers, st.heap, st.recs, entries, finite, peers, why, snap)
			}
		} else {
			snap, st := in.dsSnap()
			if st.entries != entries || st.keys != peers {
				return seqmc.Violation("ds-not-collected-after-gc", "after GC the datastore holds %d address entries under %d peer keys; live: %d entries for %d peers. state: %s",
					st.entries, st.keys, entries, peers, snap)
			}
		}
	}
	return nil
}

// c09Classify counts outcome classes (non-vacuity evidence only, decides nothing).
func c09Classify(in *c09Inst, op c09Op, before [2]c09Model, msB c09MemStats, dsB c09DSStats, dsB2 string) {
	b, a := before[1], in.m[1]
	p := op.p
	switch op.kind {
	case c09Add, c09Set:
		ttl := c09TTLs[op.ttl]
		as := c09Resolve(c09AddrSets[op.set])
		if op.kind == c09Add && (ttl <= 0 || len(as) == 0) {
			c09Out("add: no-op (ttl<=0 or foreign /p2p suffix)")
			return
		}
		for _, x := range as {
			was, is := b.ent[p][x], a.ent[p][x]
			switch {
			case op.kind == c09Add && !was.ok && is.ok:
				c09Out("add: inserted")
			case op.kind == c09Add && was.ok && is != was:
				c09Out("add: extended existing")
			case op.kind == c09Add && was.ok:
				c09Out("add: existing unchanged")
			case ttl <= 0 && was.ok:
				c09Out("set: deleted")
			case ttl <= 0:
				c09Out("set: nothing to delete")
			case was.ok:
				c09Out("set: overrode existing")
			case is.ok:
				c09Out("set: inserted")
			}
		}
		if ttl > 0 {
			for x := range b.ent[p] {
				named := false
				for _, y := range as {
					named = named || x == y
				}
				if !named && b.ent[p][x].ok && !a.ent[p][x].ok {
					c09Out("insert: evicted for per-peer cap")
				}
			}
		}
	case c09Update:
		moved, removed := 0, 0
		for x := range b.ent[p] {
			if b.ent[p][x].ok && b.ent[p][x].ttl == c09TTLs[op.ttl] {
				if a.ent[p][x].ok {
					moved++
				} else {
					removed++
				}
			}
		}
		switch {
		case moved > 0 && c09IsConn(c09TTLs[op.ttl]) && !c09IsConn(c09TTLs[op.ttl2]):
			c09Out("update: connected -> finite class")
		case moved > 0 && !c09IsConn(c09TTLs[op.ttl]) && c09IsConn(c09TTLs[op.ttl2]):
			c09Out("update: finite -> connected class")
		case moved > 0:
			c09Out("update: moved >=1 address")
		case removed > 0:
			c09Out("update: removed >=1 address")
		default:
			c09Out("update: no address in class")
		}
	case c09Clear:
		if b.live(p) != 0 {
			c09Out("clear: had addresses")
		} else {
			c09Out("clear: empty")
		}
	case c09Consume:
		if b.rec[p].ok && a.rec[p] != b.rec[p] {
			for _, x := range c09RecSets[b.rec[p].set] {
				still := false
				for _, y := range c09RecSets[op.set] {
					still = still || x == y
				}
				if !still && b.ent[p][x].ok {
					if a.ent[p][x].ok {
						c09Out("consume: kept superseded connected address")
					} else {
						c09Out("consume: evicted superseded address")
					}
				}
			}
		}
	case c09Advance:
		switch {
		case b.rec != a.rec:
			c09Out("advance: record dropped with last address")
		case b.ent != a.ent:
			c09Out("advance: >=1 address expired")
		default:
			c09Out("advance: nothing expired")
		}
	case c09GC:
		_, ms := in.memSnap()
		_, dst := in.dsSnap()
		any := false
		if ms.entries < msB.entries {
			c09Out("gc: collected >=1 entry (mem)")
			any = true
		}
		if dst.entries < dsB.entries {
			c09Out("gc: collected >=1 entry (ds)")
			any = true
		}
		if !any {
			c09Out("gc: nothing to collect")
		}
	case c09Reopen:
		if a.livePeers() != 0 {
			c09Out("reopen: with addresses")
		} else {
			c09Out("reopen: empty")
		}
	case c09ReadAddrs, c09ReadRec:
		d, _ := in.dsSnap()
		if d != dsB2 {
			c09Out("read: datastore book state changed")
		} else {
			c09Out("read: pure")
		}
	}
}

func c09Key(in *c09Inst) string {
	if in.dead != "" {
		return "dead:" + in.dead
	}
	if in.ambig {
		return fmt.Sprintf("ambiguous eviction tie #%d", c09Ambig.Add(1))
	}
	ms, _ := in.memSnap()
	dss, _ := in.dsSnap()
	now := in.clk.now
	return "MEM " + ms + " || DS " + dss + " || MM " + in.m[0].key(now) + " || MD " + in.m[1].key(now)
}

// ---------- driver ----------

var c09Dead atomic.Pointer[string]
var c09Ambig atomic.Int64

func c09Spec(t *testing.T, cfg c09Cfg) *seqmc.Spec[*c09Inst, c09Op] {
	ops := c09Alphabet(cfg)
	// seqmc explores level by level: while level L is expanded every history has L prefix operations (replayed
	// with full=false) and one new operation (index L, fully checked). level only ever trails the real level
	// (it is raised by Key, which runs after the last operation of an expansion), so the new operation is
	// always checked in full; at worst a few prefix steps are re-checked at the start of a level.
	var level atomic.Int32
	return &seqmc.Spec[*c09Inst, c09Op]{
		Name: cfg.String(),
		New:  func() *c09Inst { return c09New(cfg) },
		Close: func(in *c09Inst) {
			if in.dead != "" {
				d := in.dead
				c09Dead.CompareAndSwap(nil, &d)
			}
			in.close()
		},
		Ops: func(in *c09Inst) []c09Op {
			if in.dead != "" || in.ambig {
				return nil
			}
			return ops
		},
		Apply: func(in *c09Inst, op c09Op) error { return c09Apply(in, op, int32(in.n) >= level.Load()) },
		Key: func(in *c09Inst) string {
			for {
				l := level.Load()
				if int32(in.n-1) <= l || level.CompareAndSwap(l, int32(in.n-1)) {
					break
				}
			}
			return c09Key(in)
		},
		Show:     c09Show,
		Depth:    cfg.depth,
		Bubble:   true, // pstoremem starts a ticker goroutine; inside the bubble it never ticks (virtual time)
		T:        t,
		Deadline: vrep.Deadline(),
	}
}

// c09Configs: the searches of one tier, cheapest class first; searches are dealt round-robin to the worker
// processes (VERIF_SHARD), so every process gets one search of each class.
func c09Configs() []c09Cfg {
	type cls struct {
		peers    int
		alphabet string
		depth    int
	}
	classes := []cls{{1, "full", 2}, {1, "core", 4}}
	if vrep.Thorough() {
		classes = []cls{{1, "full", 3}, {2, "core", 3}, {2, "mini", 4}, {1, "core", 6}}
	}
	var out []c09Cfg
	// the clock between two whole seconds (small searches, first: a deadline must not starve them)
	for _, cache := range []uint{0, 8} {
		for _, la := range []bool{false, true} {
			d := 3
			if vrep.Thorough() {
				d = 4
			}
			out = append(out, c09Cfg{peers: 1, cap: 0, cache: cache, lookahead: la, alphabet: "frac", depth: d, frac: true})
		}
	}
	for _, c := range classes {
		for _, cap := range []int{0, 2} {
			for _, cache := range []uint{0, 8} {
				for _, la := range []bool{false, true} {
					out = append(out, c09Cfg{peers: c.peers, cap: cap, cache: cache, lookahead: la, alphabet: c.alphabet, depth: c.depth})
				}
			}
		}
	}
	return out
}

func TestVerifC09(t *testing.T) {
	var err error
	if c09U, err = c09BuildUniverse(vrep.Seed()); err != nil {
		t.Skipf("infrastructure: cannot build universe: %v", err)
	}
	if p := vrep.ReplayPath(); p != "" {
		c09Replay(t, p)
		return
	}
	r := vrep.New("C09", "addrbook")
	r.Bounds["universe"] = "peers p1(,p2); addresses a1,a2,a3, a1/p2p/self, a1/p2p/other; TTLs -1,0,Temp(2m),RecentlyConnected(15m),Connected,Permanent; signed records seq 1,2 over {a1},{a2},{a1,a2},{a3}"
	r.Bounds["configurations"] = "per-peer cap {off,2} x ARC cache {0,8} x datastore GC {full purge, lookahead(30m window): populate+purge}"
	r.Bounds["search"] = "per configuration: full alphabet to a small depth + core alphabet to a larger depth (depth per search in outcomes)"
	si, sn := vrep.Shard()
	cfgs := c09Configs()
	var depths []string
	for i, cfg := range cfgs {
		if i%sn != si {
			continue
		}
		if time.Now().After(vrep.Deadline()) {
			r.Cap("deadline reached before search %q", cfg.String())
			continue
		}
		sp := c09Spec(t, cfg)
		var was [len(c09Outcomes)]int64
		for i := range c09Outcomes {
			was[i] = c09Outcomes[i].Load()
		}
		st := seqmc.Run(sp)
		seqmc.Fill(r, sp.Name, st)
		for i := range c09Outcomes {
			if c09Outcomes[i].Load() > was[i] {
				r.Distinct++ // distinct (search, outcome class) pairs actually observed
			}
		}
		depths = append(depths, fmt.Sprintf("%s: alphabet=%d ops, levels completed=%d", cfg.String(), len(c09Alphabet(cfg)), st.DepthDone))
	}
	r.Bounds["depth"] = depths
	if n := c09Ambig.Load(); n > 0 {
		r.Cap("%d transitions ended in an eviction tie the observation could not resolve; they were checked but not extended", n)
	}
	if d := c09Dead.Load(); d != nil {
		r.Cap("harness problem (not a verdict): %s", *d)
	}
	for i, name := range c09OutcomeNames {
		if c := c09Outcomes[i].Load(); c > 0 {
			r.Outcomes[name] += c
		}
	}
	r.Flush()
}

func c09InBubble(t *testing.T, f func()) { synctest.Test(t, func(*testing.T) { f() }) }

// ---------- replay of one recorded history (check.py --replay) ----------

func c09Replay(t *testing.T, path string) {
	if si, _ := vrep.Shard(); si != 0 {
		return // one execution is enough
	}
	b, err := os.ReadFile(path)
	if err != nil {
		t.Skipf("replay: %v", err)
	}
	var rp struct {
		Key    string `json:"key"`
		Replay struct {
			Search  string   `json:"search"`
			History []string `json:"history"`
		} `json:"replay"`
	}
	if err := json.Unmarshal(b, &rp); err != nil {
		t.Skipf("replay: %v", err)
	}
	var cfg c09Cfg
	gc := ""
	if _, err := fmt.Sscanf(rp.Replay.Search, "peers=%d cap=%d cache=%d gc=%s alphabet=%s depth=%d", &cfg.peers, &cfg.cap, &cfg.cache, &gc, &cfg.alphabet, &cfg.depth); err != nil {
		t.Skipf("replay: cannot parse search %q: %v", rp.Replay.Search, err)
	}
	cfg.lookahead = gc == "lookahead"
	full := cfg
	full.alphabet = "full"
	full.peers = 2
	byName := map[string]c09Op{}
	for _, o := range c09Alphabet(full) {
		byName[c09Show(o)] = o
	}
	r := vrep.New("C09", "addrbook")
	c09Trace(t, cfg, rp.Replay.History, byName, r)
	r.Executions = 1
	r.Flush()
}

func c09Trace(t *testing.T, cfg c09Cfg, hist []string, byName map[string]c09Op, r *vrep.Result) {
	sp := c09Spec(t, cfg)
	run := func() {
		in := sp.New()
		defer sp.Close(in)
		fmt.Printf("configuration: %s\n", cfg.String())
		for i, h := range hist {
			o, ok := byName[h]
			if !ok {
				fmt.Printf("replay: unknown operation %q\n", h)
				return
			}
			err := c09Apply(in, o, true)
			ms, _ := in.memSnap()
			dss, _ := in.dsSnap()
			fmt.Printf("%2d. %s\n      mem answers: %s\n      ds  answers: %s\n      model(mem): %s\n      model(ds):  %s\n      mem state: %s\n      ds  state: %s\n",
				i+1, h, in.obs[0], in.obs[1], in.m[0].key(in.clk.now), in.m[1].key(in.clk.now), ms, dss)
			if in.dead != "" {
				fmt.Printf("      HARNESS PROBLEM: %s\n", in.dead)
				return
			}
			if err != nil {
				fmt.Printf("      VIOLATION %s\n", err)
				if v, ok := err.(*seqmc.Vio); ok {
					r.Violate(v.Key, v.Desc, map[string]any{"search": cfg.String(), "history": hist[:i+1]})
				}
				return
			}
		}
		fmt.Println("history replayed without violation")
	}
	if sp.Bubble {
		c09InBubble(t, run)
	} else {
		run()
	}
	_ = strings.Join
}
