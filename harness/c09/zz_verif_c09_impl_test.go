//go:build verif

package pstoreds

// C09 — the two real address books under one harness clock, white-box snapshots, non-perturbing observation.

import (
	"context"
	"fmt"
	"sort"
	"strconv"
	"strings"
	"time"

	"github.com/libp2p/go-libp2p/core/peer"
	pstore "github.com/libp2p/go-libp2p/core/peerstore"
	"github.com/libp2p/go-libp2p/core/record"
	"github.com/libp2p/go-libp2p/p2p/host/peerstore/pstoreds/pb"
	"github.com/libp2p/go-libp2p/p2p/host/peerstore/pstoremem"
	"github.com/libp2p/go-libp2p/x/verif/seqmc"

	ds "github.com/ipfs/go-datastore"
	"github.com/ipfs/go-datastore/query"
	dssync "github.com/ipfs/go-datastore/sync"
	b32 "github.com/multiformats/go-base32"
	ma "github.com/multiformats/go-multiaddr"
	"google.golang.org/protobuf/proto"
)

// harness clock shared by both books. After never fires: the datastore book's background GC is not started
// (GCPurgeInterval = 0) and GC is an explicit event of the alphabet.
type c09Clock struct{ now time.Time }

func (c *c09Clock) Now() time.Time                       { return c.now }
func (c *c09Clock) After(time.Duration) <-chan time.Time { return make(chan time.Time) }

var c09Epoch = time.Unix(1_700_000_000, 0)

type c09MemBook interface {
	pstore.AddrBook
	pstore.CertifiedAddrBook
	Close() error
	VerifGC()
	VerifSnapshot() pstoremem.VerifSnapshot
}

type c09Cfg struct {
	peers     int  // 1 or 2
	cap       int  // per-peer cap on unconnected addresses, 0 = off
	cache     uint // ARC cache size of the datastore book
	lookahead bool // GC mode of the datastore book
	alphabet  string
	depth     int
	// frac: the clock does not stand on a whole second (epoch + 990 ms) and the alphabet has an advance that ends inside
	// the last second of a Temp lifetime: expiries that a store rounds to whole seconds become visible
	frac bool
}

func (c c09Cfg) String() string {
	gc := "purge"
	if c.lookahead {
		gc = "lookahead"
	}
	clk := ""
	if c.frac {
		clk = " clock=fractional"
	}
	return fmt.Sprintf("peers=%d cap=%d cache=%d gc=%s alphabet=%s depth=%d%s", c.peers, c.cap, c.cache, gc, c.alphabet, c.depth, clk)
}

const c09Lookahead = 30 * time.Minute

func (c c09Cfg) dsOpts(clk *c09Clock) Options {
	o := Options{CacheSize: c.cache, MaxProtocols: 16, MaxAddrsPerPeer: c.cap, GCPurgeInterval: 0, GCInitialDelay: 0, Clock: clk}
	if c.lookahead {
		o.GCLookaheadInterval = c09Lookahead
	}
	return o
}

// observation of one book: what the statement's observers return
type c09Obs struct {
	addrs [c09NP]uint8  // Addrs(p) as a set over the base addresses
	dup   [c09NP]bool   // Addrs(p) named an address twice
	odd   [c09NP]string // Addrs(p) returned something outside the universe
	rec   [c09NP]int    // GetPeerRecord(p): envelope code, -1 none, -2 unknown envelope
	peers uint8         // PeersWithAddrs() as a set
	podd  string        // PeersWithAddrs() duplicates / unknown peers
}

func (o c09Obs) String() string {
	var sb strings.Builder
	for p := 0; p < c09NP; p++ {
		fmt.Fprintf(&sb, "Addrs(p%d)=%s", p+1, c09SetStr(o.addrs[p]))
		if o.dup[p] {
			sb.WriteString("(dup)")
		}
		sb.WriteString(o.odd[p])
		fmt.Fprintf(&sb, " Rec(p%d)=%s ", p+1, c09EnvName(o.rec[p]))
	}
	fmt.Fprintf(&sb, "Peers=%s%s", c09PeerSetStr(o.peers), o.podd)
	return sb.String()
}

func c09AddrSet(l []ma.Multiaddr) (set uint8, dup bool, odd string) {
	for _, a := range l {
		i, ok := c09U.addrIdx[string(a.Bytes())]
		if !ok {
			odd += " ?" + a.String()
			continue
		}
		if set&(1<<i) != 0 {
			dup = true
		}
		set |= 1 << i
	}
	return
}

func c09PeerSet(l peer.IDSlice) (set uint8, odd string) {
	for _, p := range l {
		i, ok := c09U.peerIdx[p]
		if !ok {
			odd += " ?" + p.String()
			continue
		}
		if set&(1<<i) != 0 {
			odd += fmt.Sprintf(" dup(p%d)", i+1)
		}
		set |= 1 << i
	}
	return
}

func c09EnvCode(e *record.Envelope) int {
	if e == nil {
		return -1
	}
	if c, ok := c09U.envPtr[e]; ok { // the memory book hands back the very envelope it was given
		return c
	}
	b, err := e.Marshal()
	if err != nil {
		return -2
	}
	if c, ok := c09U.envIdx[string(b)]; ok {
		return c
	}
	return -2
}

type c09Inst struct {
	cfg   c09Cfg
	clk   *c09Clock
	mem   c09MemBook
	store ds.Batching
	dsb   *dsAddrBook
	m     [2]c09Model // reference model followed per store: [0] memory book, [1] datastore book
	obs   [2]c09Obs   // observation after the last operation
	fresh bool        // obs describes the current state
	ambig bool        // an eviction tie could not be resolved by observation: this branch is not followed further
	n     int         // operations applied
	dead  string      // harness/infrastructure problem (never a violation)
}

func c09New(cfg c09Cfg) *c09Inst {
	in := &c09Inst{cfg: cfg, clk: &c09Clock{now: c09Epoch}}
	if cfg.frac {
		in.clk.now = c09Epoch.Add(990 * time.Millisecond)
	}
	in.mem = pstoremem.NewAddrBook(pstoremem.WithClock(in.clk), pstoremem.WithMaxAddressesPerPeer(cfg.cap))
	in.store = dssync.MutexWrap(ds.NewMapDatastore())
	ab, err := NewAddrBook(context.Background(), in.store, cfg.dsOpts(in.clk))
	if err != nil {
		in.dead = "NewAddrBook: " + err.Error()
		return in
	}
	in.dsb = ab
	// what empty books answer (asserted for real by the first operation's checks)
	for s := range in.obs {
		in.obs[s].rec = [c09NP]int{-1, -1}
	}
	in.fresh = true
	return in
}

func (in *c09Inst) close() {
	in.mem.Close()
	if in.dsb != nil {
		in.dsb.Close()
	}
}

func (in *c09Inst) reopen() error {
	in.dsb.Close()
	ab, err := NewAddrBook(context.Background(), in.store, in.cfg.dsOpts(in.clk))
	if err != nil {
		return err
	}
	in.dsb = ab
	return nil
}

func (in *c09Inst) dsGC() {
	if in.cfg.lookahead {
		in.dsb.gc.populateLookahead()
		in.dsb.gc.purgeLookahead()
	} else {
		in.dsb.gc.purgeStore()
	}
}

// all entries of the datastore, sorted by key (no goroutine: Rest() drains the iterator synchronously)
func (in *c09Inst) dsEntries() []query.Entry {
	res, err := in.store.Query(context.Background(), query.Query{})
	if err != nil {
		in.dead = "datastore query: " + err.Error()
		return nil
	}
	es, err := res.Rest()
	res.Close()
	if err != nil {
		in.dead = "datastore query: " + err.Error()
		return nil
	}
	sort.Slice(es, func(i, j int) bool { return es[i].Key < es[j].Key })
	return es
}

// cloneDS builds an independent datastore book in exactly the same state (datastore contents, cached records,
// lookahead window) so that Addrs/GetPeerRecord - which clean, cache and flush - can be asked without
// perturbing the book under test. The fidelity of the clone is itself checked: the explicit read operations
// of the alphabet ask the REAL book and must get the answer the clone gave (harness self-check).
func (in *c09Inst) cloneDS() *dsAddrBook {
	m := ds.NewMapDatastore()
	for _, e := range in.dsEntries() {
		m.Put(context.Background(), ds.RawKey(e.Key), append([]byte{}, e.Value...))
	}
	ab, err := NewAddrBook(context.Background(), m, in.cfg.dsOpts(in.clk))
	if err != nil {
		in.dead = "clone: " + err.Error()
		return nil
	}
	for _, k := range in.dsb.cache.Keys() {
		v, ok := in.dsb.cache.Peek(k)
		if !ok {
			continue
		}
		cp := &addrsRecord{AddrBookRecord: &pb.AddrBookRecord{Id: append([]byte{}, v.Id...)}, dirty: v.dirty}
		if v.Addrs != nil {
			cp.Addrs = make([]*pb.AddrBookRecord_AddrEntry, 0, len(v.Addrs))
			for _, a := range v.Addrs {
				cp.Addrs = append(cp.Addrs, proto.Clone(a).(*pb.AddrBookRecord_AddrEntry))
			}
		}
		if v.CertifiedRecord != nil {
			cp.CertifiedRecord = proto.Clone(v.CertifiedRecord).(*pb.AddrBookRecord_CertifiedRecord)
		}
		ab.cache.Add(k, cp)
	}
	ab.gc.currWindowEnd = in.dsb.gc.currWindowEnd
	return ab
}

// observe asks both books everything the statement lets a client observe. The memory book's readers are pure
// (RLock, no mutation); the datastore book's Addrs/GetPeerRecord are asked on clones, PeersWithAddrs (a pure
// datastore query) on the book itself.
func (in *c09Inst) observe() {
	var om, od c09Obs
	for p := 0; p < in.cfg.peers; p++ {
		id := c09U.peers[p]
		om.addrs[p], om.dup[p], om.odd[p] = c09AddrSet(in.mem.Addrs(id))
		om.rec[p] = c09EnvCode(in.mem.GetPeerRecord(id))
		if c := in.cloneDS(); c != nil {
			od.addrs[p], od.dup[p], od.odd[p] = c09AddrSet(c.Addrs(id))
			c.Close()
		}
		if c := in.cloneDS(); c != nil {
			od.rec[p] = c09EnvCode(c.GetPeerRecord(id))
			c.Close()
		}
	}
	for p := in.cfg.peers; p < c09NP; p++ {
		om.rec[p], od.rec[p] = -1, -1
	}
	om.peers, om.podd = c09PeerSet(in.mem.PeersWithAddrs())
	od.peers, od.podd = c09PeerSet(in.dsb.PeersWithAddrs())
	in.obs = [2]c09Obs{om, od}
	in.fresh = true
}

// observeAddrs asks only Addrs(p) (to resolve an eviction tie while a history prefix is replayed).
func (in *c09Inst) observeAddrs(p int) (m, d uint8) {
	id := c09U.peers[p]
	m, _, _ = c09AddrSet(in.mem.Addrs(id))
	if c := in.cloneDS(); c != nil {
		d, _, _ = c09AddrSet(c.Addrs(id))
		c.Close()
	}
	return
}

// uncollected reports whether book s still holds, for peer p, something the eager model no longer has: an
// expired entry, a signed record although p has no live address, or (datastore book) a cached copy that differs
// from the stored record. Only used to classify violations ("interaction with an expired-but-uncollected entry").
func (in *c09Inst) uncollected(s, p int) bool {
	id := c09U.peers[p]
	now := in.clk.now
	if s == 0 {
		snap := in.mem.VerifSnapshot()
		for _, e := range snap.Entries {
			if e.Peer == id && !e.Expiry.After(now) {
				return true
			}
		}
		for _, r := range snap.Records {
			if r.Peer == id && !in.m[0].rec[p].ok {
				return true
			}
		}
		return false
	}
	ghost := func(r *pb.AddrBookRecord) bool {
		for _, a := range r.Addrs {
			if a.Expiry <= now.Unix() {
				return true
			}
		}
		return r.CertifiedRecord != nil && !in.m[1].rec[p].ok
	}
	stored := &pb.AddrBookRecord{}
	key := addrBookBase.ChildString(b32.RawStdEncoding.EncodeToString([]byte(id)))
	if data, err := in.store.Get(context.Background(), key); err == nil {
		if proto.Unmarshal(data, stored) == nil && ghost(stored) {
			return true
		}
	}
	if v, ok := in.dsb.cache.Peek(id); ok {
		if ghost(v.AddrBookRecord) || c09RecStr(v.AddrBookRecord, now.Unix()) != c09RecStr(stored, now.Unix()) {
			return true
		}
	}
	return false
}

// ---------- white-box snapshots (canonical: sorted, times relative to now) ----------

func c09AddrName(b []byte) string {
	if i, ok := c09U.addrIdx[string(b)]; ok {
		return fmt.Sprintf("a%d", i+1)
	}
	return fmt.Sprintf("?%x", b)
}

func c09PeerName(p peer.ID) string {
	if i, ok := c09U.peerIdx[p]; ok {
		return fmt.Sprintf("p%d", i+1)
	}
	return "?" + p.String()
}

type c09MemStats struct{ entries, heap, peers, recs int }

func (in *c09Inst) memSnap() (string, c09MemStats) {
	s := in.mem.VerifSnapshot()
	now := in.clk.now
	var es, hs, rs []string
	for _, e := range s.Entries {
		h := ""
		if e.InHeap {
			h = "H"
		}
		es = append(es, fmt.Sprintf("%s.%s=%s/%s%s", c09PeerName(e.Peer), c09AddrName(e.Addr), c09TTLName(e.TTL), c09Rel(e.Expiry, now, e.TTL), h+e.Extra))
	}
	for _, e := range s.Heap {
		hs = append(hs, fmt.Sprintf("%s.%s", c09PeerName(e.Peer), c09AddrName(e.Addr)))
	}
	for _, r := range s.Records {
		rs = append(rs, fmt.Sprintf("%s:%d:%s", c09PeerName(r.Peer), r.Seq, c09EnvName(c09EnvCode(r.Envelope))))
	}
	return "E[" + c09SortedJoin(es) + "] H[" + c09SortedJoin(hs) + "] R[" + c09SortedJoin(rs) + "]" + s.Extra,
		c09MemStats{entries: len(s.Entries), heap: len(s.Heap), peers: s.Peers, recs: len(s.Records)}
}

func c09RecStr(r *pb.AddrBookRecord, nowUnix int64) string {
	var sb strings.Builder
	for _, a := range r.Addrs { // stored order is state: clean() only inspects Addrs[0]
		rel := "X"
		if d := a.Expiry - nowUnix; d > 100*365*24*3600 {
			rel = "inf"
		} else if d > 0 {
			rel = fmt.Sprintf("+%d", d)
		}
		fmt.Fprintf(&sb, "%s=%s/%s,", c09AddrName(a.Addr), c09TTLName(time.Duration(a.Ttl)), rel)
	}
	if r.CertifiedRecord != nil {
		code := -2
		if c, ok := c09U.envIdx[string(r.CertifiedRecord.Raw)]; ok {
			code = c
		}
		fmt.Fprintf(&sb, "cert=%d:%s", r.CertifiedRecord.Seq, c09EnvName(code))
	}
	return sb.String()
}

type c09DSStats struct{ keys, entries, gckeys int }

func (in *c09Inst) dsSnap() (string, c09DSStats) {
	var st c09DSStats
	nowUnix := in.clk.now.Unix()
	var parts []string
	for _, e := range in.dsEntries() {
		k := ds.RawKey(e.Key)
		switch {
		case addrBookBase.IsAncestorOf(k):
			st.keys++
			r := &pb.AddrBookRecord{}
			if err := proto.Unmarshal(e.Value, r); err != nil {
				parts = append(parts, "D:"+e.Key+"=unparsable")
				continue
			}
			st.entries += len(r.Addrs)
			name := "?" + k.Name()
			if raw, err := b32.RawStdEncoding.DecodeString(k.Name()); err == nil {
				name = c09PeerName(peer.ID(raw))
			}
			if string(r.Id) != "" && c09PeerName(peer.ID(r.Id)) != name {
				name += "(id=" + c09PeerName(peer.ID(r.Id)) + ")"
			}
			parts = append(parts, "D:"+name+"["+c09RecStr(r, nowUnix)+"]")
		case gcLookaheadBase.IsAncestorOf(k):
			st.gckeys++
			rel := k.Parent().Name()
			if ts, err := strconv.ParseInt(rel, 10, 64); err == nil {
				rel = fmt.Sprintf("%+d", ts-nowUnix)
			}
			name := "?" + k.Name()
			if raw, err := b32.RawStdEncoding.DecodeString(k.Name()); err == nil {
				name = c09PeerName(peer.ID(raw))
			}
			parts = append(parts, "G:"+rel+"/"+name)
		default:
			parts = append(parts, "?:"+e.Key)
		}
	}
	var cs []string
	for _, k := range in.dsb.cache.Keys() {
		if v, ok := in.dsb.cache.Peek(k); ok {
			d := ""
			if v.dirty {
				d = "*"
			}
			cs = append(cs, "C:"+c09PeerName(k)+d+"["+c09RecStr(v.AddrBookRecord, nowUnix)+"]"+seqmc.ExtraFields(v, "RWMutex", "AddrBookRecord", "dirty"))
		}
	}
	w := "w=0"
	if e := in.dsb.gc.currWindowEnd; e != 0 {
		w = fmt.Sprintf("w=%+d", e-nowUnix)
	}
	// fields a later version adds to the book or its collector join the key (see seqmc.ExtraFields)
	w += seqmc.ExtraFields(in.dsb, "ctx", "opts", "cache", "ds", "gc", "subsManager", "childrenDone", "cancelFn", "clock") +
		seqmc.ExtraFields(in.dsb.gc, "ctx", "ab", "running", "lookaheadEnabled", "purgeFunc", "currWindowEnd")
	return strings.Join(parts, " ") + " | " + c09SortedJoin(cs) + " | " + w, st
}
