//go:build verif

package pstoreds

// C09 — universe and the EAGER reference model of the address book (DESIGN appendix D.2), written from the
// property statement: per peer a map address -> (ttl, expiry) plus the accepted signed record. An expired
// entry is absent; a peer without live address has no record.

import (
	"crypto/sha256"
	"fmt"
	"io"
	"sort"
	"strings"
	"time"

	"github.com/libp2p/go-libp2p/core/crypto"
	"github.com/libp2p/go-libp2p/core/peer"
	pstore "github.com/libp2p/go-libp2p/core/peerstore"
	"github.com/libp2p/go-libp2p/core/record"
	ma "github.com/multiformats/go-multiaddr"
)

// ---------- universe ----------

const (
	c09NP = 2 // peers p1, p2 (p2 is also "the other peer" of the /p2p suffix in 1-peer searches)
	c09NA = 3 // base addresses a1..a3
)

var c09TTLs = []time.Duration{-1, 0, pstore.TempAddrTTL, pstore.RecentlyConnectedAddrTTL, pstore.ConnectedAddrTTL, pstore.PermanentAddrTTL}
var c09TTLNames = []string{"-1", "0", "Temp", "RecentlyConnected", "Connected", "Permanent"}

const (
	c09TNeg = iota
	c09TZero
	c09TTemp
	c09TRC
	c09TConn
	c09TPerm
)

func c09TTLName(d time.Duration) string {
	for i, t := range c09TTLs {
		if t == d {
			return c09TTLNames[i]
		}
	}
	return d.String()
}

var c09Advances = []time.Duration{time.Minute, 2 * time.Minute, 15 * time.Minute, time.Hour, 2*time.Minute - 500*time.Millisecond}

// an address token: base address with an optional /p2p suffix
type c09Tok struct {
	base int
	suf  int // 0 none, 1 /p2p/<the peer itself>, 2 /p2p/<the other peer>
}

func (t c09Tok) String() string {
	s := fmt.Sprintf("a%d", t.base+1)
	switch t.suf {
	case 1:
		s += "/p2p/self"
	case 2:
		s += "/p2p/other"
	}
	return s
}

// address arguments of AddAddrs / SetAddrs: singletons and pairs
var c09AddrSets = [][]c09Tok{
	{{0, 0}},         // 0 {a1}
	{{1, 0}},         // 1 {a2}
	{{2, 0}},         // 2 {a3}
	{{0, 1}},         // 3 {a1/p2p/self}
	{{0, 2}},         // 4 {a1/p2p/other}
	{{0, 0}, {1, 0}}, // 5 {a1,a2}
	{{1, 0}, {2, 0}}, // 6 {a2,a3}
	{{0, 0}, {2, 0}}, // 7 {a1,a3}
	{{0, 2}, {1, 0}}, // 8 {a1/p2p/other,a2}
	{{0, 1}, {0, 0}}, // 9 {a1/p2p/self,a1}: one address named twice in one batch
}

func c09SetName(i int) string {
	var s []string
	for _, t := range c09AddrSets[i] {
		s = append(s, t.String())
	}
	return "{" + strings.Join(s, ",") + "}"
}

// address sets of signed peer records (indices of base addresses)
var c09RecSets = [][]int{{0}, {1}, {0, 1}, {2}, {0, 1}, {1}}

// c09RecSuf: the record lists its addresses WITH a /p2p/<the peer itself> suffix (the address book strips it, so the
// model is the same as for the unsuffixed set; "addresses with and without /p2p suffix" of the quantifier)
var c09RecSuf = []bool{false, false, false, false, true, true}

func c09RecSetName(i int) string {
	var s []string
	for _, a := range c09RecSets[i] {
		if c09RecSuf[i] {
			s = append(s, fmt.Sprintf("a%d/p2p/self", a+1))
		} else {
			s = append(s, fmt.Sprintf("a%d", a+1))
		}
	}
	return "{" + strings.Join(s, ",") + "}"
}

const c09NSeq = 2

type c09Universe struct {
	peers    [c09NP]peer.ID
	privs    [c09NP]crypto.PrivKey
	base     [c09NA]ma.Multiaddr
	addrIdx  map[string]int  // multiaddr bytes -> base index
	peerIdx  map[peer.ID]int // peer -> index
	envs     [c09NP][c09NSeq][]*record.Envelope
	envIdx   map[string]int // marshalled envelope -> p*100 + (seq-1)*10 + set
	envPtr   map[*record.Envelope]int
	badEnv   *record.Envelope
	envBytes [c09NP][c09NSeq][][]byte
}

type c09DetReader struct {
	seed  [32]byte
	count uint64
	buf   []byte
}

func (r *c09DetReader) Read(p []byte) (int, error) {
	for len(r.buf) < len(p) {
		h := sha256.Sum256(append(r.seed[:], byte(r.count), byte(r.count>>8)))
		r.count++
		r.buf = append(r.buf, h[:]...)
	}
	copy(p, r.buf[:len(p)])
	r.buf = r.buf[len(p):]
	return len(p), nil
}

var _ io.Reader = (*c09DetReader)(nil)

var c09U *c09Universe

func c09BuildUniverse(seed int64) (*c09Universe, error) {
	u := &c09Universe{addrIdx: map[string]int{}, peerIdx: map[peer.ID]int{}, envIdx: map[string]int{}, envPtr: map[*record.Envelope]int{}}
	for i := 0; i < c09NP; i++ {
		rd := &c09DetReader{seed: sha256.Sum256([]byte(fmt.Sprintf("c09-key-%d-%d", seed, i)))}
		priv, pub, err := crypto.GenerateEd25519Key(rd)
		if err != nil {
			return nil, err
		}
		id, err := peer.IDFromPublicKey(pub)
		if err != nil {
			return nil, err
		}
		u.privs[i], u.peers[i] = priv, id
		u.peerIdx[id] = i
	}
	for i, s := range []string{"/ip4/1.2.3.4/tcp/4001", "/ip4/1.2.3.4/tcp/4002", "/ip4/5.6.7.8/udp/4003/quic-v1"} {
		a, err := ma.NewMultiaddr(s)
		if err != nil {
			return nil, err
		}
		u.base[i] = a
		u.addrIdx[string(a.Bytes())] = i
	}
	for p := 0; p < c09NP; p++ {
		for s := 0; s < c09NSeq; s++ {
			for si, set := range c09RecSets {
				rec := &peer.PeerRecord{PeerID: u.peers[p], Seq: uint64(s + 1)}
				for _, a := range set {
					if c09RecSuf[si] {
						rec.Addrs = append(rec.Addrs, u.base[a].Encapsulate(ma.StringCast("/p2p/"+u.peers[p].String())))
					} else {
						rec.Addrs = append(rec.Addrs, u.base[a])
					}
				}
				env, err := record.Seal(rec, u.privs[p])
				if err != nil {
					return nil, err
				}
				if _, err := env.Record(); err != nil { // fill the envelope's cache once, before it is shared
					return nil, err
				}
				b, err := env.Marshal()
				if err != nil {
					return nil, err
				}
				u.envs[p][s] = append(u.envs[p][s], env)
				u.envBytes[p][s] = append(u.envBytes[p][s], b)
				u.envIdx[string(b)] = p*100 + s*10 + si
				u.envPtr[env] = p*100 + s*10 + si
			}
		}
	}
	// a record that names p1 but is signed by p2
	bad := &peer.PeerRecord{PeerID: u.peers[0], Seq: 2, Addrs: []ma.Multiaddr{u.base[0]}}
	env, err := record.Seal(bad, u.privs[1])
	if err != nil {
		return nil, err
	}
	env.Record()
	u.badEnv = env
	return u, nil
}

func (u *c09Universe) addr(p int, t c09Tok) ma.Multiaddr {
	a := u.base[t.base]
	switch t.suf {
	case 1:
		return a.Encapsulate(ma.StringCast("/p2p/" + u.peers[p].String()))
	case 2:
		return a.Encapsulate(ma.StringCast("/p2p/" + u.peers[1-p].String()))
	}
	return a
}

func (u *c09Universe) addrs(p int, set int) []ma.Multiaddr {
	var out []ma.Multiaddr
	for _, t := range c09AddrSets[set] {
		out = append(out, u.addr(p, t))
	}
	return out
}

func c09EnvName(code int) string {
	if code < 0 {
		return "none"
	}
	return fmt.Sprintf("rec(p%d,seq=%d,%s)", code/100+1, (code/10)%10+1, c09RecSetName(code%10))
}

// ---------- model ----------

type c09Ent struct {
	ok  bool
	ttl time.Duration
	exp time.Time
}

type c09RecSt struct {
	ok  bool
	seq int // 1-based
	set int // index into c09RecSets
}

// c09Model is a value type (copied when the specification is set-valued: eviction ties).
type c09Model struct {
	ent [c09NP][c09NA]c09Ent
	rec [c09NP]c09RecSt
}

func c09IsConn(ttl time.Duration) bool { return ttl >= pstore.ConnectedAddrTTL }

// expire: an expired entry is absent ("returns exactly the addresses whose most recently assigned expiry lies in
// the future"); a peer without live address has no record ("never returned once all of the peer's addresses
// have expired or been cleared").
func (m *c09Model) expire(now time.Time) {
	for p := range m.ent {
		n := 0
		for a := range m.ent[p] {
			e := &m.ent[p][a]
			if e.ok && !e.exp.After(now) {
				*e = c09Ent{}
			}
			if e.ok {
				n++
			}
		}
		if n == 0 {
			m.rec[p] = c09RecSt{}
		}
	}
}

func (m *c09Model) live(p int) uint8 {
	var s uint8
	for a, e := range m.ent[p] {
		if e.ok {
			s |= 1 << a
		}
	}
	return s
}

func (m *c09Model) livePeers() uint8 {
	var s uint8
	for p := range m.ent {
		if m.live(p) != 0 {
			s |= 1 << p
		}
	}
	return s
}

func (m *c09Model) counts() (entries, finite, peers, recs int) {
	for p := range m.ent {
		if m.live(p) != 0 {
			peers++
		}
		if m.rec[p].ok {
			recs++
		}
		for _, e := range m.ent[p] {
			if e.ok {
				entries++
				if !c09IsConn(e.ttl) {
					finite++
				}
			}
		}
	}
	return
}

func (m *c09Model) recCode(p int) int {
	if !m.rec[p].ok {
		return -1
	}
	return p*100 + (m.rec[p].seq-1)*10 + m.rec[p].set
}

// insertCapped inserts a new (absent) address; with the per-peer cap reached a finite-class insertion first evicts
// an unconnected entry with the nearest expiry - any of them on a tie (set-valued).
func c09InsertCapped(states []c09Model, p, a int, ttl time.Duration, exp time.Time, cap int, ev *bool) []c09Model {
	var out []c09Model
	for _, st := range states {
		if cap > 0 && !c09IsConn(ttl) {
			n := 0
			var min time.Time
			for _, e := range st.ent[p] {
				if e.ok && !c09IsConn(e.ttl) {
					if n == 0 || e.exp.Before(min) {
						min = e.exp
					}
					n++
				}
			}
			if n >= cap {
				*ev = true
				for v, e := range st.ent[p] {
					if e.ok && !c09IsConn(e.ttl) && e.exp.Equal(min) {
						s2 := st
						s2.ent[p][v] = c09Ent{}
						s2.ent[p][a] = c09Ent{ok: true, ttl: ttl, exp: exp}
						out = append(out, s2)
					}
				}
				continue
			}
		}
		st.ent[p][a] = c09Ent{ok: true, ttl: ttl, exp: exp}
		out = append(out, st)
	}
	return out
}

// resolve the tokens of a batch for peer p: addresses with a /p2p suffix naming another peer are skipped
func c09Resolve(toks []c09Tok) []int {
	var out []int
	for _, t := range toks {
		if t.suf == 2 {
			continue
		}
		out = append(out, t.base)
	}
	return out
}

// add: "adding never shortens an address's lifetime" - an existing entry keeps the larger TTL and the later expiry.
func (m c09Model) add(p int, as []int, ttl time.Duration, now time.Time, cap int, ev *bool) []c09Model {
	states := []c09Model{m}
	if ttl <= 0 {
		return states
	}
	exp := now.Add(ttl)
	for _, a := range as {
		var next []c09Model
		for _, st := range states {
			if e := st.ent[p][a]; e.ok {
				if ttl > e.ttl {
					e.ttl = ttl
				}
				if exp.After(e.exp) {
					e.exp = exp
				}
				st.ent[p][a] = e
				next = append(next, st)
			} else {
				next = append(next, c09InsertCapped([]c09Model{st}, p, a, ttl, exp, cap, ev)...)
			}
		}
		states = next
	}
	return states
}

// set: "setting overrides it, setting a non-positive TTL removes exactly the named addresses".
func (m c09Model) set(p int, as []int, ttl time.Duration, now time.Time, cap int, ev *bool) []c09Model {
	states := []c09Model{m}
	exp := now.Add(ttl)
	for _, a := range as {
		var next []c09Model
		for _, st := range states {
			switch {
			case ttl <= 0:
				st.ent[p][a] = c09Ent{}
				next = append(next, st)
			case st.ent[p][a].ok:
				st.ent[p][a] = c09Ent{ok: true, ttl: ttl, exp: exp}
				next = append(next, st)
			default:
				next = append(next, c09InsertCapped([]c09Model{st}, p, a, ttl, exp, cap, ev)...)
			}
		}
		states = next
	}
	return states
}

// update: "a TTL-class update moves exactly the addresses in that class".
func (m c09Model) update(p int, old, nw time.Duration, now time.Time) c09Model {
	for a, e := range m.ent[p] {
		if e.ok && e.ttl == old {
			if nw <= 0 {
				m.ent[p][a] = c09Ent{}
			} else {
				m.ent[p][a] = c09Ent{ok: true, ttl: nw, exp: now.Add(nw)}
			}
		}
	}
	return m
}

func (m c09Model) clear(p int) c09Model {
	m.ent[p] = [c09NA]c09Ent{}
	m.rec[p] = c09RecSt{}
	return m
}

// consume (accepted): "evicts the addresses of the previous record that it no longer lists except those held by a
// live connection"; the listed addresses are added with the given TTL; the record becomes the stored one.
func (m c09Model) consume(p, seq, set int, ttl time.Duration, now time.Time, cap int, ev *bool) []c09Model {
	if m.rec[p].ok {
		keep := map[int]bool{}
		for _, a := range c09RecSets[set] {
			keep[a] = true
		}
		for _, a := range c09RecSets[m.rec[p].set] {
			if !keep[a] && m.ent[p][a].ok && !c09IsConn(m.ent[p][a].ttl) {
				m.ent[p][a] = c09Ent{}
			}
		}
	}
	m.rec[p] = c09RecSt{ok: true, seq: seq, set: set}
	return m.add(p, c09RecSets[set], ttl, now, cap, ev)
}

func c09Rel(exp, now time.Time, ttl time.Duration) string {
	d := exp.Sub(now)
	switch {
	case d <= 0:
		return "X"
	case d > 100*365*24*time.Hour:
		return "inf"
	}
	return fmt.Sprintf("+%d", int64(d/time.Second))
}

func (m *c09Model) key(now time.Time) string {
	var sb strings.Builder
	for p := range m.ent {
		for a, e := range m.ent[p] {
			if e.ok {
				fmt.Fprintf(&sb, "p%d.a%d=%s/%s ", p+1, a+1, c09TTLName(e.ttl), c09Rel(e.exp, now, e.ttl))
			}
		}
		if m.rec[p].ok {
			fmt.Fprintf(&sb, "p%d.rec=%d/%d ", p+1, m.rec[p].seq, m.rec[p].set)
		}
	}
	return sb.String()
}

func c09SetStr(s uint8) string {
	var out []string
	for a := 0; a < 8; a++ {
		if s&(1<<a) != 0 {
			out = append(out, fmt.Sprintf("a%d", a+1))
		}
	}
	return "{" + strings.Join(out, ",") + "}"
}

func c09PeerSetStr(s uint8) string {
	var out []string
	for a := 0; a < 8; a++ {
		if s&(1<<a) != 0 {
			out = append(out, fmt.Sprintf("p%d", a+1))
		}
	}
	return "{" + strings.Join(out, ",") + "}"
}

func c09SortedJoin(l []string) string {
	sort.Strings(l)
	return strings.Join(l, " ")
}
