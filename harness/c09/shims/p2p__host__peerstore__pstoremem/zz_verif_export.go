//go:build verif

package pstoremem

// Export shim for the C09 differential check (injected with -overlay, never committed to the repository):
// an explicit GC event and a white-box snapshot of the in-memory address book.

import (
	"time"

	"github.com/libp2p/go-libp2p/core/peer"
	"github.com/libp2p/go-libp2p/core/record"
)

// VerifEntry is one stored address entry.
type VerifEntry struct {
	Peer   peer.ID
	Addr   []byte
	TTL    time.Duration
	Expiry time.Time
	InHeap bool // heapIndex != -1
}

// VerifRecord is one stored signed peer record.
type VerifRecord struct {
	Peer     peer.ID
	Seq      uint64
	Envelope *record.Envelope
}

// VerifSnapshot is the complete state of the book (unordered).
type VerifSnapshot struct {
	Entries []VerifEntry  // everything in peerAddrs.Addrs
	Heap    []VerifEntry  // everything in peerAddrs.expiringHeap
	Records []VerifRecord // signedPeerRecords
	Peers   int           // len(peerAddrs.Addrs)
}

// VerifGC runs one garbage collection cycle (what the background ticker does every minute).
func (mab *memoryAddrBook) VerifGC() { mab.gc() }

// VerifSnapshot returns a copy of the stored state.
func (mab *memoryAddrBook) VerifSnapshot() VerifSnapshot {
	mab.mu.RLock()
	defer mab.mu.RUnlock()
	var s VerifSnapshot
	s.Peers = len(mab.addrs.Addrs)
	for _, m := range mab.addrs.Addrs {
		for _, e := range m {
			s.Entries = append(s.Entries, VerifEntry{Peer: e.Peer, Addr: e.Addr.Bytes(), TTL: e.TTL, Expiry: e.Expiry, InHeap: e.heapIndex != -1})
		}
	}
	for _, e := range mab.addrs.expiringHeap {
		s.Heap = append(s.Heap, VerifEntry{Peer: e.Peer, Addr: e.Addr.Bytes(), TTL: e.TTL, Expiry: e.Expiry, InHeap: e.heapIndex != -1})
	}
	for p, r := range mab.signedPeerRecords {
		s.Records = append(s.Records, VerifRecord{Peer: p, Seq: r.Seq, Envelope: r.Envelope})
	}
	return s
}
