//go:build verif

package pstoremem

// Export shim for the C09 differential check (injected with -overlay, never committed to the repository):
// an explicit GC event and a white-box snapshot of the in-memory address book.

import (
	"fmt"
	"reflect"
	"sort"
	"strings"
	"time"

	"github.com/libp2p/go-libp2p/core/peer"
	"github.com/libp2p/go-libp2p/core/record"
)

// VerifEntry is one stored address entry.
type VerifEntry struct {
	Peer   peer.ID
	Addr   []byte
	TTL    time.Duration
	Expiry time.Time
	InHeap bool // heapIndex != -1
	Extra  string // fields of expiringAddr this shim does not know (see verifExtra)
}

// VerifRecord is one stored signed peer record.
type VerifRecord struct {
	Peer     peer.ID
	Seq      uint64
	Envelope *record.Envelope
}

// VerifSnapshot is the complete state of the book (unordered).
type VerifSnapshot struct {
	Entries []VerifEntry  // everything in peerAddrs.Addrs
	Heap    []VerifEntry  // everything in peerAddrs.expiringHeap
	Records []VerifRecord // signedPeerRecords
	Peers   int           // len(peerAddrs.Addrs)
	Extra   string        // fields of memoryAddrBook / peerAddrs / peerRecordState this shim does not know
}

// verifExtra renders every field of the struct p points to whose name is not in known: a field that a later
// version ADDS to the implementation joins the state key of the search automatically instead of being abstracted
// away silently (same idea as seqmc.ExtraFields, repeated here because the shim must not import test machinery).
func verifExtra(p any, known ...string) string {
	v := reflect.ValueOf(p)
	for v.Kind() == reflect.Pointer {
		if v.IsNil() {
			return ""
		}
		v = v.Elem()
	}
	if v.Kind() != reflect.Struct {
		return ""
	}
	out := ""
fields:
	for i := 0; i < v.NumField(); i++ {
		for _, k := range known {
			if k == v.Type().Field(i).Name {
				continue fields
			}
		}
		out += fmt.Sprintf(" %s=%v", v.Type().Field(i).Name, v.Field(i))
	}
	return out
}

// VerifGC runs one garbage collection cycle (what the background ticker does every minute).
func (mab *memoryAddrBook) VerifGC() { mab.gc() }

// VerifSnapshot returns a copy of the stored state.
func (mab *memoryAddrBook) VerifSnapshot() VerifSnapshot {
	mab.mu.RLock()
	defer mab.mu.RUnlock()
	var s VerifSnapshot
	s.Peers = len(mab.addrs.Addrs)
	s.Extra = verifExtra(mab, "mu", "addrs", "signedPeerRecords", "maxUnconnectedAddrs", "maxSignedPeerRecords", "maxAddrsPerPeer",
		"refCount", "cancel", "subManager", "clock") + verifExtra(&mab.addrs, "Addrs", "expiringHeap")
	var rx []string
	for _, m := range mab.addrs.Addrs {
		for _, e := range m {
			s.Entries = append(s.Entries, VerifEntry{Peer: e.Peer, Addr: e.Addr.Bytes(), TTL: e.TTL, Expiry: e.Expiry, InHeap: e.heapIndex != -1,
				Extra: verifExtra(e, "Addr", "TTL", "Expiry", "Peer", "heapIndex")})
		}
	}
	for _, e := range mab.addrs.expiringHeap {
		s.Heap = append(s.Heap, VerifEntry{Peer: e.Peer, Addr: e.Addr.Bytes(), TTL: e.TTL, Expiry: e.Expiry, InHeap: e.heapIndex != -1})
	}
	for p, r := range mab.signedPeerRecords {
		s.Records = append(s.Records, VerifRecord{Peer: p, Seq: r.Seq, Envelope: r.Envelope})
		if x := verifExtra(r, "Envelope", "Seq"); x != "" {
			rx = append(rx, string(p)+x)
		}
	}
	sort.Strings(rx)
	s.Extra += strings.Join(rx, ";")
	return s
}
