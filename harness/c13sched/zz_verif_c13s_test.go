//go:build verif

package identify

// C13, concurrent part. Engine E2: package identify AND this harness together with the fixture of harness/c13
// (fake network, scripted connections and streams) are instrumented, so every mutex / cond / channel operation
// of the service and of the fixture is a scheduling point. Scenarios: an identify response / push being consumed
// while the connection it arrived on (or the last connection) is removed and Disconnected is delivered; the
// automatic identify of a fresh connection racing its disconnect; two connections closing while a push lands.
// Oracle at quiescence (after the pending notifications are delivered and virtual time has passed): with no
// connection left, 16 minutes later Addrs(R) is empty (nothing kept the connected lifetime); with a connection
// that has existed continuously since the last message, that message's addresses survive the same step; every
// IdentifyWait channel is closed; entries of every other peer are unchanged; no deadlock, no panic.

import (
	"fmt"
	"os"
	"strings"
	"testing"
	"time"

	"github.com/libp2p/go-libp2p/core/peerstore"
	vs "github.com/libp2p/go-libp2p/x/verif/vsched"
	"github.com/libp2p/go-libp2p/x/verif/vrep"
	ma "github.com/multiformats/go-multiaddr"
	"google.golang.org/protobuf/proto"
)

type c13sScn struct {
	Name     string
	Two      bool // a second connection c2 (loopback remote address) is open from the start
	Limited  bool // c1 is a limited connection
	Msg      string // "resp" | "push" | "auto" (the automatic identify of c1 itself is the racing message) | ""
	MsgOn    int    // connection the racing message arrived on (0 = c1, 1 = c2)
	CloseC1  bool
	CloseC2  bool
}

func c13sBody(w *c13World, sc c13sScn) func(x *vs.Exec) {
	return func(x *vs.Exec) {
		s := x.S
		const rt = 0
		R := w.R[rt]
		var f *c13Fix
		var conns [2]*c13Conn
		var waits [2]<-chan struct{}
		ex := c13NewExpect(R)
		var oBefore c13StableSnap
		var lastStored []string
		tag := 0
		honestWire := func(prefix []byte) ([]byte, []string) {
			tag++
			m, stored := c13HonestMsg(w, rt, tag, ex)
			b, _ := proto.Marshal(m)
			return append(append([]byte{}, prefix...), c13Frame(b)...), stored
		}
		fail := ""
		s.Go("setup", func() {
			var err error
			f, err = c13NewFix(w, c13PsDefault)
			if err != nil {
				fail = err.Error()
				return
			}
			if _, err := c13Prepopulate(f, R, false); err != nil {
				fail = err.Error()
				return
			}
			f.ps.AddAddrs(R.ID, []ma.Multiaddr{ma.StringCast("/ip4/8.8.4.4/tcp/5000")}, peerstore.TempAddrTTL)
			open := func(slot int, auto bool) {
				var c *c13Conn
				if slot == 0 {
					c = f.net.newConn(R.ID, c13LAddrPub, c13RemoteAddr(w, c13RcPub4), sc.Limited, nil)
				} else {
					c = f.net.newConn(R.ID, c13LAddrLoop, c13RemoteAddr(w, c13RcLoop), false, nil)
				}
				wire, stored := honestWire(c13MsPrefix(ID))
				lastStored = stored
				c.script = func(c *c13Conn) (*c13Strm, error) { return c.newStrm(wire), nil }
				conns[slot] = c
				f.net.add(c)
				if !auto {
					f.net.notifyConnected(c)
					waits[slot] = f.ids.IdentifyWait(c)
				}
			}
			if sc.Two {
				open(1, false)
			}
			open(0, sc.Msg == "auto")
		})
		if !s.Run() && !s.Free {
			x.Fail("deadlock", "setup: %s", s.Deadlock)
			return
		}
		if fail != "" {
			x.Outcome = "infrastructure: " + fail
			return
		}
		if !s.Free {
			oBefore = c13SnapStable(f, w)
		}
		// the race
		msgConsumedWhileOpen := true
		switch sc.Msg {
		case "resp":
			wire, stored := honestWire(nil)
			s.Go("consume-response", func() {
				c := conns[sc.MsgOn]
				st := &c13Strm{conn: c, wake: make(chan struct{}), data: wire, detached: true}
				c.track(st)
				st.SetDeadline(time.Now().Add(f.ids.timeout))
				f.ids.handleIdentifyResponse(st, false)
			})
			lastStored = stored
		case "push":
			wire, stored := honestWire(c13MsPrefix(IDPush))
			s.Go("inbound-push", func() {
				c := conns[sc.MsgOn]
				st := &c13Strm{conn: c, wake: make(chan struct{}), data: wire, detached: true}
				c.track(st)
				f.net.inbound(st)
			})
			lastStored = stored
		case "auto":
			s.Go("connected-c1", func() {
				f.net.notifyConnected(conns[0])
				waits[0] = f.ids.IdentifyWait(conns[0])
			})
		}
		closeConn := func(slot int) {
			s.GoPrio(fmt.Sprintf("close+disc-c%d", slot+1), 1, func() {
				vs.Yield()
				f.net.remove(conns[slot])
				f.net.notifyDisconnected(conns[slot])
			})
		}
		if sc.CloseC1 {
			closeConn(0)
		}
		if sc.CloseC2 && sc.Two {
			closeConn(1)
		}
		_ = msgConsumedWhileOpen
		ok := s.Run()
		if !ok && s.Deadlock != "" {
			x.Fail("deadlock", "threads blocked forever: %s", s.Deadlock)
		}
		// let stalled work time out, then step past the finite lifetime
		var got map[string]bool
		stillOpen := 0
		if ok {
			s.Go("settle", func() {
				vs.Sleep(f.ids.timeout + time.Second)
				vs.Sleep(peerstore.RecentlyConnectedAddrTTL + c13Eps)
				got = map[string]bool{}
				for _, a := range f.ps.Addrs(R.ID) {
					got[string(a.Bytes())] = true
				}
			})
			if !s.Run() {
				ok = false
				if s.Deadlock != "" {
					x.Fail("deadlock", "settle phase: %s", s.Deadlock)
				}
			}
		}
		if ok && x.VioKey == "" {
			for i, c := range conns {
				if c == nil {
					continue
				}
				if !c.IsClosed() {
					stillOpen++
				}
				if waits[i] != nil {
					select {
					case <-waits[i]:
					default:
						x.Fail("identify-wait-not-released", "IdentifyWait(c%d) is still open after the identify timeout", i+1)
					}
				}
			}
			if stillOpen == 0 {
				if len(got) > 0 {
					var left []string
					for a := range got {
						left = append(left, c13ShowAddr(a))
					}
					x.Fail("connected-lifetime-kept-after-last-disconnect", "no connection to R exists, every Disconnected was processed, %s passed, and Addrs(R) still returns %v",
						peerstore.RecentlyConnectedAddrTTL+c13Eps, c13Trunc(left))
				}
			} else if !sc.CloseC1 && !sc.CloseC2 || (sc.Two && (!sc.CloseC1 || !sc.CloseC2)) {
				// a connection has existed continuously since before the last message was consumed
				for _, st := range lastStored {
					if !got[st] {
						x.Fail("connected-lifetime-lost-while-connected", "a connection to R has existed ever since its last identify message was consumed, but address %s of that message is gone %s later",
							c13ShowAddr(st), peerstore.RecentlyConnectedAddrTTL+c13Eps)
						break
					}
				}
			}
			if x.VioKey == "" {
				if d := oBefore.diffStable(c13SnapStable(f, w), w); d != "" {
					x.Fail("attributed-to-other-peer", "entries of peers other than R changed: %s", d)
				}
			}
		}
		x.Outcome = fmt.Sprintf("open=%d addrs-left=%d", stillOpen, len(got))
		s.Go("teardown", func() {
			f.ids.Close()
			f.sub.Close()
			f.host.Close()
			f.ps.Close() // (the address book's collector goroutine would otherwise outlive the bubble: ~20 kB per execution)
		})
		s.Drain()
	}
}

func c13sScenarios(thorough bool) []c13sScn {
	scs := []c13sScn{
		{Name: "response on c1 consumed while c1 (the only connection) closes", Msg: "resp", CloseC1: true},
		{Name: "push on c1 while c1 (the only connection) closes", Msg: "push", CloseC1: true},
		{Name: "automatic identify of c1 racing its close", Msg: "auto", CloseC1: true},
		{Name: "push on c2 while c1 closes, c2 stays", Two: true, Msg: "push", MsgOn: 1, CloseC1: true},
		{Name: "response on c1 while both connections close", Two: true, Msg: "resp", CloseC1: true, CloseC2: true},
	}
	if thorough {
		scs = append(scs,
			c13sScn{Name: "response on limited c1 while c2 (direct) closes", Two: true, Limited: true, Msg: "resp", CloseC2: true},
			c13sScn{Name: "push on c1 while both connections close", Two: true, Msg: "push", CloseC1: true, CloseC2: true},
			c13sScn{Name: "response on limited c1 (the only connection) while it closes", Limited: true, Msg: "resp", CloseC1: true},
		)
	}
	return scs
}

func c13sScenario(w *c13World, sc c13sScn) *vs.Scenario {
	return &vs.Scenario{Name: sc.Name, Body: c13sBody(w, sc), LeakIsViolation: false,
		Opt: vs.Options{Horizon: 40 * time.Minute, IdleStep: 997 * time.Millisecond, MaxSteps: 60000}}
}

func TestVerifC13Sched(t *testing.T) {
	w := c13GetWorld(t)
	scs := c13sScenarios(vrep.Thorough())
	if p := vrep.ReplayPath(); p != "" {
		rp, err := vs.LoadReplay(p)
		if err != nil || rp.Scenario == "" {
			t.Skip("not a scheduler replay")
		}
		for _, sc := range c13sScenarios(true) {
			if sc.Name == rp.Scenario {
				x := vs.Replay(t, c13sScenario(w, sc), rp.Choices)
				fmt.Fprintf(os.Stdout, "REPLAY %s choices=%v\n%s\nverdict: key=%q %s\npanic=%s outcome=%s\n", sc.Name, rp.Choices, strings.Join(x.S.Log, "\n"), x.VioKey, x.VioDesc, x.Panic, x.Outcome)
				return
			}
		}
		return
	}
	if vs.FreeMode() {
		// free-running pass for the race detector (validates the data-race-freedom assumption of the scheduler)
		r := vrep.New("C13", "race-pass")
		dl := vrep.Deadline()
		n := 0
		for time.Now().Before(dl) {
			for _, sc := range scs {
				runs, _ := vs.FreeRun(t, c13sScenario(w, sc), 3, dl)
				n += runs
			}
		}
		r.Executions = int64(n)
		r.Note("free-running executions: %d", n)
		r.Flush()
		return
	}
	si, sn := vrep.Shard()
	bound := 2
	if vrep.Thorough() {
		bound = 3
	}
	r := vrep.New("C13", "identify-schedules")
	r.Bounds["deviation_bound"] = bound
	r.Bounds["scenarios"] = len(scs)
	for i, sc := range scs {
		left := time.Until(vrep.Deadline())
		share := left / time.Duration(len(scs)-i)
		vs.Explore(t, c13sScenario(w, sc), vs.Config{MaxBound: bound, Deadline: time.Now().Add(share), ShardI: si, ShardN: sn, Property: "C13"}, r)
	}
	r.Flush()
}
