//go:build verif

package relay

// C11 fixture: a REAL Relay (relay.New) on a hand-written host.
//
//   - c11Host / c11Net / c11Conn / c11Stream: minimal host.Host, network.Network, network.Conn and
//     network.Stream. Streams are byte pipes between the relay and the harness: the relay side blocks on
//     bubble channels / bubble timers (deadlines are virtual), the harness side never blocks - it writes,
//     calls synctest.Wait() (quiescence) and then looks at what the relay wrote. Every step of the hop and
//     the stop protocol is therefore taken by the harness, one at a time.
//   - the relay host has a REAL resource manager (rcmgr, infinite limits) behind a counting / refusing
//     decorator (c11Rcmgr), a REAL BasicConnMgr fed by the fake network's Connected / Disconnected
//     notifications (registered the way BasicHost does it), a REAL pstoremem peerstore holding the relay's
//     signing key.
//   - connections carry any remote multiaddr (shared IPs, IPv6 for the ASN path, relayed addresses with
//     Stat().Limited).
//   - clients are scripted: protobuf messages are written / parsed with the circuitv2/util delimited
//     writer / reader exactly as the real client does; the voucher of a RESERVE response is checked by the
//     REAL client.Reserve fed with the recorded response bytes.

import (
	"bytes"
	"context"
	"crypto/sha256"
	"errors"
	"fmt"
	"io"
	"sort"
	"strings"
	"sync"
	"testing/synctest"
	"time"

	"github.com/libp2p/go-libp2p/core/connmgr"
	"github.com/libp2p/go-libp2p/core/crypto"
	"github.com/libp2p/go-libp2p/core/event"
	"github.com/libp2p/go-libp2p/core/host"
	"github.com/libp2p/go-libp2p/core/network"
	"github.com/libp2p/go-libp2p/core/peer"
	"github.com/libp2p/go-libp2p/core/peerstore"
	"github.com/libp2p/go-libp2p/core/protocol"
	"github.com/libp2p/go-libp2p/p2p/host/peerstore/pstoremem"
	rcmgr "github.com/libp2p/go-libp2p/p2p/host/resource-manager"
	bconnmgr "github.com/libp2p/go-libp2p/p2p/net/connmgr"
	"github.com/libp2p/go-libp2p/p2p/protocol/circuitv2/client"
	pbv2 "github.com/libp2p/go-libp2p/p2p/protocol/circuitv2/pb"
	circuitproto "github.com/libp2p/go-libp2p/p2p/protocol/circuitv2/proto"
	"github.com/libp2p/go-libp2p/p2p/protocol/circuitv2/util"
	"github.com/libp2p/go-libp2p/x/verif/vrep"

	ma "github.com/multiformats/go-multiaddr"
	"google.golang.org/protobuf/proto"
)

// ---------- deterministic identities ----------

type c11Ident struct {
	label string
	priv  crypto.PrivKey
	id    peer.ID
}

var (
	c11IdMu  sync.Mutex
	c11IdMap = map[string]*c11Ident{}
)

// c11Identity returns the (cached) Ed25519 identity derived from the label and VERIF_SEED.
func c11Identity(label string) *c11Ident {
	c11IdMu.Lock()
	defer c11IdMu.Unlock()
	if x, ok := c11IdMap[label]; ok {
		return x
	}
	seed := sha256.Sum256([]byte(fmt.Sprintf("verif/c11/%s/%d", label, vrep.Seed())))
	priv, _, err := crypto.GenerateEd25519Key(bytes.NewReader(seed[:]))
	if err != nil {
		panic("c11: key generation: " + err.Error())
	}
	id, err := peer.IDFromPrivateKey(priv)
	if err != nil {
		panic("c11: peer id: " + err.Error())
	}
	x := &c11Ident{label: label, priv: priv, id: id}
	c11IdMap[label] = x
	return x
}

// ---------- stream ----------

type c11TimeoutErr struct{}

func (c11TimeoutErr) Error() string   { return "c11: i/o deadline exceeded" }
func (c11TimeoutErr) Timeout() bool   { return true }
func (c11TimeoutErr) Temporary() bool { return true }

var c11ErrClosed = errors.New("c11: stream closed")

// c11Stream is the relay's end of a stream. The h* methods are the harness's end.
type c11Stream struct {
	name   string
	conn   *c11Conn
	dir    network.Direction
	pid    protocol.ID
	scope  network.StreamManagementScope
	opened time.Time

	mu         sync.Mutex
	wake       chan struct{}
	in         []byte // harness -> relay, not yet read by the relay
	inEOF      bool   // the harness closed its write side
	inClosed   bool   // the relay closed its read side (CloseRead / Close): input is discarded
	sent       []byte // every byte the harness handed to the stream
	out        []byte // relay -> harness: every byte the relay wrote
	outRead    int    // harness cursor into out
	outEOF     bool   // the relay closed its write side
	peerReset  bool   // the harness reset the stream, or its connection died
	selfReset  bool   // the relay called Reset
	selfClosed bool   // the relay called Close
	rdl, wdl   time.Time
	scopeDone  bool
	nWrites    int
	failWrite  bool // fault: the remote stopped reading - every write of the relay fails
}

var _ network.Stream = (*c11Stream)(nil)

func (s *c11Stream) bump() {
	close(s.wake)
	s.wake = make(chan struct{})
}

func (s *c11Stream) finishScope() {
	s.mu.Lock()
	done := s.scopeDone
	s.scopeDone = true
	s.mu.Unlock()
	if !done && s.scope != nil {
		s.scope.Done()
	}
}

func (s *c11Stream) Read(p []byte) (int, error) {
	for {
		s.mu.Lock()
		switch {
		case s.selfReset || s.peerReset:
			s.mu.Unlock()
			return 0, network.ErrReset
		case s.inClosed:
			s.mu.Unlock()
			return 0, c11ErrClosed
		case len(s.in) > 0:
			n := copy(p, s.in)
			s.in = s.in[n:]
			s.mu.Unlock()
			return n, nil
		case s.inEOF:
			s.mu.Unlock()
			return 0, io.EOF
		}
		dl := s.rdl
		if !dl.IsZero() && !time.Now().Before(dl) {
			s.mu.Unlock()
			return 0, c11TimeoutErr{}
		}
		w := s.wake
		s.mu.Unlock()
		if dl.IsZero() {
			<-w
		} else {
			t := time.NewTimer(time.Until(dl))
			select {
			case <-w:
			case <-t.C:
			}
			t.Stop()
		}
	}
}

func (s *c11Stream) Write(p []byte) (int, error) {
	s.mu.Lock()
	defer s.mu.Unlock()
	switch {
	case s.selfReset || s.peerReset:
		return 0, network.ErrReset
	case s.selfClosed || s.outEOF:
		return 0, c11ErrClosed
	}
	if !s.wdl.IsZero() && !time.Now().Before(s.wdl) {
		return 0, c11TimeoutErr{}
	}
	if s.failWrite {
		return 0, network.ErrReset
	}
	s.out = append(s.out, p...)
	s.nWrites++
	return len(p), nil
}

func (s *c11Stream) Close() error {
	s.mu.Lock()
	s.selfClosed = true
	s.outEOF = true
	s.inClosed = true
	s.in = nil
	s.bump()
	s.mu.Unlock()
	s.finishScope()
	return nil
}

func (s *c11Stream) CloseWrite() error {
	s.mu.Lock()
	s.outEOF = true
	s.bump()
	s.mu.Unlock()
	return nil
}

func (s *c11Stream) CloseRead() error {
	s.mu.Lock()
	s.inClosed = true
	s.in = nil
	s.bump()
	s.mu.Unlock()
	return nil
}

func (s *c11Stream) Reset() error {
	s.mu.Lock()
	s.selfReset = true
	s.bump()
	s.mu.Unlock()
	s.finishScope()
	return nil
}

func (s *c11Stream) ResetWithError(network.StreamErrorCode) error { return s.Reset() }

func (s *c11Stream) SetDeadline(t time.Time) error {
	s.mu.Lock()
	s.rdl, s.wdl = t, t
	s.bump()
	s.mu.Unlock()
	return nil
}

func (s *c11Stream) SetReadDeadline(t time.Time) error {
	s.mu.Lock()
	s.rdl = t
	s.bump()
	s.mu.Unlock()
	return nil
}

func (s *c11Stream) SetWriteDeadline(t time.Time) error {
	s.mu.Lock()
	s.wdl = t
	s.bump()
	s.mu.Unlock()
	return nil
}

func (s *c11Stream) ID() string                       { return s.name }
func (s *c11Stream) Protocol() protocol.ID            { return s.pid }
func (s *c11Stream) SetProtocol(id protocol.ID) error { s.pid = id; return s.scope.SetProtocol(id) }
func (s *c11Stream) Stat() network.Stats {
	return network.Stats{Direction: s.dir, Opened: s.opened, Limited: s.conn.limited}
}
func (s *c11Stream) Conn() network.Conn         { return s.conn }
func (s *c11Stream) Scope() network.StreamScope { return s.scope }

// ----- harness end (never blocks) -----

func (s *c11Stream) hSend(b []byte) {
	s.mu.Lock()
	s.sent = append(s.sent, b...)
	if !s.peerReset && !s.selfReset && !s.inClosed {
		s.in = append(s.in, b...)
	}
	s.bump()
	s.mu.Unlock()
}

func (s *c11Stream) hSendMsg(m proto.Message) {
	var buf bytes.Buffer
	if err := util.NewDelimitedWriter(&buf).WriteMsg(m); err != nil {
		panic("c11: marshal: " + err.Error())
	}
	s.hSend(buf.Bytes())
}

func (s *c11Stream) hCloseWrite() {
	s.mu.Lock()
	s.inEOF = true
	s.bump()
	s.mu.Unlock()
}

// hFailWrites: from now on the relay's writes on this stream fail while its reads still work (the remote
// went away after its request was read).
func (s *c11Stream) hFailWrites() {
	s.mu.Lock()
	s.failWrite = true
	s.mu.Unlock()
}

func (s *c11Stream) hReset() {
	s.mu.Lock()
	s.peerReset = true
	s.bump()
	s.mu.Unlock()
}

// connDied: the connection under the stream closed; the local stack resets the stream (as the swarm does).
func (s *c11Stream) connDied() {
	s.hReset()
	s.finishScope()
}

// hRecvRaw returns the bytes the relay wrote since the last call.
func (s *c11Stream) hRecvRaw() []byte {
	s.mu.Lock()
	defer s.mu.Unlock()
	b := append([]byte(nil), s.out[s.outRead:]...)
	s.outRead = len(s.out)
	return b
}

// hRecvMsg parses the next complete delimited message the relay wrote; ok=false when there is none.
// raw is the exact wire form (length prefix included).
func (s *c11Stream) hRecvMsg(m proto.Message) (ok bool, raw []byte, err error) {
	s.mu.Lock()
	defer s.mu.Unlock()
	avail := s.out[s.outRead:]
	if len(avail) == 0 {
		return false, nil, nil
	}
	br := bytes.NewReader(avail)
	rd := util.NewDelimitedReader(br, 1<<16)
	defer rd.Close()
	if e := rd.ReadMsg(m); e != nil {
		if e == io.EOF || e == io.ErrUnexpectedEOF {
			return false, nil, nil // incomplete
		}
		return false, nil, e
	}
	n := len(avail) - br.Len()
	raw = append([]byte(nil), avail[:n]...)
	s.outRead += n
	return true, raw, nil
}

// outPos is the harness's read position in the relay's output.
func (s *c11Stream) outPos() int {
	s.mu.Lock()
	defer s.mu.Unlock()
	return s.outRead
}

// allOut returns everything the relay ever wrote to this stream.
func (s *c11Stream) allOut() []byte {
	s.mu.Lock()
	defer s.mu.Unlock()
	return append([]byte(nil), s.out...)
}

// relayDone reports whether the relay fully closed its end (Close or Reset).
func (s *c11Stream) relayDone() bool {
	s.mu.Lock()
	defer s.mu.Unlock()
	return s.selfClosed || s.selfReset
}

func (s *c11Stream) state() string {
	s.mu.Lock()
	defer s.mu.Unlock()
	var f []string
	if s.selfClosed {
		f = append(f, "relay-closed")
	} else if s.outEOF {
		f = append(f, "relay-closed-write")
	}
	if s.selfReset {
		f = append(f, "relay-reset")
	}
	if s.peerReset {
		f = append(f, "peer-reset")
	}
	if len(f) == 0 {
		return "open"
	}
	return strings.Join(f, "+")
}

// ---------- connection ----------

type c11Conn struct {
	net     *c11Net
	name    string
	remote  *c11Ident
	laddr   ma.Multiaddr
	raddr   ma.Multiaddr
	limited bool
	opened  time.Time

	mu      sync.Mutex
	closed  bool
	streams []*c11Stream
}

var _ network.Conn = (*c11Conn)(nil)

func (c *c11Conn) Close() error                               { c.net.closeConn(c); return nil }
func (c *c11Conn) CloseWithError(network.ConnErrorCode) error { return c.Close() }
func (c *c11Conn) LocalPeer() peer.ID                         { return c.net.local }
func (c *c11Conn) RemotePeer() peer.ID                        { return c.remote.id }
func (c *c11Conn) RemotePublicKey() crypto.PubKey             { return c.remote.priv.GetPublic() }
func (c *c11Conn) ConnState() network.ConnectionState {
	return network.ConnectionState{Transport: "c11"}
}
func (c *c11Conn) LocalMultiaddr() ma.Multiaddr  { return c.laddr }
func (c *c11Conn) RemoteMultiaddr() ma.Multiaddr { return c.raddr }
func (c *c11Conn) Scope() network.ConnScope      { return &network.NullScope{} }
func (c *c11Conn) ID() string                    { return c.name }
func (c *c11Conn) NewStream(context.Context) (network.Stream, error) {
	return nil, errors.New("c11: Conn.NewStream is not part of the fixture")
}
func (c *c11Conn) As(any) bool { return false }
func (c *c11Conn) IsClosed() bool {
	c.mu.Lock()
	defer c.mu.Unlock()
	return c.closed
}
func (c *c11Conn) Stat() network.ConnStats {
	c.mu.Lock()
	defer c.mu.Unlock()
	return network.ConnStats{Stats: network.Stats{Direction: network.DirInbound, Opened: c.opened, Limited: c.limited}, NumStreams: len(c.streams)}
}
func (c *c11Conn) GetStreams() []network.Stream {
	c.mu.Lock()
	defer c.mu.Unlock()
	var out []network.Stream
	for _, s := range c.streams {
		if !s.relayDone() {
			out = append(out, s)
		}
	}
	return out
}

// ---------- network ----------

type c11Net struct {
	network.Network // nil: any method the fixture does not provide panics (harness bug, not a verdict)
	local           peer.ID
	rm              network.ResourceManager
	ps              peerstore.Peerstore

	mu    sync.Mutex
	conns []*c11Conn
	notif []network.Notifiee
	nconn int
}

func (n *c11Net) ResourceManager() network.ResourceManager { return n.rm }
func (n *c11Net) LocalPeer() peer.ID                       { return n.local }
func (n *c11Net) Peerstore() peerstore.Peerstore           { return n.ps }
func (n *c11Net) Close() error                             { return nil }

func (n *c11Net) Notify(f network.Notifiee) {
	n.mu.Lock()
	n.notif = append(n.notif, f)
	n.mu.Unlock()
}

func (n *c11Net) StopNotify(f network.Notifiee) {
	n.mu.Lock()
	for i, x := range n.notif {
		if x == f {
			n.notif = append(n.notif[:i:i], n.notif[i+1:]...)
			break
		}
	}
	n.mu.Unlock()
}

func (n *c11Net) Connectedness(p peer.ID) network.Connectedness {
	n.mu.Lock()
	defer n.mu.Unlock()
	res := network.NotConnected
	for _, c := range n.conns {
		if c.remote.id != p {
			continue
		}
		if !c.limited {
			return network.Connected
		}
		res = network.Limited
	}
	return res
}

func (n *c11Net) ConnsToPeer(p peer.ID) []network.Conn {
	n.mu.Lock()
	defer n.mu.Unlock()
	var out []network.Conn
	for _, c := range n.conns {
		if c.remote.id == p {
			out = append(out, c)
		}
	}
	return out
}

func (n *c11Net) Conns() []network.Conn {
	n.mu.Lock()
	defer n.mu.Unlock()
	var out []network.Conn
	for _, c := range n.conns {
		out = append(out, c)
	}
	return out
}

func (n *c11Net) Peers() []peer.ID {
	n.mu.Lock()
	defer n.mu.Unlock()
	seen := map[peer.ID]bool{}
	var out []peer.ID
	for _, c := range n.conns {
		if !seen[c.remote.id] {
			seen[c.remote.id] = true
			out = append(out, c.remote.id)
		}
	}
	return out
}

func (n *c11Net) directConn(p peer.ID) (direct *c11Conn, anyLimited bool) {
	n.mu.Lock()
	defer n.mu.Unlock()
	for _, c := range n.conns {
		if c.remote.id != p {
			continue
		}
		if !c.limited {
			return c, anyLimited
		}
		anyLimited = true
	}
	return nil, anyLimited
}

func (n *c11Net) notifiees() []network.Notifiee {
	n.mu.Lock()
	defer n.mu.Unlock()
	return append([]network.Notifiee(nil), n.notif...)
}

// openConn: a connection from `remote` arrives with the given remote multiaddr; Connected is notified.
func (n *c11Net) openConn(remote *c11Ident, raddr ma.Multiaddr, limited bool) *c11Conn {
	n.mu.Lock()
	n.nconn++
	c := &c11Conn{net: n, name: fmt.Sprintf("conn%d", n.nconn), remote: remote, raddr: raddr, limited: limited,
		laddr: ma.StringCast("/ip4/203.0.113.1/tcp/4001"), opened: time.Now()}
	n.conns = append(n.conns, c)
	n.mu.Unlock()
	for _, f := range n.notifiees() {
		f.Connected(n, c)
	}
	return c
}

// closeConn: the connection dies: its streams are reset, it leaves the network's table, then Disconnected
// is notified (the order the swarm uses).
func (n *c11Net) closeConn(c *c11Conn) {
	c.mu.Lock()
	if c.closed {
		c.mu.Unlock()
		return
	}
	c.closed = true
	streams := append([]*c11Stream(nil), c.streams...)
	c.mu.Unlock()
	for _, s := range streams {
		s.connDied()
	}
	n.mu.Lock()
	for i, x := range n.conns {
		if x == c {
			n.conns = append(n.conns[:i:i], n.conns[i+1:]...)
			break
		}
	}
	n.mu.Unlock()
	for _, f := range n.notifiees() {
		f.Disconnected(n, c)
	}
}

func (n *c11Net) newStream(c *c11Conn, dir network.Direction, pid protocol.ID) (*c11Stream, error) {
	scope, err := n.rm.OpenStream(c.remote.id, dir)
	if err != nil {
		return nil, err
	}
	if err := scope.SetProtocol(pid); err != nil {
		scope.Done()
		return nil, err
	}
	c.mu.Lock()
	s := &c11Stream{name: fmt.Sprintf("%s/s%d", c.name, len(c.streams)+1), conn: c, dir: dir, pid: pid, scope: scope,
		opened: time.Now(), wake: make(chan struct{})}
	c.streams = append(c.streams, s)
	c.mu.Unlock()
	return s, nil
}

// ---------- host ----------

type c11Host struct {
	ident *c11Ident
	ps    peerstore.Peerstore
	net   *c11Net
	cm    *bconnmgr.BasicConnMgr
	addrs []ma.Multiaddr

	mu           sync.Mutex
	handlers     map[protocol.ID]network.StreamHandler
	newStreamErr error              // scripted failure of the next NewStream calls
	onOutbound   func(s *c11Stream) // called synchronously when the relay opens a stream
	outbound     []*c11Stream       // streams opened by the relay, in order
}

var _ host.Host = (*c11Host)(nil)

func (h *c11Host) ID() peer.ID                    { return h.ident.id }
func (h *c11Host) Peerstore() peerstore.Peerstore { return h.ps }
func (h *c11Host) Addrs() []ma.Multiaddr          { return h.addrs }
func (h *c11Host) Network() network.Network       { return h.net }
func (h *c11Host) Mux() protocol.Switch           { return nil }
func (h *c11Host) Connect(context.Context, peer.AddrInfo) error {
	return errors.New("c11: Connect is not part of the fixture")
}
func (h *c11Host) SetStreamHandler(pid protocol.ID, f network.StreamHandler) {
	h.mu.Lock()
	h.handlers[pid] = f
	h.mu.Unlock()
}
func (h *c11Host) SetStreamHandlerMatch(pid protocol.ID, _ func(protocol.ID) bool, f network.StreamHandler) {
	h.SetStreamHandler(pid, f)
}
func (h *c11Host) RemoveStreamHandler(pid protocol.ID) {
	h.mu.Lock()
	delete(h.handlers, pid)
	h.mu.Unlock()
}
func (h *c11Host) Close() error                     { return nil }
func (h *c11Host) ConnManager() connmgr.ConnManager { return h.cm }
func (h *c11Host) EventBus() event.Bus              { return nil }

// NewStream mirrors what BasicHost + swarm do for a NoDial context: use an existing direct connection;
// a peer reachable only over a limited connection is refused unless the context allows it.
func (h *c11Host) NewStream(ctx context.Context, p peer.ID, pids ...protocol.ID) (network.Stream, error) {
	if err := ctx.Err(); err != nil {
		return nil, err
	}
	h.mu.Lock()
	e, hook := h.newStreamErr, h.onOutbound
	h.mu.Unlock()
	if e != nil {
		return nil, e
	}
	c, anyLimited := h.net.directConn(p)
	if c == nil {
		if anyLimited {
			return nil, network.ErrLimitedConn
		}
		return nil, network.ErrNoConn
	}
	if len(pids) == 0 {
		return nil, errors.New("c11: no protocol")
	}
	s, err := h.net.newStream(c, network.DirOutbound, pids[0])
	if err != nil {
		return nil, err
	}
	h.mu.Lock()
	h.outbound = append(h.outbound, s)
	h.mu.Unlock()
	if hook != nil {
		hook(s)
	}
	return s, nil
}

// inbound: the remote peer opens a stream of protocol pid on c; the registered handler runs in its own
// goroutine (as the host would run it). Without a handler the stream is reset (protocol not supported).
func (h *c11Host) inbound(c *c11Conn, pid protocol.ID) *c11Stream {
	s, err := h.net.newStream(c, network.DirInbound, pid)
	if err != nil {
		panic("c11: OpenStream refused by an unlimited resource manager: " + err.Error())
	}
	h.mu.Lock()
	f := h.handlers[pid]
	h.mu.Unlock()
	if f == nil {
		s.Reset()
		return s
	}
	go f(s)
	return s
}

func (h *c11Host) outboundCount() int {
	h.mu.Lock()
	defer h.mu.Unlock()
	return len(h.outbound)
}

func (h *c11Host) outboundAt(i int) *c11Stream {
	h.mu.Lock()
	defer h.mu.Unlock()
	if i < len(h.outbound) {
		return h.outbound[i]
	}
	return nil
}

// ---------- counting / refusing decorator around the real resource manager ----------

const (
	c11CallBeginSpan   = "BeginSpan"          // r.scope.BeginSpan() in handleConnect
	c11CallSpanReserve = "Span.ReserveMemory" // span.ReserveMemory(2*BufferSize)
	c11CallInService   = "hop.SetService"     // s.Scope().SetService in handleStream
	c11CallInReserve   = "hop.ReserveMemory"  // s.Scope().ReserveMemory in handleStream
	c11CallOutService  = "stop.SetService"    // bs.Scope().SetService in handleConnect
	c11CallOutReserve  = "stop.ReserveMemory" // bs.Scope().ReserveMemory in handleConnect
)

var c11RcmgrCalls = []string{c11CallInService, c11CallInReserve, c11CallBeginSpan, c11CallSpanReserve, c11CallOutService, c11CallOutReserve}

type c11Rcmgr struct {
	network.ResourceManager // the real manager

	mu      sync.Mutex
	counts  map[string]int
	refuse  map[string]int
	refused []string
}

func (r *c11Rcmgr) hit(kind string) error {
	r.mu.Lock()
	defer r.mu.Unlock()
	n := r.counts[kind]
	r.counts[kind] = n + 1
	if want, ok := r.refuse[kind]; ok && want == n {
		r.refused = append(r.refused, fmt.Sprintf("%s#%d", kind, n))
		return fmt.Errorf("c11: refusing %s #%d: %w", kind, n, network.ErrResourceLimitExceeded)
	}
	return nil
}

// refuseNext arms a refusal of the next call of the given kind.
func (r *c11Rcmgr) refuseNext(kind string) {
	r.mu.Lock()
	r.refuse[kind] = r.counts[kind]
	r.mu.Unlock()
}

func (r *c11Rcmgr) refusedList() []string {
	r.mu.Lock()
	defer r.mu.Unlock()
	return append([]string(nil), r.refused...)
}

func (r *c11Rcmgr) ViewService(svc string, f func(network.ServiceScope) error) error {
	return r.ResourceManager.ViewService(svc, func(s network.ServiceScope) error {
		return f(&c11SvcScope{ServiceScope: s, r: r})
	})
}

func (r *c11Rcmgr) OpenStream(p peer.ID, dir network.Direction) (network.StreamManagementScope, error) {
	ss, err := r.ResourceManager.OpenStream(p, dir)
	if err != nil {
		return nil, err
	}
	return &c11StreamScope{StreamManagementScope: ss, r: r, dir: dir}, nil
}

type c11SvcScope struct {
	network.ServiceScope
	r *c11Rcmgr
}

// BeginSpan on the service scope is the relay's root span (relay.New); it is not refused.
func (s *c11SvcScope) BeginSpan() (network.ResourceScopeSpan, error) {
	sp, err := s.ServiceScope.BeginSpan()
	if err != nil {
		return nil, err
	}
	return &c11Span{ResourceScopeSpan: sp, r: s.r}, nil
}

type c11Span struct {
	network.ResourceScopeSpan
	r     *c11Rcmgr
	child bool
}

func (s *c11Span) BeginSpan() (network.ResourceScopeSpan, error) {
	if err := s.r.hit(c11CallBeginSpan); err != nil {
		return nil, err
	}
	sp, err := s.ResourceScopeSpan.BeginSpan()
	if err != nil {
		return nil, err
	}
	return &c11Span{ResourceScopeSpan: sp, r: s.r, child: true}, nil
}

func (s *c11Span) ReserveMemory(size int, prio uint8) error {
	if s.child {
		if err := s.r.hit(c11CallSpanReserve); err != nil {
			return err
		}
	}
	return s.ResourceScopeSpan.ReserveMemory(size, prio)
}

type c11StreamScope struct {
	network.StreamManagementScope
	r   *c11Rcmgr
	dir network.Direction
}

func (s *c11StreamScope) SetService(svc string) error {
	k := c11CallInService
	if s.dir == network.DirOutbound {
		k = c11CallOutService
	}
	if err := s.r.hit(k); err != nil {
		return err
	}
	return s.StreamManagementScope.SetService(svc)
}

func (s *c11StreamScope) ReserveMemory(size int, prio uint8) error {
	k := c11CallInReserve
	if s.dir == network.DirOutbound {
		k = c11CallOutReserve
	}
	if err := s.r.hit(k); err != nil {
		return err
	}
	return s.StreamManagementScope.ReserveMemory(size, prio)
}

// ---------- ACL ----------

type c11ACL struct {
	denyReserve map[peer.ID]bool
	denyConnect map[[2]peer.ID]bool
	// park: when armed, the next AllowConnect call waits on this channel before it answers (an ACL is an external
	// lookup: the world may change while it runs); parked reports that a call is waiting / has waited
	mu     sync.Mutex
	park   chan struct{}
	parked bool
}

func (a *c11ACL) AllowReserve(p peer.ID, _ ma.Multiaddr) bool { return !a.denyReserve[p] }
func (a *c11ACL) AllowConnect(src peer.ID, _ ma.Multiaddr, dest peer.ID) bool {
	a.mu.Lock()
	ch := a.park
	if ch != nil {
		a.park, a.parked = nil, true
	}
	a.mu.Unlock()
	if ch != nil {
		<-ch
	}
	return !a.denyConnect[[2]peer.ID{src, dest}]
}

// arm makes the next AllowConnect call wait until the returned function is called; wasParked (after quiescence) tells
// whether a call is waiting.
func (a *c11ACL) arm() (release func()) {
	ch := make(chan struct{})
	a.mu.Lock()
	a.park, a.parked = ch, false
	a.mu.Unlock()
	return func() {
		a.mu.Lock()
		a.park = nil
		a.mu.Unlock()
		close(ch)
	}
}

func (a *c11ACL) wasParked() bool {
	a.mu.Lock()
	defer a.mu.Unlock()
	return a.parked
}

// ---------- configuration of one closed system ----------

type c11AddrSpec struct {
	Name    string // short label used in histories ("A", "B", "X1", "via-R2")
	Addr    string // remote multiaddr of connections made from this address; %R2 is replaced by the other relay's ID
	Relayed bool   // the address is a circuit address (the connection is a limited one)
	// Unlimited: the other relay imposes no limits: the connection goes through it all the same (its remote address is a
	// circuit address) but it is NOT marked Limited
	Unlimited bool
	IP      string // model: the IP the caps count by ("" for relayed addresses)
	ASN     int    // model: ASN class (0 = none / IPv4); checked against asnutil at start-up
	// ReserveOnly: the history search uses this address for RESERVE only (keeps the alphabet small).
	ReserveOnly bool
}

type c11ClientSpec struct {
	Label string
	Addrs []c11AddrSpec // Addrs[0] is the primary address (used when the client has to be reachable)
}

type c11Cfg struct {
	Name        string
	RC          Resources
	Clients     []c11ClientSpec
	DenyReserve []int    // client indices the ACL refuses reservations for
	DenyConnect [][2]int // (src, dst) pairs the ACL refuses
	UseACL      bool
}

func (c *c11Cfg) describe() map[string]any {
	m := map[string]any{
		"MaxReservations": c.RC.MaxReservations, "MaxReservationsPerIP": c.RC.MaxReservationsPerIP, "MaxReservationsPerASN": c.RC.MaxReservationsPerASN,
		"MaxCircuits": c.RC.MaxCircuits, "BufferSize": c.RC.BufferSize, "ReservationTTL": c.RC.ReservationTTL.String(),
	}
	if c.RC.Limit != nil {
		m["Limit"] = fmt.Sprintf("Data=%d Duration=%s", c.RC.Limit.Data, c.RC.Limit.Duration)
	} else {
		m["Limit"] = "none"
	}
	var cl []string
	for _, x := range c.Clients {
		var as []string
		for _, a := range x.Addrs {
			as = append(as, a.Name+"="+a.Addr)
		}
		cl = append(cl, x.Label+"{"+strings.Join(as, ", ")+"}")
	}
	m["clients"] = cl
	if c.UseACL {
		m["acl"] = fmt.Sprintf("denyReserve=%v denyConnect=%v", c.DenyReserve, c.DenyConnect)
	}
	return m
}

// ---------- instance: real relay + fixture ----------

type c11Sys struct {
	cfg    *c11Cfg
	realRM network.ResourceManager
	rm     *c11Rcmgr
	cm     *bconnmgr.BasicConnMgr
	ps     peerstore.Peerstore
	net    *c11Net
	host   *c11Host
	relay  *Relay
	acl    *c11ACL // nil without ACL
	ids    []*c11Ident
	addrs  [][]ma.Multiaddr
	conns  [][]*c11Conn // [client][addr]: the open connection from that address, or nil
	labels map[peer.ID]string
	t0     time.Time
	down   bool
}

func c11NewSys(cfg *c11Cfg) *c11Sys {
	sy := &c11Sys{cfg: cfg, labels: map[peer.ID]string{}, t0: time.Now()}
	real, err := rcmgr.NewResourceManager(rcmgr.NewFixedLimiter(rcmgr.InfiniteLimits), rcmgr.WithMetricsDisabled())
	if err != nil {
		panic("c11: rcmgr: " + err.Error())
	}
	sy.realRM = real
	sy.rm = &c11Rcmgr{ResourceManager: real, counts: map[string]int{}, refuse: map[string]int{}}
	// watermarks far above the population (nothing is ever trimmed); the periodic trim check and the decaying-tag
	// sweep are irrelevant here and slowed down so that an hour of virtual time does not cost hundreds of wake-ups
	sy.cm, err = bconnmgr.NewConnManager(1000, 2000, bconnmgr.WithGracePeriod(time.Hour), bconnmgr.WithSilencePeriod(time.Hour),
		bconnmgr.DecayerConfig(&bconnmgr.DecayerCfg{Resolution: time.Hour}))
	if err != nil {
		panic("c11: connmgr: " + err.Error())
	}
	sy.ps, err = pstoremem.NewPeerstore()
	if err != nil {
		panic("c11: peerstore: " + err.Error())
	}
	rid := c11Identity("relay")
	sy.labels[rid.id] = "relay"
	if err := sy.ps.AddPrivKey(rid.id, rid.priv); err != nil {
		panic(err)
	}
	if err := sy.ps.AddPubKey(rid.id, rid.priv.GetPublic()); err != nil {
		panic(err)
	}
	sy.net = &c11Net{local: rid.id, rm: sy.rm, ps: sy.ps}
	sy.host = &c11Host{ident: rid, ps: sy.ps, net: sy.net, cm: sy.cm, handlers: map[protocol.ID]network.StreamHandler{},
		addrs: []ma.Multiaddr{ma.StringCast("/ip4/203.0.113.1/tcp/4001"), ma.StringCast("/ip4/192.168.1.1/tcp/4001")}}
	sy.net.Notify(sy.cm.Notifee()) // as BasicHost does
	r2 := c11Identity("relay2")
	for _, cs := range cfg.Clients {
		id := c11Identity(cs.Label)
		sy.ids = append(sy.ids, id)
		sy.labels[id.id] = cs.Label
		var as []ma.Multiaddr
		for _, a := range cs.Addrs {
			as = append(as, ma.StringCast(strings.ReplaceAll(a.Addr, "%R2", r2.id.String())))
		}
		sy.addrs = append(sy.addrs, as)
		sy.conns = append(sy.conns, make([]*c11Conn, len(cs.Addrs)))
	}
	opts := []Option{WithResources(cfg.RC)}
	if cfg.UseACL {
		acl := &c11ACL{denyReserve: map[peer.ID]bool{}, denyConnect: map[[2]peer.ID]bool{}}
		for _, c := range cfg.DenyReserve {
			acl.denyReserve[sy.ids[c].id] = true
		}
		for _, pr := range cfg.DenyConnect {
			acl.denyConnect[[2]peer.ID{sy.ids[pr[0]].id, sy.ids[pr[1]].id}] = true
		}
		sy.acl = acl
		opts = append(opts, WithACL(acl))
	}
	sy.relay, err = New(sy.host, opts...)
	if err != nil {
		panic("c11: relay.New: " + err.Error())
	}
	synctest.Wait()
	return sy
}

// shutdown ends everything the instance started so that the bubble can end. Idempotent.
func (sy *c11Sys) shutdown() {
	if sy.down {
		return
	}
	sy.down = true
	sy.relay.Close()
	for _, c := range sy.net.Conns() {
		c.Close()
	}
	synctest.Wait()
	sy.cm.Close()
	sy.realRM.Close()
	sy.ps.Close()
	synctest.Wait()
}

func (sy *c11Sys) label(p peer.ID) string {
	if l, ok := sy.labels[p]; ok {
		return l
	}
	return "?" + p.String()
}

// dial makes sure the client has an open connection from its address a; returns it.
func (sy *c11Sys) dial(c, a int) *c11Conn {
	if x := sy.conns[c][a]; x != nil && !x.IsClosed() {
		return x
	}
	as := sy.cfg.Clients[c].Addrs[a]
	x := sy.net.openConn(sy.ids[c], sy.addrs[c][a], as.Relayed && !as.Unlimited)
	sy.conns[c][a] = x
	return x
}

func (sy *c11Sys) connOpen(c, a int) bool {
	x := sy.conns[c][a]
	return x != nil && !x.IsClosed()
}

func (sy *c11Sys) hasDirect(c int) bool {
	for a := range sy.conns[c] {
		if sy.connOpen(c, a) && !sy.cfg.Clients[c].Addrs[a].Relayed {
			return true
		}
	}
	return false
}

func (sy *c11Sys) dropConn(c, a int) {
	if x := sy.conns[c][a]; x != nil {
		x.Close()
		sy.conns[c][a] = nil
	}
	synctest.Wait()
}

func (sy *c11Sys) disconnect(c int) {
	for a := range sy.conns[c] {
		if x := sy.conns[c][a]; x != nil {
			x.Close()
			sy.conns[c][a] = nil
		}
	}
	synctest.Wait()
}

// ---------- white-box observation ----------

type c11Obs struct {
	Rsvp   map[string]string // label -> remaining ("exp" once expired)
	Conns  map[string]int
	Total  []string
	IPs    map[string][]string
	ASNs   map[string][]string
	Tags   map[string]string // label -> sorted tags ("-" when the connection manager does not know the peer)
	SvcMem int64
	SvcIn  int
	SvcOut int
	SysMem int64
	SysIn  int
	SysOut int
}

func c11Rem(t, now time.Time) string {
	if t.Before(now) {
		return "exp"
	}
	return t.Sub(now).String()
}

func (sy *c11Sys) observe() *c11Obs {
	now := time.Now()
	o := &c11Obs{Rsvp: map[string]string{}, Conns: map[string]int{}, IPs: map[string][]string{}, ASNs: map[string][]string{}, Tags: map[string]string{}}
	r := sy.relay
	r.mx.Lock()
	for p, e := range r.rsvp {
		o.Rsvp[sy.label(p)] = c11Rem(e, now)
	}
	for p, n := range r.conns {
		o.Conns[sy.label(p)] = n
	}
	r.mx.Unlock()
	c := r.constraints
	c.mutex.Lock()
	for _, pe := range c.total {
		o.Total = append(o.Total, sy.label(pe.Peer)+":"+c11Rem(pe.Expiry, now))
	}
	sort.Strings(o.Total)
	for ip, l := range c.ips {
		var x []string
		for _, pe := range l {
			x = append(x, sy.label(pe.Peer)+":"+c11Rem(pe.Expiry, now))
		}
		sort.Strings(x)
		o.IPs[ip] = x
	}
	for asn, l := range c.asns {
		var x []string
		for _, pe := range l {
			x = append(x, sy.label(pe.Peer)+":"+c11Rem(pe.Expiry, now))
		}
		sort.Strings(x)
		o.ASNs[fmt.Sprint(asn)] = x
	}
	c.mutex.Unlock()
	for _, id := range sy.ids {
		o.Tags[id.label] = sy.tags(id.id)
	}
	sy.realRM.ViewService(ServiceName, func(s network.ServiceScope) error {
		st := s.Stat()
		o.SvcMem, o.SvcIn, o.SvcOut = st.Memory, st.NumStreamsInbound, st.NumStreamsOutbound
		return nil
	})
	sy.realRM.ViewSystem(func(s network.ResourceScope) error {
		st := s.Stat()
		o.SysMem, o.SysIn, o.SysOut = st.Memory, st.NumStreamsInbound, st.NumStreamsOutbound
		return nil
	})
	return o
}

func (sy *c11Sys) tags(p peer.ID) string {
	ti := sy.cm.GetTagInfo(p)
	if ti == nil {
		return "-"
	}
	var t []string
	for k, v := range ti.Tags {
		t = append(t, fmt.Sprintf("%s=%d", k, v))
	}
	sort.Strings(t)
	return "[" + strings.Join(t, " ") + "]"
}

func (sy *c11Sys) hasTag(p peer.ID, tag string) bool {
	ti := sy.cm.GetTagInfo(p)
	if ti == nil {
		return false
	}
	_, ok := ti.Tags[tag]
	return ok
}

func c11SortedMap[V any](m map[string]V) string {
	ks := make([]string, 0, len(m))
	for k := range m {
		ks = append(ks, k)
	}
	sort.Strings(ks)
	var sb strings.Builder
	for _, k := range ks {
		fmt.Fprintf(&sb, "%s=%v;", k, m[k])
	}
	return sb.String()
}

func (o *c11Obs) String() string {
	return fmt.Sprintf("rsvp{%s} conns{%s} total%v ips{%s} asns{%s} tags{%s} svc(mem=%d in=%d out=%d) sys(mem=%d in=%d out=%d)",
		c11SortedMap(o.Rsvp), c11SortedMap(o.Conns), o.Total, c11SortedMap(o.IPs), c11SortedMap(o.ASNs), c11SortedMap(o.Tags),
		o.SvcMem, o.SvcIn, o.SvcOut, o.SysMem, o.SysIn, o.SysOut)
}

// counters is the part of the observation the last sentence of the statement is about: circuit counters,
// connection-manager tags, reserved memory.
func (o *c11Obs) counters() string {
	return fmt.Sprintf("conns{%s} tags{%s} svcmem=%d", c11SortedMap(o.Conns), c11SortedMap(o.Tags), o.SvcMem)
}

// ---------- scripted protocol steps ----------

type c11Reply struct {
	Got    bool        // a well-formed HopMessage of type STATUS arrived
	Status pbv2.Status // its status
	Msg    *pbv2.HopMessage
	Raw    []byte // wire bytes of that message
	Stream string // state of the hop stream afterwards
	Err    string // parse problem, if any
}

func (r c11Reply) class() string {
	if r.Got {
		return r.Status.String()
	}
	if r.Err != "" {
		return "unparsable-reply"
	}
	return "no-reply(" + r.Stream + ")"
}

func c11ReadHopReply(s *c11Stream) c11Reply {
	var m pbv2.HopMessage
	ok, raw, err := s.hRecvMsg(&m)
	rep := c11Reply{Stream: s.state()}
	if err != nil {
		rep.Err = err.Error()
		return rep
	}
	if !ok {
		return rep
	}
	if m.GetType() != pbv2.HopMessage_STATUS {
		rep.Err = "reply is not a STATUS message: " + m.GetType().String()
		return rep
	}
	rep.Got, rep.Status, rep.Msg, rep.Raw = true, m.GetStatus(), &m, raw
	return rep
}

// reserve: client c sends RESERVE over its connection from address a and reads the answer.
func (sy *c11Sys) reserve(c, a int) (c11Reply, *c11Stream) {
	conn := sy.dial(c, a)
	s := sy.host.inbound(conn, circuitproto.ProtoIDv2Hop)
	s.hSendMsg(&pbv2.HopMessage{Type: pbv2.HopMessage_RESERVE.Enum()})
	synctest.Wait()
	rep := c11ReadHopReply(s)
	s.hCloseWrite() // the real client closes the stream after reading the answer
	synctest.Wait()
	return rep, s
}

// c11Circuit is an established (or attempted) circuit as the harness sees it.
type c11Circuit struct {
	Src, Dst int
	Hop      *c11Stream // source leg
	Stop     *c11Stream // destination leg
	MemDelta int64      // service-scope memory the circuit holds (measured when it opened)
}

// connectStart sends CONNECT(dst) from src's address a. Returns the hop stream.
func (sy *c11Sys) connectStart(src, a, dst int) *c11Stream {
	conn := sy.dial(src, a)
	s := sy.host.inbound(conn, circuitproto.ProtoIDv2Hop)
	s.hSendMsg(&pbv2.HopMessage{Type: pbv2.HopMessage_CONNECT.Enum(), Peer: util.PeerInfoToPeerV2(peer.AddrInfo{ID: sy.ids[dst].id})})
	synctest.Wait()
	return s
}

// ---------- voucher check through the REAL client code ----------

type c11ReplayHost struct {
	host.Host // nil
	id        peer.ID
	resp      []byte
}

func (h *c11ReplayHost) ID() peer.ID { return h.id }
func (h *c11ReplayHost) NewStream(context.Context, peer.ID, ...protocol.ID) (network.Stream, error) {
	return &c11ReplayStream{r: bytes.NewReader(h.resp)}, nil
}

type c11ReplayStream struct {
	network.Stream // nil
	r              *bytes.Reader
}

func (s *c11ReplayStream) Read(p []byte) (int, error)       { return s.r.Read(p) }
func (s *c11ReplayStream) Write(p []byte) (int, error)      { return len(p), nil }
func (s *c11ReplayStream) Close() error                     { return nil }
func (s *c11ReplayStream) Reset() error                     { return nil }
func (s *c11ReplayStream) SetDeadline(time.Time) error      { return nil }
func (s *c11ReplayStream) SetReadDeadline(time.Time) error  { return nil }
func (s *c11ReplayStream) SetWriteDeadline(time.Time) error { return nil }

type c11VerifyResult struct {
	res *client.Reservation
	err error
}

var (
	c11VerifyMu    sync.Mutex
	c11VerifyCache = map[[32]byte]c11VerifyResult{}
)

// c11ClientVerify runs the real client.Reserve as peer `as` against the recorded response. client.Reserve is
// a function of (own ID, response bytes, current time) only, and the relay's responses are deterministic
// (Ed25519), so results are memoised on exactly those inputs: replaying a history prefix does not pay for
// the signature check again.
func c11ClientVerify(as peer.ID, relayID peer.ID, raw []byte) (*client.Reservation, error) {
	h := sha256.New()
	h.Write([]byte(as))
	h.Write([]byte(relayID))
	fmt.Fprintf(h, "|%d|", time.Now().UnixNano())
	h.Write(raw)
	var k [32]byte
	copy(k[:], h.Sum(nil))
	c11VerifyMu.Lock()
	v, ok := c11VerifyCache[k]
	c11VerifyMu.Unlock()
	if ok {
		return v.res, v.err
	}
	res, err := client.Reserve(context.Background(), &c11ReplayHost{id: as, resp: raw}, peer.AddrInfo{ID: relayID})
	c11VerifyMu.Lock()
	if len(c11VerifyCache) < 1<<16 {
		c11VerifyCache[k] = c11VerifyResult{res, err}
	}
	c11VerifyMu.Unlock()
	return res, err
}

// c11CheckVoucher: the response to an accepted RESERVE must carry a voucher the real client accepts for
// exactly the reserving peer, signed by this relay. Returns (key, description) of a violation or "".
func (sy *c11Sys) checkVoucher(c int, rep c11Reply) (string, string) {
	me, relayID := sy.ids[c].id, sy.host.ID()
	res, err := c11ClientVerify(me, relayID, rep.Raw)
	if err != nil {
		return "voucher-rejected-by-client", fmt.Sprintf("client.Reserve run as %s on the relay's OK response fails: %v", sy.ids[c].label, err)
	}
	if res.Voucher == nil {
		return "voucher-missing", fmt.Sprintf("OK response to %s carries no voucher", sy.ids[c].label)
	}
	if res.Voucher.Relay != relayID {
		return "voucher-not-signed-by-relay", fmt.Sprintf("voucher names relay %s, this relay is %s", sy.label(res.Voucher.Relay), "relay")
	}
	if res.Voucher.Peer != me {
		return "voucher-for-wrong-peer", fmt.Sprintf("voucher names peer %s, the reserving peer is %s", sy.label(res.Voucher.Peer), sy.ids[c].label)
	}
	if got, want := res.Voucher.Expiration.Unix(), int64(rep.Msg.GetReservation().GetExpire()); got != want {
		return "voucher-expiration-mismatch", fmt.Sprintf("voucher expiration %d differs from the reservation's expire %d", got, want)
	}
	// "for exactly the reserving peer": any other peer presenting the same response must be turned down
	for i, other := range sy.ids {
		if i == c {
			continue
		}
		if _, err := c11ClientVerify(other.id, relayID, rep.Raw); err == nil {
			return "voucher-accepted-for-other-peer", fmt.Sprintf("the response given to %s verifies for %s as well", sy.ids[c].label, other.label)
		}
		break // one foreign peer is enough
	}
	return "", ""
}
