//go:build verif

package relay

// C11 part "histories" (engine E1, seqmc): breadth-first search over histories of RESERVE / CONNECT requests,
// circuit closes, disconnects, expiries and collections against a REAL relay; every transition is checked
// against a model of the STATEMENT (implications only) and a set of quiescent-state invariants.

import (
	"fmt"
	"net"
	"os"
	"sort"
	"strconv"
	"strings"
	"testing"
	"testing/synctest"
	"time"

	asnutil "github.com/libp2p/go-libp2p-asn-util"
	pbv2 "github.com/libp2p/go-libp2p/p2p/protocol/circuitv2/pb"
	"github.com/libp2p/go-libp2p/x/verif/seqmc"
	"github.com/libp2p/go-libp2p/x/verif/vrep"
)

const (
	c11Tick         = time.Minute // the relay collects once a minute (Relay.background)
	c11ResTag       = "relay-reservation"
	c11AdvanceExtra = time.Second
)

type c11OpKind int

const (
	c11OpReserve c11OpKind = iota
	c11OpConnect
	c11OpCloseCircuit
	c11OpDisconnect
	c11OpDropConn
	c11OpAdvanceTTL
	c11OpTick
	c11OpCloseRelay
	// CONNECT during whose ACL lookup the destination disconnects and comes back WITHOUT reserving again (configurations
	// with an ACL only): by the time the ACL has answered the destination holds no reservation
	c11OpConnectBounce
)

type c11Op struct {
	K       c11OpKind
	C, A, D int
}

type c11Rsv struct {
	Addr           int
	Expiry         time.Time
	RefusedRefresh bool // a later RESERVE of the same peer was refused while this reservation was live
}

type c11Inst struct {
	sy          *c11Sys
	rsv         map[int]*c11Rsv // reservations the statement lets the relay honour
	ended       map[int]string  // why the client's last reservation ended
	circuits    []*c11Circuit
	baseMem     int64
	relayClosed bool
	key         string
	dead        bool
	out         func(string) // outcome-class recorder (may be nil)
}

func (in *c11Inst) outcome(f string, a ...any) {
	if in.out != nil {
		in.out(fmt.Sprintf(f, a...))
	}
}

func c11NewInst(cfg *c11Cfg) *c11Inst {
	in := &c11Inst{sy: c11NewSys(cfg), rsv: map[int]*c11Rsv{}, ended: map[int]string{}}
	o := in.sy.observe()
	in.baseMem = o.SvcMem
	in.key = in.computeKey(o)
	return in
}

func (in *c11Inst) showOp(o c11Op) string { return c11ShowOp(in.sy.cfg, o) }

func c11ShowOp(cfg *c11Cfg, o c11Op) string {
	cl := func(i int) string { return cfg.Clients[i].Label }
	ad := func(c, a int) string { return cl(c) + "@" + cfg.Clients[c].Addrs[a].Name }
	switch o.K {
	case c11OpReserve:
		return "Reserve(" + ad(o.C, o.A) + ")"
	case c11OpConnect:
		return "Connect(" + ad(o.C, o.A) + "->" + cl(o.D) + ")"
	case c11OpCloseCircuit:
		return "CloseCircuit(" + cl(o.C) + "->" + cl(o.D) + ")"
	case c11OpDisconnect:
		return "Disconnect(" + cl(o.C) + ")"
	case c11OpDropConn:
		return "DropConn(" + ad(o.C, o.A) + ")"
	case c11OpAdvanceTTL:
		return fmt.Sprintf("Advance(%s)", cfg.RC.ReservationTTL+c11AdvanceExtra)
	case c11OpTick:
		return fmt.Sprintf("Advance(%s)", c11Tick)
	case c11OpCloseRelay:
		return "CloseRelay"
	case c11OpConnectBounce:
		return "Connect(" + ad(o.C, o.A) + "->" + cl(o.D) + "; during the ACL lookup " + cl(o.D) + " disconnects and reconnects without reserving)"
	}
	return "?"
}

func (in *c11Inst) ops() []c11Op {
	if in.relayClosed || in.dead {
		return nil
	}
	cfg := in.sy.cfg
	var ops []c11Op
	for c, cs := range cfg.Clients {
		for a := range cs.Addrs {
			ops = append(ops, c11Op{K: c11OpReserve, C: c, A: a})
		}
	}
	for c, cs := range cfg.Clients {
		for a, as := range cs.Addrs {
			if as.ReserveOnly {
				continue
			}
			for d := range cfg.Clients {
				if d != c {
					ops = append(ops, c11Op{K: c11OpConnect, C: c, A: a, D: d})
				}
			}
		}
	}
	seen := map[[2]int]bool{}
	for _, ci := range in.circuits {
		k := [2]int{ci.Src, ci.Dst}
		if !seen[k] {
			seen[k] = true
			ops = append(ops, c11Op{K: c11OpCloseCircuit, C: ci.Src, D: ci.Dst})
		}
	}
	for c, cs := range cfg.Clients {
		open := 0
		for a := range cs.Addrs {
			if in.sy.connOpen(c, a) {
				open++
			}
		}
		if open >= 1 {
			ops = append(ops, c11Op{K: c11OpDisconnect, C: c})
		}
		if open >= 2 {
			for a := range cs.Addrs {
				if in.sy.connOpen(c, a) {
					ops = append(ops, c11Op{K: c11OpDropConn, C: c, A: a})
				}
			}
		}
	}
	if in.sy.acl != nil {
		// one source per destination that holds a reservation (the point is the destination's reservation)
		for d := range cfg.Clients {
			if in.rsv[d] == nil || cfg.Clients[d].Addrs[0].Relayed {
				continue
			}
			for c, cs := range cfg.Clients {
				if c != d && !cs.Addrs[0].Relayed && !cs.Addrs[0].ReserveOnly {
					ops = append(ops, c11Op{K: c11OpConnectBounce, C: c, A: 0, D: d})
					break
				}
			}
		}
	}
	ops = append(ops, c11Op{K: c11OpAdvanceTTL}, c11Op{K: c11OpTick}, c11Op{K: c11OpCloseRelay})
	return ops
}

func (in *c11Inst) circuitsOf(c int) int {
	n := 0
	for _, ci := range in.circuits {
		if ci.Src == c {
			n++
		}
		if ci.Dst == c {
			n++
		}
	}
	return n
}

func (in *c11Inst) aclDeniesReserve(c int) bool {
	if !in.sy.cfg.UseACL {
		return false
	}
	for _, x := range in.sy.cfg.DenyReserve {
		if x == c {
			return true
		}
	}
	return false
}

func (in *c11Inst) aclDeniesConnect(s, d int) bool {
	if !in.sy.cfg.UseACL {
		return false
	}
	for _, x := range in.sy.cfg.DenyConnect {
		if x == [2]int{s, d} {
			return true
		}
	}
	return false
}

// endReservationsOfDisconnected: "reservations disappear when that peer disconnects" - a peer without a
// direct connection to the relay is disconnected (a limited, i.e. relayed, connection does not count:
// Connectedness is then Limited, not Connected).
func (in *c11Inst) endReservationsOfDisconnected() {
	for c := range in.sy.cfg.Clients {
		if _, ok := in.rsv[c]; ok && !in.sy.hasDirect(c) {
			delete(in.rsv, c)
			in.ended[c] = "disconnect"
		}
	}
}

// dropDeadCircuits: circuits one of whose legs ran over a connection that is now closed are over.
func (in *c11Inst) dropDeadCircuits() {
	var keep []*c11Circuit
	for _, ci := range in.circuits {
		if ci.Hop.conn.IsClosed() || ci.Stop.conn.IsClosed() {
			continue
		}
		keep = append(keep, ci)
	}
	in.circuits = keep
}

// checkCaps: "reservations are granted only within the total, per-IP and per-ASN caps". Counted are the
// reservations that were granted, have not expired, whose holder has not disconnected and which the relay
// itself still lists (Relay.rsvp) - i.e. reservations the relay honours right now - by the address each was
// (last successfully) made from.
func (in *c11Inst) checkCaps(now time.Time, o *c11Obs) error {
	cfg := in.sy.cfg
	total, perIP, perASN := 0, map[string]int{}, map[int]int{}
	var parts []string
	afterRefused := false
	for c := range cfg.Clients {
		r := in.rsv[c]
		if r == nil || r.Expiry.Before(now) {
			continue
		}
		if _, listed := o.Rsvp[cfg.Clients[c].Label]; !listed {
			continue
		}
		as := cfg.Clients[c].Addrs[r.Addr]
		total++
		perIP[as.IP]++
		if as.ASN != 0 {
			perASN[as.ASN]++
		}
		afterRefused = afterRefused || r.RefusedRefresh
		parts = append(parts, fmt.Sprintf("%s from %s (ip %s asn-class %d)", cfg.Clients[c].Label, as.Name, as.IP, as.ASN))
	}
	var over []string
	if total > cfg.RC.MaxReservations {
		over = append(over, fmt.Sprintf("total %d > MaxReservations %d", total, cfg.RC.MaxReservations))
	}
	ips := make([]string, 0, len(perIP))
	for ip := range perIP {
		ips = append(ips, ip)
	}
	sort.Strings(ips)
	for _, ip := range ips {
		if perIP[ip] > cfg.RC.MaxReservationsPerIP {
			over = append(over, fmt.Sprintf("%d from IP %s > MaxReservationsPerIP %d", perIP[ip], ip, cfg.RC.MaxReservationsPerIP))
		}
	}
	for asn := 1; asn <= 4; asn++ {
		if perASN[asn] > cfg.RC.MaxReservationsPerASN {
			over = append(over, fmt.Sprintf("%d from ASN class %d > MaxReservationsPerASN %d", perASN[asn], asn, cfg.RC.MaxReservationsPerASN))
		}
	}
	if len(over) == 0 {
		return nil
	}
	key := "reservation-caps-exceeded"
	if afterRefused {
		key = "reservation-caps-exceeded-after-refused-refresh"
	}
	return seqmc.Violation(key, "RESERVE answered OK although the relay then honours: %s - %s; relay state: %s", strings.Join(parts, "; "), strings.Join(over, ", "), o)
}

func (in *c11Inst) apply(op c11Op) (*c11Obs, error) {
	sy, cfg := in.sy, in.sy.cfg
	var last *c11Obs
	lbl := func(c int) string { return cfg.Clients[c].Label }
	switch op.K {
	case c11OpReserve:
		as := cfg.Clients[op.C].Addrs[op.A]
		sy.dial(op.C, op.A)
		before := sy.observe()
		rep, _ := sy.reserve(op.C, op.A)
		after := sy.observe()
		last = after
		now := time.Now()
		in.outcome("RESERVE -> %s", rep.class())
		if rep.Got && rep.Status == pbv2.Status_OK {
			if as.Relayed {
				return last, seqmc.Violation("reserve-ok-over-relayed-connection", "%s reserved over %s", lbl(op.C), sy.addrs[op.C][op.A])
			}
			if in.aclDeniesReserve(op.C) {
				return last, seqmc.Violation("reserve-ok-acl-denied", "the ACL refuses reservations of %s, RESERVE was answered OK", lbl(op.C))
			}
			in.rsv[op.C] = &c11Rsv{Addr: op.A, Expiry: now.Add(cfg.RC.ReservationTTL)}
			delete(in.ended, op.C)
			if err := in.checkCaps(now, after); err != nil {
				return last, err
			}
			if k, d := sy.checkVoucher(op.C, rep); k != "" {
				return last, seqmc.Violation(k, "%s", d)
			}
		} else {
			if r := in.rsv[op.C]; r != nil {
				r.RefusedRefresh = true
			}
			if b, a := before.counters(), after.counters(); a != b {
				return last, seqmc.Violation("refused-reserve-changed-counters", "RESERVE of %s answered %s, but counters/tags/memory changed: before %s after %s", lbl(op.C), rep.class(), b, a)
			}
		}
	case c11OpConnect, c11OpConnectBounce:
		as := cfg.Clients[op.C].Addrs[op.A]
		sy.dial(op.C, op.A)
		if !sy.hasDirect(op.D) && !cfg.Clients[op.D].Addrs[0].Relayed {
			sy.dial(op.D, 0) // the destination is online (it may have come back without reserving again)
		}
		before := sy.observe()
		nOut := sy.host.outboundCount()
		var release func()
		if op.K == c11OpConnectBounce {
			release = sy.acl.arm()
		}
		hop := sy.connectStart(op.C, op.A, op.D)
		if release != nil {
			if sy.acl.wasParked() {
				// the handler waits for the ACL's answer: the destination goes away and comes back, then the ACL answers
				in.outcome("CONNECT: destination bounced during the ACL lookup")
				inflight := sy.observe().SvcMem - before.SvcMem // what the waiting handler holds for its own request
				sy.disconnect(op.D)
				in.dropDeadCircuits()
				in.endReservationsOfDisconnected()
				sy.dial(op.D, 0)
				// the reference for "a refused CONNECT changes nothing" is the state after the bounce, without the
				// memory the handler that is waiting for the ACL holds for its own (unfinished) request
				before = sy.observe()
				before.SvcMem -= inflight
				nOut = sy.host.outboundCount()
			} else {
				in.outcome("CONNECT: answered without consulting the ACL")
			}
			release()
			synctest.Wait()
		}
		var stop *c11Stream
		stopOK := false
		if sy.host.outboundCount() > nOut {
			stop = sy.host.outboundAt(nOut)
			var sm pbv2.StopMessage
			ok, _, err := stop.hRecvMsg(&sm)
			if err == nil && ok && sm.GetType() == pbv2.StopMessage_CONNECT {
				if stop.conn.remote != sy.ids[op.D] {
					return last, seqmc.Violation("stop-stream-to-wrong-peer", "CONNECT(%s->%s): the relay opened the stop stream to %s", lbl(op.C), lbl(op.D), stop.conn.remote.label)
				}
				if string(sm.GetPeer().GetId()) != string(sy.ids[op.C].id) {
					return last, seqmc.Violation("stop-connect-names-wrong-source", "CONNECT(%s->%s): STOP CONNECT names another source", lbl(op.C), lbl(op.D))
				}
				stop.hSendMsg(&pbv2.StopMessage{Type: pbv2.StopMessage_STATUS.Enum(), Status: pbv2.Status_OK.Enum()})
				stopOK = true
				synctest.Wait()
			}
		}
		rep := c11ReadHopReply(hop)
		after := sy.observe()
		last = after
		in.outcome("CONNECT -> %s", rep.class())
		if rep.Got && rep.Status == pbv2.Status_OK {
			what := fmt.Sprintf("CONNECT(%s@%s->%s) answered OK", lbl(op.C), as.Name, lbl(op.D))
			if r := in.rsv[op.D]; r == nil {
				switch in.ended[op.D] {
				case "disconnect":
					return last, seqmc.Violation("connect-ok-after-disconnect", "%s although %s disconnected after reserving and has not reserved since", what, lbl(op.D))
				case "collection":
					return last, seqmc.Violation("connect-ok-after-collection", "%s although the reservation of %s expired and a collection has run since", what, lbl(op.D))
				case "relay-closed":
					return last, seqmc.Violation("connect-ok-after-close", "%s although the relay was closed", what)
				}
				return last, seqmc.Violation("connect-ok-without-reservation", "%s although %s holds no reservation", what, lbl(op.D))
			} else if cfg.Clients[op.D].Addrs[r.Addr].Relayed {
				return last, seqmc.Violation("connect-ok-to-relayed-destination", "%s, the destination reserved over a relayed connection", what)
			}
			if as.Relayed {
				return last, seqmc.Violation("connect-ok-from-relayed-source", "%s, the source reached the relay over %s", what, sy.addrs[op.C][op.A])
			}
			if in.aclDeniesConnect(op.C, op.D) {
				return last, seqmc.Violation("connect-ok-acl-denied", "%s, the ACL refuses this pair", what)
			}
			if s, d := in.circuitsOf(op.C), in.circuitsOf(op.D); s >= cfg.RC.MaxCircuits || d >= cfg.RC.MaxCircuits {
				return last, seqmc.Violation("connect-ok-over-max-circuits", "%s, but the source already has %d and the destination %d open circuits (MaxCircuits %d)", what, s, d, cfg.RC.MaxCircuits)
			}
			if !stopOK {
				return last, seqmc.Violation("connect-ok-without-stop-handshake", "%s, but the destination never accepted a STOP CONNECT", what)
			}
			in.circuits = append(in.circuits, &c11Circuit{Src: op.C, Dst: op.D, Hop: hop, Stop: stop, MemDelta: after.SvcMem - before.SvcMem})
		} else {
			if b, a := before.counters(), after.counters(); a != b {
				return last, seqmc.Violation("failed-connect-changed-counters", "CONNECT(%s->%s) answered %s, but counters/tags/memory changed: before %s after %s", lbl(op.C), lbl(op.D), rep.class(), b, a)
			}
			hop.hCloseWrite()
			if stop != nil {
				stop.hReset()
			}
			synctest.Wait()
			last = nil
		}
	case c11OpCloseCircuit:
		for i, ci := range in.circuits {
			if ci.Src == op.C && ci.Dst == op.D {
				ci.Hop.hCloseWrite()
				ci.Stop.hCloseWrite()
				synctest.Wait()
				in.circuits = append(in.circuits[:i:i], in.circuits[i+1:]...)
				break
			}
		}
	case c11OpDisconnect:
		sy.disconnect(op.C)
		in.dropDeadCircuits()
		in.endReservationsOfDisconnected()
	case c11OpDropConn:
		sy.dropConn(op.C, op.A)
		in.dropDeadCircuits()
		in.endReservationsOfDisconnected()
	case c11OpAdvanceTTL, c11OpTick:
		d := c11Tick
		if op.K == c11OpAdvanceTTL {
			d = cfg.RC.ReservationTTL + c11AdvanceExtra
		}
		time.Sleep(d)
		synctest.Wait()
		now := time.Now()
		// "disappear at the next collection, once expired": a reservation that had been expired for a whole
		// collection period has seen a collection.
		for c, r := range in.rsv {
			if r.Expiry.Before(now.Add(-c11Tick)) {
				delete(in.rsv, c)
				in.ended[c] = "collection"
			}
		}
		if cfg.RC.Limit != nil && d >= cfg.RC.Limit.Duration {
			for _, ci := range in.circuits {
				if !ci.Hop.relayDone() || !ci.Stop.relayDone() {
					return last, seqmc.Violation("circuit-open-after-duration", "circuit %s->%s: %s after it was opened (Limit.Duration %s) the relay has not closed both legs: source leg %s, destination leg %s",
						lbl(ci.Src), lbl(ci.Dst), d, cfg.RC.Limit.Duration, ci.Hop.state(), ci.Stop.state())
				}
			}
			in.circuits = nil
		}
	case c11OpCloseRelay:
		sy.relay.Close()
		synctest.Wait()
		for c := range in.rsv {
			delete(in.rsv, c)
			in.ended[c] = "relay-closed"
		}
		in.relayClosed = true
	}
	if last == nil {
		last = sy.observe()
	}
	return last, in.invariants(last)
}

func c11TagIn(tags, tag string) bool {
	return strings.Contains(tags, "["+tag+"=") || strings.Contains(tags, " "+tag+"=")
}

// invariants holds at every quiescent state.
func (in *c11Inst) invariants(o *c11Obs) error {
	cfg := in.sy.cfg
	// circuit counters = open circuits per peer (as source or destination)
	known := map[string]bool{}
	for c, cs := range cfg.Clients {
		known[cs.Label] = true
		if got, want := o.Conns[cs.Label], in.circuitsOf(c); got != want {
			return seqmc.Violation("circuit-counter-mismatch", "Relay.conns[%s] = %d with %d open circuits of that peer; %s", cs.Label, got, want, o)
		}
	}
	for l, n := range o.Conns {
		if !known[l] && n != 0 {
			return seqmc.Violation("circuit-counter-mismatch", "Relay.conns[%s] = %d for a peer that is not part of the system", l, n)
		}
	}
	for c, cs := range cfg.Clients {
		if in.circuitsOf(c) == 0 && c11TagIn(o.Tags[cs.Label], relayHopTag) {
			return seqmc.Violation("hop-tag-left-without-circuit", "%s has no open circuit but still carries the tag %q; %s", cs.Label, relayHopTag, o)
		}
		if _, live := in.rsv[c]; !live {
			why := in.ended[c]
			if _, listed := o.Rsvp[cs.Label]; listed && why != "" {
				return seqmc.Violation("reservation-kept-after-"+why, "the reservation of %s ended (%s) but Relay.rsvp still lists it; %s", cs.Label, why, o)
			}
			if c11TagIn(o.Tags[cs.Label], c11ResTag) {
				if why == "" {
					why = "never-granted"
				}
				return seqmc.Violation("reservation-tag-left-after-"+why, "%s holds no reservation (%s) but still carries the tag %q; %s", cs.Label, why, c11ResTag, o)
			}
		}
	}
	want := in.baseMem
	for _, ci := range in.circuits {
		want += ci.MemDelta
	}
	// (Relay.Close releases the relay's whole span; what circuits that are still running hold is then no longer
	// accounted - the statement says nothing about a closed relay, so memory is not compared after CloseRelay)
	if o.SvcMem != want && !in.relayClosed {
		return seqmc.Violation("service-memory-not-restored", "relay service scope holds %d bytes, expected %d (%d at start + what the %d open circuits reserved when they opened); %s", o.SvcMem, want, in.baseMem, len(in.circuits), o)
	}
	return nil
}

func (in *c11Inst) computeKey(o *c11Obs) string {
	sy, cfg := in.sy, in.sy.cfg
	if o == nil {
		o = sy.observe()
	}
	now := time.Now()
	var sb strings.Builder
	for c, cs := range cfg.Clients {
		fmt.Fprintf(&sb, "%s:", cs.Label)
		if r := in.rsv[c]; r != nil {
			fmt.Fprintf(&sb, "rsv(%s,%s,%v)", cs.Addrs[r.Addr].Name, c11Rem(r.Expiry, now), r.RefusedRefresh)
		} else {
			fmt.Fprintf(&sb, "none(%s)", in.ended[c])
		}
		for a := range cs.Addrs {
			if sy.connOpen(c, a) {
				sb.WriteString("+" + cs.Addrs[a].Name)
			}
		}
		sb.WriteByte(' ')
	}
	var cs []string
	for _, ci := range in.circuits {
		cs = append(cs, fmt.Sprintf("%d>%d/%s/%s/%d", ci.Src, ci.Dst, ci.Hop.conn.raddr, ci.Stop.conn.raddr, ci.MemDelta))
	}
	sort.Strings(cs)
	fmt.Fprintf(&sb, "circuits%v closed=%v phase=%s | ", cs, in.relayClosed, now.Sub(sy.t0)%c11Tick)
	sb.WriteString(o.String())
	// fields a later version adds to the relay or its constraints join the key (see seqmc.ExtraFields)
	sb.WriteString(seqmc.ExtraFields(sy.relay, "ctx", "cancel", "reservationAddrFilter", "host", "rc", "acl", "constraints", "scope", "notifiee",
		"mx", "rsvp", "conns", "closed", "selfAddr", "metricsTracer"))
	sb.WriteString(seqmc.ExtraFields(sy.relay.constraints, "rc", "mutex", "total", "ips", "asns"))
	return sb.String()
}

// Apply wrapper used by the search: keeps the key cached and shuts the instance down as soon as it is of no
// further use, so that no goroutine of the relay outlives the bubble.
func c11Apply(in *c11Inst, op c11Op) (err error) {
	defer func() {
		if r := recover(); r != nil {
			func() {
				defer func() { recover() }()
				in.sy.shutdown()
			}()
			panic(r)
		}
	}()
	if in.dead {
		return nil
	}
	var o *c11Obs
	o, err = in.apply(op)
	in.key = in.computeKey(o)
	if err != nil {
		in.dead = true
		in.sy.shutdown()
	}
	return err
}

// ---------- configurations ----------

func c11Limited() *RelayLimit { return &RelayLimit{Data: 64, Duration: 10 * time.Second} }

func c11HistoryConfigs() []*c11Cfg { return c11HistoryConfigsFor(vrep.Thorough()) }

func c11AllHistoryConfigs() []*c11Cfg { return c11HistoryConfigsFor(true) }

func c11HistoryConfigsFor(thorough bool) []*c11Cfg {
	a4 := func(name, ip string, port int) c11AddrSpec {
		return c11AddrSpec{Name: name, Addr: fmt.Sprintf("/ip4/%s/tcp/%d", ip, port), IP: ip}
	}
	a6 := func(name, ip string, port, asn int) c11AddrSpec {
		return c11AddrSpec{Name: name, Addr: fmt.Sprintf("/ip6/%s/tcp/%d", ip, port), IP: net.ParseIP(ip).String(), ASN: asn}
	}
	ro := func(a c11AddrSpec) c11AddrSpec { a.ReserveOnly = true; return a }
	const ipA, ipB, ipC = "198.51.100.1", "198.51.100.2", "198.51.100.3"
	cfgs := []*c11Cfg{
		{
			Name: "caps-ipv4",
			RC:   Resources{Limit: c11Limited(), ReservationTTL: time.Hour, MaxReservations: 2, MaxCircuits: 1, BufferSize: 16, MaxReservationsPerPeer: 1, MaxReservationsPerIP: 1, MaxReservationsPerASN: 1},
			Clients: []c11ClientSpec{
				{Label: "p1", Addrs: []c11AddrSpec{a4("A", ipA, 4001), ro(a4("B", ipB, 4001))}},
				{Label: "p2", Addrs: []c11AddrSpec{a4("B", ipB, 4002)}},
				{Label: "p3", Addrs: []c11AddrSpec{a4("A", ipA, 4003)}},
			},
		},
		{
			Name: "acl-relayed",
			RC:   Resources{Limit: c11Limited(), ReservationTTL: time.Hour, MaxReservations: 3, MaxCircuits: 1, BufferSize: 16, MaxReservationsPerPeer: 1, MaxReservationsPerIP: 2, MaxReservationsPerASN: 1},
			Clients: []c11ClientSpec{
				{Label: "p1", Addrs: []c11AddrSpec{a4("A", ipA, 4001)}},
				{Label: "p2", Addrs: []c11AddrSpec{a4("B", ipB, 4002), {Name: "via-R2", Addr: "/ip4/192.0.2.9/tcp/4001/p2p/%R2/p2p-circuit", Relayed: true}}},
				{Label: "p3", Addrs: []c11AddrSpec{a4("C", ipC, 4003)}},
			},
			UseACL: true, DenyReserve: []int{2}, DenyConnect: [][2]int{{0, 1}},
		},
		{
			// p2 also reaches the relay through ANOTHER relay that imposes no limits: that connection is relayed (circuit
			// address) but not Limited. "neither party reached the relay through another relay": it must not keep p2's
			// reservation alive once the direct connection is gone, and no circuit may be opened to p2 over it
			Name: "unlimited-other-relay",
			RC:   Resources{Limit: c11Limited(), ReservationTTL: time.Hour, MaxReservations: 3, MaxCircuits: 1, BufferSize: 16, MaxReservationsPerPeer: 1, MaxReservationsPerIP: 2, MaxReservationsPerASN: 1},
			Clients: []c11ClientSpec{
				{Label: "p1", Addrs: []c11AddrSpec{a4("A", ipA, 4001)}},
				{Label: "p2", Addrs: []c11AddrSpec{a4("B", ipB, 4002), {Name: "via-unlimited-R2", Addr: "/ip4/192.0.2.9/tcp/4001/p2p/%R2/p2p-circuit", Relayed: true, Unlimited: true}}},
			},
		},
		{
			Name: "caps-asn-ipv6",
			RC:   Resources{Limit: c11Limited(), ReservationTTL: time.Hour, MaxReservations: 2, MaxCircuits: 1, BufferSize: 16, MaxReservationsPerPeer: 1, MaxReservationsPerIP: 8, MaxReservationsPerASN: 1},
			Clients: []c11ClientSpec{
				{Label: "p1", Addrs: []c11AddrSpec{a4("A", ipA, 4001), ro(a6("X1", "2a03:2880:f003:c07:face:b00c::1", 4001, 1))}},
				{Label: "p2", Addrs: []c11AddrSpec{a6("X2", "2a03:2880:f003:c07:face:b00c::2", 4002, 1)}},
				{Label: "p3", Addrs: []c11AddrSpec{a6("Y1", "2001:4860:4860::8888", 4003, 2)}},
			},
		},
		{
			Name: "unlimited-two-circuits",
			RC:   Resources{Limit: nil, ReservationTTL: time.Hour, MaxReservations: 3, MaxCircuits: 2, BufferSize: 16, MaxReservationsPerPeer: 1, MaxReservationsPerIP: 8, MaxReservationsPerASN: 8},
			Clients: []c11ClientSpec{
				{Label: "p1", Addrs: []c11AddrSpec{a4("A", ipA, 4001)}},
				{Label: "p2", Addrs: []c11AddrSpec{a4("B", ipB, 4002)}},
				{Label: "p3", Addrs: []c11AddrSpec{a4("C", ipC, 4003)}},
			},
		},
	}
	if thorough {
		cfgs = append(cfgs, &c11Cfg{
			Name: "caps-ipv4-perip2",
			RC:   Resources{Limit: c11Limited(), ReservationTTL: time.Hour, MaxReservations: 3, MaxCircuits: 1, BufferSize: 16, MaxReservationsPerPeer: 1, MaxReservationsPerIP: 2, MaxReservationsPerASN: 1},
			Clients: []c11ClientSpec{
				{Label: "p1", Addrs: []c11AddrSpec{a4("A", ipA, 4001), ro(a4("B", ipB, 4001))}},
				{Label: "p2", Addrs: []c11AddrSpec{a4("B", ipB, 4002)}},
				{Label: "p3", Addrs: []c11AddrSpec{a4("B", ipB, 4003)}},
				{Label: "p4", Addrs: []c11AddrSpec{a4("A", ipA, 4004)}},
			},
		})
	}
	return cfgs
}

// c11CheckLabels: the ASN classes written into the configurations must be what asnutil (the relay's oracle
// for ASNs, a trusted dependency) says; otherwise the model would count by something else than the relay.
func c11CheckLabels(cfgs []*c11Cfg) error {
	for _, cfg := range cfgs {
		class := map[int]uint32{}
		for _, cl := range cfg.Clients {
			for _, a := range cl.Addrs {
				if a.Relayed {
					continue
				}
				ip := net.ParseIP(a.IP)
				if ip == nil {
					return fmt.Errorf("%s/%s: bad IP %q", cfg.Name, a.Name, a.IP)
				}
				var asn uint32
				if ip.To4() == nil {
					asn = asnutil.AsnForIPv6(ip)
				}
				if (asn == 0) != (a.ASN == 0) {
					return fmt.Errorf("%s/%s: ASN class %d but asnutil says %d", cfg.Name, a.Name, a.ASN, asn)
				}
				if a.ASN != 0 {
					if prev, ok := class[a.ASN]; ok && prev != asn {
						return fmt.Errorf("%s/%s: ASN class %d maps to both %d and %d", cfg.Name, a.Name, a.ASN, prev, asn)
					}
					class[a.ASN] = asn
				}
			}
		}
		seen := map[uint32]int{}
		for k, v := range class {
			if o, ok := seen[v]; ok && o != k {
				return fmt.Errorf("%s: ASN classes %d and %d are the same ASN %d", cfg.Name, o, k, v)
			}
			seen[v] = k
		}
	}
	return nil
}

func c11Histories(t *testing.T) {
	cfgs := c11HistoryConfigs()
	if err := c11CheckLabels(cfgs); err != nil {
		r := vrep.New("C11", "histories")
		r.Cap("configuration labels inconsistent with asnutil, nothing explored: %v", err)
		r.Flush()
		return
	}
	depth := 5
	if vrep.Thorough() {
		depth = 6
	}
	if v, err := strconv.Atoi(os.Getenv("VERIF_C11_DEPTH")); err == nil && v > 0 {
		depth = v // development aid
	}
	for _, cfg := range cfgs {
		// one record per closed system, so that each system's counterexamples are listed
		r := vrep.New("C11", "histories/"+cfg.Name)
		r.Bounds["depth"] = depth
		r.Bounds["alphabet"] = "Reserve(c@addr) for every address of every client (a second RESERVE of the same client is a refresh, from the same or another IP); Connect(src@addr->dst) for every ordered pair; CloseCircuit(src->dst); Disconnect(c) = all its connections close; DropConn(c@addr) = one of several connections closes; Advance(ReservationTTL+1s); Advance(1m) = one collection period; CloseRelay (terminal)"
		r.Bounds["system"] = cfg.describe()
		sp := &seqmc.Spec[*c11Inst, c11Op]{
			Name: cfg.Name,
			New: func() *c11Inst {
				in := c11NewInst(cfg)
				in.out = func(k string) { r.Outcome(k) }
				return in
			},
			Close:    func(in *c11Inst) { in.sy.shutdown() },
			Ops:      func(in *c11Inst) []c11Op { return in.ops() },
			Apply:    c11Apply,
			Key:      func(in *c11Inst) string { return in.key },
			Show:     func(o c11Op) string { return c11ShowOp(cfg, o) },
			Depth:    depth,
			Bubble:   true,
			T:        t,
			Deadline: vrep.Deadline(),
		}
		st := seqmc.Run(sp)
		seqmc.Fill(r, cfg.Name, st)
		r.Distinct = r.States
		r.Flush()
	}
}
