//go:build verif

package relay

// C11, the client's side of "reservations ... carry a voucher signed by the relay for exactly the reserving peer"
// (mechanism: "client Reserve verifies voucher domain, signer == relay, peer == self"). The relay-side check
// (checkVoucher) feeds the REAL relay's answers to the real client.Reserve; here the answers are scripted: an OK
// RESERVE response whose voucher is sealed by every signer x names every relay x names every peer, replayed to the real
// client.Reserve run as peer S against relay R. Oracle: Reserve returns a reservation with a voucher only if the
// voucher was sealed by R, names R as the relay and S as the peer. (A response without any voucher is accepted by the
// client - the voucher field is optional on the wire; recorded as an outcome class.)

import (
	"bytes"
	"context"
	"fmt"
	"testing"
	"time"

	"github.com/libp2p/go-libp2p/core/peer"
	"github.com/libp2p/go-libp2p/core/record"
	"github.com/libp2p/go-libp2p/p2p/protocol/circuitv2/client"
	pbv2 "github.com/libp2p/go-libp2p/p2p/protocol/circuitv2/pb"
	"github.com/libp2p/go-libp2p/p2p/protocol/circuitv2/proto"
	"github.com/libp2p/go-libp2p/p2p/protocol/circuitv2/util"
	"github.com/libp2p/go-libp2p/x/verif/vrep"
)

func TestVerifC11ClientVoucher(t *testing.T) {
	if s, _ := vrep.Shard(); s != 0 || vrep.ReplayPath() != "" {
		return // small: shard 0 only
	}
	r := vrep.New("C11", "client-voucher")
	defer r.Flush()
	R, S, K := c11Identity("voucher-relay"), c11Identity("voucher-self"), c11Identity("voucher-other")
	who := map[peer.ID]string{R.id: "R (the relay reserved with)", S.id: "S (the reserving peer)", K.id: "K (somebody else)"}
	expire := time.Now().Add(time.Hour)
	mk := func(voucher []byte) []byte {
		var buf bytes.Buffer
		e := uint64(expire.Unix())
		msg := &pbv2.HopMessage{Type: pbv2.HopMessage_STATUS.Enum(), Status: pbv2.Status_OK.Enum(),
			Reservation: &pbv2.Reservation{Expire: &e, Voucher: voucher}}
		if err := util.NewDelimitedWriter(&buf).WriteMsg(msg); err != nil {
			t.Fatalf("c11: cannot encode response: %v", err)
		}
		return buf.Bytes()
	}
	r.Bounds["voucher"] = "sealed by {R, K, S} x names relay {R, K, S} x names peer {S, K, R}; plus no voucher"
	distinct := map[string]struct{}{}
	run := func(name string, raw []byte, legit bool) {
		res, err := client.Reserve(context.Background(), &c11ReplayHost{id: S.id, resp: raw}, peer.AddrInfo{ID: R.id})
		r.Executions++
		accepted := err == nil && res != nil
		cls := fmt.Sprintf("%s -> accepted=%v", name, accepted)
		if accepted && res.Voucher == nil {
			cls += " (no voucher in the result)"
		}
		r.Outcome(cls)
		distinct[cls] = struct{}{}
		r.Sample(map[string]any{"response": name, "accepted": accepted, "error": fmt.Sprint(err)})
		if accepted && res.Voucher != nil && !legit {
			r.Violate("client-accepts-voucher-not-signed-by-its-relay", fmt.Sprintf("client.Reserve run as S against relay R accepted an OK response whose voucher is %s (result: voucher.Relay=%s voucher.Peer=%s)", name, who[res.Voucher.Relay], who[res.Voucher.Peer]),
				map[string]any{"part": "client-voucher", "response": name})
		}
		if !accepted && legit {
			r.Violate("baseline-failed", fmt.Sprintf("client.Reserve rejects the honest voucher (%s): %v", name, err), map[string]any{"part": "client-voucher", "response": name})
		}
	}
	run("absent", mk(nil), false)
	for _, signer := range []*c11Ident{R, K, S} {
		for _, relay := range []*c11Ident{R, K, S} {
			for _, p := range []*c11Ident{S, K, R} {
				env, err := record.Seal(&proto.ReservationVoucher{Relay: relay.id, Peer: p.id, Expiration: expire}, signer.priv)
				if err != nil {
					t.Fatalf("c11: Seal: %v", err)
				}
				b, err := env.Marshal()
				if err != nil {
					t.Fatalf("c11: Marshal: %v", err)
				}
				name := fmt.Sprintf("sealed by %s, names relay %s and peer %s", who[signer.id][:1], who[relay.id][:1], who[p.id][:1])
				run(name, mk(b), signer == R && relay == R && p == S)
			}
		}
	}
	r.Distinct = int64(len(distinct))
}
