//go:build verif

package relay

import (
	"encoding/json"
	"fmt"
	"os"
	"strings"
	"testing"
	"testing/synctest"

	"github.com/libp2p/go-libp2p/x/verif/seqmc"
	"github.com/libp2p/go-libp2p/x/verif/vrep"
)

// TestVerifC11 runs the two parts of the C11 check: fault enumeration over one CONNECT / RESERVE (E3 style)
// and the history search (E1). VERIF_C11_ONLY=faults|histories restricts the run (development aid);
// VERIF_REPLAY=<file> re-executes exactly the one execution recorded in a replay file and prints its trace.
func TestVerifC11(t *testing.T) {
	for _, l := range []string{"relay", "relay2", "p1", "p2", "p3", "p4"} {
		c11Identity(l)
	}
	if p := vrep.ReplayPath(); p != "" {
		c11Replay(t, p)
		return
	}
	only := os.Getenv("VERIF_C11_ONLY")
	if only == "" || only == "faults" {
		c11Faults(t)
	}
	if only == "" || only == "histories" {
		c11Histories(t)
	}
}

func c11Replay(t *testing.T, path string) {
	r := vrep.New("C11", "replay")
	defer r.Flush()
	raw, err := os.ReadFile(path)
	if err != nil {
		r.Cap("cannot read replay file: %v", err)
		return
	}
	var f struct {
		Key    string `json:"key"`
		Replay struct {
			Search  string    `json:"search"`
			History []string  `json:"history"`
			Case    *c11FCase `json:"case"`
		} `json:"replay"`
	}
	if err := json.Unmarshal(raw, &f); err != nil {
		r.Cap("cannot parse replay file: %v", err)
		return
	}
	if f.Replay.Case != nil {
		var res c11FResult
		synctest.Test(t, func(*testing.T) { res = c11RunFault(*f.Replay.Case) })
		r.Executions = 1
		fmt.Printf("C11 replay of fault case: %s\n", res.Case)
		for _, l := range res.Trace {
			fmt.Println("   ", l)
		}
		fmt.Printf("    outcome: %s\n", res.Outcome)
		for _, v := range res.Vios {
			fmt.Printf("    VIOLATION %s: %s\n", v.Key, v.Desc)
			r.Violate(v.Key, v.Desc, map[string]any{"part": "faults", "case": res.Case, "trace": res.Trace})
		}
		r.Sample(map[string]any{"case": res.Case, "outcome": res.Outcome})
		return
	}
	var cfg *c11Cfg
	for _, c := range c11AllHistoryConfigs() {
		if c.Name == f.Replay.Search {
			cfg = c
		}
	}
	if cfg == nil {
		r.Cap("replay file names an unknown system %q", f.Replay.Search)
		return
	}
	synctest.Test(t, func(*testing.T) {
		in := c11NewInst(cfg)
		defer in.sy.shutdown()
		in.out = func(k string) { fmt.Println("      ", k) }
		fmt.Printf("C11 replay of history on system %s: %v\n    start: %s\n", cfg.Name, cfg.describe(), in.sy.observe())
		for i, step := range f.Replay.History {
			var op *c11Op
			for _, o := range in.ops() {
				if c11ShowOp(cfg, o) == step {
					o := o
					op = &o
					break
				}
			}
			if op == nil {
				r.Cap("step %d %q is not enabled when the history is replayed", i+1, step)
				return
			}
			fmt.Printf("    %d. %s\n", i+1, step)
			err := c11Apply(in, *op)
			r.Executions = 1
			r.Transitions++
			if in.dead {
				fmt.Printf("       VIOLATION %v\n", err)
			} else {
				fmt.Printf("       relay: %s\n", in.sy.observe())
			}
			if err != nil {
				v, ok := err.(*seqmc.Vio)
				if !ok {
					v = &seqmc.Vio{Key: "error", Desc: err.Error()}
				}
				r.Violate(v.Key, v.Desc, map[string]any{"search": cfg.Name, "history": f.Replay.History[:i+1]})
				return
			}
		}
		r.Sample(map[string]any{"search": cfg.Name, "history": f.Replay.History, "result": "no violation", "expected": f.Key})
		fmt.Println("    no violation reproduced; the file recorded", strings.TrimSpace(f.Key))
	})
}
