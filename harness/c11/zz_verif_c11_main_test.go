//go:build verif

package relay

import (
	"os"
	"testing"
)

// TestVerifC11 runs the two parts of the C11 check: fault enumeration over one CONNECT / RESERVE (E3 style)
// and the history search (E1). VERIF_C11_ONLY=faults|histories restricts the run (development aid).
func TestVerifC11(t *testing.T) {
	for _, l := range []string{"relay", "relay2", "p1", "p2", "p3", "p4"} {
		c11Identity(l)
	}
	only := os.Getenv("VERIF_C11_ONLY")
	if only == "" || only == "faults" {
		c11Faults(t)
	}
	if only == "" || only == "histories" {
		c11Histories(t)
	}
}
