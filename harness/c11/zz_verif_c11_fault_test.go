//go:build verif

package relay

// C11 part "faults" (E3 style): ONE CONNECT (and one RESERVE) against a real relay with exactly one
// deviation from the honest exchange - at each step of the hop / stop handshake, at each resource-manager
// call, and in the relay phase (payload sizes around the data limit in each direction, every way a circuit
// can end). After every execution: circuit counters, connection-manager tags and the memory reserved in the
// relay's service scope are back at their previous values; on a limited relay at most Limit.Data bytes were
// forwarded per direction, as a prefix of what was sent, and both legs are closed at Limit.Duration.

import (
	"bytes"
	"errors"
	"fmt"
	"runtime"
	"sort"
	"strings"
	"sync"
	"testing"
	"testing/synctest"
	"time"

	"github.com/libp2p/go-libp2p/core/peer"
	pbv2 "github.com/libp2p/go-libp2p/p2p/protocol/circuitv2/pb"
	circuitproto "github.com/libp2p/go-libp2p/p2p/protocol/circuitv2/proto"
	"github.com/libp2p/go-libp2p/p2p/protocol/circuitv2/util"
	"github.com/libp2p/go-libp2p/x/verif/vrep"
	"github.com/multiformats/go-varint"
	"google.golang.org/protobuf/proto"
)

type c11FCase struct {
	System  string `json:"system"`           // limited | unlimited
	Pre     string `json:"pre"`              // fresh | dst-busy | src-busy
	Kind    string `json:"kind"`             // connect | reserve
	Request string `json:"request"`          // what the source does on the hop stream
	Refuse  string `json:"refuse,omitempty"` // resource-manager call refused
	NoDial  bool   `json:"newstream_fails,omitempty"`
	Dest    string `json:"destination,omitempty"` // what the destination does on the stop stream
	Fwd     int    `json:"fwd_bytes,omitempty"`   // payload source -> destination
	Bwd     int    `json:"bwd_bytes,omitempty"`   // payload destination -> source
	Chunk   int    `json:"chunk,omitempty"`
	End     string `json:"end,omitempty"` // how the circuit ends
}

func (c c11FCase) String() string {
	var p []string
	p = append(p, c.System, "pre="+c.Pre, c.Kind, "req="+c.Request)
	if c.Refuse != "" {
		p = append(p, "refuse="+c.Refuse)
	}
	if c.NoDial {
		p = append(p, "newstream-fails")
	}
	if c.Dest != "" {
		p = append(p, "dest="+c.Dest)
	}
	if c.End != "" {
		p = append(p, fmt.Sprintf("fwd=%d bwd=%d chunk=%d end=%s", c.Fwd, c.Bwd, c.Chunk, c.End))
	}
	return strings.Join(p, " ")
}

// class is the case without the payload numbers (for counting distinct classes).
func (c c11FCase) class() string {
	d := c
	d.Fwd, d.Bwd, d.Chunk = 0, 0, 0
	return d.String()
}

type c11FVio struct{ Key, Desc string }

type c11FResult struct {
	Case    c11FCase
	Reply   string
	Outcome string
	Vios    []c11FVio
	Trace   []string
}

func c11FaultSystem(limited bool) *c11Cfg {
	cfg := &c11Cfg{
		Name: "unlimited",
		RC:   Resources{ReservationTTL: time.Hour, MaxReservations: 4, MaxCircuits: 2, BufferSize: 16, MaxReservationsPerPeer: 1, MaxReservationsPerIP: 8, MaxReservationsPerASN: 8},
		Clients: []c11ClientSpec{
			{Label: "p1", Addrs: []c11AddrSpec{{Name: "A", Addr: "/ip4/198.51.100.1/tcp/4001", IP: "198.51.100.1"}}},
			{Label: "p2", Addrs: []c11AddrSpec{{Name: "B", Addr: "/ip4/198.51.100.2/tcp/4002", IP: "198.51.100.2"}}},
			{Label: "p3", Addrs: []c11AddrSpec{{Name: "C", Addr: "/ip4/198.51.100.3/tcp/4003", IP: "198.51.100.3"}}},
		},
	}
	if limited {
		cfg.Name = "limited"
		cfg.RC.Limit = c11Limited()
	}
	return cfg
}

func c11Pattern(n int, seed byte) []byte {
	b := make([]byte, n)
	for i := range b {
		b[i] = seed + byte(i*7)
	}
	return b
}

func c11Marshal(m proto.Message) []byte {
	var buf bytes.Buffer
	if err := util.NewDelimitedWriter(&buf).WriteMsg(m); err != nil {
		panic(err)
	}
	return buf.Bytes()
}

var c11Garbage = []byte{6, 0xff, 0xff, 0xff, 0xff, 0xff, 0xff} // length 6, then bytes that are not a protobuf message

func c11Oversize() []byte {
	return append(varint.ToUvarint(5000), bytes.Repeat([]byte{0}, 64)...)
}

// honestCircuit opens src->dst the honest way; nil when the relay does not answer OK.
func (sy *c11Sys) honestCircuit(src, dst int) *c11Circuit {
	sy.dial(src, 0)
	sy.dial(dst, 0)
	mem := sy.observe().SvcMem
	nOut := sy.host.outboundCount()
	hop := sy.connectStart(src, 0, dst)
	if sy.host.outboundCount() <= nOut {
		return nil
	}
	stop := sy.host.outboundAt(nOut)
	var sm pbv2.StopMessage
	if ok, _, err := stop.hRecvMsg(&sm); !ok || err != nil || sm.GetType() != pbv2.StopMessage_CONNECT {
		return nil
	}
	stop.hSendMsg(&pbv2.StopMessage{Type: pbv2.StopMessage_STATUS.Enum(), Status: pbv2.Status_OK.Enum()})
	synctest.Wait()
	if rep := c11ReadHopReply(hop); !rep.Got || rep.Status != pbv2.Status_OK {
		return nil
	}
	return &c11Circuit{Src: src, Dst: dst, Hop: hop, Stop: stop, MemDelta: sy.observe().SvcMem - mem}
}

// c11RunFault executes one case from a fresh system (inside a bubble).
func c11RunFault(fc c11FCase) (res c11FResult) {
	res.Case = fc
	limited := fc.System == "limited"
	cfg := c11FaultSystem(limited)
	sy := c11NewSys(cfg)
	defer sy.shutdown()
	vio := func(key, f string, a ...any) { res.Vios = append(res.Vios, c11FVio{key, fmt.Sprintf(f, a...)}) }
	trace := func(f string, a ...any) { res.Trace = append(res.Trace, fmt.Sprintf(f, a...)) }
	var slept time.Duration
	sleep := func(d time.Duration) {
		time.Sleep(d)
		slept += d
		synctest.Wait()
	}
	const src, dst, other = 0, 1, 2

	// ----- previous state -----
	for c := range cfg.Clients {
		sy.dial(c, 0)
	}
	for _, c := range []int{dst, other} {
		if rep, _ := sy.reserve(c, 0); !rep.Got || rep.Status != pbv2.Status_OK {
			vio("baseline-failed", "honest RESERVE of %s answered %s", cfg.Clients[c].Label, rep.class())
			return
		}
	}
	mid := sy.observe()
	var pre *c11Circuit
	switch fc.Pre {
	case "dst-busy":
		pre = sy.honestCircuit(other, dst)
	case "src-busy":
		pre = sy.honestCircuit(src, other)
	}
	if fc.Pre != "fresh" && pre == nil {
		vio("baseline-failed", "honest circuit for the previous state %q was not opened", fc.Pre)
		return
	}
	before := sy.observe()
	trace("previous state: %s", before)
	disconnected := map[int]bool{}

	// ----- the attempt -----
	var hop, stop *c11Stream
	established := false
	var sentF, sentB []byte
	hopBase, stopBase := 0, 0
	conn := sy.dial(src, 0)
	if fc.Refuse != "" {
		sy.rm.refuseNext(fc.Refuse)
	}
	if fc.NoDial {
		sy.host.mu.Lock()
		sy.host.newStreamErr = errors.New("c11: scripted failure to open the stop stream")
		sy.host.mu.Unlock()
	}
	if fc.Dest == "reset-on-open" {
		sy.host.mu.Lock()
		sy.host.onOutbound = func(s *c11Stream) { s.hReset() }
		sy.host.mu.Unlock()
	}
	nOut := sy.host.outboundCount()
	hop = sy.host.inbound(conn, circuitproto.ProtoIDv2Hop)
	var request proto.Message = &pbv2.HopMessage{Type: pbv2.HopMessage_CONNECT.Enum(), Peer: util.PeerInfoToPeerV2(peer.AddrInfo{ID: sy.ids[dst].id})}
	if fc.Kind == "reserve" {
		request = &pbv2.HopMessage{Type: pbv2.HopMessage_RESERVE.Enum()}
	}
	wire := c11Marshal(request)
	switch fc.Request {
	case "honest":
		hop.hSend(wire)
	case "honest-then-writes-fail":
		hop.hFailWrites()
		hop.hSend(wire)
	case "reset":
		hop.hReset()
	case "eof":
		hop.hCloseWrite()
	case "partial-eof":
		hop.hSend(wire[:len(wire)/2])
		hop.hCloseWrite()
	case "partial-silence":
		hop.hSend(wire[:len(wire)/2])
		synctest.Wait()
		sleep(StreamTimeout)
	case "silence":
		synctest.Wait()
		sleep(StreamTimeout)
	case "garbage":
		hop.hSend(c11Garbage)
	case "oversize":
		hop.hSend(c11Oversize())
	case "wrong-type":
		hop.hSendMsg(&pbv2.HopMessage{Type: pbv2.HopMessage_STATUS.Enum(), Status: pbv2.Status_OK.Enum()})
	case "no-peer":
		hop.hSendMsg(&pbv2.HopMessage{Type: pbv2.HopMessage_CONNECT.Enum()})
	case "bad-peer-id":
		hop.hSendMsg(&pbv2.HopMessage{Type: pbv2.HopMessage_CONNECT.Enum(), Peer: &pbv2.Peer{Id: []byte{1, 2, 3}}})
	case "unknown-peer":
		hop.hSendMsg(&pbv2.HopMessage{Type: pbv2.HopMessage_CONNECT.Enum(), Peer: util.PeerInfoToPeerV2(peer.AddrInfo{ID: c11Identity("p4").id})})
	default:
		panic("c11: unknown request kind " + fc.Request)
	}
	synctest.Wait()

	if sy.host.outboundCount() > nOut {
		stop = sy.host.outboundAt(nOut)
		var sm pbv2.StopMessage
		ok, _, err := stop.hRecvMsg(&sm)
		trace("stop stream opened to %s; STOP message received=%v err=%v type=%v; in flight: %s", stop.conn.remote.label, ok, err, sm.GetType(), sy.observe().counters())
		stopBase = stop.outPos()
		okMsg := &pbv2.StopMessage{Type: pbv2.StopMessage_STATUS.Enum(), Status: pbv2.Status_OK.Enum()}
		switch {
		case fc.Dest == "ok":
			stop.hSendMsg(okMsg)
		case fc.Dest == "reset-on-open":
			// already reset
		case fc.Dest == "reset":
			stop.hReset()
		case fc.Dest == "eof":
			stop.hCloseWrite()
		case fc.Dest == "garbage":
			stop.hSend(c11Garbage)
		case fc.Dest == "oversize":
			stop.hSend(c11Oversize())
		case fc.Dest == "wrong-type":
			stop.hSendMsg(&pbv2.StopMessage{Type: pbv2.StopMessage_CONNECT.Enum(), Peer: util.PeerInfoToPeerV2(peer.AddrInfo{ID: sy.ids[src].id})})
		case strings.HasPrefix(fc.Dest, "status:"):
			var n int32
			fmt.Sscanf(fc.Dest, "status:%d", &n)
			st := pbv2.Status(n)
			stop.hSendMsg(&pbv2.StopMessage{Type: pbv2.StopMessage_STATUS.Enum(), Status: &st})
		case fc.Dest == "no-status-field":
			stop.hSendMsg(&pbv2.StopMessage{Type: pbv2.StopMessage_STATUS.Enum()})
		case fc.Dest == "partial-silence":
			w := c11Marshal(okMsg)
			stop.hSend(w[:len(w)/2])
			synctest.Wait()
			sleep(HandshakeTimeout)
		case fc.Dest == "silence":
			sleep(HandshakeTimeout)
		case fc.Dest == "dst-disconnect":
			sy.disconnect(dst)
			disconnected[dst] = true
		case fc.Dest == "src-disconnect":
			// the source goes away while the relay waits for the destination, which then accepts
			sy.disconnect(src)
			disconnected[src] = true
			stop.hSendMsg(okMsg)
		case fc.Dest == "src-reset-then-ok":
			hop.hReset()
			synctest.Wait()
			stop.hSendMsg(okMsg)
		default:
			panic("c11: unknown destination behaviour " + fc.Dest)
		}
		synctest.Wait()
	}
	rep := c11ReadHopReply(hop)
	res.Reply = rep.class()
	trace("reply to the source: %s; hop leg %s", rep.class(), hop.state())

	if fc.Kind == "connect" && rep.Got && rep.Status == pbv2.Status_OK {
		established = true
		hopBase = hop.outPos()
		if stop == nil {
			vio("connect-ok-without-stop-handshake", "CONNECT answered OK but no stop stream was opened")
			return
		}
		// ----- relay phase -----
		sentF, sentB = c11Pattern(fc.Fwd, 0xA0), c11Pattern(fc.Bwd, 0x50)
		chunk := fc.Chunk
		if chunk <= 0 {
			chunk = 1 << 20
		}
		for i := 0; i < len(sentF) || i < len(sentB); i += chunk {
			if i < len(sentF) {
				hop.hSend(sentF[i:min(i+chunk, len(sentF))])
			}
			if i < len(sentB) {
				stop.hSend(sentB[i:min(i+chunk, len(sentB))])
			}
			synctest.Wait()
		}
		trace("payload sent; open circuit: %s", sy.observe().counters())
		switch fc.End {
		case "close":
			hop.hCloseWrite()
			stop.hCloseWrite()
		case "src-close-only":
			hop.hCloseWrite()
			synctest.Wait()
			if limited {
				sleep(cfg.RC.Limit.Duration)
			} else {
				stop.hCloseWrite()
			}
		case "duration":
			sleep(cfg.RC.Limit.Duration)
		case "src-reset":
			hop.hReset()
		case "dst-reset":
			stop.hReset()
		case "src-disconnect":
			sy.disconnect(src)
			disconnected[src] = true
		case "dst-disconnect":
			sy.disconnect(dst)
			disconnected[dst] = true
		default:
			panic("c11: unknown end " + fc.End)
		}
		synctest.Wait()
	} else if fc.Kind == "reserve" {
		hop.hCloseWrite()
		synctest.Wait()
	} else {
		// the client gives up on a failed attempt
		hop.hCloseWrite()
		synctest.Wait()
	}

	// ----- audit -----
	after := sy.observe()
	trace("afterwards: %s", after)
	preAlive := pre != nil && !(limited && slept >= cfg.RC.Limit.Duration) && !pre.Hop.conn.IsClosed() && !pre.Stop.conn.IsClosed()
	ref := mid
	if preAlive {
		ref = before
	}
	if fc.Kind == "reserve" {
		// a RESERVE (however it ends) does not touch circuit counters or reserved memory; the reservation
		// tag may only appear together with the reservation itself
		if a, b := c11SortedMap(after.Conns), c11SortedMap(ref.Conns); a != b {
			vio("circuit-counters-not-restored", "%s: Relay.conns %s, previously %s", fc, a, b)
		}
		if after.SvcMem != ref.SvcMem {
			vio("service-memory-not-restored", "%s: relay service scope holds %d bytes, previously %d", fc, after.SvcMem, ref.SvcMem)
		}
		if _, listed := after.Rsvp["p1"]; !listed && after.Tags["p1"] != ref.Tags["p1"] {
			vio("tags-not-restored", "%s: no reservation for p1 is listed but its tags are %s, previously %s", fc, after.Tags["p1"], ref.Tags["p1"])
		}
		if fc.Request == "honest" && fc.Refuse == "" {
			if !rep.Got || rep.Status != pbv2.Status_OK {
				vio("baseline-failed", "honest RESERVE answered %s", rep.class())
			} else if k, d := sy.checkVoucher(src, rep); k != "" {
				vio(k, "%s", d)
			}
		}
		res.Outcome = fmt.Sprintf("reserve %s -> %s", fc.class(), res.Reply)
		return
	}
	if a, b := c11SortedMap(after.Conns), c11SortedMap(ref.Conns); a != b {
		vio("circuit-counters-not-restored", "%s (reply %s): Relay.conns %s, previously %s", fc, res.Reply, a, b)
	}
	if after.SvcMem != ref.SvcMem {
		vio("service-memory-not-restored", "%s (reply %s): relay service scope holds %d bytes, previously %d", fc, res.Reply, after.SvcMem, ref.SvcMem)
	}
	for c, cs := range cfg.Clients {
		if disconnected[c] {
			continue // the connection manager forgot the peer altogether
		}
		if after.Tags[cs.Label] != ref.Tags[cs.Label] {
			vio("tags-not-restored", "%s (reply %s): tags of %s are %s, previously %s", fc, res.Reply, cs.Label, after.Tags[cs.Label], ref.Tags[cs.Label])
		}
	}
	legs := "hop:" + hop.state()
	if stop != nil {
		legs += " stop:" + stop.state()
	}
	if established {
		gotF := stop.allOut()[stopBase:]
		gotB := hop.allOut()[hopBase:]
		for _, d := range []struct {
			name      string
			got, sent []byte
		}{{"source->destination", gotF, sentF}, {"destination->source", gotB, sentB}} {
			if !bytes.HasPrefix(d.sent, d.got) {
				vio("forwarded-bytes-not-a-prefix", "%s: %s: %d bytes delivered that are not a prefix of the %d bytes sent", fc, d.name, len(d.got), len(d.sent))
			}
			if limited && int64(len(d.got)) > cfg.RC.Limit.Data {
				vio("data-limit-exceeded", "%s: %s: %d bytes forwarded, Limit.Data is %d", fc, d.name, len(d.got), cfg.RC.Limit.Data)
			}
		}
		if limited && slept >= cfg.RC.Limit.Duration && (!hop.relayDone() || !stop.relayDone()) {
			vio("circuit-open-after-duration", "%s: Limit.Duration after the circuit was opened the relay has not closed both legs: %s", fc, legs)
		}
		// not vacuous: payloads within the limit that the sender finished with a close arrive completely
		if fc.End == "close" && (!limited || (int64(fc.Fwd) <= cfg.RC.Limit.Data && int64(fc.Bwd) <= cfg.RC.Limit.Data)) {
			if !bytes.Equal(gotF, sentF) || !bytes.Equal(gotB, sentB) {
				vio("baseline-failed", "%s: honest circuit delivered %d/%d and %d/%d bytes", fc, len(gotF), len(sentF), len(gotB), len(sentB))
			}
		}
		res.Outcome = fmt.Sprintf("circuit %s end=%s -> fwd %s bwd %s; %s", fc.System, fc.End, c11Frac(len(gotF), len(sentF), limited), c11Frac(len(gotB), len(sentB), limited), legs)
	} else {
		if fc.Request == "honest" && fc.Refuse == "" && !fc.NoDial && fc.Dest == "ok" {
			vio("baseline-failed", "honest CONNECT answered %s", rep.class())
		}
		res.Outcome = fmt.Sprintf("%s -> %s; %s", fc.class(), res.Reply, legs)
	}
	if pre != nil && !preAlive && limited && slept >= cfg.RC.Limit.Duration && (!pre.Hop.relayDone() || !pre.Stop.relayDone()) {
		vio("circuit-open-after-duration", "%s: the circuit of the previous state is still open %s after it was opened", fc, slept)
	}
	return
}

func c11Frac(got, sent int, limited bool) string {
	switch {
	case got == sent:
		return "all"
	case limited && got == 64:
		return "64(limit)"
	case got == 0:
		return "none"
	}
	return "part"
}

func c11FaultCases() []c11FCase {
	var out []c11FCase
	sizes := []int{63, 64, 65, 128, 200}
	for _, system := range []string{"limited", "unlimited"} {
		limited := system == "limited"
		for _, pre := range []string{"fresh", "dst-busy", "src-busy"} {
			base := c11FCase{System: system, Pre: pre, Kind: "connect", Request: "honest", Dest: "ok", Fwd: 63, Bwd: 63, End: "close"}
			out = append(out, base)
			// the source's request
			for _, rq := range []string{"reset", "eof", "partial-eof", "partial-silence", "silence", "garbage", "oversize", "wrong-type", "no-peer", "bad-peer-id", "unknown-peer"} {
				c := base
				c.Request, c.End, c.Fwd, c.Bwd = rq, "", 0, 0 // (the destination stays honest, should it be asked)
				out = append(out, c)
			}
			// resource refusals
			for _, k := range c11RcmgrCalls {
				c := base
				c.Refuse, c.End, c.Fwd, c.Bwd = k, "", 0, 0
				out = append(out, c)
			}
			// the stop stream cannot be opened
			{
				c := base
				c.NoDial, c.End, c.Fwd, c.Bwd = true, "", 0, 0
				out = append(out, c)
			}
			// the destination's answer
			dests := []string{"reset-on-open", "reset", "eof", "garbage", "oversize", "wrong-type", "no-status-field", "partial-silence", "silence", "dst-disconnect", "src-disconnect", "src-reset-then-ok"}
			for _, st := range []pbv2.Status{pbv2.Status_RESERVATION_REFUSED, pbv2.Status_RESOURCE_LIMIT_EXCEEDED, pbv2.Status_PERMISSION_DENIED, pbv2.Status_CONNECTION_FAILED, pbv2.Status_NO_RESERVATION, pbv2.Status_MALFORMED_MESSAGE, pbv2.Status_UNEXPECTED_MESSAGE, pbv2.Status_UNUSED, pbv2.Status(999)} {
				dests = append(dests, fmt.Sprintf("status:%d", int32(st)))
			}
			for _, d := range dests {
				c := base
				c.Dest, c.End, c.Fwd, c.Bwd = d, "", 0, 0
				out = append(out, c)
			}
			// the answer to the source cannot be written
			{
				c := base
				c.Request, c.End, c.Fwd, c.Bwd = "honest-then-writes-fail", "", 0, 0
				out = append(out, c)
			}
			// relay phase: payload sizes around the limit, each direction and both, two chunkings, two ends
			ends := []string{"close"}
			if limited {
				ends = append(ends, "duration")
			}
			szs := sizes
			if !limited && pre != "fresh" {
				szs = []int{200}
			}
			for _, n := range szs {
				for _, dir := range []string{"fwd", "bwd", "both"} {
					for _, chunk := range []int{0, 7} {
						for _, end := range ends {
							c := base
							c.Chunk, c.End = chunk, end
							switch dir {
							case "fwd":
								c.Fwd, c.Bwd = n, 0
							case "bwd":
								c.Fwd, c.Bwd = 0, n
							default:
								c.Fwd, c.Bwd = n, n
							}
							if c == base {
								continue
							}
							out = append(out, c)
						}
					}
				}
			}
			// the other ways a circuit ends
			for _, end := range []string{"src-close-only", "src-reset", "dst-reset", "src-disconnect", "dst-disconnect"} {
				for _, n := range []int{0, 63, 200} {
					c := base
					c.Fwd, c.Bwd, c.End = n, n, end
					out = append(out, c)
				}
			}
		}
		// RESERVE: however the attempt ends
		for _, rq := range []string{"honest", "honest-then-writes-fail", "reset", "eof", "partial-eof", "silence", "garbage"} {
			out = append(out, c11FCase{System: system, Pre: "fresh", Kind: "reserve", Request: rq})
		}
		for _, k := range []string{c11CallInService, c11CallInReserve} {
			out = append(out, c11FCase{System: system, Pre: "fresh", Kind: "reserve", Request: "honest", Refuse: k})
		}
	}
	return out
}

func c11Faults(t *testing.T) {
	r := vrep.New("C11", "faults")
	defer r.Flush()
	cases := c11FaultCases()
	r.Bounds["systems"] = []any{c11FaultSystem(true).describe(), c11FaultSystem(false).describe()}
	r.Bounds["previous states"] = "fresh (destination reserved) | dst-busy (another circuit to the destination is open) | src-busy (the source already has a circuit); MaxCircuits=2"
	r.Bounds["faults"] = "exactly one deviation per execution: source request {reset, eof, partial+eof, partial+silence, silence until StreamTimeout, garbage, oversize, wrong type, no peer, bad peer id, unknown peer}; refusal of each of " + strings.Join(c11RcmgrCalls, ", ") + "; NewStream to the destination fails; destination {reset on open, reset, eof, garbage, oversize, wrong type, STATUS without status, each non-OK status, partial+silence, silence until HandshakeTimeout, disconnects, source disconnects, source resets before the answer}; writes to the source fail"
	r.Bounds["payloads"] = "63, 64, 65, 128, 200 bytes source->destination, destination->source and both; written at once or in 7-byte chunks; ended by close or (limited) left open until Limit.Duration; plus half-close, reset and disconnect of either side with 0/63/200 bytes"
	r.Bounds["cases"] = len(cases)
	results := make([]c11FResult, len(cases))
	done := make([]bool, len(cases))
	idx := make(chan int, len(cases))
	for i := range cases {
		idx <- i
	}
	close(idx)
	var wg sync.WaitGroup
	deadline := vrep.Deadline()
	for w := 0; w < runtime.GOMAXPROCS(0); w++ {
		wg.Add(1)
		go func() {
			defer wg.Done()
			for i := range idx {
				if time.Now().After(deadline) {
					return
				}
				synctest.Test(t, func(*testing.T) {
					defer func() {
						if p := recover(); p != nil {
							buf := make([]byte, 4096)
							buf = buf[:runtime.Stack(buf, false)]
							results[i].Case = cases[i]
							results[i].Vios = append(results[i].Vios, c11FVio{"panic", fmt.Sprintf("%s: panic: %v\n%s", cases[i], p, buf)})
						}
					}()
					results[i] = c11RunFault(cases[i])
				})
				done[i] = true
			}
		}()
	}
	wg.Wait()
	classes := map[string]struct{}{}
	skipped := 0
	for i, res := range results {
		if !done[i] {
			skipped++
			continue
		}
		r.Executions++
		r.Outcome(res.Outcome)
		classes[res.Case.class()+" => "+res.Reply] = struct{}{}
		if i%37 == 0 {
			r.Sample(map[string]any{"case": res.Case, "reply": res.Reply, "outcome": res.Outcome})
		}
		for _, v := range res.Vios {
			r.Violate(v.Key, v.Desc, map[string]any{"part": "faults", "case": res.Case, "trace": res.Trace})
		}
	}
	if skipped > 0 {
		r.Cap("deadline reached: %d of %d fault cases not executed", skipped, len(cases))
	}
	r.Distinct = int64(len(classes))
	var cl []string
	for k := range classes {
		cl = append(cl, k)
	}
	sort.Strings(cl)
	r.Note("%d distinct (case class, reply) pairs", len(cl))
}
