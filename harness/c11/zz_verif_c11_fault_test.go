//go:build verif

package relay

import "testing"

func c11Faults(t *testing.T) {}
