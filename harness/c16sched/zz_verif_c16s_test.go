//go:build verif

package autonatv2

// C16, concurrent part ("concurrent requests of one peer"; the limits "in every sliding one-minute window").
// Engine E2: package autonatv2 instrumented; 2-3 request threads run the limiter calls that serveDialRequest
// makes for one request - Accept(p), AcceptDialDataRequest() when the request needs dial data, CompleteRequest(p)
// - against one real rateLimiter on the bubble's virtual clock, with every limit set to a value the threads are
// forced to collide on. Oracle (from return values only): at every scheduling point the number of requests of
// one peer between an accepted Accept and its CompleteRequest is at most MaxConcurrentRequestsPerPeer; the
// numbers of accepted requests (all inside one minute) never exceed RPM, PerPeerRPM per peer and DialDataRPM;
// at the end no request is in progress and, one minute later, a new request of every peer is accepted again.

import (
	"fmt"
	"os"
	"strings"
	"testing"
	"time"

	"github.com/libp2p/go-libp2p/core/peer"
	"github.com/libp2p/go-libp2p/x/verif/vrep"
	vs "github.com/libp2p/go-libp2p/x/verif/vsched"
)

type c16sScn struct {
	Name                         string
	RPM, PerPeer, DialData, Conc int
	Peers                        []int  // peer of each request thread
	Data                         []bool // the request needs dial data
	Twice                        bool   // every thread issues a second request after completing the first
}

func c16sBody(sc c16sScn) func(x *vs.Exec) {
	return func(x *vs.Exec) {
		s := x.S
		rl := &rateLimiter{RPM: sc.RPM, PerPeerRPM: sc.PerPeer, DialDataRPM: sc.DialData, MaxConcurrentRequestsPerPeer: sc.Conc, now: time.Now}
		pid := func(i int) peer.ID { return peer.ID(fmt.Sprintf("12D3KooWVerifPeer%d", i)) }
		inService := map[int]int{}
		accepted, acceptedBy, dataAccepted := 0, map[int]int{}, 0
		if !s.Free {
			s.SetInvariant(func() error {
				for p, n := range inService {
					if n > sc.Conc {
						return fmt.Errorf("%d requests of peer %d are being served at the same time, MaxConcurrentRequestsPerPeer = %d", n, p, sc.Conc)
					}
				}
				return nil
			})
		}
		one := func(i int) {
			p := sc.Peers[i]
			if !rl.Accept(pid(p)) {
				return
			}
			vs.Locked(func() { inService[p]++; accepted++; acceptedBy[p]++ })
			vs.Yield()
			if sc.Data[i] && rl.AcceptDialDataRequest() {
				vs.Locked(func() { dataAccepted++ })
			}
			vs.Locked(func() { inService[p]-- })
			rl.CompleteRequest(pid(p))
		}
		for i := range sc.Peers {
			s.Go(fmt.Sprintf("request%d(peer%d)", i, sc.Peers[i]), func() {
				one(i)
				if sc.Twice {
					one(i)
				}
			})
		}
		ok := s.Run()
		if s.InvErr != nil {
			x.Fail("concurrent-requests-above-limit", "%v", s.InvErr)
		}
		if !ok && s.Deadlock != "" {
			x.Fail("deadlock", "threads blocked forever: %s", s.Deadlock)
		}
		s.SetInvariant(nil)
		if s.Free {
			s.Drain()
			return
		}
		if ok && x.VioKey == "" {
			if accepted > sc.RPM {
				x.Fail("global-rpm-exceeded", "%d requests accepted inside one minute, RPM = %d", accepted, sc.RPM)
			}
			for p, n := range acceptedBy {
				if n > sc.PerPeer {
					x.Fail("per-peer-rpm-exceeded", "%d requests of peer %d accepted inside one minute, PerPeerRPM = %d", n, p, sc.PerPeer)
				}
			}
			if dataAccepted > sc.DialData {
				x.Fail("dial-data-rpm-exceeded", "%d dial-data requests accepted inside one minute, DialDataRPM = %d", dataAccepted, sc.DialData)
			}
			if len(rl.inProgressReqs) != 0 {
				x.Fail("request-left-in-progress", "every request has completed, the limiter still counts %v in progress", rl.inProgressReqs)
			}
			again := true
			s.Go("one minute later", func() {
				vs.Sleep(time.Minute + time.Second)
				seen := map[int]bool{}
				for _, p := range sc.Peers {
					if seen[p] || len(seen) >= sc.RPM {
						continue
					}
					seen[p] = true
					if !rl.Accept(pid(p)) {
						again = false
					} else {
						rl.CompleteRequest(pid(p))
					}
				}
			})
			if s.Run() && !again {
				x.Fail("refused-after-window-passed", "a minute after the last request a new request is refused although no request is in progress (limiter: reqs=%d peerReqs=%v inProgress=%v)", len(rl.reqs), rl.peerReqs, rl.inProgressReqs)
			}
		}
		x.Outcome = fmt.Sprintf("accepted=%d data=%d", accepted, dataAccepted)
		s.Drain()
	}
}

func c16sScenarios(thorough bool) []c16sScn {
	scs := []c16sScn{
		{Name: "two requests of one peer, one concurrent request allowed", RPM: 10, PerPeer: 10, DialData: 10, Conc: 1, Peers: []int{1, 1}, Data: []bool{false, false}},
		{Name: "two requests of one peer, per-peer RPM 1", RPM: 10, PerPeer: 1, DialData: 10, Conc: 2, Peers: []int{1, 1}, Data: []bool{false, false}},
		{Name: "two peers, global RPM 1", RPM: 1, PerPeer: 10, DialData: 10, Conc: 2, Peers: []int{1, 2}, Data: []bool{false, false}},
		{Name: "two peers needing dial data, dial-data RPM 1", RPM: 10, PerPeer: 10, DialData: 1, Conc: 2, Peers: []int{1, 2}, Data: []bool{true, true}},
		{Name: "two requests each of one peer, one concurrent request allowed", RPM: 10, PerPeer: 10, DialData: 10, Conc: 1, Peers: []int{1, 1}, Data: []bool{true, false}, Twice: true},
	}
	if thorough {
		scs = append(scs,
			c16sScn{Name: "three requests of one peer, two concurrent requests allowed", RPM: 10, PerPeer: 10, DialData: 1, Conc: 2, Peers: []int{1, 1, 1}, Data: []bool{true, true, false}},
			c16sScn{Name: "three peers twice, global RPM 3, per-peer RPM 1", RPM: 3, PerPeer: 1, DialData: 2, Conc: 1, Peers: []int{1, 2, 3}, Data: []bool{true, true, true}, Twice: true},
		)
	}
	return scs
}

func c16sScenario(sc c16sScn) *vs.Scenario {
	return &vs.Scenario{Name: sc.Name, Body: c16sBody(sc), LeakIsViolation: true,
		Opt: vs.Options{Horizon: 3 * time.Minute, IdleStep: 30 * time.Second, MaxSteps: 4000}}
}

func TestVerifC16Sched(t *testing.T) {
	scs := c16sScenarios(vrep.Thorough())
	if p := vrep.ReplayPath(); p != "" {
		rp, err := vs.LoadReplay(p)
		if err != nil || rp.Scenario == "" {
			t.Skip("not a scheduler replay")
		}
		for _, sc := range c16sScenarios(true) {
			if sc.Name == rp.Scenario {
				x := vs.Replay(t, c16sScenario(sc), rp.Choices)
				fmt.Fprintf(os.Stdout, "REPLAY %s choices=%v\n%s\nverdict: key=%q %s\npanic=%s outcome=%s\n", sc.Name, rp.Choices, strings.Join(x.S.Log, "\n"), x.VioKey, x.VioDesc, x.Panic, x.Outcome)
				return
			}
		}
		return
	}
	if vs.FreeMode() {
		r := vrep.New("C16", "race-pass")
		dl := vrep.Deadline()
		n := 0
		for time.Now().Before(dl) {
			for _, sc := range scs {
				runs, _ := vs.FreeRun(t, c16sScenario(sc), 3, dl)
				n += runs
			}
		}
		r.Executions = int64(n)
		r.Note("free-running executions: %d", n)
		r.Flush()
		return
	}
	si, sn := vrep.Shard()
	bound := 4
	if vrep.Thorough() {
		bound = 6
	}
	r := vrep.New("C16", "limiter-schedules")
	r.Bounds["deviation_bound"] = bound
	r.Bounds["scenarios"] = len(scs)
	for i, sc := range scs {
		left := time.Until(vrep.Deadline())
		share := left / time.Duration(len(scs)-i)
		vs.Explore(t, c16sScenario(sc), vs.Config{MaxBound: bound, Deadline: time.Now().Add(share), ShardI: si, ShardN: sn, Property: "C16"}, r)
	}
	r.Flush()
}
