#!/usr/bin/env python3
"""Turns seeded/<name>/patch.diff into a catalogue entry `seeded-<title>` of mutants/<ID>.json (one find/replace edit
per hunk: find = context + removed lines, replace = context + added lines), so that mutate_sweep.py re-runs the
independently seeded changes against the final harness. usage: seed_to_mutant.py <seeded dir name> ..."""
import json, os, re, sys
V = os.path.dirname(os.path.abspath(__file__))
for name in sys.argv[1:]:
    pid, title = name.split("-", 1)
    patch = open(os.path.join(V, "seeded", name, "patch.diff")).read().splitlines(keepends=True)
    edits, cur, f = [], None, None
    for l in patch:
        if l.startswith("+++ b/"):
            f = l[6:].strip(); continue
        if l.startswith("--- ") or l.startswith("diff ") or l.startswith("index "):
            continue
        if l.startswith("@@"):
            cur = {"file": f, "find": "", "replace": ""}; edits.append(cur); continue
        if cur is None or l.startswith("\\"):
            continue
        if l[0] in " -": cur["find"] += l[1:]
        if l[0] in " +": cur["replace"] += l[1:]
    for e in edits:
        src = open(os.path.join("/repo", e["file"])).read()
        if src.count(e["find"]) != 1:
            sys.exit("%s: hunk of %s occurs %d times" % (name, e["file"], src.count(e["find"])))
    p = os.path.join(V, "mutants", pid + ".json"); cat = json.load(open(p))
    mname = "seeded-" + title
    cat = [m for m in cat if m["name"] != mname]
    cat.append({"name": mname, "file": edits[0]["file"], "edits": edits, "expect": "caught",
                "note": "the independently seeded change seeded/%s (re-run by the sweep against the final harness)" % name})
    json.dump(cat, open(p, "w"), indent=1)
    print("added", pid, mname, len(edits), "edit(s)")
