#!/usr/bin/env python3
"""Apply one deliberate property-breaking edit to /repo, run a check, and restore /repo.
usage: mutate.py <ID> <file> <find> <replace> [--tier quick] [--test <pkg> (run package tests too)]
Mutants are catalogued in mutants/<ID>.json: [{"name","file","find","replace","expect":"caught"}]
       mutate.py --catalog <ID> [name]   runs every mutant of the catalogue (or one)."""
import json, os, subprocess, sys
REPO=os.environ.get("VERIF_REPO","/repo"); VERIF=os.path.dirname(os.path.abspath(__file__))
def run_one(pid, m, tier="quick", run_tests=False):
    edits=m.get("edits") or [{"find":m["find"],"replace":m["replace"]}]
    srcs={}; news={}
    for e in edits:
        path=os.path.join(REPO,e.get("file") or m["file"])
        if path not in srcs: srcs[path]=open(path).read(); news[path]=srcs[path]
        if news[path].count(e["find"])!=1:
            print("MUTANT %s: find string occurs %d times: %r"%(m["name"],news[path].count(e["find"]),e["find"][:60])); return None
        news[path]=news[path].replace(e["find"],e["replace"])
    res={}
    try:
        for path in news: open(path,"w").write(news[path])
        if run_tests:
            env=dict(os.environ,GOFLAGS="-mod=mod",GOPROXY="off")
            r=subprocess.run(["go","test","-vet=off","-count=1","./"+os.path.dirname(m["file"])+"/..."],cwd=REPO,env=env,capture_output=True,text=True)
            res["tests_pass"]=(r.returncode==0)
            if r.returncode!=0: res["tests_out"]=r.stdout[-1500:]
        env2=dict(os.environ,VERIF_EVIDENCE_DIR="/tmp/verif-mutant-evidence",VERIF_REPLAY_DIR="/tmp/verif-mutant-replays")
        r=subprocess.run([sys.executable,os.path.join(VERIF,"check.py"),pid,"--tier",tier],capture_output=True,text=True,env=env2)
        res["rc"]=r.returncode
        res["lines"]=[l for l in r.stdout.splitlines() if l.startswith("VIOLATION") or l.startswith("  [")][:6]
        res["summary"]=[l for l in r.stdout.splitlines() if l.startswith(pid)]
        if r.returncode==2: res["stderr"]=r.stderr[-1500:]
    finally:
        for path in srcs: open(path,"w").write(srcs[path])
    return res
if __name__=="__main__":
    if sys.argv[1]=="--catalog":
        pid=sys.argv[2]; only=sys.argv[3] if len(sys.argv)>3 and not sys.argv[3].startswith("--") else None
        tests="--test" in sys.argv
        cat=json.load(open(os.path.join(VERIF,"mutants",pid+".json")))
        for m in cat:
            if only and m["name"]!=only: continue
            r=run_one(pid,m,run_tests=tests)
            print(json.dumps({"mutant":m["name"],**(r or {})},indent=1))
    else:
        pid,f,find,rep=sys.argv[1:5]
        print(json.dumps(run_one(pid,{"name":"adhoc","file":f,"find":find,"replace":rep}),indent=1))
