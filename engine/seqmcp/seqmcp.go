// Package seqmcp is engine E1 (see package seqmc) distributed over worker PROCESSES: the same level-synchronous
// explicit-state breadth-first search over operation histories of a REAL object, but the frontier of every
// level is split over the shards check.py starts (VERIF_SHARD=i/n), and the shards exchange what they found
// through files, so that every shard merges every level identically and deterministically.
//
// Why processes: a harness whose object is a set of communicating goroutines (real hosts inside a
// testing/synctest bubble) is dominated by goroutine hand-offs; on a loaded machine a hand-off between OS
// threads costs a scheduling delay, while inside a GOMAXPROCS=1 process it costs nothing. 16 single-threaded
// processes scale, 16 threads in one process do not.
//
// Differences from seqmc:
//   - operations are indices 0..NOps-1 into a fixed alphabet (a history is a []int and serialises trivially);
//   - optional state CLASSES: Class(inst) names the part of the state that a (possibly expensive) Probe depends
//     on; Probe runs exactly once per distinct class, on a fresh instance replayed to the first state of that
//     class in merge order, in the shard the class is assigned to;
//   - only shard 0 reports the global state / transition counts (check.py sums the records of all shards);
//     every shard reports the executions it performed and the violations it found itself.
//
// With one shard (or outside check.py) no files are used and the behaviour is that of seqmc.
package seqmcp

import (
	"crypto/sha256"
	"encoding/hex"
	"encoding/json"
	"fmt"
	"os"
	"path/filepath"
	"runtime"
	"strings"
	"sync"
	"testing"
	"testing/synctest"
	"time"

	"github.com/libp2p/go-libp2p/x/verif/vrep"
)

// Vio is a violation found by Apply / Probe: Key is the canonical class, Desc the human explanation.
type Vio struct{ Key, Desc string }

func (v *Vio) Error() string { return v.Key + ": " + v.Desc }

func Violation(key, f string, a ...any) error { return &Vio{Key: key, Desc: fmt.Sprintf(f, a...)} }

type Spec[I any] struct {
	Name    string
	New     func() I           // fresh implementation + fresh model
	Close   func(I)            // optional
	NOps    int                // size of the operation alphabet
	Enabled func(I) []int      // operations enabled in this state, deterministic order
	Apply   func(I, int) error // apply to impl and model, compare; error = violation
	Key     func(I) string     // canonical state key (impl snapshot + model state)
	Class   func(I) string     // optional: the part of the state Probe depends on
	Probe   func(I) error      // optional: checked once per distinct class
	Show    func(int) string

	Depth    int
	Bubble   bool
	T        *testing.T
	Deadline time.Time
	Workers  int // goroutines per process; 0 = GOMAXPROCS
}

type CounterExample struct {
	History []string
	Key     string
	Desc    string
}

type Stats struct {
	Shard, Shards int
	States        int64 // global (identical in every shard)
	Transitions   int64 // global
	Classes       int64 // global
	Executed      int64 // transitions and probes executed by THIS shard
	Probed        int64 // probes executed by THIS shard
	MaxDepth      int
	Closed        bool
	DepthDone     int
	Capped        string
	Violations    []CounterExample // found by THIS shard
	NViolations   int64
	Samples       [][]string
	PerDepth      []int64
}

type entry struct {
	hist []int
	ops  []int
}

type succ struct {
	Op    int    `json:"o"`
	Key   string `json:"k,omitempty"` // hex of the 16-byte key hash
	Class string `json:"c,omitempty"`
	Ops   []int  `json:"e,omitempty"`
	VKey  string `json:"vk,omitempty"`
	VDesc string `json:"vd,omitempty"`
	Dead  bool   `json:"x,omitempty"`
}

type levelFile struct {
	Level   int            `json:"level"`
	Shard   int            `json:"shard"`
	Aborted bool           `json:"aborted"`
	Results map[int][]succ `json:"results"` // frontier index -> successors
}

func hashKey(s string) string {
	h := sha256.Sum256([]byte(s))
	return hex.EncodeToString(h[:16])
}

func (sp *Spec[I]) inBubble(f func()) {
	if !sp.Bubble {
		f()
		return
	}
	synctest.Test(sp.T, func(*testing.T) { f() })
}

func (sp *Spec[I]) showHist(h []int, extra ...int) []string {
	var out []string
	for _, o := range append(append([]int{}, h...), extra...) {
		out = append(out, sp.Show(o))
	}
	return out
}

func (sp *Spec[I]) past() bool { return !sp.Deadline.IsZero() && time.Now().After(sp.Deadline) }

// runID identifies one check.py run: the shards are its children, so they share the parent's pid and - against
// pid reuse - the parent's start time (field 22 of /proc/<pid>/stat; empty where /proc is not available).
func runID() string {
	pp := os.Getppid()
	id := fmt.Sprint(pp)
	if b, err := os.ReadFile(fmt.Sprintf("/proc/%d/stat", pp)); err == nil {
		s := string(b)
		if i := strings.LastIndexByte(s, ')'); i >= 0 { // the command name may contain spaces
			if f := strings.Fields(s[i+1:]); len(f) > 19 {
				id += "." + f[19]
			}
		}
	}
	return id
}

// xdir returns the exchange directory shared by the shards of one check.py run.
func xdir(name string) string {
	out := os.Getenv("VERIF_OUT")
	if out == "" {
		return ""
	}
	clean := strings.Map(func(r rune) rune {
		if (r >= 'a' && r <= 'z') || (r >= 'A' && r <= 'Z') || (r >= '0' && r <= '9') {
			return r
		}
		return '_'
	}, name)
	return filepath.Join(filepath.Dir(out), fmt.Sprintf("xchg-%s-%s", runID(), clean))
}

// Run explores to closure or to Depth.
func Run[I any](sp *Spec[I]) *Stats {
	shard, shards := vrep.Shard()
	st := &Stats{Shard: shard, Shards: shards}
	if sp.Show == nil {
		sp.Show = func(o int) string { return fmt.Sprint(o) }
	}
	dir := ""
	if shards > 1 {
		dir = xdir(sp.Name)
		if dir == "" {
			shards, shard = 1, 0
			st.Shard, st.Shards = 0, 1
		} else {
			if shard == 0 {
				// leftovers of earlier runs (other parent process) only waste disk
				old, _ := filepath.Glob(filepath.Join(filepath.Dir(dir), "xchg-*"))
				for _, o := range old {
					if !strings.HasPrefix(filepath.Base(o), "xchg-"+runID()+"-") {
						os.RemoveAll(o)
					}
				}
			}
			os.MkdirAll(dir, 0o755)
		}
	}
	workers := sp.Workers
	if workers <= 0 {
		workers = runtime.GOMAXPROCS(0)
	}

	seen := map[string]struct{}{}
	seenClass := map[string]struct{}{}
	var frontier []entry
	var probes [][]int // histories of the first state of every new class, in merge order
	sp.inBubble(func() {
		inst := sp.New()
		seen[hashKey(sp.Key(inst))] = struct{}{}
		if sp.Class != nil {
			seenClass[hashKey(sp.Class(inst))] = struct{}{}
			probes = append(probes, nil)
		}
		frontier = []entry{{hist: nil, ops: sp.Enabled(inst)}}
		if sp.Close != nil {
			sp.Close(inst)
		}
	})
	st.States = 1
	st.Classes = int64(len(seenClass))
	st.PerDepth = append(st.PerDepth, 1)
	nprobe := 0 // global index of the next probe job

	addVio := func(hist []string, key, desc string) {
		st.NViolations++
		n := 0
		for _, c := range st.Violations {
			if c.Key == key {
				n++
			}
		}
		if n < 2 && len(st.Violations) < 40 {
			st.Violations = append(st.Violations, CounterExample{History: hist, Key: key, Desc: desc})
		}
	}

	runProbes := func() bool {
		if sp.Probe == nil {
			probes = nil
			return true
		}
		var mine [][]int
		for _, h := range probes {
			if nprobe%shards == shard {
				mine = append(mine, h)
			}
			nprobe++
		}
		probes = nil
		errs := make([]error, len(mine))
		done := make([]bool, len(mine))
		var wg sync.WaitGroup
		idx := make(chan int, len(mine))
		for i := range mine {
			idx <- i
		}
		close(idx)
		for w := 0; w < workers; w++ {
			wg.Add(1)
			go func() {
				defer wg.Done()
				for i := range idx {
					if sp.past() {
						return
					}
					errs[i] = sp.probe(mine[i])
					done[i] = true
				}
			}()
		}
		wg.Wait()
		complete := true
		for i := range mine {
			if !done[i] {
				complete = false
				continue
			}
			st.Executed++
			st.Probed++
			if errs[i] != nil {
				v, ok := errs[i].(*Vio)
				if !ok {
					v = &Vio{Key: "error", Desc: errs[i].Error()}
				}
				addVio(sp.showHist(mine[i]), v.Key, v.Desc)
			}
		}
		return complete
	}

	if !runProbes() {
		st.Capped = "deadline reached while probing the initial state"
		return st
	}

	for depth := 0; depth < sp.Depth && len(frontier) > 0; depth++ {
		// ---- expand this shard's share of the level ----
		lf := levelFile{Level: depth, Shard: shard, Results: map[int][]succ{}}
		var mine []int
		for j := range frontier {
			if j%shards == shard {
				mine = append(mine, j)
			}
		}
		results := make([][]succ, len(mine))
		var wg sync.WaitGroup
		idx := make(chan int, len(mine))
		for i := range mine {
			idx <- i
		}
		close(idx)
		for w := 0; w < workers; w++ {
			wg.Add(1)
			go func() {
				defer wg.Done()
				for i := range idx {
					if sp.past() {
						return
					}
					results[i] = sp.expand(frontier[mine[i]])
				}
			}()
		}
		wg.Wait()
		for i, j := range mine {
			if results[i] == nil && len(frontier[j].ops) > 0 {
				lf.Aborted = true
				continue
			}
			st.Executed += int64(len(results[i]))
			lf.Results[j] = results[i]
		}
		// ---- exchange ----
		all := map[int][]succ{}
		aborted := lf.Aborted
		if shards == 1 {
			all = lf.Results
		} else {
			if err := writeLevel(dir, &lf); err != nil {
				st.Capped = fmt.Sprintf("cannot write exchange file at depth %d: %v", depth, err)
				return st
			}
			for k := 0; k < shards; k++ {
				other, err := readLevel(dir, depth, k, sp.Deadline)
				if err != nil {
					st.Capped = fmt.Sprintf("shard %d delivered nothing for depth %d: %v", k, depth, err)
					return st
				}
				aborted = aborted || other.Aborted
				for j, rs := range other.Results {
					all[j] = rs
				}
			}
		}
		if aborted {
			st.Capped = fmt.Sprintf("deadline reached at depth %d", depth)
			return st
		}
		// ---- merge, identically in every shard ----
		var next []entry
		for j := range frontier {
			for _, s := range all[j] {
				st.Transitions++
				if s.VKey != "" {
					if j%shards == shard { // reported by the shard that executed it
						addVio(sp.showHist(frontier[j].hist, s.Op), s.VKey, s.VDesc)
					}
					continue
				}
				if _, dup := seen[s.Key]; dup {
					continue
				}
				seen[s.Key] = struct{}{}
				st.States++
				h := append(append(make([]int, 0, len(frontier[j].hist)+1), frontier[j].hist...), s.Op)
				if len(st.Samples) < 6 && (st.States%97 == 3 || depth == sp.Depth-1) {
					st.Samples = append(st.Samples, sp.showHist(h))
				}
				next = append(next, entry{hist: h, ops: s.Ops})
				if sp.Class != nil {
					if _, dup := seenClass[s.Class]; !dup {
						seenClass[s.Class] = struct{}{}
						probes = append(probes, h)
					}
				}
			}
		}
		st.Classes = int64(len(seenClass))
		st.DepthDone = depth + 1
		st.MaxDepth = depth + 1
		st.PerDepth = append(st.PerDepth, int64(len(next)))
		frontier = next
		if !runProbes() {
			st.Capped = fmt.Sprintf("deadline reached while probing the states found at depth %d", depth+1)
			return st
		}
	}
	if len(frontier) == 0 {
		st.Closed = true
		st.MaxDepth = st.DepthDone - 1
		if st.MaxDepth < 0 {
			st.MaxDepth = 0
		}
	}
	return st
}

func writeLevel(dir string, lf *levelFile) error {
	b, err := json.Marshal(lf)
	if err != nil {
		return err
	}
	name := filepath.Join(dir, fmt.Sprintf("L%d.S%d.json", lf.Level, lf.Shard))
	if err := os.WriteFile(name+".tmp", b, 0o644); err != nil {
		return err
	}
	return os.Rename(name+".tmp", name)
}

// readLevel waits (real time; a liveness aid only) for the file of one shard.
func readLevel(dir string, level, shard int, deadline time.Time) (*levelFile, error) {
	name := filepath.Join(dir, fmt.Sprintf("L%d.S%d.json", level, shard))
	limit := time.Now().Add(30 * time.Minute)
	if !deadline.IsZero() {
		limit = deadline.Add(90 * time.Second)
	}
	for {
		b, err := os.ReadFile(name)
		if err == nil {
			var lf levelFile
			if err := json.Unmarshal(b, &lf); err != nil {
				return nil, err
			}
			return &lf, nil
		}
		if time.Now().After(limit) {
			return nil, fmt.Errorf("timed out waiting for %s", name)
		}
		time.Sleep(20 * time.Millisecond)
	}
}

func (sp *Spec[I]) replay(inst I, hist []int) error {
	for _, h := range hist {
		if err := sp.Apply(inst, h); err != nil {
			// replaying a prefix that was clean before must stay clean: unowned nondeterminism
			return &Vio{Key: "replay-divergence", Desc: "prefix replay failed: " + err.Error()}
		}
	}
	return nil
}

func recovered(r any) *Vio {
	buf := make([]byte, 4096)
	buf = buf[:runtime.Stack(buf, false)]
	return &Vio{Key: "panic", Desc: fmt.Sprintf("panic: %v\n%s", r, buf)}
}

func (sp *Spec[I]) expand(e entry) []succ {
	out := make([]succ, 0, len(e.ops))
	for _, op := range e.ops {
		s := succ{Op: op}
		sp.inBubble(func() {
			var verr error
			defer func() {
				if r := recover(); r != nil {
					verr = recovered(r)
					s.Dead = true
				}
				if verr != nil {
					v, ok := verr.(*Vio)
					if !ok {
						v = &Vio{Key: "error", Desc: verr.Error()}
					}
					s.VKey, s.VDesc = v.Key, v.Desc
				}
			}()
			inst := sp.New()
			if verr = sp.replay(inst, e.hist); verr != nil {
				s.Dead = true
				return
			}
			verr = sp.Apply(inst, op)
			s.Key = hashKey(sp.Key(inst))
			if sp.Class != nil {
				s.Class = hashKey(sp.Class(inst))
			}
			s.Ops = sp.Enabled(inst)
			if sp.Close != nil {
				sp.Close(inst)
			}
		})
		out = append(out, s)
	}
	return out
}

func (sp *Spec[I]) probe(hist []int) (verr error) {
	sp.inBubble(func() {
		defer func() {
			if r := recover(); r != nil {
				verr = recovered(r)
			}
		}()
		inst := sp.New()
		if verr = sp.replay(inst, hist); verr != nil {
			return
		}
		verr = sp.Probe(inst)
		if sp.Close != nil {
			sp.Close(inst)
		}
	})
	return
}

// Fill merges the statistics of one search into a vrep result.
func Fill(r *vrep.Result, name string, st *Stats) {
	if st.Shard == 0 {
		r.States += st.States
		r.Transitions += st.Transitions
	}
	r.Executions += st.Executed
	if st.Capped != "" {
		r.Cap("%s: %s (levels completed: %d)", name, st.Capped, st.DepthDone)
	} else if !st.Closed {
		r.Exhaustive = false
		if st.Shard == 0 {
			r.Note("%s: depth bound %d reached before closure (all histories up to that length were explored)", name, st.DepthDone)
		}
	}
	if st.Shard == 0 {
		for _, s := range st.Samples {
			r.Sample(map[string]any{"search": name, "history": s})
		}
	}
	for _, v := range st.Violations {
		if v.Key == "replay-divergence" {
			// unowned nondeterminism costs coverage, it is never an alarm
			r.Cap("%s: replay divergence at %v: %s", name, v.History, v.Desc)
			continue
		}
		r.Violate(v.Key, v.Desc, map[string]any{"search": name, "history": v.History})
	}
	if n := st.NViolations - int64(len(st.Violations)); n > 0 {
		r.Note("%s: %d further violating transitions not listed", name, n)
	}
	if st.Shard == 0 {
		r.Outcome(fmt.Sprintf("%s: states=%d transitions=%d classes=%d depth=%d closed=%v shards=%d", name, st.States, st.Transitions, st.Classes, st.MaxDepth, st.Closed, st.Shards))
	}
}
