// Package vatomic replaces "sync/atomic" in instrumented packages: a scheduling point before every
// operation, then the real atomic.
package vatomic

import (
	"sync/atomic"
	"unsafe"

	vs "github.com/libp2p/go-libp2p/x/verif/vsched"
)

const pcAtomic = -6

type Int32 struct{ v atomic.Int32 }

func (a *Int32) Load() int32                    { vs.Point(pcAtomic); return a.v.Load() }
func (a *Int32) Store(x int32)                  { vs.Point(pcAtomic); a.v.Store(x) }
func (a *Int32) Add(d int32) int32              { vs.Point(pcAtomic); return a.v.Add(d) }
func (a *Int32) Swap(x int32) int32             { vs.Point(pcAtomic); return a.v.Swap(x) }
func (a *Int32) CompareAndSwap(o, n int32) bool { vs.Point(pcAtomic); return a.v.CompareAndSwap(o, n) }

type Uint32 struct{ v atomic.Uint32 }

func (a *Uint32) Load() uint32                    { vs.Point(pcAtomic); return a.v.Load() }
func (a *Uint32) Store(x uint32)                  { vs.Point(pcAtomic); a.v.Store(x) }
func (a *Uint32) Add(d uint32) uint32             { vs.Point(pcAtomic); return a.v.Add(d) }
func (a *Uint32) Swap(x uint32) uint32            { vs.Point(pcAtomic); return a.v.Swap(x) }
func (a *Uint32) CompareAndSwap(o, n uint32) bool { vs.Point(pcAtomic); return a.v.CompareAndSwap(o, n) }

type Int64 struct{ v atomic.Int64 }

func (a *Int64) Load() int64                    { vs.Point(pcAtomic); return a.v.Load() }
func (a *Int64) Store(x int64)                  { vs.Point(pcAtomic); a.v.Store(x) }
func (a *Int64) Add(d int64) int64              { vs.Point(pcAtomic); return a.v.Add(d) }
func (a *Int64) Swap(x int64) int64             { vs.Point(pcAtomic); return a.v.Swap(x) }
func (a *Int64) CompareAndSwap(o, n int64) bool { vs.Point(pcAtomic); return a.v.CompareAndSwap(o, n) }

type Uint64 struct{ v atomic.Uint64 }

func (a *Uint64) Load() uint64                    { vs.Point(pcAtomic); return a.v.Load() }
func (a *Uint64) Store(x uint64)                  { vs.Point(pcAtomic); a.v.Store(x) }
func (a *Uint64) Add(d uint64) uint64             { vs.Point(pcAtomic); return a.v.Add(d) }
func (a *Uint64) Swap(x uint64) uint64            { vs.Point(pcAtomic); return a.v.Swap(x) }
func (a *Uint64) CompareAndSwap(o, n uint64) bool { vs.Point(pcAtomic); return a.v.CompareAndSwap(o, n) }

type Bool struct{ v atomic.Bool }

func (a *Bool) Load() bool                    { vs.Point(pcAtomic); return a.v.Load() }
func (a *Bool) Store(x bool)                  { vs.Point(pcAtomic); a.v.Store(x) }
func (a *Bool) CompareAndSwap(o, n bool) bool { vs.Point(pcAtomic); return a.v.CompareAndSwap(o, n) }
func (a *Bool) Swap(x bool) bool              { vs.Point(pcAtomic); return a.v.Swap(x) }

type Pointer[T any] struct{ v atomic.Pointer[T] }

func (a *Pointer[T]) Load() *T                    { vs.Point(pcAtomic); return a.v.Load() }
func (a *Pointer[T]) Store(x *T)                  { vs.Point(pcAtomic); a.v.Store(x) }
func (a *Pointer[T]) Swap(x *T) *T                { vs.Point(pcAtomic); return a.v.Swap(x) }
func (a *Pointer[T]) CompareAndSwap(o, n *T) bool { vs.Point(pcAtomic); return a.v.CompareAndSwap(o, n) }

type Value struct{ v atomic.Value }

func (a *Value) Load() any                    { vs.Point(pcAtomic); return a.v.Load() }
func (a *Value) Store(x any)                  { vs.Point(pcAtomic); a.v.Store(x) }
func (a *Value) Swap(x any) any               { vs.Point(pcAtomic); return a.v.Swap(x) }
func (a *Value) CompareAndSwap(o, n any) bool { vs.Point(pcAtomic); return a.v.CompareAndSwap(o, n) }

func AddInt32(p *int32, d int32) int32      { vs.Point(pcAtomic); return atomic.AddInt32(p, d) }
func AddInt64(p *int64, d int64) int64      { vs.Point(pcAtomic); return atomic.AddInt64(p, d) }
func AddUint32(p *uint32, d uint32) uint32  { vs.Point(pcAtomic); return atomic.AddUint32(p, d) }
func AddUint64(p *uint64, d uint64) uint64  { vs.Point(pcAtomic); return atomic.AddUint64(p, d) }
func LoadInt32(p *int32) int32              { vs.Point(pcAtomic); return atomic.LoadInt32(p) }
func LoadInt64(p *int64) int64              { vs.Point(pcAtomic); return atomic.LoadInt64(p) }
func LoadUint32(p *uint32) uint32           { vs.Point(pcAtomic); return atomic.LoadUint32(p) }
func LoadUint64(p *uint64) uint64           { vs.Point(pcAtomic); return atomic.LoadUint64(p) }
func StoreInt32(p *int32, v int32)          { vs.Point(pcAtomic); atomic.StoreInt32(p, v) }
func StoreInt64(p *int64, v int64)          { vs.Point(pcAtomic); atomic.StoreInt64(p, v) }
func StoreUint32(p *uint32, v uint32)       { vs.Point(pcAtomic); atomic.StoreUint32(p, v) }
func StoreUint64(p *uint64, v uint64)       { vs.Point(pcAtomic); atomic.StoreUint64(p, v) }
func SwapInt32(p *int32, v int32) int32     { vs.Point(pcAtomic); return atomic.SwapInt32(p, v) }
func SwapInt64(p *int64, v int64) int64     { vs.Point(pcAtomic); return atomic.SwapInt64(p, v) }
func SwapUint32(p *uint32, v uint32) uint32 { vs.Point(pcAtomic); return atomic.SwapUint32(p, v) }
func CompareAndSwapInt32(p *int32, o, n int32) bool {
	vs.Point(pcAtomic)
	return atomic.CompareAndSwapInt32(p, o, n)
}
func CompareAndSwapInt64(p *int64, o, n int64) bool {
	vs.Point(pcAtomic)
	return atomic.CompareAndSwapInt64(p, o, n)
}
func CompareAndSwapUint32(p *uint32, o, n uint32) bool {
	vs.Point(pcAtomic)
	return atomic.CompareAndSwapUint32(p, o, n)
}
func CompareAndSwapUint64(p *uint64, o, n uint64) bool {
	vs.Point(pcAtomic)
	return atomic.CompareAndSwapUint64(p, o, n)
}
func LoadPointer(p *unsafe.Pointer) unsafe.Pointer     { vs.Point(pcAtomic); return atomic.LoadPointer(p) }
func StorePointer(p *unsafe.Pointer, v unsafe.Pointer) { vs.Point(pcAtomic); atomic.StorePointer(p, v) }
