// Package vsync replaces "sync" in instrumented packages. Every primitive keeps ONE logical state that is
// valid with and without an active scheduler: a scheduled thread waits through the scheduler (so that the
// scheduler sees it as disabled and explores every hand-off order), any other goroutine waits natively on a
// channel. Acquire-type operations are scheduling points.
package vsync

import (
	"sync"

	vs "github.com/libp2p/go-libp2p/x/verif/vsched"
)

type (
	Map    = sync.Map
	Locker = sync.Locker
)

// Pool is a deterministic stand-in for sync.Pool: a LIFO stack that never drops anything. sync.Pool's contract lets
// Get return any item that was Put, or none; a LIFO stack is one legal behaviour, and the one that keeps executions
// replayable (the real pool depends on the processor a goroutine happens to run on and on the garbage collector).
// Get and Put are atomic steps, not scheduling points.
type Pool struct {
	New   func() any
	mu    sync.Mutex
	items []any
}

func (p *Pool) Get() any {
	p.mu.Lock()
	if n := len(p.items); n > 0 {
		x := p.items[n-1]
		p.items[n-1] = nil
		p.items = p.items[:n-1]
		p.mu.Unlock()
		return x
	}
	p.mu.Unlock()
	if p.New != nil {
		return p.New()
	}
	return nil
}

func (p *Pool) Put(x any) {
	if x == nil {
		return
	}
	p.mu.Lock()
	p.items = append(p.items, x)
	p.mu.Unlock()
}

// Cond: Wait releases L, waits (through the scheduler for a scheduled thread) until a Signal / Broadcast
// issued after the call covers its ticket, then re-acquires L. Signal wakes the oldest waiter.
type Cond struct {
	L        Locker
	q        waitq
	next     uint64 // next ticket
	released uint64 // tickets below this value may proceed
	waiting  uint64 // number of waiters not yet released
}

func NewCond(l Locker) *Cond { return &Cond{L: l} }

func (c *Cond) Wait() {
	c.q.g.Lock()
	ticket := c.next
	c.next++
	c.waiting++
	c.q.g.Unlock()
	c.L.Unlock()
	c.q.acquire(c, pcWait, func() bool { return ticket < c.released })
	c.L.Lock()
}

func (c *Cond) Signal() {
	c.q.update(c, func() {
		if c.waiting > 0 {
			c.waiting--
			c.released++
		}
	})
}

func (c *Cond) Broadcast() {
	c.q.update(c, func() {
		c.released = c.next
		c.waiting = 0
	})
}

const (
	pcLock   = -1
	pcRLock  = -2
	pcWait   = -3
	pcOnce   = -4
	pcUnlock = -5
)

// waitq is the native wait side shared by all primitives.
type waitq struct {
	g sync.Mutex
	w chan struct{}
}

// acquire blocks until try() succeeds. try is called with q.g held.
func (q *waitq) acquire(obj any, pc int, try func() bool) {
	if vs.Self() {
		if pc != 0 {
			vs.Point(pc)
		}
		if vs.WaitOn(obj, func() bool { q.g.Lock(); ok := try(); q.g.Unlock(); return ok }) {
			return
		}
	}
	for {
		q.g.Lock()
		if try() {
			q.g.Unlock()
			return
		}
		if q.w == nil {
			q.w = make(chan struct{})
		}
		w := q.w
		q.g.Unlock()
		<-w
	}
}

// update changes the state under q.g and wakes every waiter (they re-try).
func (q *waitq) update(obj any, f func()) {
	q.g.Lock()
	f()
	w := q.w
	q.w = nil
	q.g.Unlock()
	if w != nil {
		close(w)
	}
	vs.Wake(obj)
}

type Mutex struct {
	q      waitq
	locked bool
}

func (m *Mutex) Lock() {
	m.q.acquire(m, pcLock, func() bool {
		if m.locked {
			return false
		}
		m.locked = true
		return true
	})
}

func (m *Mutex) Unlock() {
	m.q.update(m, func() {
		if !m.locked {
			panic("vsync: unlock of unlocked mutex")
		}
		m.locked = false
	})
}

func (m *Mutex) TryLock() bool {
	if vs.Self() {
		vs.Point(pcLock)
	}
	ok := false
	m.q.g.Lock()
	if !m.locked {
		m.locked = true
		ok = true
	}
	m.q.g.Unlock()
	return ok
}

// IsLocked is for white-box invariants evaluated while every thread is stopped.
func (m *Mutex) IsLocked() bool { return m.locked }

// RWMutex implements Go's writer preference: a waiting writer blocks new readers, so a recursive read lock
// deadlocks here exactly as it can in production.
type RWMutex struct {
	q        waitq
	readers  int
	writer   bool
	wwaiting int
}

func (m *RWMutex) Lock() {
	if vs.Self() {
		vs.Point(pcLock)
	}
	m.q.g.Lock()
	m.wwaiting++
	m.q.g.Unlock()
	m.q.acquire(m, 0, func() bool {
		if m.writer || m.readers > 0 {
			return false
		}
		m.writer = true
		m.wwaiting--
		return true
	})
}

func (m *RWMutex) Unlock() {
	m.q.update(m, func() {
		if !m.writer {
			panic("vsync: Unlock of unlocked RWMutex")
		}
		m.writer = false
	})
}

func (m *RWMutex) RLock() {
	m.q.acquire(m, pcRLock, func() bool {
		if m.writer || m.wwaiting > 0 {
			return false
		}
		m.readers++
		return true
	})
}

func (m *RWMutex) RUnlock() {
	m.q.update(m, func() {
		if m.readers <= 0 {
			panic("vsync: RUnlock of unlocked RWMutex")
		}
		m.readers--
	})
}

func (m *RWMutex) TryLock() bool {
	if vs.Self() {
		vs.Point(pcLock)
	}
	ok := false
	m.q.g.Lock()
	if !m.writer && m.readers == 0 {
		m.writer = true
		ok = true
	}
	m.q.g.Unlock()
	return ok
}

func (m *RWMutex) TryRLock() bool {
	if vs.Self() {
		vs.Point(pcRLock)
	}
	ok := false
	m.q.g.Lock()
	if !m.writer && m.wwaiting == 0 {
		m.readers++
		ok = true
	}
	m.q.g.Unlock()
	return ok
}

func (m *RWMutex) IsLocked() bool { return m.writer || m.readers > 0 }

func (m *RWMutex) RLocker() Locker { return (*rlocker)(m) }

type rlocker RWMutex

func (r *rlocker) Lock()   { (*RWMutex)(r).RLock() }
func (r *rlocker) Unlock() { (*RWMutex)(r).RUnlock() }

type WaitGroup struct {
	q waitq
	n int
}

func (w *WaitGroup) Add(d int) {
	w.q.update(w, func() {
		w.n += d
		if w.n < 0 {
			panic("vsync: negative WaitGroup counter")
		}
	})
}

func (w *WaitGroup) Done() { w.Add(-1) }

func (w *WaitGroup) Wait() {
	w.q.acquire(w, pcWait, func() bool { return w.n == 0 })
}

func (w *WaitGroup) Go(f func()) {
	w.Add(1)
	id := vs.Spawn(pcWait)
	go func() {
		vs.Start(id)
		defer vs.Exit()
		defer w.Done()
		f()
	}()
}

type Once struct {
	q       waitq
	done    bool
	running bool
}

func (o *Once) Do(f func()) {
	run := false
	o.q.acquire(o, pcOnce, func() bool {
		if o.done {
			return true
		}
		if !o.running {
			o.running = true
			run = true
			return true
		}
		return false
	})
	if run {
		defer o.q.update(o, func() { o.done = true; o.running = false })
		f()
	}
}

func OnceFunc(f func()) func() {
	var o Once
	return func() { o.Do(f) }
}

func OnceValue[T any](f func() T) func() T {
	var o Once
	var v T
	return func() T { o.Do(func() { v = f() }); return v }
}

func OnceValues[T1, T2 any](f func() (T1, T2)) func() (T1, T2) {
	var o Once
	var v1 T1
	var v2 T2
	return func() (T1, T2) { o.Do(func() { v1, v2 = f() }); return v1, v2 }
}
