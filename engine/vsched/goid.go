package vsched

import (
	"os"
	"runtime"
	"strconv"
	"sync"
	"unsafe"
)

// getg is provided by the instrumented package (assembly, see engine/instr/getg); nil = slow path only.
var getg func() uintptr

// RegisterGetg installs the fast current-g accessor and calibrates the goid offset.
func RegisterGetg(f func() uintptr) {
	if getg != nil || os.Getenv("VERIF_FREE") != "" {
		// the free-running -race pass never asks for goroutine ids (and -race enables checkptr, which rejects
		// the pointer arithmetic on g)
		return
	}
	getg = f
	goidOff = calibrate()
}

// goidSlow parses the goroutine id out of a stack trace (walks the whole stack: ~10-100 µs).
func goidSlow() int64 {
	var buf [64]byte
	n := runtime.Stack(buf[:], false)
	s := buf[10:n]
	i := 0
	for i < len(s) && s[i] >= '0' && s[i] <= '9' {
		i++
	}
	id, _ := strconv.ParseInt(string(s[:i]), 10, 64)
	return id
}

// goidOff is the offset of the goid field inside the runtime's g struct, found by calibration: a number of
// goroutines compare the id parsed from their stack trace with the words of their own g. -1 = unknown
// (fall back to the slow path).
var goidOff = -1

func calibrate() int {
	const maxOff = 512
	cand := map[int]int{}
	var mu sync.Mutex
	var wg sync.WaitGroup
	const n = 8
	for k := 0; k < n; k++ {
		wg.Add(1)
		go func() {
			defer wg.Done()
			id := goidSlow()
			g := getg()
			mu.Lock()
			for off := 0; off < maxOff; off += 8 {
				if *(*int64)(unsafe.Pointer(g + uintptr(off))) == id {
					cand[off]++
				}
			}
			mu.Unlock()
		}()
	}
	wg.Wait()
	best := -1
	for off, c := range cand {
		if c == n && (best == -1 || off < best) {
			best = off
		}
	}
	return best
}

func goid() int64 {
	if goidOff < 0 || getg == nil {
		return goidSlow()
	}
	return *(*int64)(unsafe.Pointer(getg() + uintptr(goidOff)))
}
