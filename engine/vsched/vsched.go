// Package vsched is engine E2's run-time: a cooperative scheduler that runs exactly one logical thread of
// instrumented code at a time inside a testing/synctest bubble, and records/replays the choices made at
// every scheduling point (which enabled thread runs next, which select case is preferred, whether virtual
// time advances). The source instrumenter (engine/instr) rewrites the package under test so that every
// sync / sync/atomic operation, channel operation, select and go statement calls into this package.
//
// When no scheduler is active (package init, harness set-up outside an execution) every entry point is a
// pass-through to the native operation, so instrumented code behaves like the original.
package vsched

import (
	"fmt"
	"reflect"
	"sync/atomic"
	"runtime"
	"sort"
	"strconv"
	"strings"
	"sync"
	"testing/synctest"
	"time"
)

const (
	stParked   = iota + 1 // waiting at a scheduling point: enabled
	stNative              // released and not back yet: running, or blocked in a native operation
	stLockWait            // blocked on a shim object (mutex, once, waitgroup); enabled again when it is signalled
	stResumed             // came back from a native block while another thread was current; continues without a choice
	stExited
	stWaitQuiet // waiting for quiescence (the scheduler's counterpart of synctest.Wait): enabled only when nobody else is
)

// SyncWait replaces synctest.Wait() in instrumented harness code: a scheduled thread continues only once no
// other thread is enabled (everybody else is blocked or finished); any other goroutine calls synctest.Wait.
func SyncWait() {
	t := self()
	s := S
	if t == nil || s == nil {
		// free-running mode (or a goroutine outside the scheduler): synctest.Wait must not be entered by two
		// goroutines at once; waiting on a channel keeps the second caller durably blocked meanwhile
		if sem := freeSem; sem != nil {
			sem <- struct{}{}
			synctest.Wait()
			<-sem
			return
		}
		synctest.Wait()
		return
	}
	t.pc = -10
	t.selN = 0
	s.park(t, stWaitQuiet)
}

var freeSem chan struct{}

var stNames = map[int]string{stWaitQuiet: "wait-quiescence", stParked: "parked", stNative: "native-blocked", stLockWait: "lock-wait", stResumed: "resumed", stExited: "exited"}

// Thread is one logical thread (a goroutine that has touched an instrumented operation).
type Thread struct {
	ID      int
	Name    string
	Harness bool // started with Go(): the execution is complete only when all of these exited
	Prio    int  // default schedule prefers lower values (environment / cancellation threads get higher ones)
	gate    chan struct{}
	state   int
	waitOn  any
	pc      int // last point
	selN    int // >0: parked at a select point with selN cases
	pref    int // select preference handed back by SelectPoint
}

// Choice kinds.
const (
	KThread = 0 // which enabled thread runs
	KSelect = 1 // which case a select polls first
	KTick   = 2 // (as an alternative of a KThread point) advance virtual time
)

// PointRec is one recorded choice point.
type PointRec struct {
	Kind   int
	N      int    // number of alternatives
	Chosen int    // alternative taken
	Cost   int    // cost of taking a thread/select alternative other than 0 here (1 = preemption / deviation, 0 = free)
	NT     int    // KThread points: alternatives [0,NT) are threads, [NT,N) are virtual-time ticks (always cost 1)
	Sig    uint32 // signature of the alternatives (thread ids, pcs) for replay-divergence detection
	Thread int    // thread that ran (KThread) / thread selecting (KSelect)
	PC     int
}

// Options of one execution.
type Options struct {
	Choices  []int           // prefix to replay; beyond it alternative 0 is taken everywhere
	Ticks    []time.Duration // virtual-time advances offered as alternatives while threads are enabled
	Horizon  time.Duration   // when nothing is enabled, virtual time is advanced up to this much (in IdleStep increments) before declaring deadlock
	IdleStep time.Duration   // granularity of idle time advance (default Horizon)
	MaxSteps int             // step budget (default 20000)
	// Invariant, when set, is evaluated between steps while every thread is stopped.
	Invariant func() error
	TraceOn   bool // record a human-readable trace
	MaxTicks  int  // maximal number of explicit tick alternatives taken in one execution (default 2)
	// FreeSwitch selects classic preemption bounding: choosing another thread costs nothing when the thread
	// that ran last is blocked or finished. The default (false) is delay bounding: the scheduler is a
	// deterministic non-preemptive one (keep running the same thread, else the lowest id) and EVERY departure
	// from its choice costs one deviation, so bound d explores O((points*alternatives)^d) schedules.
	FreeSwitch bool
	// Free: no scheduling at all - harness threads are plain goroutines and every instrumented operation is a
	// pass-through. Used for the free-running -race pass that validates the data-race-freedom assumption.
	Free bool
}

// Sched is the scheduler of one execution.
type Sched struct {
	mu       sync.Mutex
	byG      map[int64]*Thread
	threads  []*Thread
	current  *Thread
	last     *Thread
	opt      Options
	Trace    []PointRec
	Steps    int
	Log      []string
	Diverged string // non-empty: replaying the prefix did not reproduce the recorded alternatives
	Deadlock string
	Horizon  bool // step budget exhausted
	InvErr   error
	ThreadPanic string
	ticksUsed int
	draining bool
	foreign  map[int64]bool
	stamp    int64
	Free     bool
	freeWG   sync.WaitGroup
	idleTotal time.Duration
	born     map[any]int
}

// S is the active scheduler (nil = pass-through).
var S *Sched

var (
	foreignOnce sync.Once
	foreignG    map[int64]bool
)

// snapshotForeign records the goroutines that exist before the first execution of this process (test
// runner, signal handlers, ...): they are never scheduled.
func snapshotForeign() {
	foreignOnce.Do(func() {
		foreignG = map[int64]bool{}
		buf := make([]byte, 1<<20)
		n := runtime.Stack(buf, true)
		for _, line := range strings.Split(string(buf[:n]), "\n") {
			if strings.HasPrefix(line, "goroutine ") {
				f := strings.Fields(line)
				if id, err := strconv.ParseInt(f[1], 10, 64); err == nil {
					foreignG[id] = true
				}
			}
		}
	})
}

// New activates a scheduler for one execution. Must be called from the bubble's root goroutine, which then
// calls Go() for the harness threads and Run().
func New(opt Options) *Sched {
	snapshotForeign()
	if opt.MaxSteps == 0 {
		opt.MaxSteps = 20000
	}
	if opt.MaxTicks == 0 {
		opt.MaxTicks = 2
	}
	if opt.IdleStep == 0 {
		opt.IdleStep = opt.Horizon
	}
	s := &Sched{byG: map[int64]*Thread{}, opt: opt, Free: opt.Free}
	if opt.Free {
		S = nil
		freeSem = make(chan struct{}, 1) // made inside the bubble of this run
		return s
	}
	freeSem = nil
	s.byG[goid()] = nil // the scheduler goroutine itself is never a thread
	S = s
	return s
}

// self returns the calling goroutine's thread, registering an unknown in-bubble goroutine on first contact.
func self() *Thread {
	s := S
	if s == nil {
		return nil
	}
	g := goid()
	s.mu.Lock()
	t, ok := s.byG[g]
	if !ok {
		if foreignG[g] {
			s.byG[g] = nil
			s.mu.Unlock()
			return nil
		}
		t = &Thread{ID: len(s.threads), gate: make(chan struct{}), state: stNative, Name: "auto"}
		s.threads = append(s.threads, t)
		s.byG[g] = t
	}
	s.mu.Unlock()
	return t
}

// Active reports whether the caller is a scheduled thread.
func Active() bool { return S != nil && self() != nil }

func (s *Sched) park(t *Thread, st int) {
	s.mu.Lock()
	t.state = st
	s.mu.Unlock()
	<-t.gate
}

// Point is a scheduling point: the thread stops here until the scheduler picks it.
func Point(pc int) {
	t := self()
	if t == nil {
		return
	}
	s := S
	if s == nil {
		return
	}
	t.pc = pc
	t.selN = 0
	s.park(t, stParked)
}

// After is called right after a native operation that may have blocked: if the thread was woken by somebody
// else's step it must wait until the scheduler lets it continue.
func After() {
	t := self()
	if t == nil {
		return
	}
	s := S
	if s == nil {
		return
	}
	s.mu.Lock()
	cur := s.current
	s.mu.Unlock()
	if cur != t {
		s.park(t, stResumed)
	}
}

// BlockEnter marks that the thread is about to block natively in a select.
func BlockEnter() {}

// Chose records the case a select took (informational).
func Chose(k int) {}

var rot atomic.Int64

// SelectPoint is the scheduling point of a select with n communication cases; it returns the index of the
// case to poll first.
func SelectPoint(pc, n int) int {
	t := self()
	if t == nil || S == nil {
		// native fairness outside the scheduler: rotate (a fixed preference would starve cases)
		return int(uint64(rot.Add(1)) % uint64(n))
	}
	s := S
	t.pc = pc
	t.selN = n
	t.pref = 0
	s.park(t, stParked)
	p := t.pref
	t.selN = 0
	if p >= n {
		p = 0
	}
	return p
}

// Spawn registers a child thread (called in the parent, before the go statement).
func Spawn(pc int) int {
	s := S
	if s == nil || self() == nil {
		return -1
	}
	s.mu.Lock()
	t := &Thread{ID: len(s.threads), gate: make(chan struct{}), state: stNative, Name: "go@" + strconv.Itoa(pc)}
	s.threads = append(s.threads, t)
	s.mu.Unlock()
	return t.ID
}

// Start is the first call of a spawned goroutine.
func Start(id int) {
	s := S
	if s == nil || id < 0 {
		return
	}
	g := goid()
	s.mu.Lock()
	if id >= len(s.threads) {
		s.mu.Unlock()
		return
	}
	t := s.threads[id]
	s.byG[g] = t
	s.mu.Unlock()
	s.park(t, stParked)
}

// Exit is deferred by every spawned goroutine.
// A panic of the thread is captured (reported as a violation by the explorer) instead of killing the worker
// process; without an active scheduler it is re-raised.
func Exit() {
	r := recover()
	s := S
	if s == nil {
		if r != nil {
			panic(r)
		}
		return
	}
	g := goid()
	s.mu.Lock()
	if t := s.byG[g]; t != nil {
		t.state = stExited
		if r != nil && s.ThreadPanic == "" {
			buf := make([]byte, 6144)
			buf = buf[:runtime.Stack(buf, false)]
			s.ThreadPanic = fmt.Sprintf("T%d(%s): %v\n%s", t.ID, t.Name, r, buf)
		}
	} else if r != nil {
		s.mu.Unlock()
		panic(r)
	}
	s.mu.Unlock()
}

// Go starts a harness thread (called from the bubble root before Run, or from another thread).
func (s *Sched) Go(name string, f func()) { s.GoPrio(name, 0, f) }

// GoPrio starts a harness thread that the default (deviation-free) schedule runs only when no thread of lower
// prio value is enabled: environment events, cancellations and shutdowns are "late" by default, and every
// earlier placement of them costs deviations like any other departure from the default schedule.
func (s *Sched) GoPrio(name string, prio int, f func()) {
	if s.Free {
		s.freeWG.Add(1)
		go func() {
			defer s.freeWG.Done()
			defer func() {
				if r := recover(); r != nil {
					s.mu.Lock()
					s.ThreadPanic = fmt.Sprint(r)
					s.mu.Unlock()
				}
			}()
			f()
		}()
		return
	}
	s.mu.Lock()
	t := &Thread{ID: len(s.threads), gate: make(chan struct{}), state: stNative, Name: name, Harness: true, Prio: prio}
	s.threads = append(s.threads, t)
	s.mu.Unlock()
	id := t.ID
	go func() {
		Start(id)
		defer Exit()
		f()
	}()
}

// WaitOn blocks the calling thread until cond() holds. cond is evaluated under the scheduler lock and must
// be made true by another thread calling WakeLocked(obj) inside Locked.
// It returns false if the scheduler was stopped while waiting (the caller falls back to native waiting).
func WaitOn(obj any, cond func() bool) bool {
	t := self()
	s := S
	if s == nil || t == nil {
		return false
	}
	for {
		s.mu.Lock()
		if S != s {
			s.mu.Unlock()
			return false
		}
		if cond() {
			s.mu.Unlock()
			return true
		}
		t.state = stLockWait
		t.waitOn = obj
		s.mu.Unlock()
		<-t.gate
	}
}

// Wake makes all threads waiting on obj enabled again (no-op without a scheduler).
func Wake(obj any) {
	s := S
	if s == nil {
		return
	}
	s.mu.Lock()
	for _, t := range s.threads {
		if t.state == stLockWait && t.waitOn == obj {
			t.state = stParked
			t.waitOn = nil
			t.selN = 0
		}
	}
	s.mu.Unlock()
}

// Self reports whether the caller is a scheduled thread of the active scheduler.
func Self() bool { return self() != nil }

// Locked runs f under the scheduler lock (shim state updates).
func Locked(f func()) {
	s := S
	if s == nil {
		freeMu.Lock()
		f()
		freeMu.Unlock()
		return
	}
	s.mu.Lock()
	f()
	s.mu.Unlock()
}

var freeMu sync.Mutex

// WakeLocked makes all threads waiting on obj enabled again. Caller is inside Locked.
func WakeLocked(obj any) {
	for _, t := range S.threads {
		if t.state == stLockWait && t.waitOn == obj {
			t.state = stParked
			t.waitOn = nil
			t.selN = 0
		}
	}
}

// Now returns the step counter: an exact logical clock, since one thread runs at a time.
func Now() int {
	if S == nil {
		return 0
	}
	return S.Steps
}

func (s *Sched) logf(f string, a ...any) {
	if s.opt.TraceOn {
		s.Log = append(s.Log, fmt.Sprintf(f, a...))
	}
}

func (s *Sched) release(t *Thread) {
	s.mu.Lock()
	t.state = stNative
	s.current = t
	s.mu.Unlock()
	t.gate <- struct{}{}
	synctest.Wait()
	s.mu.Lock()
	s.current = nil
	s.mu.Unlock()
	s.Steps++
}

func (s *Sched) runResumed() {
	for {
		var r *Thread
		s.mu.Lock()
		for _, t := range s.threads {
			if t.state == stResumed {
				r = t
				break
			}
		}
		s.mu.Unlock()
		if r == nil {
			return
		}
		s.logf("  resume T%d(%s)", r.ID, r.Name)
		s.release(r)
	}
}

func (s *Sched) enabled() (en []*Thread, lastEnabled bool) {
	s.mu.Lock()
	defer s.mu.Unlock()
	if s.last != nil && s.last.state == stParked {
		en = append(en, s.last)
		lastEnabled = true
	}
	n0 := len(en)
	// round-robin: the default continues with the enabled thread that follows the last runner in cyclic id
	// order (delay bounding: a thread that is skipped goes to the end of the line, so one deviation buys a
	// whole round of delay), lower prio classes first
	start := 0
	if s.last != nil {
		start = s.last.ID + 1
	}
	n := len(s.threads)
	for k := 0; k < n; k++ {
		t := s.threads[(start+k)%n]
		if t.state == stParked && t != s.last {
			en = append(en, t)
		}
	}
	rest := en[n0:]
	sort.SliceStable(rest, func(i, j int) bool { return rest[i].Prio < rest[j].Prio })
	return
}

func (s *Sched) harnessDone() bool {
	s.mu.Lock()
	defer s.mu.Unlock()
	for _, t := range s.threads {
		if t.Harness && t.state != stExited {
			return false
		}
	}
	return true
}

func sig(en []*Thread, extra int) uint32 {
	h := uint32(2166136261)
	for _, t := range en {
		h = (h ^ uint32(t.ID+1)) * 16777619
		h = (h ^ uint32(t.pc+7)) * 16777619
	}
	h = (h ^ uint32(extra)) * 16777619
	return h
}

// next returns the choice to take at the next recorded point.
func (s *Sched) next(n int) int {
	i := len(s.Trace)
	if s.draining || i >= len(s.opt.Choices) {
		return 0
	}
	c := s.opt.Choices[i]
	if c >= n {
		s.Diverged = fmt.Sprintf("choice %d of point %d out of range (only %d alternatives now)", c, i, n)
		return 0
	}
	return c
}

// Describe lists the threads and their states (deadlock reports).
func (s *Sched) Describe() string {
	s.mu.Lock()
	defer s.mu.Unlock()
	var sb strings.Builder
	for _, t := range s.threads {
		if t.state == stExited {
			continue
		}
		fmt.Fprintf(&sb, "T%d(%s):%s@pc%d ", t.ID, t.Name, stNames[t.state], t.pc)
	}
	return sb.String()
}

// Run drives the threads until every harness thread has exited and nothing is enabled (quiescence), a
// deadlock is detected or the step budget is exhausted. It returns true on normal completion.
func (s *Sched) Run() bool {
	if s.Free {
		s.freeWG.Wait()
		return false // no verdicts in free mode: the harness bodies skip their oracles
	}
	idle := time.Duration(0)
	idleRounds := 0
	for {
		synctest.Wait()
		s.runResumed()
		if s.opt.Invariant != nil && s.InvErr == nil && !s.draining {
			if err := s.opt.Invariant(); err != nil {
				s.InvErr = err
				return false
			}
		}
		if s.Steps > s.opt.MaxSteps {
			s.Horizon = true
			return false
		}
		en, lastEnabled := s.enabled()
		if len(en) == 0 {
			// quiescent: a thread waiting for exactly that may continue (lowest id first, no choice)
			var q *Thread
			s.mu.Lock()
			for _, t := range s.threads {
				if t.state == stWaitQuiet {
					q = t
					break
				}
			}
			s.mu.Unlock()
			if q != nil {
				s.logf("  quiescent: T%d(%s) continues after SyncWait", q.ID, q.Name)
				s.last = q
				s.release(q)
				continue
			}
			if s.harnessDone() {
				return true
			}
			if idle < s.opt.Horizon {
				// adaptive idle advance: start with IdleStep and double it while nothing happens, so that a
				// long wait (a 15 s dial timeout) costs a handful of steps while timers that are close together
				// are still delivered one by one
				step := s.opt.IdleStep
				if step <= 0 {
					step = s.opt.Horizon
				}
				for k := 0; k < idleRounds; k++ {
					step *= 2
				}
				if idle+step > s.opt.Horizon {
					step = s.opt.Horizon - idle + time.Millisecond
				}
				idleRounds++
				idle += step
				s.idleTotal += step
				s.logf("idle: advance virtual time by %v", step)
				time.Sleep(step)
				continue
			}
			s.Deadlock = s.Describe()
			return false
		}
		idle = 0
		idleRounds = 0
		nAlt := len(en)
		ticks := 0
		if !s.draining && s.ticksUsed < s.opt.MaxTicks {
			ticks = len(s.opt.Ticks)
		}
		nAlt += ticks
		c := s.next(nAlt)
		cost := 1
		if s.opt.FreeSwitch && !lastEnabled {
			cost = 0
		}
		rec := PointRec{Kind: KThread, N: nAlt, NT: len(en), Chosen: c, Cost: cost, Sig: sig(en, ticks)}
		if c >= len(en) {
			// explicit tick
			d := s.opt.Ticks[c-len(en)]
			rec.Kind = KTick
			rec.Cost = 1
			if !s.draining {
				s.Trace = append(s.Trace, rec)
			}
			s.ticksUsed++
			s.logf("tick %v", d)
			time.Sleep(d)
			continue
		}
		t := en[c]
		rec.Thread = t.ID
		rec.PC = t.pc
		if !s.draining {
			s.Trace = append(s.Trace, rec)
		}
		s.last = t
		if t.selN >= 2 {
			p := s.next(t.selN)
			if !s.draining {
				s.Trace = append(s.Trace, PointRec{Kind: KSelect, N: t.selN, Chosen: p, Cost: 1, Sig: uint32(t.pc), Thread: t.ID, PC: t.pc})
			}
			t.pref = p
		}
		s.logf("step %d: T%d(%s) pc=%d  [enabled %d, alt %d]", s.Steps, t.ID, t.Name, t.pc, len(en), c)
		s.release(t)
	}
}

// Drain keeps running with default choices and without recording (tear-down phase).
func (s *Sched) Drain() bool {
	s.draining = true
	ok := s.Run()
	return ok
}

// Resume continues exploring (recorded) after the harness has started more threads.
func (s *Sched) Resume() bool {
	s.draining = false
	return s.Run()
}

// Stop deactivates the scheduler and lets every parked thread run freely so that the bubble can end.
func (s *Sched) Stop() {
	if s.Free {
		return
	}
	s.mu.Lock()
	S = nil
	var parked []*Thread
	for _, t := range s.threads {
		if t.state == stParked || t.state == stLockWait || t.state == stResumed || t.state == stWaitQuiet {
			parked = append(parked, t)
		}
	}
	s.mu.Unlock()
	for _, t := range parked {
		close(t.gate)
	}
}

// Threads returns a description of all threads (for traces).
func (s *Sched) Threads() []string {
	var out []string
	for _, t := range s.threads {
		out = append(out, fmt.Sprintf("T%d=%s", t.ID, t.Name))
	}
	sort.Strings(out)
	return out
}

// ---- generic helpers used by rewritten code and by harness threads ----

type SlotT[T any] struct {
	V  T
	Ok bool
}

func Slot[T any](c <-chan T) *SlotT[T] { return &SlotT[T]{} }

func Recv[T any](pc int, c <-chan T) T {
	Point(pc)
	v := <-c
	After()
	return v
}

func Recv2[T any](pc int, c <-chan T) (T, bool) {
	Point(pc)
	v, ok := <-c
	After()
	return v, ok
}

func Send[T any](pc int, c chan<- T, v T) {
	Point(pc)
	c <- v
	After()
}

// Yield is an explicit scheduling point for harness threads.
func Yield() { Point(-9) }

var stampCtr int64

// Stamp returns the next value of a global logical clock. Only one thread runs at a time, so stamps taken by
// scheduled threads totally order the stamped events exactly as they happened.
func Stamp() int64 {
	s := S
	if s == nil {
		return 0
	}
	s.mu.Lock()
	s.stamp++
	v := s.stamp
	s.mu.Unlock()
	return v
}

// RecvOr receives from c, or gives up once stop is closed and c has nothing ready (data is preferred).
func RecvOr[T any](c <-chan T, stop <-chan struct{}) (v T, ok bool, stopped bool) {
	Point(-9)
	select {
	case v, ok = <-c:
		return v, ok, false
	default:
	}
	select {
	case v, ok = <-c:
		After()
		return v, ok, false
	case <-stop:
		After()
		return v, false, true
	}
}

// TryRecv polls c without blocking (a scheduling point).
func TryRecv[T any](c <-chan T) (v T, ok bool, got bool) {
	Point(-9)
	select {
	case v, ok = <-c:
		return v, ok, true
	default:
		return v, false, false
	}
}

// Close closes c at a scheduling point.
func Close[T any](c chan T) {
	Point(-9)
	close(c)
}

// Sleep blocks the thread for d of virtual time (it advances only when the scheduler lets time pass).
func Sleep(d time.Duration) {
	Point(-9)
	time.Sleep(d)
	After()
}

// ---- deterministic map iteration (Go randomises the order; see instr rangeMap) ----

// Born records the first time a reference-typed map key is inserted: the order of insertion is the
// canonical iteration order for keys without a natural order. Deterministic because executions are.
func Born(k any) {
	s := S
	if s == nil {
		return
	}
	s.mu.Lock()
	if s.born == nil {
		s.born = map[any]int{}
	}
	if _, ok := s.born[k]; !ok {
		s.born[k] = len(s.born) + 1
	}
	s.mu.Unlock()
}

type MapIter[K comparable, V any] struct {
	m    map[K]V
	keys []K
	i    int
	K    K
	V    V
}

func (it *MapIter[K, V]) Next() bool {
	for it.i < len(it.keys) {
		k := it.keys[it.i]
		it.i++
		if v, ok := it.m[k]; ok {
			it.K, it.V = k, v
			return true
		}
	}
	return false
}

// MapRange returns an iterator over m in canonical order (native order when no scheduler is active).
func MapRange[M ~map[K]V, K comparable, V any](m M) *MapIter[K, V] {
	it := &MapIter[K, V]{m: m, keys: make([]K, 0, len(m))}
	for k := range m {
		it.keys = append(it.keys, k)
	}
	s := S
	if s == nil || len(it.keys) < 2 {
		return it
	}
	rank := make([]string, len(it.keys))
	for i, k := range it.keys {
		rank[i] = keyRank(s, any(k))
	}
	idx := make([]int, len(it.keys))
	for i := range idx {
		idx[i] = i
	}
	sort.SliceStable(idx, func(a, b int) bool { return rank[idx[a]] < rank[idx[b]] })
	sorted := make([]K, len(it.keys))
	for i, j := range idx {
		sorted[i] = it.keys[j]
	}
	it.keys = sorted
	return it
}

func keyRank(s *Sched, k any) string {
	switch v := k.(type) {
	case string:
		return "s" + v
	case int:
		return fmt.Sprintf("i%020d", int64(v)+1<<62)
	case int32:
		return fmt.Sprintf("i%020d", int64(v)+1<<62)
	case int64:
		return fmt.Sprintf("i%020d", v/2+1<<61)
	case uint32:
		return fmt.Sprintf("i%020d", uint64(v))
	case uint64:
		return fmt.Sprintf("i%020d", v)
	}
	rv := reflect.ValueOf(k)
	switch rv.Kind() {
	case reflect.String:
		return "s" + rv.String()
	case reflect.Int, reflect.Int8, reflect.Int16, reflect.Int32, reflect.Int64:
		return fmt.Sprintf("i%020d", rv.Int()/2+1<<61)
	case reflect.Uint, reflect.Uint8, reflect.Uint16, reflect.Uint32, reflect.Uint64:
		return fmt.Sprintf("i%020d", rv.Uint())
	case reflect.Pointer, reflect.Chan, reflect.Interface, reflect.UnsafePointer, reflect.Func:
		s.mu.Lock()
		if s.born == nil {
			s.born = map[any]int{}
		}
		n, ok := s.born[k]
		if !ok {
			n = len(s.born) + 1 // first seen while iterating: order among such keys is not owned
			s.born[k] = n
		}
		s.mu.Unlock()
		return fmt.Sprintf("p%012d", n)
	}
	return "v" + fmt.Sprint(k)
}

// IdleTime returns how much virtual time has passed because every thread was blocked (explicit tick
// alternatives, which model a slow scheduler rather than waiting, are not counted). A call that returns at the
// same IdleTime at which its cancellation happened did not wait for any timer or for anybody else's progress.
func IdleTime() time.Duration {
	s := S
	if s == nil {
		return 0
	}
	return s.idleTotal
}

// SetInvariant installs (or removes) the predicate evaluated between steps while every thread is stopped.
func (s *Sched) SetInvariant(f func() error) { s.opt.Invariant = f }
